// Coverage-guided workloads (go test -fuzz) for the properties quantified over all byte strings.
// Used by the thorough tier only; lib/driver.py copies /repo to a scratch directory, puts this file into
// internal/zzfuzz/ and runs one target at a time. Every target is an oracle over one execution: it must not
// panic and must satisfy the clauses written below.
package zzfuzz

import (
	"os"
	"path/filepath"
	"runtime"
	"strings"
	"testing"
	"time"
	"unicode"
	"unicode/utf8"

	"github.com/Vedant9500/WTF/internal/database"
	"github.com/Vedant9500/WTF/internal/embedding"
	"github.com/Vedant9500/WTF/internal/history"
	"github.com/Vedant9500/WTF/internal/recovery"
	"github.com/Vedant9500/WTF/internal/validation"
)

// C10: any file content, any query: load + search never panic; results obey the list invariants.
func FuzzLoadSearch(f *testing.F) {
	f.Add([]byte("- command: \"tar -czf x.tgz dir\"\n  description: compress a directory\n  keywords: [tar, compress]\n  platform: [linux]\n"), "compress dir", 3)
	f.Add([]byte("- command: \"a\\0b\"\n  description: \"x\"\n"), "ab", 0)
	f.Add([]byte("[{command: \"ls\", description: \"list\", keywords: [list], pipeline: true}]"), "lst", -1)
	f.Add([]byte("\xff\xfe-\x00 \x00"), "\x00", 1<<62)
	f.Add([]byte("&a [*a]"), "x y z", 5)
	dir := f.TempDir()
	f.Fuzz(func(t *testing.T, data []byte, query string, limit int) {
		p := filepath.Join(dir, "db.yml")
		if err := os.WriteFile(p, data, 0o644); err != nil {
			t.Skip()
		}
		db, err := database.LoadDatabase(p)
		if err != nil {
			return
		}
		if db == nil {
			t.Fatalf("nil database with nil error")
		}
		for _, o := range []database.SearchOptions{
			{Limit: limit, UseNLP: true, UseFuzzy: true, FuzzyThreshold: -30},
			{Limit: limit, AllPlatforms: true, PipelineOnly: limit%2 == 0, TopTermsCap: limit % 7},
		} {
			rs := db.SearchUniversal(query, o)
			L := o.Limit
			if L <= 0 {
				L = 10
			}
			if len(rs) > L {
				t.Fatalf("%d results, limit in force %d", len(rs), L)
			}
			for i, r := range rs {
				if r.Command == nil || r.Score != r.Score || r.Score < 0 || (i > 0 && rs[i-1].Score < r.Score) {
					t.Fatalf("bad result list at rank %d: %+v", i, r)
				}
			}
		}
		db.GetSuggestions(query, 3)
		recovery.NewSearchRecovery().RecoverFromSearchFailure(query, nil, db)
		db.SearchWithPipelineOptions(query, database.SearchOptions{Limit: limit, PipelineOnly: true})
	})
}

func c14Accept(q string) bool {
	if len(q) > 1000 {
		return false
	}
	content := false
	for _, r := range q {
		if unicode.IsControl(r) {
			continue
		}
		if strings.ContainsRune("<>|&;$", r) {
			return false
		}
		if !unicode.IsSpace(r) {
			content = true
		}
	}
	return content
}

// C14: acceptance exactly as stated; accepted output clean; idempotent.
func FuzzValidateQuery(f *testing.F) {
	for _, s := range []string{"compress files", " a\tb ", "a|b", "\x00", strings.Repeat("\xff", 400), strings.Repeat("a", 999) + "é", "x\u0085y", " ", "$", "a\x1b[31mb"} {
		f.Add(s)
	}
	f.Fuzz(func(t *testing.T, q string) {
		out, err := validation.ValidateQuery(q)
		if (err == nil) != c14Accept(q) {
			t.Fatalf("acceptance mismatch for %q: err=%v, statement says accept=%v", q, err, c14Accept(q))
		}
		if err != nil {
			return
		}
		if utf8.RuneCountInString(out) > utf8.RuneCountInString(q) {
			t.Fatalf("output %q has more characters than input %q", out, q)
		}
		prevSpace := true
		for _, r := range out {
			if unicode.IsControl(r) || strings.ContainsRune("<>|&;$", r) {
				t.Fatalf("output %q contains %q", out, r)
			}
			if unicode.IsSpace(r) {
				if r != ' ' || prevSpace {
					t.Fatalf("output %q has leading / repeated / non-blank whitespace", out)
				}
				prevSpace = true
			} else {
				prevSpace = false
			}
		}
		if prevSpace {
			t.Fatalf("output %q is empty or ends with whitespace", out)
		}
		again, err2 := validation.ValidateQuery(out)
		if err2 != nil || again != out {
			t.Fatalf("not idempotent: %q -> %q -> (%q, %v)", q, out, again, err2)
		}
	})
}

// C16: no history file content can make recording a search crash, lose the search, or exceed the maximum.
func FuzzHistoryFile(f *testing.F) {
	f.Add([]byte(`{"entries":[{"query":"a","timestamp":"2025-01-02T03:04:05Z","results_count":1}],"max_size":100}`))
	f.Add([]byte(`{"entries":null,"max_size":-5}`))
	f.Add([]byte(`{"entries":[{"query":"q"},{"query":"q"},{"query":"r"}],"max_size":1}`))
	f.Add([]byte(`{"max_size":0}`))
	f.Add([]byte(``))
	dir := f.TempDir()
	f.Fuzz(func(t *testing.T, data []byte) {
		p := filepath.Join(dir, "h.json")
		os.WriteFile(p, data, 0o644)
		sh := history.NewSearchHistory(p, 100)
		lerr := sh.Load()
		sh.AddEntry("q", 1, "", time.Millisecond)
		n := len(sh.Entries)
		if n == 0 || sh.Entries[n-1].Query != "q" {
			t.Fatalf("the search was not recorded (load error %v, max %d, %d entries)", lerr, sh.MaxSize, n)
		}
		if lerr == nil && sh.MaxSize > 0 && n > sh.MaxSize {
			t.Fatalf("%d entries, maximum %d", n, sh.MaxSize)
		}
		sum := 0
		for _, tq := range sh.GetTopQueries(n + 5) {
			sum += tq.Count
		}
		if sum != n {
			t.Fatalf("top-query frequencies sum to %d, %d entries", sum, n)
		}
		if st := sh.GetStats(); st.TotalSearches != n {
			t.Fatalf("stats report %d searches, %d entries", st.TotalSearches, n)
		}
		sh.GetRecentQueries(5)
		sh.Save()
	})
}

// C19: embedding files of any content: vectors or an error, no crash, memory in proportion to the file.
func FuzzEmbeddingFiles(f *testing.F) {
	f.Add([]byte{0xff, 0xff, 0xff, 0xff, 1, 2, 3}, []byte{0xff, 0xff, 0xff, 0x7f, 100, 0, 0, 0})
	f.Add([]byte{1, 0, 0, 0, 2, 0, 'h', 'i'}, []byte{1, 0, 0, 0, 100, 0, 0, 0})
	f.Add([]byte{0, 0, 0, 0}, []byte{0, 0, 0, 0, 0, 0, 0, 0})
	dir := f.TempDir()
	f.Fuzz(func(t *testing.T, glove, cmd []byte) {
		if len(glove)+len(cmd) > 1<<20 {
			t.Skip()
		}
		gp, cp := filepath.Join(dir, "glove.bin"), filepath.Join(dir, "cmd_embeddings.bin")
		os.WriteFile(gp, glove, 0o644)
		os.WriteFile(cp, cmd, 0o644)
		var m0, m1 runtime.MemStats
		runtime.ReadMemStats(&m0)
		idx, err := embedding.LoadWordVectors(gp)
		if err == nil && idx != nil {
			idx.LoadCommandEmbeddings(cp)
			q := idx.EmbedQuery("hi there")
			for _, s := range idx.SemanticScores(q) {
				if s < -1.000001 || s > 1.000001 {
					t.Fatalf("cosine out of range: %v", s)
				}
			}
		}
		runtime.ReadMemStats(&m1)
		if grown := int64(m1.TotalAlloc) - int64(m0.TotalAlloc); grown > 64<<20+64*int64(len(glove)+len(cmd)) {
			t.Fatalf("loading %d+%d bytes allocated %d bytes", len(glove), len(cmd), grown)
		}
	})
}

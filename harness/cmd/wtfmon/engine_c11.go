package main

import (
	"encoding/json"
	"fmt"
	"math/rand"
	"os"
	"os/exec"
	"path/filepath"
	"reflect"
	"runtime"
	"sort"
	"strings"
	"sync"
	"sync/atomic"
	"time"

	"github.com/anishathalye/porcupine"

	"github.com/Vedant9500/WTF/internal/cache"
	"github.com/Vedant9500/WTF/internal/database"
	"github.com/Vedant9500/WTF/internal/recovery"
	"github.com/Vedant9500/WTF/internal/zzverif/vlib"
)

func init() {
	engines["conc-search"] = engineConcSearch
	engines["conc-lru"] = engineConcLRU
}

func c11Jitter(r *rand.Rand) {
	switch r.Intn(6) {
	case 0:
		runtime.Gosched()
	case 1:
		time.Sleep(time.Duration(r.Intn(20)) * time.Microsecond)
	}
}

// engineConcSearch: many goroutines on one loaded database (direct, cached,
// monitored) while others invalidate, sweep and read statistics. Runs under
// the race detector; answers are compared with sequential ones; monitor
// totals must equal the number of operations.
func engineConcSearch(ctx *Ctx) {
	r := vlib.NewRand(ctx.Seed, ctx.Shard, "conc-search")
	rounds := ctx.N(48, 320)
	for rd := 0; rd < rounds; rd++ {
		how := []string{"LoadDatabase", "LoadDatabaseWithPersonal", "LoadDatabaseWithFallback(faulty path)", "LoadDatabaseWithFallback(good path)"}[rd%4]
		var db *database.Database
		dbName := fmt.Sprintf("gen-%d-%d", ctx.Shard, rd)
		sp := vlib.DBSpec{N: []int{12, 40, 120}[rd%3], TieHeavy: rd%2 == 0, Platforms: 1, Pipelines: true}
		cmds := vlib.GenCommands(r, sp)
		if rd%2 == 1 && rd%3 != 1 {
			// entries that hold no word at all (history expansions, a lone pipe, dots): they are entries, yet nothing about them is indexed
			cmds = append(cmds, vlib.Cmd{Command: "!!"}, vlib.Cmd{Command: "$?", Description: "..."})
			if rd%4 == 3 {
				cmds = append([]vlib.Cmd{{Command: "|"}}, cmds...)
			}
			ctx.R.Path("rounds-on-a-database-with-entries-that-hold-no-word", 1)
		}
		mainP := filepath.Join(ctx.Scratch, fmt.Sprintf("cm%d.yml", rd))
		persP := filepath.Join(ctx.Scratch, fmt.Sprintf("cp%d.yml", rd))
		persCmds := vlib.GenCommands(r, vlib.DBSpec{N: 4})
		withEmb := rd%3 == 1 // an embedding index attached (word vectors are shared by every search that embeds a query)
		embDir := filepath.Join(ctx.Scratch, fmt.Sprintf("cemb%d", rd))
		open := func() *database.Database {
			var x *database.Database
			var err error
			switch how {
			case "LoadDatabase":
				if rd == 0 && ctx.Shard%4 == 0 {
					x = ctx.Shipped()
					dbName = "shipped"
				} else {
					x = vlib.MustLoad(cmds)
				}
			case "LoadDatabaseWithPersonal":
				vlib.WriteYAML(mainP, cmds)
				vlib.WriteYAML(persP, persCmds)
				x, err = database.LoadDatabaseWithPersonal(mainP, persP)
			case "LoadDatabaseWithFallback(faulty path)":
				x, err = recovery.NewDatabaseRecovery(recovery.RetryConfig{MaxAttempts: 1}).LoadDatabaseWithFallback(filepath.Join(ctx.Scratch, "nope", "missing.yml"), persP)
			default:
				vlib.WriteYAML(mainP, cmds)
				x, err = recovery.NewDatabaseRecovery(recovery.RetryConfig{MaxAttempts: 1}).LoadDatabaseWithFallback(mainP, filepath.Join(ctx.Scratch, "no-notebook.yml"))
			}
			os.Remove(mainP)
			os.Remove(persP)
			if err != nil {
				panic(err)
			}
			if withEmb && x != nil && dbName != "shipped" {
				wd, _ := os.Getwd()
				os.Chdir(embDir)
				x.LoadEmbeddings()
				os.Chdir(wd)
			}
			return x
		}
		ok := ctx.R.Guard("C11", how, dbName, func() {
			if withEmb {
				// word vectors of assorted lengths for every word of the database; command embeddings = normalised sums
				ref := vlib.MustLoad(cmds)
				all := append(append([]database.Command{}, ref.Commands...), vlib.MustLoad(persCmds).Commands...)
				wv := map[string][]float32{}
				var wl []string
				var vl [][]float32
				for _, w := range vlib.DBWords(all) {
					v := c19Unit(c19Gauss(r, 100), []float64{0.3, 1, 2.5, 7}[r.Intn(4)])
					wv[w] = v
					wl = append(wl, w)
					vl = append(vl, v)
				}
				var cv [][]float32
				for k := range all {
					sum := make([]float32, 100)
					ft := vlib.FieldTexts(&all[k])
					for _, t := range vlib.Tokenize(strings.Join(ft[:], " ")) {
						if v, ok := wv[t]; ok {
							for j := range sum {
								sum[j] += v[j]
							}
						}
					}
					cv = append(cv, c19Unit(sum, 1))
				}
				os.MkdirAll(embDir, 0o755)
				os.WriteFile(filepath.Join(embDir, "glove.bin"), c19Glove(uint32(len(wl)), wl, vl), 0o644)
				os.WriteFile(filepath.Join(embDir, "cmd_embeddings.bin"), c19CmdFile(uint32(len(cv)), 100, cv), 0o644)
			}
			db = open()
		})
		if !ok || db == nil || len(db.Commands) == 0 {
			os.RemoveAll(embDir)
			continue
		}
		if withEmb && db.HasEmbeddings() {
			ctx.R.Path("rounds-with-embeddings", 1)
		}
		words := vlib.DBWords(db.Commands)
		if len(words) > 1500 {
			words = words[:1500]
		}
		nQ := 3 + r.Intn(4)
		type qo struct {
			q string
			o database.SearchOptions
		}
		var mix []qo
		baseO := database.SearchOptions{Limit: []int{3, 5, 10}[r.Intn(3)], UseNLP: r.Intn(2) == 0, UseFuzzy: true, AllPlatforms: r.Intn(2) == 0}
		if rd%2 == 1 && len(words) > 0 {
			// one options value - including its boost map - shared by every goroutine, as a caller reusing its
			// SearchOptions would: a search must treat it as read-only
			baseO.ContextBoosts = map[string]float64{}
			for i := 0; i < 1+r.Intn(4); i++ {
				baseO.ContextBoosts[vlib.Word(r, words)] = []float64{1.3, 1.5, 2, 3}[r.Intn(4)]
			}
			ctx.R.Path("rounds-with-shared-boost-map", 1)
		}
		if rd%3 == 2 {
			// one platform list - spelt as people spell it, with room to spare behind it - shared by every goroutine: read-only, too
			pl := make([]string, 0, 8)
			names := []string{"Linux", " macos ", "Darwin", "OSX", "WINDOWS", "linux ", "Unix", "PowerShell", "macos"}
			rpl := vlib.NewRand(ctx.Seed, ctx.Shard, fmt.Sprintf("conc-platform-list-%d", rd)) // a stream of its own: the rounds keep their draws
			for i, n := 0, 1+rpl.Intn(3); i < n; i++ {
				pl = append(pl, names[rpl.Intn(len(names))])
			}
			baseO.Platforms, baseO.AllPlatforms = pl, false
			ctx.R.Path("rounds-with-shared-platform-list", 1)
		}
		for i := 0; i < nQ; i++ {
			mix = append(mix, qo{vlib.GenQuery(r, words, 1+r.Intn(3), []int{0, 0, 2}[r.Intn(3)]), baseO})
		}
		platsBefore := fmt.Sprintf("%q", baseO.Platforms[:cap(baseO.Platforms)])
		boostsBefore := fmt.Sprint(baseO.ContextBoosts)
		mix = append(mix, qo{"list directory", baseO}, qo{"copy files", baseO})
		if len(words) > 1 { // one-word requests and longer requests that share the word
			w1, w2 := vlib.Word(r, words), vlib.Word(r, words)
			mix = append(mix, qo{w1, baseO}, qo{w1 + " " + w2, baseO}, qo{w2, baseO})
			// requests that read alike once punctuation and spacing are ignored but are not the same request
			base := []string{"reading ", "preview ", "looking at ", "see "}[r.Intn(4)] + vlib.Word(r, words) + " " + vlib.Word(r, words)
			tail := [][2]string{{" without opening", " without, opening"}, {" without editing", " without; editing"}, {" and then " + w1, " and, then  " + w1}}[r.Intn(3)]
			if r.Intn(2) == 0 {
				tail[0], tail[1] = tail[1], tail[0]
			}
			mix = append(mix, qo{base + tail[0], baseO}, qo{base + tail[1], baseO})
		}
		G := []int{4, 8, 16, 32}[r.Intn(4)]
		K := ctx.Pick(12, 20)
		if dbName == "shipped" {
			G, K = 16, 8
		}
		cs := map[string]interface{}{"db": dbName, "loaded_by": how, "n": len(db.Commands), "goroutines": G, "ops_each": K, "queries": len(mix), "opts": vlib.OptsJ(baseO)}
		ctx.R.Begin(cs)
		ctx.R.Eval(1)
		mdb := database.NewMonitoredDatabase(db)
		cdb := mdb.CachedDatabase
		// CONCURRENT PHASE FIRST: a database handed out by the loader must be usable concurrently as it is
		// (searching it sequentially first would build lazily created state and hide races on it).
		type obs struct {
			qi  int
			ans vlib.Ranked
			via string
		}
		results := make([][]obs, G)
		var monSearches int64
		var wg sync.WaitGroup
		start := make(chan struct{})
		for g := 0; g < G; g++ {
			wg.Add(1)
			go func(g int) {
				defer wg.Done()
				lr := rand.New(rand.NewSource(int64(g)*7919 + int64(rd)*104729 + ctx.Seed))
				<-start
				defer func() {
					if e := recover(); e != nil {
						ctx.R.Violate(vlib.Violation{Property: "C11", Clause: "panic", Path: "concurrent search", Detail: fmt.Sprintf("panic in goroutine %d: %v", g, e), Witness: cs})
					}
				}()
				for k := 0; k < K; k++ {
					qi := lr.Intn(len(mix))
					m := mix[qi]
					switch op := lr.Intn(20); {
					case op < 6:
						results[g] = append(results[g], obs{qi, vlib.Canon(db.Commands, db.SearchUniversal(m.q, m.o)), "SearchUniversal"})
					case op < 11:
						results[g] = append(results[g], obs{qi, vlib.Canon(db.Commands, cdb.SearchWithOptionsAndCache(m.q, m.o)), "SearchWithOptionsAndCache"})
					case op < 15:
						results[g] = append(results[g], obs{qi, vlib.Canon(db.Commands, mdb.SearchWithOptionsAndMonitoring(m.q, m.o)), "SearchWithOptionsAndMonitoring"})
						atomic.AddInt64(&monSearches, 1)
					case op < 16:
						cdb.InvalidateCache()
					case op < 17:
						cdb.CleanupExpiredCache()
					case op < 18:
						_ = cdb.GetCacheStats()
					case op < 19:
						_ = mdb.GetPerformanceReport()
					default:
						_ = db.GetSuggestions(m.q, 3)
					}
					c11Jitter(lr)
				}
			}(g)
		}
		close(start)
		if !c11WaitOrDeadlock(ctx, &wg, cs, "concurrent search / statistics") {
			return
		}
		// sequential references afterwards (stable-reference rule)
		type refT struct {
			refs   []vlib.Ranked
			stable bool
		}
		seq := make([]refT, len(mix))
		for i, m := range mix {
			m := m
			refs, stable := vlib.StableRef(5, func() vlib.Ranked { return vlib.Canon(db.Commands, db.SearchUniversal(m.q, m.o)) })
			seq[i] = refT{refs, stable}
		}
		nCmp := 0
		for g := range results {
			for _, o := range results[g] {
				nCmp++
				v, why := vlib.CompareToRef(seq[o.qi].refs, seq[o.qi].stable, o.ans, vlib.LimitInForce(baseO.Limit))
				switch v {
				case "violated":
					ctx.R.Violate(vlib.Violation{Property: "C11", Clause: "not-as-if-alone", Path: o.via,
						Detail:  fmt.Sprintf("concurrent answer for %q differs from the answer when run alone: %s", mix[o.qi].q, why),
						Witness: map[string]interface{}{"case": cs, "alone": seq[o.qi].refs[0], "concurrent": o.ans}})
				case "inconclusive":
					ctx.R.Inconcl("sequential reference unstable")
				}
			}
		}
		ctx.R.Path("concurrent-answers-compared", int64(nCmp))
		// "what it returns when run alone": each request, as the first and only search on a fresh instance obtained the same
		// way, must get the answer it got here (an answer may not depend on the searches that ran before or beside it)
		if dbName != "shipped" && (withEmb || rd%4 == 3) {
			ctx.R.Guard("C11", "alone on a fresh instance", cs, func() {
				for i := len(mix) - 1; i >= 0 && i >= len(mix)-6; i-- {
					fresh := open()
					alone := vlib.Canon(fresh.Commands, fresh.SearchUniversal(mix[i].q, mix[i].o))
					ctx.R.Path("fresh-instance-answers-compared", 1)
					if v, why := vlib.CompareToRef(seq[i].refs, seq[i].stable, alone, vlib.LimitInForce(baseO.Limit)); v == "violated" {
						ctx.R.Violate(vlib.Violation{Property: "C11", Clause: "not-as-if-alone", Path: "SearchUniversal/fresh-instance",
							Detail:  fmt.Sprintf("the answer for %q on the instance that served the concurrent searches differs from the answer it gets as the only search on a fresh instance: %s", mix[i].q, why),
							Witness: map[string]interface{}{"case": cs, "alone_on_fresh_instance": alone, "on_used_instance": seq[i].refs[0]}})
					}
				}
			})
		}
		// ... and as a search of another process altogether (what a search "returns when run alone" cannot depend on what this
		// process has analysed, cached or remembered so far): a child loads the same file and answers the requests last to first
		if (how == "LoadDatabase" || how == "LoadDatabaseWithFallback(good path)") && dbName != "shipped" && !withEmb {
			ctx.R.Guard("C11", "alone in another process", cs, func() {
				fp := filepath.Join(ctx.Scratch, fmt.Sprintf("calone%d.yml", rd))
				jp := filepath.Join(ctx.Scratch, fmt.Sprintf("calone%d.json", rd))
				defer os.Remove(fp)
				defer os.Remove(jp)
				if vlib.WriteYAML(fp, cmds) != nil {
					return
				}
				job := c02Job{DBPath: fp, Kind: "file"}
				for i := len(mix) - 1; i >= 0; i-- {
					job.Cases = append(job.Cases, c02Q{Query: mix[i].q, Opts: vlib.OptsJ(mix[i].o), SQ: "x"})
				}
				jb, _ := json.Marshal(job)
				os.WriteFile(jp, jb, 0o644)
				self, _ := os.Executable()
				out, err := exec.Command(self, "detsearch", jp).Output()
				var ans []c02Ans
				if err != nil || json.Unmarshal(out, &ans) != nil || len(ans) != len(mix) {
					ctx.R.Inconcl("child process for the alone-comparison failed")
					return
				}
				for k, a := range ans {
					i := len(mix) - 1 - k
					ctx.R.Path("other-process-answers-compared", 1)
					if v, why := vlib.CompareToRef(seq[i].refs, seq[i].stable, a.Ranked, vlib.LimitInForce(baseO.Limit)); v == "violated" {
						ctx.R.Violate(vlib.Violation{Property: "C11", Clause: "not-as-if-alone", Path: "SearchUniversal/other-process",
							Detail:  fmt.Sprintf("the answer for %q in the process that served the concurrent searches differs from its answer in a fresh process that loaded the same file: %s", mix[i].q, why),
							Witness: map[string]interface{}{"case": cs, "in_a_fresh_process": a.Ranked, "in_this_process": seq[i].refs[0]}})
					}
				}
			})
		}
		c11LookAlikeOverlap(ctx, r, db, cdb, words, cs)
		if dbName != "shipped" {
			c11MixedOptions(ctx, r, open, words, cs)
		}
		os.RemoveAll(embDir)
		ctx.R.Path("loaded-by:"+how, 1)
		ctx.R.Path("goroutine-rounds", 1)
		ctx.R.Nontriv(dbName, how, G, K, rd)
		if after := fmt.Sprint(baseO.ContextBoosts); after != boostsBefore {
			ctx.R.Violate(vlib.Violation{Property: "C11", Clause: "not-as-if-alone", Path: "SearchOptions.ContextBoosts",
				Detail:  fmt.Sprintf("the caller's boost map was modified by the searches: %s -> %s (later searches no longer see the options they were given)", boostsBefore, after),
				Witness: cs})
		}
		if after := fmt.Sprintf("%q", baseO.Platforms[:cap(baseO.Platforms)]); after != platsBefore {
			ctx.R.Violate(vlib.Violation{Property: "C11", Clause: "not-as-if-alone", Path: "SearchOptions.Platforms",
				Detail:  fmt.Sprintf("the caller's platform list was modified by the searches: %s -> %s", platsBefore, after),
				Witness: cs})
		}
		// conservation of monitor increments
		rep := mdb.GetPerformanceReport()
		sum := map[string]float64{}
		for _, m := range rep.ApplicationMetrics {
			sum[m.Name] += m.Value
		}
		want := float64(atomic.LoadInt64(&monSearches))
		for _, name := range []string{"searches_total", "query_length_count"} {
			if sum[name] != want {
				ctx.R.Violate(vlib.Violation{Property: "C11", Clause: "metric-increment-lost", Path: "MonitoredDatabase/" + name,
					Detail: fmt.Sprintf("%s = %v after %v monitored searches from %d goroutines", name, sum[name], want, G), Witness: cs})
			}
		}
		if hm := sum["cache_hits_total"] + sum["cache_misses_total"]; hm != want {
			ctx.R.Violate(vlib.Violation{Property: "C11", Clause: "metric-increment-lost", Path: "MonitoredDatabase/cache_hits+misses",
				Detail: fmt.Sprintf("cache_hits_total+cache_misses_total = %v after %v monitored searches", hm, want), Witness: cs})
		}
		ctx.R.Path("monitored-searches", int64(want))
		if rd < 2 {
			ctx.R.Sample(cs)
		}
	}
	c11MonitorHammer(ctx, r)
}

// c11MixedOptions: goroutines that do NOT share one option set. Some ask plainly for a word; others ask for the same word with a
// boost on it under filters that leave no candidate (pipeline-only, a platform nobody declares), misspell it, or boost it
// ordinarily. Whatever a search leaves behind for the next one to pick up (a pooled working set, a table of boosts) shows as an
// answer that differs from the one the same request gets as the only search on an instance of its own.
func c11MixedOptions(ctx *Ctx, r *rand.Rand, open func() *database.Database, words []string, cs0 map[string]interface{}) {
	if len(words) < 3 {
		return
	}
	type qo struct {
		q    string
		o    database.SearchOptions
		kind string
	}
	var pool []qo
	for i := 0; i < 3; i++ {
		w := vlib.Word(r, words)
		w2 := vlib.Word(r, words)
		f := []float64{2, 3, 7.5}[r.Intn(3)]
		nlp := r.Intn(2) == 0
		plain := database.SearchOptions{Limit: 10, UseNLP: nlp, UseFuzzy: true, AllPlatforms: true}
		pool = append(pool, qo{w, plain, "plain"}, qo{w + " " + w2, plain, "plain"})
		b := plain
		b.ContextBoosts = map[string]float64{w: f, w2: f + 1}
		pool = append(pool, qo{w, b, "boosted"})
		po := b
		po.PipelineOnly = true
		pool = append(pool, qo{w, po, "boosted+pipeline-only"}, qo{w + " " + w2, po, "boosted+pipeline-only"})
		pf := b
		pf.AllPlatforms, pf.Platforms, pf.NoCrossPlatform = false, []string{"plan9"}, true
		pool = append(pool, qo{w + " " + w2, pf, "boosted+foreign-platform"})
		typo := vlib.GenQuery(r, []string{w}, 1, 2)
		bt := plain
		bt.ContextBoosts = map[string]float64{w: f, typo: f, strings.ToLower(typo): f}
		pool = append(pool, qo{typo + " " + w, bt, "boosted+misspelt"}, qo{typo, bt, "boosted+misspelt"})
	}
	cs := map[string]interface{}{"round": cs0, "requests": len(pool), "what": "goroutines with different option sets on one instance"}
	ctx.R.Begin(cs)
	ctx.R.Eval(1)
	ctx.R.Guard("C11", "mixed option sets", cs, func() {
		// alone: every request as the only search on an instance of its own (twice: stable-reference rule)
		type refT struct {
			refs   []vlib.Ranked
			stable bool
		}
		alone := make([]refT, len(pool))
		for i, m := range pool {
			var refs []vlib.Ranked
			for k := 0; k < 2; k++ {
				fresh := open()
				refs = append(refs, vlib.Canon(fresh.Commands, fresh.SearchUniversal(m.q, m.o)))
			}
			alone[i] = refT{refs, vlib.Exact(refs[0], refs[1])}
		}
		db := open()
		G := 8
		K := 40
		type obs struct {
			qi  int
			ans vlib.Ranked
		}
		results := make([][]obs, G)
		var wg sync.WaitGroup
		start := make(chan struct{})
		for g := 0; g < G; g++ {
			wg.Add(1)
			go func(g int) {
				defer wg.Done()
				lr := rand.New(rand.NewSource(int64(g)*104723 + ctx.Seed))
				<-start
				defer func() {
					if e := recover(); e != nil {
						ctx.R.Violate(vlib.Violation{Property: "C11", Clause: "panic", Path: "concurrent search/mixed options", Detail: fmt.Sprintf("panic in goroutine %d: %v", g, e), Witness: cs})
					}
				}()
				for k := 0; k < K; k++ {
					// even goroutines ask plainly, odd ones ask the filtered / boosted / misspelt requests
					var qi int
					for {
						qi = lr.Intn(len(pool))
						if (pool[qi].kind == "plain") == (g%2 == 0) {
							break
						}
					}
					results[g] = append(results[g], obs{qi, vlib.Canon(db.Commands, db.SearchUniversal(pool[qi].q, pool[qi].o))})
					if k%8 == 0 {
						c11Jitter(lr)
					}
				}
			}(g)
		}
		close(start)
		if !c11WaitOrDeadlock(ctx, &wg, cs, "concurrent searches with different option sets") {
			return
		}
		for g := range results {
			for _, o := range results[g] {
				m := pool[o.qi]
				ctx.R.Path("mixed-option-answers-compared", 1)
				if len(alone[o.qi].refs[0]) == 0 {
					ctx.R.Path("mixed-option-requests-without-an-answer", 1)
				}
				v, why := vlib.CompareToRef(alone[o.qi].refs, alone[o.qi].stable, o.ans, vlib.LimitInForce(m.o.Limit))
				switch v {
				case "violated":
					ctx.R.Violate(vlib.Violation{Property: "C11", Clause: "not-as-if-alone", Path: "SearchUniversal/mixed-options/" + m.kind,
						Detail:  fmt.Sprintf("the answer for %q (%s) beside searches with other options differs from its answer as the only search on an instance of its own: %s", m.q, m.kind, why),
						Witness: map[string]interface{}{"case": cs, "opts": vlib.OptsJ(m.o), "alone": alone[o.qi].refs[0], "concurrent": o.ans}})
				case "inconclusive":
					ctx.R.Inconcl("alone reference unstable")
				}
			}
		}
		ctx.R.Path("mixed-option-rounds", 1)
	})
}

// c11LookAlikeOverlap: requests that are different but read alike once their options are written down without quotes (the
// platform list [linux macos] is two names or one; the boost map map[a:2 b:3] has two words or one) are asked through one caching
// wrapper AT THE SAME MOMENT, again and again, each time with an empty cache (both miss, both are being computed together): each
// gets the answer it gets alone.
func c11LookAlikeOverlap(ctx *Ctx, r *rand.Rand, db *database.Database, cdb *database.CachedDatabase, words []string, cs map[string]interface{}) {
	if len(words) < 2 {
		return
	}
	a, b := vlib.Word(r, words), vlib.Word(r, words)
	q := a + " " + b
	N := len(db.Commands)
	base := database.SearchOptions{Limit: N + 1, UseFuzzy: true, UseNLP: r.Intn(2) == 0}
	mk := func(pl []string, bm map[string]float64) database.SearchOptions {
		o := base
		o.Platforms, o.ContextBoosts = pl, bm
		o.AllPlatforms = pl == nil
		return o
	}
	pairs := [][2]database.SearchOptions{
		{mk([]string{"linux macos"}, nil), mk([]string{"linux", "macos"}, nil)},
		{mk([]string{"windows", "linux"}, nil), mk([]string{"windows linux"}, nil)},
		{mk(nil, map[string]float64{a + ":5 " + b: 2}), mk(nil, map[string]float64{a: 5, b: 2})},
		{mk(nil, map[string]float64{a: 3}), mk(nil, map[string]float64{a: 3, b: 1.5})},
	}
	for pi, pr := range pairs {
		var alone [2][]vlib.Ranked
		var stable [2]bool
		for k := 0; k < 2; k++ {
			o := pr[k]
			alone[k], stable[k] = vlib.StableRef(3, func() vlib.Ranked { return vlib.Canon(db.Commands, db.SearchUniversal(q, o)) })
		}
		differ := !vlib.Exact(alone[0][0], alone[1][0])
		rounds := ctx.Pick(30, 60)
		bad := false
		for rd := 0; rd < rounds && !bad; rd++ {
			cdb.InvalidateCache()
			var got [2]vlib.Ranked
			var wg sync.WaitGroup
			var ready int32
			for k := 0; k < 2; k++ {
				wg.Add(1)
				go func(k int) {
					defer wg.Done()
					defer func() {
						if e := recover(); e != nil {
							ctx.R.Violate(vlib.Violation{Property: "C11", Clause: "panic", Path: "SearchWithOptionsAndCache/look-alike-requests-at-once", Detail: fmt.Sprint(e), Witness: cs})
						}
					}()
					atomic.AddInt32(&ready, 1)
					for atomic.LoadInt32(&ready) < 2 {
					}
					got[k] = vlib.Canon(db.Commands, cdb.SearchWithOptionsAndCache(q, pr[k]))
				}(k)
			}
			wg.Wait()
			ctx.R.Path("look-alike-requests-asked-at-once", 2)
			for k := 0; k < 2; k++ {
				if v, why := vlib.CompareToRef(alone[k], stable[k], got[k], N+1); v == "violated" {
					ctx.R.Violate(vlib.Violation{Property: "C11", Clause: "not-as-if-alone", Path: "SearchWithOptionsAndCache/look-alike-requests-at-once",
						Detail:  fmt.Sprintf("request %d of look-alike pair %d for %q, asked while the other one was being answered, differs from its answer when run alone: %s", k, pi, q, why),
						Witness: map[string]interface{}{"case": cs, "opts_a": vlib.OptsJ(pr[0]), "opts_b": vlib.OptsJ(pr[1]), "alone": alone[k][0], "concurrent": got[k], "the_other_requests_answer_alone": alone[1-k][0]}})
					bad = true
				}
			}
		}
		if differ {
			ctx.R.Path("look-alike-pairs-with-different-answers-asked-at-once", 1)
		}
	}
}

// c11MonitorHammer: many goroutines issue monitored searches of a few queries on one small database as fast as they can;
// afterwards every total of the monitor - also the *sums* of the observed query lengths - accounts for every search.
func c11MonitorHammer(ctx *Ctx, r *rand.Rand) {
	for round := 0; round < ctx.Pick(3, 12); round++ {
		db := vlib.MustLoad(vlib.GenCommands(r, vlib.DBSpec{N: 12, TieHeavy: true}))
		mdb := database.NewMonitoredDatabase(db)
		words := vlib.DBWords(db.Commands)
		qs := []string{vlib.GenQuery(r, words, 1, 0), vlib.GenQuery(r, words, 2, 0), vlib.GenQuery(r, words, 3, 0) + " extra words here"}
		G, K := 16, ctx.Pick(2500, 6000)
		cs := map[string]interface{}{"part": "monitor hammer", "goroutines": G, "searches_each": K, "queries": qs}
		ctx.R.Begin(cs)
		ctx.R.Eval(1)
		var wg sync.WaitGroup
		var lenSum int64
		for g := 0; g < G; g++ {
			wg.Add(1)
			go func(g int) {
				defer wg.Done()
				for k := 0; k < K; k++ {
					q := qs[(k+g)%len(qs)]
					mdb.SearchWithMonitoring(q, 3)
					atomic.AddInt64(&lenSum, int64(len(q)))
				}
			}(g)
		}
		if !c11WaitOrDeadlock(ctx, &wg, cs, "monitored searches") {
			return
		}
		rep := mdb.GetPerformanceReport()
		sum := map[string]float64{}
		for _, m := range rep.ApplicationMetrics {
			sum[m.Name] += m.Value
		}
		want := float64(G * K)
		ctx.R.Path("monitor-hammer-searches", int64(G*K))
		ctx.R.Nontriv("monitor-hammer", round)
		for name, exp := range map[string]float64{"searches_total": want, "query_length_count": want, "query_length_sum": float64(atomic.LoadInt64(&lenSum))} {
			if got, ok := sum[name]; ok && got != exp {
				ctx.R.Violate(vlib.Violation{Property: "C11", Clause: "metric-increment-lost", Path: "MonitoredDatabase/" + name,
					Detail: fmt.Sprintf("%s = %v after %d monitored searches from %d goroutines, expected %v", name, got, G*K, G, exp), Witness: cs})
			}
		}
		if hm := sum["cache_hits_total"] + sum["cache_misses_total"]; hm != want {
			ctx.R.Violate(vlib.Violation{Property: "C11", Clause: "metric-increment-lost", Path: "MonitoredDatabase/cache_hits+misses",
				Detail: fmt.Sprintf("cache_hits_total+cache_misses_total = %v after %v monitored searches", hm, want), Witness: cs})
		}
	}
}

// ---------------------------------------------------------------------------
// LRU: race detector + linearizability of recorded histories (porcupine).

type c11In struct {
	Op  string // get put del size stats keys sweep
	Key string
	Val string
}

type c11Out struct {
	Val   string
	OK    bool
	N     int
	Stats [4]int64 // hits misses evictions size
	Keys  string
}

type c11KV struct {
	K, V string
	A    int // age in virtual-time steps (lifetime regime only)
}

type c11State struct {
	Cap                     int
	Items                   []c11KV // front = most recently used
	Hits, Misses, Evictions int64
}

func (s c11State) clone() c11State {
	t := s
	t.Items = append([]c11KV(nil), s.Items...)
	return t
}

func (s *c11State) find(k string) int {
	for i, it := range s.Items {
		if it.K == k {
			return i
		}
	}
	return -1
}

func (s *c11State) toFront(i int) {
	it := s.Items[i]
	copy(s.Items[1:i+1], s.Items[:i])
	s.Items[0] = it
}

func c11Model() porcupine.Model {
	return porcupine.Model{
		Init: func() interface{} { return c11State{} },
		Step: func(st, in, out interface{}) (bool, interface{}) {
			s := st.(c11State).clone()
			i, o := in.(c11In), out.(c11Out)
			switch i.Op {
			case "init":
				s.Cap = o.N
				return true, s
			case "get":
				idx := s.find(i.Key)
				if idx < 0 {
					s.Misses++
					return !o.OK, s
				}
				v := s.Items[idx].V
				s.toFront(idx)
				s.Hits++
				return o.OK && o.Val == v, s
			case "put":
				if idx := s.find(i.Key); idx >= 0 {
					s.Items[idx].V = i.Val
					s.toFront(idx)
					return true, s
				}
				s.Items = append([]c11KV{{K: i.Key, V: i.Val}}, s.Items...)
				if len(s.Items) > s.Cap {
					s.Items = s.Items[:len(s.Items)-1]
					s.Evictions++
				}
				return true, s
			case "del":
				idx := s.find(i.Key)
				if idx < 0 {
					return !o.OK, s
				}
				s.Items = append(s.Items[:idx], s.Items[idx+1:]...)
				return o.OK, s
			case "size":
				return o.N == len(s.Items), s
			case "sweep":
				return o.N == 0, s // no lifetime configured: nothing may be removed
			case "stats":
				return o.Stats == [4]int64{s.Hits, s.Misses, s.Evictions, int64(len(s.Items))}, s
			case "keys":
				ks := make([]string, len(s.Items))
				for k, it := range s.Items {
					ks[k] = it.K
				}
				sort.Strings(ks)
				return o.Keys == strings.Join(ks, ","), s
			case "clear":
				s.Items, s.Hits, s.Misses, s.Evictions = nil, 0, 0, 0
				return true, s
			}
			return false, s
		},
		Equal: func(a, b interface{}) bool { return reflect.DeepEqual(a, b) },
		DescribeOperation: func(in, out interface{}) string {
			return fmt.Sprintf("%+v -> %+v", in, out)
		},
	}
}

// Lifetime regime: entries live 1000 h, virtual time advances in steps of 400 h (VerifAdvance, atomic under the cache's
// lock), so an entry is dead from its third step on and real elapsed time (milliseconds) never decides. A dead entry is
// semantically absent: a lookup must miss it; whether and when the cache drops it is left open (the model is
// nondeterministic: any subset of dead entries may have vanished before any operation, a sweep reports how many it dropped).
const c11DeadAge = 3

func c11TTLModel() porcupine.Model {
	apply := func(s c11State, i c11In, o c11Out) []c11State {
		switch i.Op {
		case "init":
			s.Cap = o.N
			return []c11State{s}
		case "adv":
			for k := range s.Items {
				s.Items[k].A++
			}
			return []c11State{s}
		case "get":
			idx := s.find(i.Key)
			if idx < 0 {
				s.Misses++
				if o.OK {
					return nil
				}
				return []c11State{s}
			}
			if s.Items[idx].A >= c11DeadAge {
				if o.OK {
					return nil
				}
				s.Misses++
				kept := s.clone()
				s.Items = append(s.Items[:idx], s.Items[idx+1:]...)
				return []c11State{s, kept}
			}
			v := s.Items[idx].V
			s.toFront(idx)
			s.Hits++
			if !o.OK || o.Val != v {
				return nil
			}
			return []c11State{s}
		case "put":
			if idx := s.find(i.Key); idx >= 0 {
				dead := s.Items[idx].A >= c11DeadAge
				s.Items[idx].V = i.Val
				s.toFront(idx)
				if dead {
					fresh := s.clone()
					fresh.Items[0].A = 0
					return []c11State{s, fresh}
				}
				return []c11State{s}
			}
			s.Items = append([]c11KV{{K: i.Key, V: i.Val}}, s.Items...)
			if len(s.Items) > s.Cap {
				s.Items = s.Items[:len(s.Items)-1]
				s.Evictions++
			}
			return []c11State{s}
		case "del":
			idx := s.find(i.Key)
			if idx < 0 {
				if o.OK {
					return nil
				}
				return []c11State{s}
			}
			if !o.OK {
				return nil
			}
			s.Items = append(s.Items[:idx], s.Items[idx+1:]...)
			return []c11State{s}
		case "size":
			if o.N != len(s.Items) {
				return nil
			}
			return []c11State{s}
		case "stats":
			if o.Stats != [4]int64{s.Hits, s.Misses, s.Evictions, int64(len(s.Items))} {
				return nil
			}
			return []c11State{s}
		case "keys":
			ks := make([]string, len(s.Items))
			for k, it := range s.Items {
				ks[k] = it.K
			}
			sort.Strings(ks)
			if o.Keys != strings.Join(ks, ",") {
				return nil
			}
			return []c11State{s}
		case "clear":
			s.Items, s.Hits, s.Misses, s.Evictions = nil, 0, 0, 0
			return []c11State{s}
		case "sweep":
			var dead []int
			for k, it := range s.Items {
				if it.A >= c11DeadAge {
					dead = append(dead, k)
				}
			}
			if o.N < 0 || o.N > len(dead) {
				return nil // a sweep may remove dead entries only
			}
			var out []c11State
			for mask := 0; mask < 1<<len(dead); mask++ {
				if bitsSet(mask) != o.N {
					continue
				}
				t := c11State{Cap: s.Cap, Hits: s.Hits, Misses: s.Misses, Evictions: s.Evictions}
				for k, it := range s.Items {
					drop := false
					for b, d := range dead {
						if d == k && mask&(1<<b) != 0 {
							drop = true
						}
					}
					if !drop {
						t.Items = append(t.Items, it)
					}
				}
				out = append(out, t)
			}
			return out
		}
		return nil
	}
	nm := porcupine.NondeterministicModel{
		Init: func() []interface{} { return []interface{}{c11State{}} },
		Step: func(st, in, out interface{}) []interface{} {
			s0 := st.(c11State)
			i, o := in.(c11In), out.(c11Out)
			var dead []int
			for k, it := range s0.Items {
				if it.A >= c11DeadAge {
					dead = append(dead, k)
				}
			}
			seen := map[string]bool{}
			var res []interface{}
			for mask := 0; mask < 1<<len(dead); mask++ { // dead entries that have silently vanished by now
				s := c11State{Cap: s0.Cap, Hits: s0.Hits, Misses: s0.Misses, Evictions: s0.Evictions}
				for k, it := range s0.Items {
					drop := false
					for b, d := range dead {
						if d == k && mask&(1<<b) != 0 {
							drop = true
						}
					}
					if !drop {
						s.Items = append(s.Items, it)
					}
				}
				for _, n := range apply(s, i, o) {
					if len(n.Items) == 0 {
						n.Items = nil
					}
					key := fmt.Sprintf("%+v", n)
					if !seen[key] {
						seen[key] = true
						res = append(res, n)
					}
				}
			}
			return res
		},
		Equal:             func(a, b interface{}) bool { return reflect.DeepEqual(a, b) },
		DescribeOperation: func(in, out interface{}) string { return fmt.Sprintf("%+v -> %+v", in, out) },
	}
	return nm.ToModel()
}

func bitsSet(x int) int {
	n := 0
	for ; x != 0; x &= x - 1 {
		n++
	}
	return n
}

func engineConcLRU(ctx *Ctx) {
	r := vlib.NewRand(ctx.Seed, ctx.Shard, "conc-lru")
	nHist := ctx.N(2400, 48000)
	plainModel, ttlModel := c11Model(), c11TTLModel()
	shapes := map[string]bool{}
	for h := 0; h < nHist; h++ {
		capacity := 1 + r.Intn(3)
		nKeys := 2 + r.Intn(3)
		clients := 3 + r.Intn(4)
		opsEach := 6 + r.Intn(7)
		viaSearchCache := h%5 == 4
		withLifetime := h%3 == 2
		model := plainModel
		ttl := time.Duration(0)
		if withLifetime {
			model, ttl = ttlModel, 1000*time.Hour
			if clients > 4 {
				clients = 4
			}
		}
		lru := cache.NewLRUCache(capacity, ttl)
		var sc *cache.SearchCache
		if viaSearchCache {
			sc = cache.NewSearchCache(capacity, ttl)
			lru = sc.VerifLRU()
		}
		cs := map[string]interface{}{"capacity": capacity, "keys": nKeys, "clients": clients, "ops_each": opsEach, "via_search_cache": viaSearchCache, "lifetime": ttl.String()}
		ctx.R.Begin(cs)
		ctx.R.Eval(1)
		var mu sync.Mutex
		ops := []porcupine.Operation{{ClientId: clients, Input: c11In{Op: "init"}, Call: 0, Output: c11Out{N: capacity}, Return: 1}}
		t0 := time.Now()
		now := func() int64 { return int64(time.Since(t0)) + 10 }
		var order []int32 // order of call events: an "interleaving shape"
		var wg sync.WaitGroup
		start := make(chan struct{})
		var uniq int64
		for c := 0; c < clients; c++ {
			wg.Add(1)
			go func(c int) {
				defer wg.Done()
				lr := rand.New(rand.NewSource(int64(h)*1000003 + int64(c)*7919 + ctx.Seed*31 + int64(ctx.Shard)))
				<-start
				for k := 0; k < opsEach; k++ {
					key := fmt.Sprintf("k%d", lr.Intn(nKeys))
					in := c11In{Key: key}
					var out c11Out
					opn := lr.Intn(20)
					if withLifetime && lr.Intn(6) == 0 {
						opn = 99
					}
					val := fmt.Sprintf("c%d-%d", c, atomic.AddInt64(&uniq, 1))
					mu.Lock()
					order = append(order, int32(c))
					mu.Unlock()
					call := now()
					switch {
					case opn == 99: // virtual time: every entry becomes 400 h older
						in = c11In{Op: "adv"}
						lru.VerifAdvance(400 * time.Hour)
					case opn < 7:
						in.Op = "get"
						if sc != nil {
							rs, ok := sc.Get(key, cache.SearchOptions{Limit: 1})
							out.OK = ok
							if ok && len(rs) == 1 {
								out.Val = rs[0].Command.(string)
							}
						} else {
							v, ok := lru.Get(key)
							out.OK = ok
							if ok {
								out.Val = v.(string)
							}
						}
					case opn < 14:
						in.Op, in.Val = "put", val
						if sc != nil {
							sc.Put(key, cache.SearchOptions{Limit: 1}, []cache.SearchResult{{Command: val, Score: 1}})
						} else {
							lru.Put(key, val)
						}
					case opn < 16:
						if sc != nil {
							in.Op = "size"
							out.N = sc.Size()
						} else {
							in.Op = "del"
							out.OK = lru.Delete(key)
						}
					case opn < 17:
						in.Op = "size"
						out.N = lru.Size()
					case opn < 18:
						in.Op = "stats"
						var st cache.Stats
						if sc != nil {
							st = sc.Stats()
						} else {
							st = lru.Stats()
						}
						out.Stats = [4]int64{st.Hits, st.Misses, st.Evictions, int64(st.Size)}
					case opn < 19:
						in.Op = "sweep"
						if sc != nil {
							out.N = sc.CleanupExpired()
						} else {
							out.N = lru.CleanupExpired()
						}
					default:
						if sc != nil {
							in.Op = "clear"
							sc.Invalidate()
						} else {
							in.Op = "keys"
							ks := lru.Keys()
							sort.Strings(ks)
							out.Keys = strings.Join(ks, ",")
						}
					}
					ret := now()
					mu.Lock()
					ops = append(ops, porcupine.Operation{ClientId: c, Input: in, Call: call, Output: out, Return: ret})
					mu.Unlock()
					c11Jitter(lr)
				}
			}(c)
		}
		close(start)
		wg.Wait()
		// SearchCache keys are hashes: map the logical key through the model as-is (Keys op not used there)
		res, info := porcupine.CheckOperationsVerbose(model, ops, 10*time.Second)
		shapes[fmt.Sprint(order)] = true
		switch res {
		case porcupine.Ok:
			ctx.R.Path("histories-linearizable", 1)
		case porcupine.Unknown:
			ctx.R.Inconcl("porcupine timeout")
		case porcupine.Illegal:
			var hist []string
			for _, o := range ops {
				hist = append(hist, fmt.Sprintf("client %d [%d,%d] %s", o.ClientId, o.Call, o.Return, model.DescribeOperation(o.Input, o.Output)))
			}
			_ = info
			path := "LRUCache"
			if viaSearchCache {
				path = "SearchCache"
			}
			ctx.R.Violate(vlib.Violation{Property: "C11", Clause: "not-linearizable", Path: path,
				Detail:  fmt.Sprintf("recorded history of %d operations by %d clients (capacity %d) has no sequential explanation consistent with real time", len(ops)-1, clients, capacity),
				Witness: map[string]interface{}{"case": cs, "history": hist}})
		}
		if viaSearchCache {
			ctx.R.Path("histories-searchcache", 1)
		}
		if withLifetime {
			ctx.R.Path("histories-with-lifetime", 1)
			for _, o := range ops {
				if i := o.Input.(c11In); i.Op == "sweep" && o.Output.(c11Out).N > 0 {
					ctx.R.Path("sweeps-that-removed-entries", 1)
				}
			}
		}
		ctx.R.Path("lru-operations", int64(len(ops)-1))
		ctx.R.Nontriv(h, fmt.Sprint(order))
		if h < 2 {
			ctx.R.Sample(map[string]interface{}{"case": cs, "operations": len(ops) - 1})
		}
	}
	ctx.R.Extra["distinct_interleaving_shapes_per_shard_sum"] = len(shapes)
	c11Snapshots(ctx, r)
	c11SweepRounds(ctx, r)
	c11DeleteHammer(ctx, r)
	// hammer phase for the race detector: more goroutines, longer, no recording
	for round := 0; round < ctx.Pick(6, 40); round++ {
		lru := cache.NewLRUCache(1+r.Intn(4), []time.Duration{0, time.Hour}[r.Intn(2)])
		var wg sync.WaitGroup
		for g := 0; g < 16; g++ {
			wg.Add(1)
			go func(g int) {
				defer wg.Done()
				lr := rand.New(rand.NewSource(int64(g) + int64(round)*100))
				for k := 0; k < 300; k++ {
					key := fmt.Sprintf("k%d", lr.Intn(6))
					switch lr.Intn(9) {
					case 0, 1, 2:
						lru.Get(key)
					case 3, 4:
						lru.Put(key, k)
					case 5:
						lru.Delete(key)
					case 6:
						lru.Size()
						lru.Stats()
					case 7:
						lru.Keys()
						lru.Capacity()
					default:
						lru.CleanupExpired()
					}
				}
			}(g)
		}
		wg.Wait()
		ctx.R.Path("lru-hammer-rounds", 1)
	}
}

// c11Snapshots: one writer runs a fixed script (Put / Get / Delete / Clear) on a cache while readers call Stats() in a tight
// loop. The script run alone on a second instance gives the sequence of states the cache passes through; with a single
// writer every Stats() answer must be one of those states, and a reader never sees an earlier state after a later one
// (an answer assembled from two moments - the size of one, the counters of another - is in no sequential state).
func c11Snapshots(ctx *Ctx, r *rand.Rand) {
	rounds := ctx.Pick(40, 400)
	for rd := 0; rd < rounds; rd++ {
		capacity := 1 + r.Intn(3)
		nKeys := 1 + r.Intn(3)
		viaSC := rd%4 == 3
		L := 150 + r.Intn(250)
		type op struct {
			code byte
			key  string
		}
		script := make([]op, L)
		for i := range script {
			k := fmt.Sprintf("k%d", r.Intn(nKeys))
			switch x := r.Intn(10); {
			case x < 3:
				script[i] = op{'C', ""} // clear: the counters go back to zero
			case x < 6:
				script[i] = op{'P', k}
			case x < 9:
				script[i] = op{'G', k}
			default:
				script[i] = op{'D', k}
			}
		}
		type snap [4]int64
		mk := func() (*cache.LRUCache, *cache.SearchCache) {
			if viaSC {
				sc := cache.NewSearchCache(capacity, 0)
				return sc.VerifLRU(), sc
			}
			return cache.NewLRUCache(capacity, 0), nil
		}
		apply := func(l *cache.LRUCache, sc *cache.SearchCache, o op) {
			switch o.code {
			case 'C':
				if sc != nil {
					sc.Invalidate()
				} else {
					l.Clear()
				}
			case 'P':
				if sc != nil {
					sc.Put(o.key, cache.SearchOptions{Limit: 1}, []cache.SearchResult{{Command: "v", Score: 1}})
				} else {
					l.Put(o.key, "v")
				}
			case 'G':
				if sc != nil {
					sc.Get(o.key, cache.SearchOptions{Limit: 1})
				} else {
					l.Get(o.key)
				}
			default:
				if sc == nil {
					l.Delete(o.key)
				} else {
					sc.Size()
				}
			}
		}
		stats := func(l *cache.LRUCache, sc *cache.SearchCache) snap {
			var st cache.Stats
			if sc != nil {
				st = sc.Stats()
			} else {
				st = l.Stats()
			}
			return snap{st.Hits, st.Misses, st.Evictions, int64(st.Size)}
		}
		// the states of the script run alone
		l0, sc0 := mk()
		seq := []snap{stats(l0, sc0)}
		for _, o := range script {
			apply(l0, sc0, o)
			seq = append(seq, stats(l0, sc0))
		}
		cs := map[string]interface{}{"capacity": capacity, "keys": nKeys, "script_ops": L, "via_search_cache": viaSC, "readers": 4}
		ctx.R.Begin(cs)
		ctx.R.Eval(1)
		l1, sc1 := mk()
		var done int32
		var wg sync.WaitGroup
		type bad struct {
			reader int
			got    snap
			after  int
		}
		bads := make(chan bad, 8)
		var reads int64
		for g := 0; g < 4; g++ {
			wg.Add(1)
			go func(g int) {
				defer wg.Done()
				pos := 0 // index of the earliest state this reader may still see
				for atomic.LoadInt32(&done) == 0 {
					got := stats(l1, sc1)
					atomic.AddInt64(&reads, 1)
					found := -1
					for i := pos; i < len(seq); i++ {
						if seq[i] == got {
							found = i
							break
						}
					}
					if found < 0 {
						select {
						case bads <- bad{g, got, pos}:
						default:
						}
						return
					}
					pos = found
				}
			}(g)
		}
		for _, o := range script {
			apply(l1, sc1, o)
		}
		atomic.StoreInt32(&done, 1)
		wg.Wait()
		close(bads)
		ctx.R.Path("snapshot-rounds", 1)
		ctx.R.Path("snapshot-reads", atomic.LoadInt64(&reads))
		ctx.R.Nontriv("snapshots", rd, capacity, nKeys, L)
		for b := range bads {
			path := "LRUCache.Stats"
			if viaSC {
				path = "SearchCache.Stats"
			}
			ctx.R.Violate(vlib.Violation{Property: "C11", Clause: "not-linearizable", Path: path + "/single-writer",
				Detail: fmt.Sprintf("while one goroutine ran a script of %d operations, a concurrent Stats() returned hits=%d misses=%d evictions=%d size=%d, which is none of the states the cache passes through from state %d of the script on",
					L, b.got[0], b.got[1], b.got[2], b.got[3], b.after),
				Witness: map[string]interface{}{"case": cs, "reader": b.reader, "observed": b.got, "not_before_state": b.after}})
			break
		}
	}
}

// c11WaitOrDeadlock waits for the goroutines of a round. When they have not finished after two minutes it looks at what they
// are doing: goroutines that have been parked on a mutex of the code under test for more than a minute, while none is
// running, never return - that is reported with their stacks (a search that never returns does not return what it returns
// when run alone). Anything else (slow machine) is inconclusive. Either way the shard ends: the goroutines cannot be stopped.
func c11WaitOrDeadlock(ctx *Ctx, wg *sync.WaitGroup, cs interface{}, what string) bool {
	done := make(chan struct{})
	go func() { wg.Wait(); close(done) }()
	select {
	case <-done:
		return true
	case <-time.After(130 * time.Second):
	}
	buf := make([]byte, 1<<20)
	buf = buf[:runtime.Stack(buf, true)]
	blocked, running := 0, 0
	var sample []string
	for _, g := range strings.Split(string(buf), "\n\n") {
		if !strings.Contains(g, "github.com/Vedant9500/WTF/internal/") || strings.Contains(g, "c11WaitOrDeadlock") {
			continue
		}
		head := strings.SplitN(g, "\n", 2)[0]
		switch {
		case (strings.Contains(head, "sync.RWMutex") || strings.Contains(head, "sync.Mutex") || strings.Contains(head, "semacquire")) && strings.Contains(head, "minutes"):
			blocked++
			if len(sample) < 3 {
				sample = append(sample, vlib.Trunc(g, 1500))
			}
		case strings.Contains(head, "[running]") || strings.Contains(head, "[runnable]"):
			running++
		}
	}
	if blocked > 0 && running == 0 {
		ctx.R.Violate(vlib.Violation{Property: "C11", Clause: "deadlock", Path: what,
			Detail:  fmt.Sprintf("%d goroutines have been parked on a lock inside the code under test for more than a minute and none is running: the calls never return", blocked),
			Witness: map[string]interface{}{"case": cs, "goroutines": sample}})
	} else {
		ctx.R.Inconcl("round did not finish within 130 s (no lock cycle visible in the goroutine dump)")
	}
	ctx.R.Write()
	os.Exit(0)
	return false
}

// c11SweepRounds: "as if its operations happened one at a time", for sweeps that overlap. A cache is filled, every entry
// outlives its lifetime (virtual time), nothing is stored during the round. Run alone, a sweep followed by Size() on this tree
// gives 0 (established first, sequentially: when it does not, the tree's sweeps are lazy and the round proves nothing). Then
// three goroutines sweep at the same moment while others look up a key that is never stored; each reads Size() after ITS sweep
// has returned: in every one-at-a-time order that read comes after a completed sweep of an all-expired cache.
func c11SweepRounds(ctx *Ctx, r *rand.Rand) {
	const ttl = time.Hour
	opts := cache.SearchOptions{Limit: 5}
	res := []cache.SearchResult{{Command: "x", Score: 1}}
	fill := func(sc *cache.SearchCache, n int) {
		for i := 0; i < n; i++ {
			sc.Put(fmt.Sprintf("sweep round entry %d", i), opts, res)
		}
		sc.VerifLRU().VerifAdvance(ttl + time.Minute)
	}
	cs := map[string]interface{}{"part": "overlapping sweeps of an all-expired cache", "entries": 200, "sweepers": 3, "background_lookups": 6}
	ctx.R.Begin(cs)
	seqOK := true
	ctx.R.Guard("C11", "CleanupExpired/alone", cs, func() {
		for k := 0; k < 5; k++ {
			sc := cache.NewSearchCache(1000, ttl)
			fill(sc, 200)
			sc.CleanupExpired()
			if sc.Size() != 0 {
				seqOK = false
			}
		}
	})
	if !seqOK {
		ctx.R.Inconcl("a sweep run alone leaves expired entries: overlapping sweeps prove nothing")
		return
	}
	rounds := ctx.Pick(150, 1500)
	for rd := 0; rd < rounds; rd++ {
		sc := cache.NewSearchCache(1000, ttl)
		fill(sc, 200)
		var stop int32
		var bg, wg sync.WaitGroup
		for g := 0; g < 6; g++ {
			bg.Add(1)
			go func() {
				defer bg.Done()
				for atomic.LoadInt32(&stop) == 0 {
					sc.Get("never stored", opts)
				}
			}()
		}
		start := make(chan struct{})
		removed, sizeAfter := make([]int, 3), make([]int, 3)
		for k := 0; k < 3; k++ {
			wg.Add(1)
			go func(k int) {
				defer wg.Done()
				<-start
				removed[k] = sc.CleanupExpired()
				sizeAfter[k] = sc.Size()
			}(k)
		}
		close(start)
		wg.Wait()
		atomic.StoreInt32(&stop, 1)
		bg.Wait()
		ctx.R.Eval(3)
		ctx.R.Path("overlapping-sweep-rounds", 1)
		sum := 0
		for k := 0; k < 3; k++ {
			sum += removed[k]
			if sizeAfter[k] != 0 {
				ctx.R.Violate(vlib.Violation{Property: "C11", Clause: "not-linearizable", Path: "CleanupExpired+Size/overlapping-sweeps",
					Detail:  fmt.Sprintf("round %d: a goroutine's CleanupExpired() returned %d and its next Size() was %d; all 200 entries had expired before the call and nothing was stored - in no one-at-a-time order does a read that follows a completed sweep see them (alone, sweep then Size gives 0)", rd, removed[k], sizeAfter[k]),
					Witness: map[string]interface{}{"case": cs, "removed_by_each_sweep": removed, "size_read_after_each_sweep": sizeAfter}})
				return
			}
		}
		if sum != 200 {
			ctx.R.Violate(vlib.Violation{Property: "C11", Clause: "not-linearizable", Path: "CleanupExpired/overlapping-sweeps",
				Detail: fmt.Sprintf("round %d: the three sweeps report %v removals; 200 expired entries were there", rd, removed), Witness: cs})
			return
		}
	}
	ctx.R.Nontriv("overlapping-sweeps", ctx.Seed, ctx.Shard)
}

// c11DeleteHammer: a few goroutines store, look up and delete the SAME one or two keys as fast as they can (a key that is
// removed and stored again while another goroutine is half-way through removing it). Afterwards, at rest, the cache is one
// consistent structure: Size() counts what Keys() lists, every listed key is found, a key stored now is found now, and after
// Clear nothing is left.
func c11DeleteHammer(ctx *Ctx, r *rand.Rand) {
	rounds := ctx.Pick(40, 400)
	for rd := 0; rd < rounds; rd++ {
		capacity := []int{1, 2, 3, 8}[rd%4]
		c := cache.NewLRUCache(capacity, 0)
		keys := []string{"k0", "k1"}[:1+rd%2]
		G := []int{3, 4, 6, 8}[(rd/4)%4]
		cs := map[string]interface{}{"part": "store / look up / delete the same keys", "round": rd, "capacity": capacity, "keys": keys, "goroutines": G}
		ctx.R.Begin(cs)
		var wg sync.WaitGroup
		start := make(chan struct{})
		for g := 0; g < G; g++ {
			wg.Add(1)
			go func(g int) {
				defer wg.Done()
				defer func() {
					if e := recover(); e != nil {
						ctx.R.Violate(vlib.Violation{Property: "C11", Clause: "panic", Path: "LRUCache/same-key-hammer", Detail: fmt.Sprint(e), Witness: cs})
					}
				}()
				<-start
				for i := 0; i < 3000; i++ {
					k := keys[(i+g)%len(keys)]
					switch (i + g) % 3 {
					case 0:
						c.Put(k, i)
					case 1:
						c.Delete(k)
					default:
						c.Get(k)
					}
				}
			}(g)
		}
		close(start)
		wg.Wait()
		ctx.R.Eval(int64(G * 3000))
		ctx.R.Path("same-key-hammer-rounds", 1)
		bad := ""
		ks := c.Keys()
		if c.Size() != len(ks) {
			bad = fmt.Sprintf("at rest Size() = %d but Keys() lists %d keys %v", c.Size(), len(ks), ks)
		}
		for _, k := range ks {
			if _, ok := c.Get(k); !ok && bad == "" {
				bad = fmt.Sprintf("at rest Keys() lists %q but Get does not find it (no lifetime configured)", k)
			}
		}
		for i := 0; i < capacity+2 && bad == ""; i++ {
			k := fmt.Sprintf("fresh%d", i)
			c.Put(k, i)
			if v, ok := c.Get(k); !ok || v != interface{}(i) {
				bad = fmt.Sprintf("at rest, a key stored now (%q) is not found now (found=%v value=%v)", k, ok, v)
			}
			if c.Size() > capacity {
				bad = fmt.Sprintf("at rest Size() = %d exceeds the capacity %d", c.Size(), capacity)
			}
		}
		c.Clear()
		if bad == "" && (c.Size() != 0 || len(c.Keys()) != 0) {
			bad = fmt.Sprintf("after Clear: Size() = %d, Keys() = %v", c.Size(), c.Keys())
		}
		if bad != "" {
			ctx.R.Violate(vlib.Violation{Property: "C11", Clause: "not-linearizable", Path: "LRUCache/same-key-hammer", Detail: bad + " - no one-at-a-time order of the stores, look-ups and deletes leaves the cache like this", Witness: cs})
			return
		}
	}
	ctx.R.Nontriv("same-key-hammer", ctx.Seed, ctx.Shard)
}

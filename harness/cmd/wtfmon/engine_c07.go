package main

import (
	"fmt"
	"math"
	"math/rand"
	"strings"
	"unicode/utf8"

	"github.com/sahilm/fuzzy"

	"github.com/Vedant9500/WTF/internal/database"
	"github.com/Vedant9500/WTF/internal/zzverif/vlib"
)

func init() { engines["fuzzy"] = engineFuzzy }

func c07Text(c *vlib.Cmd) string { return c.Command + " " + c.Description }

// c07Quality: the score the matcher assigns to this one text (ok=false: no match).
func c07Quality(q, text string) (int, bool) {
	m := fuzzy.Find(q, []string{text})
	if len(m) == 0 {
		return 0, false
	}
	return m[0].Score, true
}

// c07FoldQueries: requests that spell a planted marker with the other member of a three-member case class.
var c07FoldQueries []string

// c07Typos: misspellings the loaded word table knows (requests made of them are asked in the first phase after the load).
var c07Typos []string

// c07Huge: more than 65536 entries, the only entries that hold the request's letters in order sitting at the very end.
func c07Huge(ctx *Ctx, r *rand.Rand) {
	if !ctx.Thorough && ctx.Shard%4 != 1 {
		return
	}
	n := []int{70001, 66003, 65600, 131101}[(ctx.Shard/4)%4]
	var db *database.Database
	if !ctx.R.Guard("C07", "LoadDatabase", fmt.Sprintf("huge-%d", n), func() { db, _ = vlib.HugeDB(r, n, 37) }) {
		return
	}
	c07Typos = nil
	c07Phase(ctx, r, db, fmt.Sprintf("huge-%d", n), "load", 4, []string{vlib.TailWord, vlib.TailWord})
	ctx.R.Path("databases-over-65536-entries", 1)
}

func engineFuzzy(ctx *Ctx) {
	r := vlib.NewRand(ctx.Seed, ctx.Shard, "fuzzy")
	c07Huge(ctx, r)
	nDB := ctx.N(240, 12000)
	nQ := ctx.Pick(50, 70)
	for d := 0; d < nDB; d++ {
		var db *database.Database
		var markers []string
		c07FoldQueries = nil
		dbName := fmt.Sprintf("gen-%d-%d", ctx.Shard, d)
		if d == 0 && ctx.Shard%8 == 6 {
			db = ctx.Shipped()
			dbName = "shipped"
		} else {
			sp := dbSpecFor(r, d+ctx.Shard)
			sp.Platforms = 0
			if sp.N > 200 {
				sp.N = 200
			}
			g := ctx.G(d)
			if g%3 == 1 {
				sp.Platforms = 1   // entries with platform tags, searched under platform requests (see c07Phase)
				sp.TieHeavy = true // ... among them copies of one text declared for different platforms
			}
			if g%10 == 7 { // sizes of real deployments, just above powers of two in most cases
				sp.N = []int{512, 1024, 2048, 2048, 4096}[r.Intn(5)] + 1 + r.Intn(7)
				ctx.R.Path("large-databases", 1)
			}
			cmds0 := vlib.GenCommands(r, sp)
			markers = c07PlantMarkers(r, cmds0)
			if g%6 == 4 && len(cmds0) >= 3 {
				// letters with a third spelling under case folding (micro sign / mu, sigma / final sigma, k / KELVIN SIGN, s / long s,
				// beta / curled beta, theta / script theta, pi / omega-pi): the entry holds one spelling, the request another; the
				// markers are asked for (misspelt by one dropped letter) like the others
				pairs := [][2]string{{"\u00b5", "\u03bc"}, {"\u03c3", "\u03c2"}, {"\u03a3", "\u03c2"}, {"k", "\u212a"}, {"K", "\u212a"}, {"s", "\u017f"}, {"S", "\u017f"},
					{"\u03b2", "\u03d0"}, {"\u03b8", "\u03d1"}, {"\u03c0", "\u03d6"}, {"\u00e5", "\u212b"}, {"\u03ba", "\u03f0"}, {"\u03c1", "\u03f1"}, {"\u03b5", "\u03f5"}}
				for k := 0; k < 3; k++ {
					pr := pairs[(g/6+k*5)%len(pairs)]
					if r.Intn(2) == 0 {
						pr[0], pr[1] = pr[1], pr[0]
					}
					rare := make([]byte, 6)
					for j := range rare {
						rare[j] = "zqxjvw"[r.Intn(6)]
					}
					i := r.Intn(len(cmds0))
					cmds0[i].Description += " " + string(rare[:3]) + pr[1] + string(rare[3:])
					c07FoldQueries = append(c07FoldQueries, string(rare[:3])+pr[0]+string(rare[3:]))
				}
				ctx.R.Path("databases-with-letters-of-a-three-member-case-class", 1)
			}
			if len(markers) > 5 {
				ctx.R.Path("databases-with-same-text-pairs-of-different-eligibility", 1)
			}
			if !ctx.R.Guard("C07", "LoadDatabase", dbName, func() { db = vlib.MustLoad(cmds0) }) {
				continue
			}
			if g%5 == 2 && len(db.Commands) > 0 && len(db.Commands) <= 200 {
				// a semantic word table is loaded, and it knows common misspellings (a word with one letter dropped, close to the
				// word it comes from): such a request matches nothing lexically, the fallback answers it, best match first
				c07Typos = nil
				syn := map[string]string{}
				ws := vlib.DBWords(db.Commands)
				for k := 0; k < 8 && len(ws) > 0; k++ {
					w := ws[r.Intn(len(ws))]
					if len(w) < 5 || !vlib.IsASCII(w) {
						continue
					}
					i := 1 + r.Intn(len(w)-2)
					t := w[:i] + w[i+1:]
					syn[t] = w
					c07Typos = append(c07Typos, t)
				}
				ok := false
				ctx.R.Guard("C07", "LoadEmbeddings", dbName, func() { ok = attachEmbeddingsExtra(ctx, r, db, "unit", syn) })
				if ok {
					dbName += "/word-table-with-misspellings"
					ctx.R.Path("databases-with-a-word-table-holding-misspellings", 1)
				} else {
					c07Typos = nil
				}
			} else {
				c07Typos = nil
			}
		}
		if dbName == "shipped" {
			c07Typos = nil
		}
		nq := nQ
		if dbName == "shipped" {
			nq = ctx.Pick(30, 200)
		}
		c07Phase(ctx, r, db, dbName, "load", nq, markers)
		if dbName == "shipped" || len(db.Commands) == 0 || len(db.Commands) > 400 {
			continue
		}
		// histories: the fallback must match against the commands being searched *now*
		cdb := database.NewCachedDatabase(db)
		sp := dbSpecFor(r, d+ctx.Shard+1)
		sp.Platforms = 0
		sp.N = len(db.Commands)
		if !ctx.R.Guard("C07", "UpdateDatabase", dbName, func() {
			cdb.UpdateDatabase(vlib.MustLoad(vlib.GenCommands(r, sp)).Commands) // same size, different contents
		}) {
			continue
		}
		c07Phase(ctx, r, db, dbName, "same-size-replacement", nq/3+1, nil)
		if !ctx.R.Guard("C07", "append", dbName, func() {
			db.Commands = append(db.Commands, vlib.MustLoad(vlib.GenCommands(r, vlib.DBSpec{N: 1 + r.Intn(4)})).Commands...)
		}) {
			continue
		}
		c07Phase(ctx, r, db, dbName, "append", nq/3+1, nil)
	}
}

// c07Phase runs the fuzzy-on / fuzzy-off oracles against the database as it is now.
// c07PlantMarkers gives the first, the middle and the last three entries a word of rare letters that occurs nowhere else
// (position-dependent losses - a tail that is never matched - show only on queries that single out such an entry).
func c07PlantMarkers(r *rand.Rand, cmds []vlib.Cmd) []string {
	n := len(cmds)
	if n < 6 {
		return nil
	}
	var out []string
	mark := func() string {
		b := make([]byte, 9)
		for k := range b {
			b[k] = "zqxjkvw"[r.Intn(7)]
		}
		return string(b)
	}
	// pairs of entries with the same command and description that are declared for different platforms (or differ in the
	// pipeline flag) get the same marker: the texts stay identical, only one of the two may be eligible for a request
	pairs := 0
	for i := 0; i < n && pairs < 3; i++ {
		for j := i + 1; j < n && j < i+6; j++ {
			if cmds[i].Command == cmds[j].Command && cmds[i].Description == cmds[j].Description &&
				(strings.Join(cmds[i].Platform, ",") != strings.Join(cmds[j].Platform, ",")) {
				m := mark()
				cmds[i].Description += " " + m
				cmds[j].Description += " " + m
				out = append(out, m)
				pairs++
				break
			}
		}
	}
	for _, i := range []int{0, n / 2, n - 3, n - 2, n - 1} {
		b := make([]byte, 9)
		for k := range b {
			b[k] = "zqxjkvw"[r.Intn(7)]
		}
		m := string(b)
		cmds[i].Description += " " + m
		out = append(out, m)
	}
	return out
}

func c07Phase(ctx *Ctx, r *rand.Rand, db *database.Database, dbName, phase string, nq int, markers []string) {
	cmds := db.Commands
	N := len(cmds)
	if N == 0 {
		return
	}
	cdb := database.NewCachedDatabase(db)
	words := vlib.DBWords(cmds)
	if len(words) > 3000 {
		words = words[:3000]
	}
	for qi := 0; qi < nq; qi++ {
		var q string
		switch qi % 6 {
		case 0:
			q = vlib.GenQuery(r, words, 1+r.Intn(3), 0) // exact words: a lexical answer exists
		case 1, 2:
			q = vlib.GenQuery(r, words, 1+r.Intn(2), 2) // misspellings
		case 3: // fragment of a raw word of some entry
			c := cmds[r.Intn(N)]
			f := strings.Fields(c07Text(&c))
			w := f[r.Intn(len(f))]
			if len(w) > 4 {
				w = w[1 : len(w)-1]
			}
			q = w
		case 4:
			q = []string{"a", "z", "?", "-", "..", "to", "the", "x y", "é", "日", " ", "q"}[r.Intn(12)]
		default: // letters scattered over one entry's text, in order
			t := []rune(c07Text(&cmds[r.Intn(N)]))
			var b []rune
			for i := 0; i < len(t) && len(b) < 7; i += 1 + r.Intn(5) {
				if t[i] != 0 {
					b = append(b, t[i])
				}
			}
			q = string(b)
			if r.Intn(2) == 0 {
				q = strings.ToUpper(q)
			}
		}
		marker := false
		if len(markers) > 0 && qi < 2*len(markers) { // a misspelt marker: only one entry holds these letters in order
			m := markers[qi%len(markers)]
			k := 1 + r.Intn(len(m)-2)
			q = m[:k] + m[k+1:]
			marker = true
			ctx.R.Path("marker-queries", 1)
		}
		if qi%6 == 1 && qi%4 == 1 && len(q) > 2 && !marker {
			// pasted text: a no-break space, an ideographic space or an invisible format character inside or instead of a blank
			odd := []string{"\u00a0", "\u3000", "\u200b", "\u2060", "\ufeff", "\u00ad", "\u2009", "\u202f"}[r.Intn(8)]
			at := 1 + r.Intn(len(q)-1)
			for at < len(q) && !utf8.RuneStart(q[at]) {
				at++
			}
			if i := strings.IndexByte(q, ' '); i > 0 && r.Intn(2) == 0 {
				q = q[:i] + odd + q[i+1:]
			} else {
				q = q[:at] + odd + q[at:]
			}
			ctx.R.Path("queries-with-non-ascii-blanks-or-format-characters", 1)
		}
		if k := qi - 2*len(markers) - len(c07Typos); phase == "load" && k >= 0 && k < len(c07FoldQueries) {
			q = c07FoldQueries[k]
			marker = true
			ctx.R.Path("requests-spelt-with-another-member-of-a-case-class", 1)
		}
		if k := qi - 2*len(markers); phase == "load" && k >= 0 && k < len(c07Typos) {
			q = c07Typos[k]
			marker = true
			ctx.R.Path("misspellings-the-word-table-knows", 1)
		}
		if q == "" {
			continue
		}
		thr := []int{0, 0, 0, -30, -5, 1, 40, 0, 0, math.MaxInt64, math.MaxInt64 - 50, math.MaxInt64 - 99, math.MaxInt32, 1 << 40, math.MinInt64}[r.Intn(15)]
		if marker {
			thr = 0
		}
		o := database.SearchOptions{Limit: []int{3, 5, 10, N + 1, 0, -1, math.MinInt32, 1}[r.Intn(8)], UseNLP: r.Intn(2) == 0, AllPlatforms: true, FuzzyThreshold: thr}
		if r.Intn(2) == 0 { // platform requests as the CLI hands them over (aliases, padding, blanks)
			o.AllPlatforms = false
			o.Platforms = c04PlatformSets[r.Intn(len(c04PlatformSets))]
			o.NoCrossPlatform = r.Intn(4) == 0
		}
		if qi%7 == 3 && !marker {
			// only pipeline commands wanted (what an API caller of the typo-tolerant search may ask for)
			o.PipelineOnly = true
			ctx.R.Path("pipeline-only-requests", 1)
		}
		oOn := o
		oOn.UseFuzzy = true
		cs := map[string]interface{}{"db": dbName, "n": N, "query": q, "opts": vlib.OptsJ(oOn), "after": phase}
		ctx.R.Begin(cs)
		ctx.R.Eval(1)
		ctx.R.Guard("C07", "SearchUniversal", cs, func() {
			refs, stable := vlib.StableRef(5, func() vlib.Ranked { return vlib.Canon(cmds, db.SearchUniversal(q, o)) })
			var onRes []database.SearchResult
			if qi%3 == 1 { // through one caching wrapper: the fuzzy-off request first, then the fuzzy-on request
				cdb.SearchWithOptionsAndCache(q, o)
				onRes = cdb.SearchWithOptionsAndCache(q, oOn)
				ctx.R.Path("on-answer-through-cache-after-off-request", 1)
			} else {
				onRes = db.SearchUniversal(q, oOn)
			}
			on := vlib.Canon(cmds, onRes)
			if len(refs[0]) > 0 {
				// (i) an answer that exists is not changed by typo tolerance
				ctx.R.Path("lexical-answer-exists", 1)
				verdict, why := vlib.CompareToRef(refs, stable, on, vlib.LimitInForce(o.Limit))
				switch verdict {
				case "violated":
					ctx.R.Violate(vlib.Violation{Property: "C07", Clause: "fuzzy-changes-existing-answer", Path: "SearchUniversal",
						Detail:  "the search without typo tolerance returns results, with it the list differs: " + why,
						Witness: map[string]interface{}{"case": cs, "without": refs[0], "with": on}})
				case "inconclusive":
					ctx.R.Inconcl(why)
				}
				return
			}
			for _, rr := range refs {
				if len(rr) > 0 {
					ctx.R.Inconcl("lexical answer sometimes empty")
					return
				}
			}
			// nothing matches lexically: the fallback decides
			if len(on) > 0 {
				ctx.R.Path("fallback-answered", 1)
				ctx.R.Path("fallback-answered-after:"+phase, 1)
				ctx.R.Nontriv(dbName, q, thr, o.UseNLP, o.Limit)
				if thr != 0 {
					ctx.R.Path("fallback-with-threshold", 1)
				}
				if qi < 6 {
					ctx.R.Sample(map[string]interface{}{"case": cs, "returned": len(on)})
				}
			} else {
				ctx.R.Path("fallback-empty", 1)
			}
			prevQ, havePrev := 0, false
			for rank, x := range onRes {
				text := c07Text(x.Command)
				if !vlib.SubseqFold(q, text) {
					ctx.R.Violate(vlib.Violation{Property: "C07", Clause: "not-a-match", Path: "SearchUniversal/fuzzy",
						Detail:  fmt.Sprintf("rank %d %s does not contain the query's characters in order", rank, vlib.Q(vlib.Trunc(text, 100))),
						Witness: cs})
					continue
				}
				ql, ok := c07Quality(q, text)
				if !ok {
					ctx.R.Inconcl("matcher gives no quality for a returned text")
					continue
				}
				if thr != 0 && ql < thr {
					cl := "below-threshold"
					if thr < 0 {
						cl = "below-negative-threshold"
					}
					ctx.R.Violate(vlib.Violation{Property: "C07", Clause: cl, Path: "SearchUniversal/fuzzy",
						Detail:  fmt.Sprintf("rank %d has match quality %d, requested threshold %d", rank, ql, thr),
						Witness: map[string]interface{}{"case": cs, "text": vlib.Trunc(text, 200)}})
				}
				if havePrev && ql > prevQ {
					ctx.R.Violate(vlib.Violation{Property: "C07", Clause: "not-best-first", Path: "SearchUniversal/fuzzy",
						Detail:  fmt.Sprintf("rank %d has quality %d, better than rank %d (%d)", rank, ql, rank-1, prevQ),
						Witness: cs})
				}
				prevQ, havePrev = ql, true
			}
			// (v) no threshold: some text contains the characters in order => not left without a result
			if thr == 0 && len(on) == 0 {
				for i := range cmds {
					if vlib.SubseqFold(q, c07Text(&cmds[i])) {
						if !c07Eligible(db, cmds, i, o) {
							ctx.R.Path("in-order-match-not-shown-eligible", 1)
							continue
						}
						ctx.R.Path("eligible-checked", 1)
						ctx.R.Violate(vlib.Violation{Property: "C07", Clause: "match-left-without-result", Path: "SearchUniversal/fuzzy",
							Detail:  fmt.Sprintf("entry %d %s contains the query's characters in order, yet the answer is empty", i, vlib.Q(vlib.Trunc(c07Text(&cmds[i]), 100))),
							Witness: cs})
						break
					}
				}
			}
		})
	}
}

// c07Eligible: is entry i certainly eligible under o? Without a platform restriction, or without declared platforms, it is.
// Otherwise eligibility is witnessed by the engine's own lexical path: a search for one of the entry's words, same filters,
// no typo tolerance, returns it (both filters apply equally to lexical and typo-fallback answers).
func c07Eligible(db *database.Database, cmds []vlib.Cmd, i int, o database.SearchOptions) bool {
	if o.PipelineOnly && !cmds[i].Pipeline {
		return false // (not flagged as a pipeline: whether its text counts as one is the engine's business - not shown eligible)
	}
	if o.AllPlatforms || len(cmds[i].Platform) == 0 {
		return true
	}
	lex := o
	lex.UseFuzzy, lex.Limit, lex.UseNLP, lex.FuzzyThreshold = false, len(cmds)+1, false, 0
	toks := vlib.Tokenize(c07Text(&cmds[i]))
	for k := 0; k < len(toks) && k < 4; k++ {
		for _, x := range db.SearchUniversal(toks[k], lex) {
			if vlib.IndexOf(cmds, x.Command) == i {
				return true
			}
		}
	}
	return false
}

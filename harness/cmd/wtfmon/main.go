// wtfmon: one binary, one sub-command per monitoring engine.
//
//	wtfmon <engine> -seed S -tier quick|thorough -shard i -nshards n -out f.json -log f.log -scratch dir [-wtf bin] [-repo dir]
//
// Every engine writes a vlib.Report (JSON) to -out; the Python driver merges
// the shards, applies the known-findings file and writes the evidence.
package main

import (
	"flag"
	"fmt"
	"os"
	"path/filepath"
	"sort"

	"github.com/Vedant9500/WTF/internal/database"
	"github.com/Vedant9500/WTF/internal/zzverif/vlib"
)

type Ctx struct {
	Engine   string
	Seed     int64
	Tier     string
	Shard    int
	NShards  int
	Scratch  string
	Wtf      string
	Repo     string
	Thorough bool
	R        *vlib.Report
	shipped  *database.Database
}

// N scales a total case count for this shard.
func (c *Ctx) N(quick, thorough int) int {
	t := quick
	if c.Thorough {
		t = thorough
	}
	n := t / c.NShards
	if n < 1 {
		n = 1
	}
	return n
}

// Pick returns quick or thorough value.
func (c *Ctx) Pick(quick, thorough int) int {
	if c.Thorough {
		return thorough
	}
	return quick
}

func (c *Ctx) ShippedPath() string { return filepath.Join(c.Repo, "assets", "commands.yml") }

// Shipped loads the shipped 6.6k-entry database once per process.
func (c *Ctx) Shipped() *database.Database {
	if c.shipped == nil {
		db, err := database.LoadDatabase(c.ShippedPath())
		if err != nil {
			panic(fmt.Sprintf("cannot load shipped database: %v", err))
		}
		c.shipped = db
	}
	return c.shipped
}

// Dict is the dictionary of string constants of the tree under test.
func (c *Ctx) Dict() *vlib.Dict { return vlib.SourceDict(c.Repo) }

// G turns a per-shard case index into a run-wide one (classes selected by
// modulo must use it, see ENGINE_GUIDE).
func (c *Ctx) G(i int) int { return i*c.NShards + c.Shard }

var engines = map[string]func(*Ctx){}

func main() {
	if len(os.Args) < 2 {
		names := []string{}
		for k := range engines {
			names = append(names, k)
		}
		sort.Strings(names)
		fmt.Println("engines:", names)
		os.Exit(2)
	}
	name := os.Args[1]
	if name == "limitexec" { // limitexec <fsize-bytes> <prog> args... : exec under RLIMIT_FSIZE
		limitExec(os.Args[2:])
		return
	}
	if h, ok := helpers[name]; ok {
		os.Exit(h(os.Args[2:]))
	}
	fs := flag.NewFlagSet(name, flag.ExitOnError)
	seed := fs.Int64("seed", 1, "")
	tier := fs.String("tier", "quick", "")
	shard := fs.Int("shard", 0, "")
	nshards := fs.Int("nshards", 1, "")
	out := fs.String("out", "out.json", "")
	logp := fs.String("log", "", "")
	scratch := fs.String("scratch", os.TempDir(), "")
	wtf := fs.String("wtf", "", "")
	repo := fs.String("repo", "/repo", "")
	fs.Parse(os.Args[2:])
	eng, ok := engines[name]
	if !ok {
		fmt.Fprintln(os.Stderr, "unknown engine", name)
		os.Exit(2)
	}
	vlib.ScratchDir = *scratch
	ctx := &Ctx{Engine: name, Seed: *seed, Tier: *tier, Shard: *shard, NShards: *nshards, Scratch: *scratch, Wtf: *wtf, Repo: *repo,
		Thorough: *tier == "thorough"}
	ctx.R = vlib.NewReport(name, *shard, *seed, *out, *logp)
	eng(ctx)
	if err := ctx.R.Write(); err != nil {
		fmt.Fprintln(os.Stderr, "cannot write report:", err)
		os.Exit(3)
	}
}

// helpers are small sub-commands used by process-level engines (dumpers).
var helpers = map[string]func([]string) int{}

package main

import (
	"bytes"
	"context"
	"encoding/json"
	"fmt"
	"os"
	"os/exec"
	"path/filepath"
	"regexp"
	"strconv"
	"strings"
	"syscall"
	"time"
)

// limitExec: wtfmon limitexec <fsize-bytes|-1> <prog> [args...]
// Sets RLIMIT_FSIZE on itself and execs prog. The Go runtime ignores SIGXFSZ
// (notify-only), so the child's write stops after exactly <fsize> bytes with
// EFBIG.
func limitExec(args []string) {
	if len(args) < 2 {
		fmt.Fprintln(os.Stderr, "usage: limitexec <bytes> prog args...")
		os.Exit(2)
	}
	n, err := strconv.ParseInt(args[0], 10, 64)
	if err != nil {
		fmt.Fprintln(os.Stderr, "bad limit")
		os.Exit(2)
	}
	if n >= 0 {
		lim := syscall.Rlimit{Cur: uint64(n), Max: uint64(n)}
		if err := syscall.Setrlimit(syscall.RLIMIT_FSIZE, &lim); err != nil {
			fmt.Fprintln(os.Stderr, "setrlimit:", err)
			os.Exit(2)
		}
	}
	prog, err := exec.LookPath(args[1])
	if err != nil {
		fmt.Fprintln(os.Stderr, err)
		os.Exit(2)
	}
	if err := syscall.Exec(prog, args[1:], os.Environ()); err != nil {
		fmt.Fprintln(os.Stderr, "exec:", err)
		os.Exit(2)
	}
}

type CLIResult struct {
	Stdout, Stderr string
	RC             int
	TimedOut       bool
	Signal         string
}

// Home is an isolated home directory for the wtf binary.
type Home struct {
	Dir string // $HOME
	Cwd string // empty working directory (context = generic)
}

func NewHome(base string) *Home {
	h := &Home{Dir: filepath.Join(base, "home"), Cwd: filepath.Join(base, "cwd")}
	os.MkdirAll(h.Dir, 0o755)
	os.MkdirAll(h.Cwd, 0o755)
	return h
}

// NewHomeNamed: the same with a chosen name for the home directory (login names contain dots, blanks, umlauts).
func NewHomeNamed(base, name string) *Home {
	h := &Home{Dir: filepath.Join(base, name), Cwd: filepath.Join(base, "cwd")}
	os.MkdirAll(h.Dir, 0o755)
	os.MkdirAll(h.Cwd, 0o755)
	return h
}

func (h *Home) Personal() string {
	return filepath.Join(h.Dir, ".config", "cmd-finder", "personal.yml")
}
func (h *Home) History() string { return filepath.Join(h.Dir, ".config", "wtf", "search_history.json") }

// RunCmd runs argv with HOME=h.Dir in h.Cwd, stdin closed.
func (h *Home) RunCmd(timeout time.Duration, extraEnv []string, argv ...string) CLIResult {
	ctx, cancel := context.WithTimeout(context.Background(), timeout)
	defer cancel()
	cmd := exec.CommandContext(ctx, argv[0], argv[1:]...)
	cmd.Dir = h.Cwd
	cmd.Env = append([]string{"HOME=" + h.Dir, "PATH=/usr/bin:/bin", "LANG=C.UTF-8", "GOTRACEBACK=all"}, extraEnv...)
	var so, se bytes.Buffer
	cmd.Stdout, cmd.Stderr = &so, &se
	cmd.Stdin = nil
	err := cmd.Run()
	res := CLIResult{Stdout: so.String(), Stderr: se.String()}
	if ctx.Err() == context.DeadlineExceeded {
		res.TimedOut = true
	}
	if err != nil {
		if ee, ok := err.(*exec.ExitError); ok {
			res.RC = ee.ExitCode()
			if ws, ok := ee.Sys().(syscall.WaitStatus); ok && ws.Signaled() {
				res.Signal = ws.Signal().String()
				res.RC = 128 + int(ws.Signal())
			}
		} else {
			res.RC = -1
			res.Stderr += "\nexec error: " + err.Error()
		}
	}
	return res
}

func (h *Home) Wtf(wtf string, extraEnv []string, args ...string) CLIResult {
	return h.RunCmd(60*time.Second, extraEnv, append([]string{wtf}, args...)...)
}

// Crashed: anything but a normal exit 0 / usage error exit 1.
func (r CLIResult) Crashed() (bool, string) {
	if r.TimedOut {
		return true, "timed out"
	}
	if r.Signal != "" {
		return true, "killed by signal " + r.Signal
	}
	if strings.Contains(r.Stderr, "panic:") || strings.Contains(r.Stderr, "fatal error:") || strings.Contains(r.Stdout, "panic:") {
		return true, "panic"
	}
	if r.RC != 0 && r.RC != 1 {
		return true, fmt.Sprintf("exit status %d", r.RC)
	}
	return false, ""
}

type CLIItem struct {
	Command     string   `json:"command"`
	Description string   `json:"description"`
	Keywords    []string `json:"keywords"`
	Category    string   `json:"category"`
	Platforms   []string `json:"platforms"`
	Score       float64  `json:"score"`
}

// JSONBlock extracts the result block of `wtf --format json`: the text from
// the first line that starts with '[' up to the matching end. ok=false when no
// block is present (e.g. "No commands found").
func JSONBlock(stdout string) (block string, items []CLIItem, present bool, wellFormed bool) {
	lines := strings.Split(stdout, "\n")
	start := -1
	for i, l := range lines {
		if strings.HasPrefix(l, "[") {
			start = i
			break
		}
	}
	if start < 0 {
		return "", nil, false, false
	}
	end := len(lines)
	for i := start; i < len(lines); i++ {
		if lines[i] == "]" || lines[i] == "[]" {
			end = i + 1
			break
		}
	}
	block = strings.Join(lines[start:end], "\n")
	dec := json.NewDecoder(strings.NewReader(block))
	var raw []json.RawMessage
	if err := dec.Decode(&raw); err != nil {
		return block, nil, true, false
	}
	for _, m := range raw {
		var it CLIItem
		var obj map[string]interface{}
		if err := json.Unmarshal(m, &obj); err != nil {
			return block, nil, true, false
		}
		json.Unmarshal(m, &it)
		items = append(items, it)
	}
	return block, items, true, true
}

var listHead = regexp.MustCompile(`^(?:\x1b\[1m)?(\d+)\.(?:\x1b\[0m)? (?:\x1b\[36m)?(.*?)(?:\x1b\[0m)?$`)

// ListBlock parses the default list format: numbered entries.
func ListBlock(stdout string) (n int, cmds []string, declared int) {
	declared = -1
	for _, l := range strings.Split(stdout, "\n") {
		if strings.HasPrefix(l, "Found ") && strings.Contains(l, "matching command(s)") {
			fmt.Sscanf(l, "Found %d", &declared)
		}
		if m := listHead.FindStringSubmatch(l); m != nil {
			k, _ := strconv.Atoi(m[1])
			if k == n+1 {
				n++
				cmds = append(cmds, m[2])
			}
		}
	}
	return
}

package main

import (
	"fmt"
	"github.com/Vedant9500/WTF/internal/recovery"
	"math"
	"math/rand"
	"os"
	"path/filepath"
	"sort"
	"strings"
	"time"

	"github.com/Vedant9500/WTF/internal/database"
	"github.com/Vedant9500/WTF/internal/zzverif/vlib"
)

func init() { engines["indexscan"] = engineIndexScan }

func c03Params() vlib.BM25FParams {
	k1, w, b, min := database.VerifBM25FParams()
	return vlib.BM25FParams{K1: k1, W: w, B: b, MinIDF: min}
}

func relClose(a, b float64) bool {
	if a == b {
		return true
	}
	d := math.Abs(a - b)
	return d <= 1e-9*math.Max(math.Abs(a), math.Abs(b)) || d <= 1e-12
}

var c03Last struct {
	first *vlib.Cmd
	n     int
	key   string
	ri    *vlib.RefIndex
}

// c03Ref builds (or reuses, for the same backing array and length) the reference scan.
// The history key is part of the cache key: a freed backing array may be reused at the same address.
func c03Ref(cmds []vlib.Cmd, key string) *vlib.RefIndex {
	if len(cmds) > 0 && c03Last.ri != nil && c03Last.first == &cmds[0] && c03Last.n == len(cmds) && c03Last.key == key {
		return c03Last.ri
	}
	ri := vlib.BuildRef(cmds, c03Params())
	if len(cmds) > 0 {
		c03Last.first, c03Last.n, c03Last.key, c03Last.ri = &cmds[0], len(cmds), key, ri
	}
	return ri
}

// c03Check compares one NLP-off / fuzzy-off / boost-free search with the
// exhaustive reference scan over the *current* db.Commands.
func c03Check(ctx *Ctx, db *database.Database, hist []string, q string, o database.SearchOptions, where string, search ...func(string, database.SearchOptions) []database.SearchResult) {
	cmds := db.Commands
	N := len(cmds)
	o.UseNLP, o.UseFuzzy, o.PipelineBoost, o.PipelineOnly = false, false, 0, false
	o.Limit = N + 5
	cs := map[string]interface{}{"history": hist, "n": N, "query": q, "opts": vlib.OptsJ(o), "after": where}
	ctx.R.Begin(cs)
	ctx.R.Eval(1)
	var res []database.SearchResult
	if !ctx.R.Guard("C03", "SearchUniversal", cs, func() {
		if len(search) > 0 && search[0] != nil {
			res = search[0](q, o)
			ctx.R.Path("searched-through-caching-wrapper", 1)
		} else {
			res = db.SearchUniversal(q, o)
		}
	}) {
		return
	}
	ri := c03Ref(cmds, fmt.Sprintf("%d/%s", ctx.R.Evaluations/1000000, strings.Join(hist, ";")))
	terms := vlib.Tokenize(q)
	distinct := []string{}
	seen := map[string]bool{}
	for _, t := range terms {
		if !seen[t] {
			seen[t] = true
			distinct = append(distinct, t)
		}
	}
	capN := o.TopTermsCap
	if capN <= 0 {
		capN = 10
	}
	exactMode := len(distinct) <= 10 && (o.TopTermsCap <= 0 || len(terms) <= capN)
	// the first four *positions* of the token list (duplicates collapse)
	first4 := []string{}
	{
		s4 := map[string]bool{}
		for i, t := range terms {
			if i >= 4 {
				break
			}
			if !s4[t] {
				s4[t] = true
				first4 = append(first4, t)
			}
		}
	}
	boost := func(t string) float64 {
		if b, ok := o.ContextBoosts[t]; ok && b > 0 {
			return b
		}
		return 1
	}
	live := func(t string) bool { return ri.DF[t] > 0 && ri.IDF(t) >= ri.P.MinIDF }
	got := map[int]float64{}
	for rank, r := range res {
		idx := vlib.IndexOf(cmds, r.Command)
		if idx < 0 {
			ctx.R.Violate(vlib.Violation{Property: "C03", Clause: "foreign-entry", Path: where, Detail: fmt.Sprintf("rank %d is not an entry of the current command list (stale pointer)", rank), Witness: cs})
			return
		}
		got[idx] = r.Score
	}
	isTool := database.VerifIsCrossPlatformTool
	nontrivial := false
	for doc := 0; doc < N; doc++ {
		// eligibility
		elig := 1 // 1 eligible for sure, 0 unknown, -1 ineligible for sure
		if !o.AllPlatforms && len(cmds[doc].Platform) > 0 {
			if leak, _ := vlib.PlatformLeak(&cmds[doc], o, isTool); leak {
				elig = -1
			} else {
				elig = 0
				for _, p := range cmds[doc].Platform {
					if strings.EqualFold(p, vlib.HostPlatform()) && len(o.Platforms) == 0 && !o.NoCrossPlatform {
						elig = 1
					}
				}
			}
		}
		var sumSet, sumMulti, sumFirst4 float64
		anyAll, anyFirst4 := false, false
		for _, t := range distinct {
			if !live(t) || !ri.Contains(doc, t) {
				continue
			}
			anyAll = true
			sumSet += boost(t) * ri.TermScore(doc, t)
		}
		for _, t := range terms {
			if live(t) && ri.Contains(doc, t) {
				sumMulti += boost(t) * ri.TermScore(doc, t)
			}
		}
		for _, t := range first4 {
			if live(t) && ri.Contains(doc, t) {
				anyFirst4 = true
				sumFirst4 += boost(t) * ri.TermScore(doc, t)
			}
		}
		sc, returned := got[doc]
		if returned && !anyAll {
			ctx.R.Violate(vlib.Violation{Property: "C03", Clause: "spurious-candidate", Path: where,
				Detail:  fmt.Sprintf("entry %d (%s) returned but contains no content word of the query", doc, vlib.Q(vlib.Trunc(cmds[doc].Command, 80))),
				Witness: cs})
			continue
		}
		if returned && elig == -1 {
			continue // C04's business; not asserted here
		}
		mustReturn := anyAll
		if !exactMode {
			mustReturn = anyFirst4
		}
		if mustReturn && elig == 1 && !returned {
			ctx.R.Violate(vlib.Violation{Property: "C03", Clause: "missing-candidate", Path: where,
				Detail:  fmt.Sprintf("entry %d (%s) contains a content word of the query (one of the first four: %v) but is not returned", doc, vlib.Q(vlib.Trunc(cmds[doc].Command, 80)), !exactMode),
				Witness: cs})
			continue
		}
		if !returned {
			continue
		}
		nontrivial = true
		if exactMode {
			if !relClose(sc, sumMulti) && !relClose(sc, sumSet) {
				ctx.R.Violate(vlib.Violation{Property: "C03", Clause: "score", Path: where,
					Detail:  fmt.Sprintf("entry %d (%s): score %.12g, recomputed BM25F sum %.12g (set reading %.12g)", doc, vlib.Q(vlib.Trunc(cmds[doc].Command, 60)), sc, sumMulti, sumSet),
					Witness: cs})
			}
		} else {
			lo, hi := sumFirst4, math.Max(sumMulti, sumSet)
			if sc < lo*(1-1e-9)-1e-12 || sc > hi*(1+1e-9)+1e-12 {
				ctx.R.Violate(vlib.Violation{Property: "C03", Clause: "score-sandwich", Path: where,
					Detail:  fmt.Sprintf("entry %d: score %.12g outside [first-four sum %.12g, all-terms sum %.12g]", doc, sc, lo, hi),
					Witness: cs})
			}
		}
	}
	// The same request at a limit below the number of candidates: whatever is returned must still be one of
	// the candidates just verified, with the score just verified (the statement's set and score clauses do not
	// depend on the limit; which of the candidates are returned is not asserted here).
	if len(res) >= 2 {
		h := 0
		for i := 0; i < len(q); i++ {
			h = h*31 + int(q[i])
		}
		if h < 0 {
			h = -h
		}
		small := []int{1, 2, 3, len(res) / 2, len(res) - 1}[h%5]
		if small < 1 {
			small = 1
		}
		if small >= len(res) {
			small = len(res) - 1
		}
		so := o
		so.Limit = small
		var sres []database.SearchResult
		scs := map[string]interface{}{"history": hist, "n": N, "query": q, "opts": vlib.OptsJ(so), "after": where, "candidates_at_full_limit": len(res)}
		if ctx.R.Guard("C03", "SearchUniversal", scs, func() {
			if len(search) > 0 && search[0] != nil {
				sres = search[0](q, so)
			} else {
				sres = db.SearchUniversal(q, so)
			}
		}) {
			ctx.R.Path("small-limit-requests", 1)
			for rank, r := range sres {
				idx := vlib.IndexOf(cmds, r.Command)
				if idx < 0 {
					ctx.R.Violate(vlib.Violation{Property: "C03", Clause: "foreign-entry", Path: where + "/small-limit", Detail: fmt.Sprintf("limit %d: rank %d is not an entry of the current command list", small, rank), Witness: scs})
					break
				}
				full, ok := got[idx]
				if !ok {
					ctx.R.Violate(vlib.Violation{Property: "C03", Clause: "spurious-candidate", Path: where + "/small-limit",
						Detail:  fmt.Sprintf("limit %d: entry %d (%s) is returned although the same request at limit %d does not return it", small, idx, vlib.Q(vlib.Trunc(cmds[idx].Command, 80)), o.Limit),
						Witness: scs})
					continue
				}
				if !relClose(r.Score, full) {
					ctx.R.Violate(vlib.Violation{Property: "C03", Clause: "score", Path: where + "/small-limit",
						Detail:  fmt.Sprintf("limit %d: entry %d (%s) has score %.12g, at limit %d the same request gives it %.12g (the recomputed BM25F sum)", small, idx, vlib.Q(vlib.Trunc(cmds[idx].Command, 60)), r.Score, o.Limit, full),
						Witness: scs})
				}
				ctx.R.Path("small-limit-entries-checked", 1)
			}
		}
	}
	if nontrivial {
		ctx.R.Nontriv(strings.Join(hist, ";"), q, fmt.Sprintf("%+v", vlib.OptsJ(o)))
		if exactMode {
			ctx.R.Path("exact-mode", 1)
		} else {
			ctx.R.Path("sandwich-mode", 1)
		}
		ctx.R.Path("after:"+where, 1)
		ctx.R.Sample(map[string]interface{}{"case": cs, "returned": len(res)})
	} else {
		ctx.R.Path("no-match", 1)
	}
}

// c03Twin: with NLP on, the answer after a history must equal the answer of
// a freshly loaded database holding the same entries (stale re-ranker).
// c03Adopted: after a replacement the commands being searched are the ones that were handed over.
func c03Adopted(ctx *Ctx, db *database.Database, want []vlib.Cmd, hist []string, where string) {
	ctx.R.Path("replacements-checked-for-adoption", 1)
	ok := len(db.Commands) == len(want)
	at := -1
	for i := 0; ok && i < len(want); i++ {
		a, b := db.Commands[i], want[i]
		if a.Command != b.Command || a.Description != b.Description || a.Niche != b.Niche || a.Pipeline != b.Pipeline ||
			strings.Join(a.Keywords, "\x00") != strings.Join(b.Keywords, "\x00") || strings.Join(a.Tags, "\x00") != strings.Join(b.Tags, "\x00") ||
			strings.Join(a.Platform, "\x00") != strings.Join(b.Platform, "\x00") {
			ok, at = false, i
		}
	}
	if !ok {
		ctx.R.Violate(vlib.Violation{Property: "C03", Clause: "replacement-not-adopted", Path: where,
			Detail:  fmt.Sprintf("after %s with a list of %d entries the database holds %d entries and differs from that list (first difference at entry %d): the searches go on over the previous commands", where, len(want), len(db.Commands), at),
			Witness: map[string]interface{}{"history": append([]string(nil), hist...)}})
	}
}

func c03Twin(ctx *Ctx, db *database.Database, hist []string, q string, where string) {
	N := len(db.Commands)
	if N == 0 {
		return
	}
	o := database.SearchOptions{UseNLP: true, Limit: N + 1, AllPlatforms: true}
	cs := map[string]interface{}{"history": hist, "n": N, "query": q, "opts": vlib.OptsJ(o), "after": where}
	ctx.R.Begin(cs)
	ctx.R.Eval(1)
	var fresh *database.Database
	if !ctx.R.Guard("C03", "LoadDatabase", cs, func() { fresh = vlib.MustLoad(db.Commands) }) {
		return
	}
	ctx.R.Guard("C03", "SearchUniversal", cs, func() {
		refs, stable := vlib.StableRef(5, func() vlib.Ranked { return vlib.Canon(fresh.Commands, fresh.SearchUniversal(q, o)) })
		cand := vlib.Canon(db.Commands, db.SearchUniversal(q, o))
		verdict, why := vlib.CompareToRef(refs, stable, cand, o.Limit)
		switch verdict {
		case "violated":
			ctx.R.Violate(vlib.Violation{Property: "C03", Clause: "stale-reranker", Path: where,
				Detail:  "NLP-on answer after the history differs from a freshly loaded database with the same entries: " + why,
				Witness: map[string]interface{}{"case": cs, "fresh": refs[0], "got": cand}})
		case "inconclusive":
			ctx.R.Inconcl("twin: " + why)
		default:
			if len(cand) > 0 {
				ctx.R.Path("twin-held:"+where, 1)
			}
		}
	})
}

func c03Query(r *rand.Rand, words []string) string {
	nw := 1 + r.Intn(4)
	switch r.Intn(8) {
	case 0:
		nw = 9 + r.Intn(6) // > 10 content words: sandwich mode
	case 1:
		nw = 5 + r.Intn(5)
	}
	q := vlib.GenQuery(r, words, nw, []int{0, 0, 1}[r.Intn(3)])
	if r.Intn(6) == 0 { // repeated content word
		f := strings.Fields(q)
		q += " " + f[r.Intn(len(f))]
	}
	if r.Intn(5) == 0 {
		q = strings.ToUpper(q[:1]) + q[1:]
	}
	if r.Intn(6) == 0 {
		// punctuation glued to a word, in front of it, behind it or around it (!word, word?, (word), +word, ~word, word: ...): to the
		// index as to the scan a punctuation mark is a separator and nothing else
		f := strings.Fields(q)
		for k := 1 + r.Intn(2); k > 0 && len(f) > 0; k-- {
			i := r.Intn(len(f))
			pc := c03Punct[r.Intn(len(c03Punct))]
			switch r.Intn(4) {
			case 0:
				f[i] = pc + f[i]
			case 1:
				f[i] = f[i] + pc
			case 2:
				f[i] = pc + f[i] + c03Punct[r.Intn(len(c03Punct))]
			default:
				f[i] = pc + pc + f[i]
			}
		}
		q = strings.Join(f, " ")
		c03PunctQueries++
	}
	return q
}

var c03PunctQueries, c03PunctSeen int64

func c03NotePunct(ctx *Ctx) {
	if c03PunctQueries > c03PunctSeen {
		ctx.R.Path("requests-with-punctuation-glued-to-a-word", c03PunctQueries-c03PunctSeen)
		c03PunctSeen = c03PunctQueries
	}
}
var c03Punct = []string{"!", "\"", "#", "%", "'", "(", ")", "*", "+", ",", "-", ".", "/", ":", "=", "?", "@", "[", "\\", "]", "^", "_", "`", "{", "}", "~", "--", "!!", "+-", "~~"}

// c03Fallback: the databases the loader hands out when the main database cannot be read (missing file: the built-in list; the
// same with a malformed notebook, and with a malformed main file) answer like an exhaustive scan of their own entries, too.
func c03Fallback(ctx *Ctx, r *rand.Rand) {
	dir := filepath.Join(ctx.Scratch, "c03fb")
	os.MkdirAll(dir, 0o755)
	defer os.RemoveAll(dir)
	bad := filepath.Join(dir, "bad.yml")
	os.WriteFile(bad, []byte("- command: \"broken\n  description: [\n"), 0o644)
	for k, pp := range [][2]string{{filepath.Join(dir, "missing.yml"), filepath.Join(dir, "no-notebook.yml")}, {bad, filepath.Join(dir, "no-notebook.yml")}, {filepath.Join(dir, "missing.yml"), bad}} {
		var db *database.Database
		hist := []string{[]string{"fallback: main database missing", "fallback: main database malformed", "fallback: main database missing, notebook malformed"}[k]}
		if !ctx.R.Guard("C03", "LoadDatabaseWithFallback", hist, func() {
			var err error
			db, err = recovery.NewDatabaseRecovery(recovery.RetryConfig{MaxAttempts: 1}).LoadDatabaseWithFallback(pp[0], pp[1])
			if err != nil {
				panic(err)
			}
		}) || db == nil || len(db.Commands) == 0 {
			continue
		}
		words := vlib.DBWords(db.Commands)
		for i, w := range words {
			if i%ctx.NShards != ctx.Shard {
				continue
			}
			c03Check(ctx, db, hist, w, database.SearchOptions{AllPlatforms: true}, "fallback")
			c03Check(ctx, db, hist, w+" "+vlib.Word(r, words), database.SearchOptions{AllPlatforms: r.Intn(2) == 0}, "fallback")
			ctx.R.Path("fallback-database-requests", 2)
		}
	}
}

func engineIndexScan(ctx *Ctx) {
	r := vlib.NewRand(ctx.Seed, ctx.Shard, "indexscan")
	c03Fallback(ctx, r)
	nHist := ctx.N(640, 32000)
	prevStart, prevKind := time.Now(), "ordinary"
	for h := 0; h < nHist; h++ {
		if h > 0 {
			c18AddExtra(ctx, "cpu_seconds_"+prevKind, time.Since(prevStart).Seconds())
		}
		tH := time.Now()
		hk := "ordinary"
		prevStart, prevKind = tH, "ordinary-histories"
		_ = hk
		sp := dbSpecFor(r, h+ctx.Shard)
		sp.Unicode = h%3 == 0
		sp.MixedCase = h%4 == 0
		if sp.N > 300 {
			sp.N = 300
		}
		base := vlib.GenCommands(r, sp)
		heavyWord := ""
		if g := ctx.G(h); h%24 == (ctx.Shard*5+3)%24 && len(base) > 1 { // (spread evenly over the shards: such entries are slow to scan)
			// an entry that repeats one word tens of thousands of times in one field (a pasted log, a generated list): term
			// frequencies around and beyond 2^16
			K := []int{65535, 65536, 65537, 70000, 66001, 40000}[(g/7)%6]
			w := vlib.Word(r, vlib.DBWords(base))
			i := r.Intn(len(base))
			switch r.Intn(3) {
			case 0:
				base[i].Description = strings.TrimSpace(strings.Repeat(w+" ", K))
			case 1:
				base[i].Command = base[i].Command + " " + strings.TrimSpace(strings.Repeat(w+" ", K))
			default:
				kw := make([]string, K)
				for k := range kw {
					kw[k] = w
				}
				base[i].Keywords = kw
			}
			ctx.R.Path("entries-with-a-word-repeated-around-65536-times", 1)
			hk = "word-repeated"
			_ = hk
			prevKind = "histories-with-a-word-repeated-65536-times"
			heavyWord = w
		}
		var extraWords []string
		if heavyWord != "" {
			extraWords = append(extraWords, heavyWord, heavyWord) // the repeated word is asked for after every step
		}
		if g := ctx.G(h); g%5 == 2 && len(base) > 1 {
			// words that a 32-bit hash cannot tell apart (FNV-1a, FNV-1, CRC-32, Adler-32, djb2): one goes into an entry, the
			// other is asked for (and sometimes sits in another entry) - a term dictionary keyed by such a hash merges them
			pairs := vlib.CollidingWords()
			for k := 0; k < 3 && len(pairs) > 0; k++ {
				pr := pairs[(g/5+k*7)%len(pairs)]
				base[r.Intn(len(base))].Description += " " + pr.A
				if r.Intn(3) == 0 {
					base[r.Intn(len(base))].Keywords = append(base[r.Intn(len(base))].Keywords, pr.B)
				}
				extraWords = append(extraWords, pr.B, pr.A)
			}
			ctx.R.Path("histories-with-hash-colliding-words", 1)
		}
		literal := h%4 == 3 // a database built at run time from plain entries (no loader involved), changed by editing what it holds
		hist := []string{}
		var db *database.Database
		var cdb *database.CachedDatabase
		var mdb *database.MonitoredDatabase
		mainP := filepath.Join(ctx.Scratch, fmt.Sprintf("m%d.yml", h))
		persP := filepath.Join(ctx.Scratch, fmt.Sprintf("p%d.yml", h))
		ok := ctx.R.Guard("C03", "load", sp, func() {
			if literal {
				db = &database.Database{Commands: vlib.StripCaches(base)}
				hist = append(hist, fmt.Sprintf("literal(%d)", len(base)))
				ctx.R.Path("histories-on-run-time-built-databases", 1)
				return
			}
			switch r.Intn(3) {
			case 0:
				db = vlib.MustLoad(base)
				hist = append(hist, fmt.Sprintf("load(%d)", len(base)))
			default:
				pers := vlib.GenCommands(r, vlib.DBSpec{N: r.Intn(6), TieHeavy: true, Platforms: sp.Platforms})
				if r.Intn(3) == 0 && len(base) > 0 { // personal entry duplicating a main entry
					pers = append(pers, base[r.Intn(len(base))])
				}
				vlib.WriteYAML(mainP, base)
				vlib.WriteYAML(persP, pers)
				var err error
				db, err = database.LoadDatabaseWithPersonal(mainP, persP)
				if err != nil {
					panic(err)
				}
				hist = append(hist, fmt.Sprintf("load-with-personal(%d+%d)", len(base), len(pers)))
				if len(db.Commands) != len(base)+len(pers) {
					ctx.R.Violate(vlib.Violation{Property: "C03", Clause: "merge", Path: "LoadDatabaseWithPersonal",
						Detail: fmt.Sprintf("merged database has %d entries, expected %d+%d", len(db.Commands), len(base), len(pers)), Witness: hist})
				}
			}
		})
		os.Remove(mainP)
		os.Remove(persP)
		if !ok || db == nil {
			continue
		}
		mdb = database.NewMonitoredDatabase(db)
		cdb = mdb.CachedDatabase // ONE wrapper stack around the database: replacements through either name invalidate the same cache
		where := "load"
		steps := 1 + r.Intn(6)
		type issued struct {
			q string
			o database.SearchOptions
		}
		var earlier []issued
		viaCache := func(q string, o database.SearchOptions) []database.SearchResult {
			cdb.SearchWithOptionsAndCache(q, o)
			return cdb.SearchWithOptionsAndCache(q, o)
		}
		for s := 0; s < steps; s++ {
			if ws := vlib.DBWords(db.Commands); (s+h)%2 == 0 && len(ws) > 14 {
				// the FIRST request after the step (or on a database that has never searched) is a long one: more distinct words of the
				// database than the term cap keeps - whatever the selection of terms consults has to describe the commands of now
				p := r.Perm(len(ws))
				var qs []string
				for _, i := range p[:12+r.Intn(4)] {
					qs = append(qs, ws[i])
				}
				lq := strings.Join(qs, " ")
				lo := database.SearchOptions{AllPlatforms: true, Limit: len(db.Commands) + 1}
				lcs := map[string]interface{}{"history": hist, "n": len(db.Commands), "query": lq, "opts": vlib.OptsJ(lo), "after": where, "class": "first request after the step"}
				ctx.R.Begin(lcs)
				ctx.R.Eval(1)
				ctx.R.Guard("C03", "SearchUniversal", lcs, func() {
					got := vlib.Canon(db.Commands, db.SearchUniversal(lq, lo))
					// the same entries indexed from scratch: which terms of a long request are kept is decided from the commands of now
					twin := &database.Database{Commands: append([]database.Command(nil), db.Commands...)}
					twin.BuildUniversalIndex()
					want := vlib.Canon(twin.Commands, twin.SearchUniversal(lq, lo))
					if !vlib.Exact(got, want) {
						ctx.R.Violate(vlib.Violation{Property: "C03", Clause: "stale-index", Path: where + "/first-long-request",
							Detail:  fmt.Sprintf("the first request after the step (%d distinct words) is answered differently from the same entries indexed from scratch: %d vs %d results", len(qs), len(got), len(want)),
							Witness: map[string]interface{}{"case": lcs, "got": got, "indexed_from_scratch": want}})
					}
				})
				c03Check(ctx, db, hist, lq, database.SearchOptions{AllPlatforms: true}, where)
				ctx.R.Path("long-first-requests-after-a-step", 1)
			}
			// requests issued (and cached) earlier in the history are asked again: the answer must follow the commands of now
			for i := 0; i < len(earlier) && i < 3; i++ {
				e := earlier[len(earlier)-1-i]
				c03Check(ctx, db, hist, e.q, e.o, where, viaCache)
				ctx.R.Path("earlier-requests-repeated", 1)
			}
			words := vlib.DBWords(db.Commands)
			nq := 2 + r.Intn(3)
			if len(extraWords) > 0 {
				nq += 3
			}
			for k := 0; k < nq; k++ {
				q := c03Query(r, words)
				c03NotePunct(ctx)
				if len(extraWords) > 0 && k >= nq-3 {
					q = extraWords[r.Intn(len(extraWords))]
					if r.Intn(2) == 0 && len(words) > 0 {
						q += " " + vlib.Word(r, words)
					}
				}
				o := database.SearchOptions{AllPlatforms: r.Intn(4) > 0}
				if r.Intn(3) == 0 {
					o.ContextBoosts = map[string]float64{}
					for i := 0; i < 1+r.Intn(3); i++ {
						w := vlib.Word(r, words)
						o.ContextBoosts[w] = []float64{1, 1.5, 2, 3, 10}[r.Intn(5)]
					}
					if toks := vlib.Tokenize(q); r.Intn(2) == 0 && len(toks) > 0 {
						// boost words as a project context supplies them (script and target names, capitalised tool names): they hold a word
						// of the query but are not that word - a boost belongs to the term it names exactly, to no other
						w, w2 := toks[r.Intn(len(toks))], vlib.Word(r, words)
						for i := 0; i < 1+r.Intn(3); i++ {
							k := []string{strings.ToUpper(w), strings.ToUpper(w[:1]) + w[1:], " " + w, w + " ", w + "-" + w2, w2 + ":" + w, w + "_" + w2, w2 + "/" + w, w + "." + w2, w + " " + w2}[r.Intn(10)]
							o.ContextBoosts[k] = []float64{1.5, 2, 3, 10}[r.Intn(4)]
						}
						ctx.R.Path("requests-with-boost-words-that-only-contain-a-query-word", 1)
					}
				}
				if r.Intn(5) == 0 {
					o.TopTermsCap = []int{1, 4, 10, 50}[r.Intn(4)]
				}
				var via func(string, database.SearchOptions) []database.SearchResult
				if r.Intn(3) == 0 { // through the caching wrapper (twice: miss, then possibly a hit)
					via = viaCache
					earlier = append(earlier, issued{q, o})
				}
				c03Check(ctx, db, hist, q, o, where, via)
				if k == 0 && !literal { // (a database that never went through the loader has no loaded twin to be compared with)
					c03Twin(ctx, db, hist, q, where)
				}
			}
			// next history step
			if s == steps-1 {
				break
			}
			if literal { // only plain entries ever enter such a database (nothing the loader prepared)
				ctx.R.Guard("C03", "history-step", hist, func() {
					words := vlib.DBWords(db.Commands)
					reword := func(c *vlib.Cmd) { // new wording, same shape
						switch r.Intn(3) {
						case 0:
							c.Description = vlib.GenQuery(r, words, 2+r.Intn(4), 0) + " " + vlib.RandWord(r)
						case 1:
							c.Command = vlib.Word(r, words) + " --" + vlib.RandWord(r)
						default:
							for k := range c.Keywords {
								c.Keywords = append([]string(nil), c.Keywords...)
								c.Keywords[k] = vlib.RandWord(r)
							}
							for k := range c.Tags {
								c.Tags = append([]string(nil), c.Tags...)
								c.Tags[k] = vlib.Word(r, words)
							}
						}
					}
					kind := r.Intn(4)
					if len(db.Commands) == 0 {
						kind = 3
					}
					switch kind {
					case 0: // the next list is a copy of the entries being searched, some of them reworded
						nl := append([]vlib.Cmd(nil), db.Commands...)
						for k := 0; k < 1+r.Intn(3); k++ {
							reword(&nl[r.Intn(len(nl))])
						}
						cdb.UpdateDatabase(nl)
						hist = append(hist, fmt.Sprintf("UpdateDatabase(copy of the current %d entries, some reworded)", len(nl)))
						where = "UpdateDatabase"
					case 1: // entries edited where they are, then handed over again
						for k := 0; k < 1+r.Intn(3); k++ {
							reword(&db.Commands[r.Intn(len(db.Commands))])
						}
						cdb.UpdateDatabase(db.Commands)
						hist = append(hist, "entries reworded in place, UpdateDatabase(same slice)")
						where = "UpdateDatabase"
					case 2: // a reworded duplicate of an existing entry is appended
						dup := db.Commands[r.Intn(len(db.Commands))]
						reword(&dup)
						db.Commands = append(db.Commands, dup)
						cdb.InvalidateCache() // (the wrapper was not told; answers stored under a limit that stays the same would be stale)
						hist = append(hist, "append(reworded copy of an entry)")
						where = "append"
					default:
						sp2 := sp
						sp2.N = len(db.Commands) + r.Intn(3)
						repl := vlib.StripCaches(vlib.GenCommands(r, sp2))
						cdb.UpdateDatabase(repl)
						hist = append(hist, fmt.Sprintf("UpdateDatabase(%d plain entries)", len(repl)))
						where = "UpdateDatabase"
					}
					ctx.R.Path("steps-deriving-the-next-list-from-the-current-entries", 1)
				})
				continue
			}
			ctx.R.Guard("C03", "history-step", hist, func() {
				switch r.Intn(8) {
				case 7: // the same entries reloaded twice, the second time with words re-filed between their fields
					if len(db.Commands) == 0 {
						return
					}
					l1 := vlib.StripCaches(db.Commands)
					mdb.LoadDatabaseWithMonitoring(vlib.MustLoad(l1).Commands)
					l2 := vlib.StripCaches(db.Commands)
					for k := 0; k < 1+r.Intn(3); k++ {
						c := &l2[r.Intn(len(l2))]
						switch r.Intn(5) {
						case 0: // a keyword becomes a tag
							if len(c.Keywords) > 0 { // (the last keyword becomes the first tag: read one after the other, the words stay as they were)
								c.Tags = append([]string{c.Keywords[len(c.Keywords)-1]}, c.Tags...)
								c.Keywords = append([]string(nil), c.Keywords[:len(c.Keywords)-1]...)
							}
						case 1: // two keywords joined into one word
							if len(c.Keywords) > 1 {
								c.Keywords = append([]string{c.Keywords[0] + c.Keywords[1]}, c.Keywords[2:]...)
							}
						case 2: // the last word of the command moves to the front of the description
							f := strings.Fields(c.Command)
							if len(f) > 1 && strings.HasSuffix(c.Command, f[len(f)-1]) {
								c.Command = strings.TrimSuffix(c.Command, f[len(f)-1])
								c.Description = f[len(f)-1] + c.Description
							}
						case 3: // a tag becomes the category
							if len(c.Tags) > 0 && c.Niche == "" {
								c.Niche = c.Tags[len(c.Tags)-1]
								c.Tags = append([]string(nil), c.Tags[:len(c.Tags)-1]...)
							}
						default: // the description's first word moves to the end of the command
							f := strings.Fields(c.Description)
							if len(f) > 1 {
								c.Command += f[0]
								c.Description = strings.TrimPrefix(c.Description, f[0])
							}
						}
					}
					mdb.LoadDatabaseWithMonitoring(vlib.MustLoad(l2).Commands)
					c03Adopted(ctx, db, l2, hist, "LoadDatabaseWithMonitoring")
					hist = append(hist, fmt.Sprintf("LoadDatabaseWithMonitoring(current %d)", len(l1)), "LoadDatabaseWithMonitoring(same entries, words re-filed between fields)")
					where = "LoadDatabaseWithMonitoring"
					ctx.R.Path("steps-refiling-words-between-fields", 1)
				case 4: // cache switched off / on around whatever comes next
					en := r.Intn(2) == 0
					cdb.EnableCache(en)
					hist = append(hist, fmt.Sprintf("EnableCache(%v)", en))
				case 5: // off, replace, on
					cdb.EnableCache(false)
					sp2 := sp
					sp2.N = len(db.Commands)
					repl := vlib.MustLoad(vlib.GenCommands(r, sp2)).Commands
					cdb.UpdateDatabase(repl)
					cdb.EnableCache(true)
					hist = append(hist, "EnableCache(false)", fmt.Sprintf("UpdateDatabase(%d)", len(repl)), "EnableCache(true)")
					where = "UpdateDatabase"
				case 6: // refresh with a freshly loaded, textually identical list
					if len(db.Commands) > 0 {
						same := vlib.MustLoad(db.Commands).Commands
						cdb.UpdateDatabase(same)
						hist = append(hist, fmt.Sprintf("UpdateDatabase(identical %d)", len(same)))
						where = "UpdateDatabase"
					}
				case 0: // replace through the caching wrapper: same size / smaller / larger
					n := len(db.Commands)
					switch r.Intn(3) {
					case 1:
						n = n / 2
					case 2:
						n = n + 1 + r.Intn(5)
					}
					sp2 := sp
					sp2.N = n
					repl := vlib.MustLoad(vlib.GenCommands(r, sp2)).Commands
					cdb.UpdateDatabase(repl)
					c03Adopted(ctx, db, repl, hist, "UpdateDatabase")
					hist = append(hist, fmt.Sprintf("UpdateDatabase(%d)", len(repl)))
					where = "UpdateDatabase"
				case 1:
					sp2 := sp
					sp2.N = len(db.Commands)
					repl := vlib.MustLoad(vlib.GenCommands(r, sp2)).Commands
					mdb.LoadDatabaseWithMonitoring(repl)
					c03Adopted(ctx, db, repl, hist, "LoadDatabaseWithMonitoring")
					hist = append(hist, fmt.Sprintf("LoadDatabaseWithMonitoring(%d)", len(repl)))
					where = "LoadDatabaseWithMonitoring"
				default: // direct growth of Commands (forces re-allocation)
					k := 1 + r.Intn(4)
					extra := vlib.MustLoad(vlib.GenCommands(r, vlib.DBSpec{N: k, Platforms: sp.Platforms})).Commands
					if r.Intn(3) == 0 {
						// ... or the caller swaps in a list of its own of the same length
						sp2 := sp
						sp2.N = len(db.Commands)
						if repl := vlib.MustLoad(vlib.GenCommands(r, sp2)).Commands; len(repl) == len(db.Commands) {
							db.Commands = repl
							db.BuildUniversalIndex()
							cdb.InvalidateCache() // (the wrapper was not told: its stored answers point into the list that is gone)
							hist = append(hist, fmt.Sprintf("Commands = another list of %d; BuildUniversalIndex()", len(repl)))
							where = "append"
							ctx.R.Path("steps-followed-by-an-explicit-index-build", 1)
							return
						}
					}
					db.Commands = append(db.Commands, extra...)
					cdb.InvalidateCache() // (the wrapper was not told; answers stored under a limit that stays the same would be stale)
					hist = append(hist, fmt.Sprintf("append(%d)", k))
					if r.Intn(2) == 0 { // the caller builds the index itself after changing the list, as the exported method invites to
						db.BuildUniversalIndex()
						hist = append(hist, "BuildUniversalIndex()")
						ctx.R.Path("steps-followed-by-an-explicit-index-build", 1)
					}
					where = "append"
				}
			})
		}
	}
	// shipped database
	if ctx.Shard%2 == 0 {
		db := ctx.Shipped()
		words := vlib.DBWords(db.Commands)
		sort.Strings(words)
		for k := 0; k < ctx.Pick(10, 80); k++ {
			q := c03Query(r, words[:4000])
			c03NotePunct(ctx)
			c03Check(ctx, db, []string{"load(shipped)"}, q, database.SearchOptions{AllPlatforms: r.Intn(3) > 0}, "load-shipped")
		}
	}
}

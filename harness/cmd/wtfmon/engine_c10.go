package main

import (
	"encoding/base64"
	stderrors "errors"
	"fmt"
	"math"
	"math/rand"
	"os"
	"path/filepath"
	"reflect"
	"runtime"
	"strings"
	"time"
	"unicode/utf16"
	"unicode/utf8"

	"github.com/Vedant9500/WTF/internal/database"
	apperrors "github.com/Vedant9500/WTF/internal/errors"
	"github.com/Vedant9500/WTF/internal/recovery"
	"github.com/Vedant9500/WTF/internal/zzverif/vlib"
	"gopkg.in/yaml.v3"
)

func init() {
	engines["totality"] = engineTotality
	engines["totality-cli"] = engineTotalityCLI
	c10HostileStrings = append(c10HostileStrings, vlib.OddCaseWords...) // case mappings that change the encoded length
}

var c10HostileStrings = []string{"\x00", "a\x00b", "\x00\x00\x00", "\xff", "\xc3\x28", "\xed\xa0\x80", "\xf4\x90\x80\x80", "e\u0301\u0301\u0301", "\u202e", "\ufeff",
	"(", "[a-", "\\", "*+?", "{{.Names}}", "%s%d%!", "$(rm)", "'; --", "\r\n", "\t", "\u0085", "\u2028", "İ", "\u212a", "ſ", "ß", "ǅ", "😀", strings.Repeat("a", 1000),
	strings.Repeat("é", 500), strings.Repeat("ab ", 333), strings.Repeat("\x00", 50), strings.Repeat("日本", 300), "-", "--", "- -", "a", "", " ", "  x  "}

func c10Query(r *rand.Rand, words []string) string {
	switch r.Intn(6) {
	case 0:
		return c10HostileStrings[r.Intn(len(c10HostileStrings))]
	case 1:
		return vlib.GenQuery(r, words, 1+r.Intn(3), 0) + c10HostileStrings[r.Intn(len(c10HostileStrings))]
	case 2:
		b := make([]byte, 1+r.Intn(40))
		for i := range b {
			b[i] = byte(r.Intn(256))
		}
		return string(b)
	case 3:
		return vlib.GenQuery(r, words, 1+r.Intn(14), 1)
	default:
		return vlib.GenQuery(r, words, 1+r.Intn(3), []int{0, 2}[r.Intn(2)])
	}
}

func c10Options(r *rand.Rand) database.SearchOptions {
	big := []int{0, 1, 5, -1, math.MinInt32, math.MaxInt32, 1 << 40, 1 << 62, math.MaxInt64, math.MinInt64}
	o := database.SearchOptions{
		Limit:          big[r.Intn(len(big))],
		UseNLP:         r.Intn(2) == 0,
		UseFuzzy:       r.Intn(2) == 0,
		FuzzyThreshold: []int{0, -30, 1, math.MaxInt32, math.MinInt32, math.MaxInt64, math.MinInt64}[r.Intn(7)],
		PipelineOnly:   r.Intn(5) == 0,
		PipelineBoost:  []float64{0, 2, -1, math.Inf(1), math.NaN(), 1e308, 5e-324}[r.Intn(7)],
		TopTermsCap:    []int{0, 1, -5, math.MaxInt64, math.MinInt64}[r.Intn(5)],
		AllPlatforms:   r.Intn(2) == 0,
	}
	if r.Intn(3) == 0 {
		o.Platforms = []string{c10HostileStrings[r.Intn(len(c10HostileStrings))], "linux"}
	}
	o.NoCrossPlatform = r.Intn(4) == 0
	if r.Intn(3) == 0 {
		o.ContextBoosts = map[string]float64{"git": []float64{math.NaN(), math.Inf(1), -1, 0, 1e308}[r.Intn(5)], "": 2, "\x00": 3}
	}
	return o
}

// c10Watch runs f with a watchdog. Returns false when f did not return within d.
func c10Watch(d time.Duration, f func()) bool {
	done := make(chan struct{})
	go func() {
		defer close(done)
		f()
	}()
	select {
	case <-done:
		return true
	case <-time.After(d):
		return false
	}
}

type c10File struct {
	Class    string
	Content  []byte
	Expected []vlib.Cmd // non-nil for well-formed lists
	MustFail bool       // content that cannot be decoded as a list of entries
}

func c10Entries(r *rand.Rand, hostile bool) []vlib.Cmd {
	sp := vlib.DBSpec{N: 1 + r.Intn(12), TieHeavy: r.Intn(2) == 0, Platforms: r.Intn(3), Unicode: true, Pipelines: true, Hostile: hostile, MixedCase: true}
	return vlib.StripCaches(vlib.GenCommands(r, sp))
}

func c10GenFile(r *rand.Rand, k int) c10File {
	switch k % 13 {
	case 0: // block layout, every string double-quoted with full escaping (well-formed by construction), hostile strings included
		e := c10Entries(r, true)
		return c10File{Class: "wellformed-block", Content: c10Emit(e, false), Expected: e}
	case 1: // flow layout
		e := c10Entries(r, r.Intn(2) == 0)
		if r.Intn(2) == 0 {
			i := r.Intn(len(e))
			e[i].Command += []string{"\x00", "\x00tail", "\x07", "\u0085", "\ufffe"}[r.Intn(5)]
			e[i].Description = []string{"\x00", "desc\x00", "a\x00b c"}[r.Intn(3)] + e[i].Description
		}
		return c10File{Class: "wellformed-flow", Content: c10Emit(e, true), Expected: e}
	case 12: // the same by-construction document encoded as UTF-16 with a byte-order mark (what PowerShell `>` or Notepad "Unicode" writes)
		e := c10Entries(r, false)
		for i := range e { // valid UTF-8 only: the document is transcoded
			if !utf8.ValidString(e[i].Command + e[i].Description + strings.Join(e[i].Keywords, "") + strings.Join(e[i].Tags, "") + e[i].Niche + strings.Join(e[i].Platform, "")) {
				e[i] = vlib.Cmd{Command: "plain", Description: "entry"}
			}
		}
		doc := []rune(string(c10Emit(e, r.Intn(2) == 0)))
		le := r.Intn(2) == 0
		var b []byte
		put := func(u uint16) {
			if le {
				b = append(b, byte(u), byte(u>>8))
			} else {
				b = append(b, byte(u>>8), byte(u))
			}
		}
		put(0xFEFF)
		for _, u := range utf16.Encode(doc) {
			put(u)
		}
		return c10File{Class: "wellformed-utf16", Content: b, Expected: e}
	case 2: // anchors and aliases, literal scalars
		txt := "- &a\n  command: \"tar -czf x.tgz dir\"\n  description: |\n    compress a directory\n    second line\n  keywords: &k [tar, compress]\n- *a\n- command: 'it''s'\n  description: >-\n    folded\n    text\n  keywords: *k\n  pipeline: yes\n"
		e := []vlib.Cmd{{Command: "tar -czf x.tgz dir", Description: "compress a directory\nsecond line\n", Keywords: []string{"tar", "compress"}},
			{Command: "tar -czf x.tgz dir", Description: "compress a directory\nsecond line\n", Keywords: []string{"tar", "compress"}},
			{Command: "it's", Description: "folded text", Keywords: []string{"tar", "compress"}, Pipeline: true}}
		return c10File{Class: "wellformed-anchors", Content: []byte(txt), Expected: e}
	case 3: // wrong shapes: cannot be decoded as a list of entries
		txt := []string{"command: x\ndescription: y\n", "just a scalar", "- a\n- b\n", "- [1, 2]\n- [3]\n", "- command: [1,2]\n", "- command: {a: b}\n",
			"- keywords: notalist\n  command: x\n", "42", "- pipeline: maybe\n  command: x\n", "? [a]\n: b\n",
			// undecodable content whose text resembles operating-system error messages (the decoder quotes scalars in its errors)
			"- keywords: \"no such file or directory\"\n  command: x\n", "- command: x\n  pipeline: \"permission denied\"\n", "no such file or directory", "- command: x\n  tags: permission denied\n"}[r.Intn(14)]
		return c10File{Class: "wrong-shape", Content: []byte(txt), MustFail: true}
	case 4: // syntactically damaged
		txt := []string{"- command: \"unterminated\n", "- command: x\n   description: bad indent\n  keywords: [a\n", "\t- tab\n", "- {command: x", "%YAML 9.9\n---\n- a: b\n  - c\n",
			"- command: x\n- command: y\n  : z\n :", "[[[[[", "- *unknown\n", "- command: !!binary \"not base64!!\"\n", "- command: \"\\xZZ\"\n"}[r.Intn(10)]
		return c10File{Class: "damaged", Content: []byte(txt), MustFail: true}
	case 5: // deep nesting / alias bombs
		switch r.Intn(3) {
		case 0:
			return c10File{Class: "deep", Content: []byte(strings.Repeat("[", 10000+r.Intn(5000))), MustFail: true}
		case 1:
			var b strings.Builder
			b.WriteString("a0: &a0 [x,x,x,x,x,x,x,x,x]\n")
			for i := 1; i < 12; i++ {
				fmt.Fprintf(&b, "a%d: &a%d [*a%d,*a%d,*a%d,*a%d,*a%d,*a%d,*a%d,*a%d,*a%d]\n", i, i, i-1, i-1, i-1, i-1, i-1, i-1, i-1, i-1, i-1)
			}
			return c10File{Class: "alias-bomb", Content: []byte(b.String()), MustFail: true}
		default:
			return c10File{Class: "deep", Content: []byte(strings.Repeat("- ", 3000) + "x"), MustFail: true}
		}
	case 6: // what the YAML encoder writes for hostile entries (as `wtf save` would); only totality is asserted
		b, _ := yaml.Marshal(c10Entries(r, true))
		return c10File{Class: "encoder-output", Content: b}
	case 7: // mutations of a valid file: byte flips, truncation, splices
		e := c10Entries(r, false)
		b, _ := yaml.Marshal(e)
		switch r.Intn(3) {
		case 0:
			for i := 0; i < 1+r.Intn(4) && len(b) > 0; i++ {
				b[r.Intn(len(b))] = byte(r.Intn(256))
			}
		case 1:
			if len(b) > 0 {
				b = b[:r.Intn(len(b))]
			}
		default:
			if len(b) > 4 {
				i, j := r.Intn(len(b)), r.Intn(len(b))
				if i > j {
					i, j = j, i
				}
				b = append(append(append([]byte{}, b[:i]...), b[j:]...), b[i:j]...)
			}
		}
		return c10File{Class: "mutated", Content: b}
	case 8: // random bytes
		b := make([]byte, r.Intn(400))
		for i := range b {
			b[i] = byte(r.Intn(256))
		}
		return c10File{Class: "random-bytes", Content: b}
	case 9: // odd but legal documents
		txt := []string{"", "[]", "null", "---\n", "- {}\n", "- command: ~\n  description: null\n  keywords: ~\n", "# only a comment\n", "- command: 123\n  description: true\n  keywords: [1, 2.5, null, true]\n",
			"- command: x\n  unknown_field: y\n", "\ufeff- command: bom\n"}[r.Intn(10)]
		return c10File{Class: "odd-legal", Content: []byte(txt)}
	case 10: // many entries, hostile, larger
		sp := vlib.DBSpec{N: 100 + r.Intn(200), TieHeavy: true, Platforms: 1, Unicode: true, Pipelines: true, Hostile: true}
		e := vlib.StripCaches(vlib.GenCommands(r, sp))
		return c10File{Class: "wellformed-large-hostile", Content: c10Emit(e, false), Expected: e}
	default: // entries whose strings are taken from the hostile pool only
		var e []vlib.Cmd
		for i := 0; i < 1+r.Intn(6); i++ {
			h := func() string { return c10HostileStrings[r.Intn(len(c10HostileStrings))] }
			e = append(e, vlib.Cmd{Command: h(), Description: h(), Keywords: []string{h(), h()}, Tags: []string{h()}, Niche: h(), Platform: []string{h()}})
		}
		return c10File{Class: "wellformed-hostile-only", Content: c10Emit(e, r.Intn(2) == 0), Expected: e}
	}
}

// c10YQ renders a string as a YAML scalar that is well-formed by construction:
// double-quoted with every non-printable-ASCII rune escaped; invalid UTF-8 as !!binary.
func c10YQ(s string) string {
	if !utf8.ValidString(s) {
		return "!!binary " + base64.StdEncoding.EncodeToString([]byte(s))
	}
	var b strings.Builder
	b.WriteByte('"')
	for _, r := range s {
		switch {
		case r == '"':
			b.WriteString("\\\"")
		case r == '\\':
			b.WriteString("\\\\")
		case r >= 0x20 && r < 0x7f:
			b.WriteRune(r)
		case r < 0x100:
			fmt.Fprintf(&b, "\\x%02x", r)
		case r < 0x10000:
			fmt.Fprintf(&b, "\\u%04x", r)
		default:
			fmt.Fprintf(&b, "\\U%08x", r)
		}
	}
	b.WriteByte('"')
	return b.String()
}

func c10YList(xs []string) string {
	q := make([]string, len(xs))
	for i, x := range xs {
		q[i] = c10YQ(x)
	}
	return "[" + strings.Join(q, ", ") + "]"
}

// c10Emit writes entries in block or flow layout.
func c10Emit(e []vlib.Cmd, flow bool) []byte {
	var b strings.Builder
	if flow {
		b.WriteString("[")
	}
	for i, c := range e {
		if flow {
			if i > 0 {
				b.WriteString(", ")
			}
			fmt.Fprintf(&b, "{command: %s, description: %s, keywords: %s, tags: %s, niche: %s, platform: %s, pipeline: %v}",
				c10YQ(c.Command), c10YQ(c.Description), c10YList(c.Keywords), c10YList(c.Tags), c10YQ(c.Niche), c10YList(c.Platform), c.Pipeline)
			continue
		}
		fmt.Fprintf(&b, "- command: %s\n  description: %s\n  keywords: %s\n", c10YQ(c.Command), c10YQ(c.Description), c10YList(c.Keywords))
		if len(c.Tags) > 0 {
			fmt.Fprintf(&b, "  tags:\n")
			for _, t := range c.Tags {
				fmt.Fprintf(&b, "    - %s\n", c10YQ(t))
			}
		}
		if c.Niche != "" {
			fmt.Fprintf(&b, "  niche: %s\n", c10YQ(c.Niche))
		}
		if len(c.Platform) > 0 {
			fmt.Fprintf(&b, "  platform: %s\n", c10YList(c.Platform))
		}
		fmt.Fprintf(&b, "  pipeline: %v\n", c.Pipeline)
	}
	if flow {
		b.WriteString("]\n")
	}
	if len(e) == 0 && !flow {
		return []byte("[]\n")
	}
	return []byte(b.String())
}

func c10SameEntries(a, b []vlib.Cmd) (bool, string) {
	if len(a) != len(b) {
		return false, fmt.Sprintf("%d entries loaded, %d written", len(b), len(a))
	}
	norm := func(x []string) []string {
		if len(x) == 0 {
			return nil
		}
		return x
	}
	for i := range a {
		x, y := a[i], b[i]
		if x.Command != y.Command || x.Description != y.Description || x.Niche != y.Niche || x.Pipeline != y.Pipeline ||
			!reflect.DeepEqual(norm(x.Keywords), norm(y.Keywords)) || !reflect.DeepEqual(norm(x.Tags), norm(y.Tags)) || !reflect.DeepEqual(norm(x.Platform), norm(y.Platform)) {
			return false, fmt.Sprintf("entry %d differs: wrote %s, loaded %s", i, vlib.Q(vlib.Trunc(fmt.Sprintf("%+v", x), 200)), vlib.Q(vlib.Trunc(fmt.Sprintf("%+v", y), 200)))
		}
	}
	return true, ""
}

func engineTotality(ctx *Ctx) {
	r := vlib.NewRand(ctx.Seed, ctx.Shard, "totality")
	nFiles := ctx.N(3200, 96000)
	nQ := ctx.Pick(8, 10)
	budget := 30 * time.Second
	notFound := apperrors.NewDatabaseNotFoundError("x", nil)
	parseErr := apperrors.NewDatabaseParseError("x", nil)
	msgClass := func(e *apperrors.AppError) string { // message with the path removed
		return strings.SplitN(e.Message, ":", 2)[0]
	}
	// missing file -> not-found
	ctx.R.Guard("C10", "LoadDatabase", "missing", func() {
		for _, p := range []string{filepath.Join(ctx.Scratch, "does-not-exist.yml"), filepath.Join(ctx.Scratch, "no", "such", "dir", "x.yml")} {
			_, err := database.LoadDatabase(p)
			var ae *apperrors.AppError
			ctx.R.Eval(1)
			ctx.R.Path("missing-file", 1)
			if err == nil || !stderrors.As(err, &ae) || msgClass(ae) != msgClass(notFound) {
				ctx.R.Violate(vlib.Violation{Property: "C10", Clause: "missing-not-reported-as-not-found", Path: "LoadDatabase",
					Detail: fmt.Sprintf("loading a missing path returned %v", err), Witness: p})
			}
		}
	})
	c10BigFiles(ctx, r)
	c10ByteRuns(ctx, r)
	c10FewerRows(ctx, r)
	t0 := time.Now()
	c10DictQueries(ctx, r, budget)
	c18AddExtra(ctx, "cpu_seconds_dictionary_queries", time.Since(t0).Seconds())
	defer runtime.GOMAXPROCS(runtime.GOMAXPROCS(0))
	for k := 0; k < nFiles; k++ {
		f := c10GenFile(r, k+ctx.Shard)
		runtime.GOMAXPROCS(c10Procs[0])
		if g := ctx.G(k); g%16 == 3 {
			// well-formed lists of sizes around the powers of two up to the shipped database's size, loaded and searched
			// under the processor counts of small and large machines (index construction and scoring may be split by size and by processor count)
			f = c10SizedFile(r, g/16)
			procs := c10Procs[(g/16)%len(c10Procs)]
			runtime.GOMAXPROCS(procs)
			f.Class = "wellformed-sized"
			ctx.R.Path(fmt.Sprintf("sized-procs-%d", procs), 1)
			if len(f.Expected) > 2048 {
				ctx.R.Path("sized-over-2048", 1)
			}
			if len(f.Expected) > 4096 {
				ctx.R.Path("sized-over-4096", 1)
			}
		}
		if g := ctx.G(k); g%64 == 11 {
			// a well-formed block list of a few hundred KiB whose later entries refer back to values named in the first ones
			// (anchors and aliases): what an entry means depends on text far above it
			f = c10AnchoredFile(vlib.NewRand(ctx.Seed, g, "totality-anchored"))
			ctx.R.Path("large-files-with-anchors-and-aliases", 1)
		}
		tFile := time.Now()
		p := filepath.Join(ctx.Scratch, fmt.Sprintf("f%d.yml", k))
		os.WriteFile(p, f.Content, 0o644)
		cs := map[string]interface{}{"class": f.Class, "file_hex": fmt.Sprintf("%x", vlib.Trunc(string(f.Content), 1500)), "file_len": len(f.Content)}
		ctx.R.Begin(cs)
		ctx.R.Eval(1)
		var db *database.Database
		var err error
		returned := c10Watch(budget, func() {
			ctx.R.Guard("C10", "LoadDatabase", cs, func() { db, err = database.LoadDatabase(p) })
		})
		if !returned {
			ctx.R.Inconcl("watchdog: LoadDatabase")
			if !c10Watch(5*budget, func() { ctx.R.Guard("C10", "LoadDatabase", cs, func() { database.LoadDatabase(p) }) }) {
				ctx.R.Violate(vlib.Violation{Property: "C10", Clause: "hang", Path: "LoadDatabase", Detail: "LoadDatabase did not return within 5x the budget when re-run alone", Witness: cs})
				ctx.R.Write()
				os.Exit(0)
			}
			os.Remove(p)
			continue
		}
		if k%3 == 1 {
			// the loader the search command uses (retry, then fallbacks) on the same content, with whatever lies in <file>.backup
			// beside it: it returns a usable database or an error, never neither
			bk := [][]byte{nil, {}, []byte("[]\n"), []byte("# nothing here\n"), []byte("null\n"), f.Content, []byte("- command: ok\n  description: from the backup\n"), []byte("{{{")}[(k/3)%8]
			if bk != nil {
				os.WriteFile(p+".backup", bk, 0o644)
			}
			main := p
			if (k/3)%2 == 1 {
				main = p + ".missing"
				os.WriteFile(main+".backup", bk, 0o644)
			}
			var fdb *database.Database
			var ferr error
			okF := c10Watch(budget, func() {
				ctx.R.Guard("C10", "LoadDatabaseWithFallback", cs, func() {
					fdb, ferr = recovery.NewDatabaseRecovery(recovery.RetryConfig{MaxAttempts: 1}).LoadDatabaseWithFallback(main, p+".no-notebook")
					if fdb != nil {
						fdb.SearchUniversal("list files", database.SearchOptions{Limit: 3, UseNLP: true, UseFuzzy: true})
					}
				})
			})
			ctx.R.Path("calls-LoadDatabaseWithFallback", 1)
			if okF && fdb == nil && ferr == nil {
				ctx.R.Violate(vlib.Violation{Property: "C10", Clause: "nil-database", Path: "LoadDatabaseWithFallback",
					Detail: fmt.Sprintf("neither a database nor an error (main file class %s, backup content %q)", f.Class, vlib.Trunc(string(bk), 40)), Witness: cs})
			}
			os.Remove(p + ".backup")
			os.Remove(main + ".backup")
		}
		os.Remove(p)
		ctx.R.Path("files-"+f.Class, 1)
		if err != nil {
			var ae *apperrors.AppError
			if !stderrors.As(err, &ae) || msgClass(ae) != msgClass(parseErr) {
				ctx.R.Violate(vlib.Violation{Property: "C10", Clause: "undecodable-not-reported-as-parse-error", Path: "LoadDatabase",
					Detail: fmt.Sprintf("content that does not decode was reported as: %v", vlib.Trunc(fmt.Sprint(err), 300)), Witness: cs})
			}
			if f.Expected != nil {
				ctx.R.Violate(vlib.Violation{Property: "C10", Clause: "wellformed-list-rejected", Path: "LoadDatabase",
					Detail: fmt.Sprintf("a well-formed list of %d entries does not load: %v", len(f.Expected), vlib.Trunc(fmt.Sprint(err), 300)), Witness: cs})
			}
			ctx.R.Path("load-error", 1)
			continue
		}
		if f.MustFail {
			ctx.R.Violate(vlib.Violation{Property: "C10", Clause: "undecodable-content-accepted", Path: "LoadDatabase",
				Detail: fmt.Sprintf("content that is not a list of command entries loaded without error (%d entries)", len(db.Commands)), Witness: cs})
		}
		if db == nil {
			ctx.R.Violate(vlib.Violation{Property: "C10", Clause: "nil-database", Path: "LoadDatabase", Detail: "nil database with nil error", Witness: cs})
			continue
		}
		if f.Expected != nil {
			if ok, why := c10SameEntries(f.Expected, db.Commands); !ok {
				ctx.R.Violate(vlib.Violation{Property: "C10", Clause: "wellformed-list-loaded-differently", Path: "LoadDatabase", Detail: why, Witness: cs})
			}
			ctx.R.Nontriv(f.Class, string(f.Content))
		}
		ctx.R.Path("load-ok", 1)
		words := vlib.DBWords(db.Commands)
		cdb := database.NewCachedDatabase(db)
		mdb := database.NewMonitoredDatabase(db)
		sr := recovery.NewSearchRecovery()
		nQf := nQ
		if f.Class == "wellformed-sized" || f.Class == "wellformed-large-with-aliases" {
			nQf = 1
		}
		// two more requests per file from a stream of their own: plain words of the file under a small limit, with typo tolerance,
		// and with boosts on the request's own words that damp instead of raise (0, tiny, below one, negative) - the scores an entry
		// point compares with its "good enough" thresholds then fall on the other side
		r3 := vlib.NewRand(ctx.Seed, ctx.G(k), "totality-damped")
		for qi := 0; qi < nQf+2; qi++ {
			var q string
			var o database.SearchOptions
			if qi < nQf {
				q = c10Query(r, words)
				o = c10Options(r)
			} else {
				q = vlib.GenQuery(r3, words, 1+r3.Intn(2), 0)
				o = database.SearchOptions{Limit: 1 + r3.Intn(3), UseFuzzy: true, UseNLP: r3.Intn(2) == 0, AllPlatforms: true, ContextBoosts: map[string]float64{}}
				for _, w := range strings.Fields(q) {
					f := []float64{0, 1e-9, 0.001, 0.3, 0.5, -2}[r3.Intn(6)]
					o.ContextBoosts[w] = f
					o.ContextBoosts[strings.ToLower(w)] = f
				}
				ctx.R.Path("requests-with-damping-boosts-on-their-own-words", 1)
			}
			qcs := map[string]interface{}{"class": f.Class, "file_hex": cs["file_hex"], "query_hex": fmt.Sprintf("%x", q), "opts": fmt.Sprintf("%+v", o)}
			calls := []struct {
				name string
				f    func()
			}{
				{"SearchUniversal", func() { db.SearchUniversal(q, o) }},
				{"Search", func() { db.Search(q, o.Limit) }},
				{"SearchWithPipelineOptions", func() { db.SearchWithPipelineOptions(q, o) }},
				{"SearchWithOptions", func() { db.SearchWithOptions(q, o) }},
				{"SearchWithFuzzy", func() { db.SearchWithFuzzy(q, o) }},
				{"SearchWithNLP", func() { db.SearchWithNLP(q, o) }},
				{"SearchWithOptionsAndCache", func() { cdb.SearchWithOptionsAndCache(q, o); cdb.SearchWithOptionsAndCache(q, o) }},
				{"SearchWithOptionsAndMonitoring", func() { mdb.SearchWithOptionsAndMonitoring(q, o); mdb.SearchWithMonitoring(q, o.Limit) }},
				{"GetSuggestions", func() { db.GetSuggestions(q, []int{0, 3, -1, math.MaxInt64}[r.Intn(4)]) }},
				{"RecoverFromSearchFailure", func() { sr.RecoverFromSearchFailure(q, nil, db) }},
			}
			qbase := qcs
			for _, c := range calls {
				qcs := map[string]interface{}{"entry": c.name}
				for k, v := range qbase {
					qcs[k] = v
				}
				ctx.R.Begin(qcs)
				ctx.R.Eval(1)
				ctx.R.Path("calls-"+c.name, 1)
				call := c
				if !c10Watch(budget, func() { ctx.R.Guard("C10", call.name, qcs, call.f) }) {
					ctx.R.Inconcl("watchdog: " + c.name)
					if !c10Watch(5*budget, func() { ctx.R.Guard("C10", call.name, qcs, call.f) }) {
						ctx.R.Violate(vlib.Violation{Property: "C10", Clause: "hang", Path: c.name, Detail: "call did not return within 5x the budget when re-run alone", Witness: qcs})
						ctx.R.Write()
						os.Exit(0)
					}
				}
			}
		}
		c18AddExtra(ctx, "cpu_seconds_"+f.Class, time.Since(tFile).Seconds())
		if k < 3 {
			ctx.R.Sample(map[string]interface{}{"class": f.Class, "file": vlib.Trunc(string(f.Content), 300), "entries": len(db.Commands)})
		}
	}
}

// processor counts a user's machine may have (the first is this machine's)
var c10Procs = []int{runtime.NumCPU(), 1, 2, 3, 4, 6, 8, 12, 24, 32, 48, 64, 96, 128, 192, 256}

// c10AnchoredFile: 2600-4200 entries in block layout (300-700 KiB). The first two entries name their platform and keyword
// lists (&pl, &kw); entries further down - the last one among them - use the aliases.
func c10AnchoredFile(r *rand.Rand) c10File {
	n := 2600 + r.Intn(1600)
	pl := [][]string{{"linux", "macos"}, {"windows"}, {"linux", "macos", "windows"}}[r.Intn(3)]
	kw := []string{"alpha" + fmt.Sprint(r.Intn(100)), "shared", "list"}
	step := 40 + r.Intn(60)
	var b strings.Builder
	var exp []vlib.Cmd
	for i := 0; i < n; i++ {
		c := vlib.Cmd{Command: fmt.Sprintf("tool%d --flag%d value", i, r.Intn(1000)), Description: fmt.Sprintf("entry number %d of a long list, padded so that the file is a few hundred KiB in all", i),
			Keywords: []string{fmt.Sprintf("kw%d", i), "padded"}, Platform: []string{"linux"}}
		fmt.Fprintf(&b, "- command: %s\n  description: %s\n", c10YQ(c.Command), c10YQ(c.Description))
		switch {
		case i == 0:
			c.Platform = pl
			fmt.Fprintf(&b, "  keywords: %s\n  platform: &pl %s\n", c10YList(c.Keywords), c10YList(pl))
		case i == 1:
			c.Keywords = kw
			fmt.Fprintf(&b, "  keywords: &kw %s\n  platform: %s\n", c10YList(kw), c10YList(c.Platform))
		case i%step == 7 || i == n-1:
			c.Platform = pl
			c.Keywords = kw
			fmt.Fprintf(&b, "  keywords: *kw\n  platform: *pl\n")
		default:
			fmt.Fprintf(&b, "  keywords: %s\n  platform: %s\n", c10YList(c.Keywords), c10YList(c.Platform))
		}
		exp = append(exp, c)
	}
	return c10File{Class: "wellformed-large-with-aliases", Content: []byte(b.String()), Expected: exp}
}

// c10SizedFile: a plain well-formed list whose length is near a power of two (just above it in most cases) or anywhere up to 7000.
func c10SizedFile(r *rand.Rand, k int) c10File {
	var n int
	switch k % 4 {
	case 0:
		n = []int{256, 512, 1024, 2048, 4096}[r.Intn(5)] + 1 + r.Intn(40)
	case 1:
		n = []int{512, 1024, 2048, 4096}[r.Intn(4)] + r.Intn(500)
	case 2:
		n = 300 + r.Intn(1200)
	default:
		n = 500 + r.Intn(6500)
	}
	sp := vlib.DBSpec{N: n, TieHeavy: r.Intn(2) == 0, Platforms: r.Intn(3), Pipelines: true}
	e := vlib.StripCaches(vlib.GenCommands(r, sp))
	return c10File{Content: c10Emit(e, false), Expected: e}
}

// c10DictQueries: every string constant of the tree under test (see vlib.SourceDict), in systematic variants, as a query
// with the query analysis on and off. The list is walked exhaustively, divided over the shards.
func c10DictQueries(ctx *Ctx, r *rand.Rand, budget time.Duration) {
	d := ctx.Dict()
	db := vlib.MustLoad(vlib.GenCommands(r, vlib.DBSpec{N: 25, TieHeavy: true, Platforms: 1, Pipelines: true}))
	cdb := database.NewCachedDatabase(db)
	lits := append(append([]string{}, d.Phrases...), d.Words...)
	ctx.R.Extra["dictionary_literals"] = float64(len(lits))
	extra := ctx.Pick(2, 12)
	for i, lit := range lits {
		if i%ctx.NShards != ctx.Shard {
			continue
		}
		for _, q := range d.Variants(r, lit, extra) {
			for _, nlpOn := range []bool{true, false} {
				o := database.SearchOptions{Limit: 5, UseNLP: nlpOn, UseFuzzy: r.Intn(2) == 0, AllPlatforms: true}
				qcs := map[string]interface{}{"class": "dictionary-query", "literal": lit, "query": q, "query_hex": fmt.Sprintf("%x", q), "opts": fmt.Sprintf("%+v", o)}
				ctx.R.Begin(qcs)
				ctx.R.Eval(1)
				ctx.R.Path("dictionary-queries", 1)
				if !c10Watch(budget, func() {
					ctx.R.Guard("C10", "SearchUniversal", qcs, func() { db.SearchUniversal(q, o) })
					ctx.R.Guard("C10", "SearchWithNLP", qcs, func() { db.SearchWithNLP(q, o) })
					ctx.R.Guard("C10", "SearchWithOptionsAndCache", qcs, func() { cdb.SearchWithOptionsAndCache(q, o) })
					ctx.R.Guard("C10", "GetSuggestions", qcs, func() { db.GetSuggestions(q, 3) })
				}) {
					ctx.R.Inconcl("watchdog: dictionary query")
				}
			}
			ctx.R.Nontriv("dict", q)
		}
	}
}

// engineTotalityCLI: the built binary loading generated well-formed (and damaged) files and answering queries in every output
// format, verbose or not: a normal exit, no panic, no signal, whatever texts the entries hold (wide, combining, multi-byte,
// control characters).
func engineTotalityCLI(ctx *Ctx) {
	r := vlib.NewRand(ctx.Seed, ctx.Shard, "totality-cli")
	n := ctx.N(256, 6400)
	base := filepath.Join(ctx.Scratch, "c10cli")
	h := NewHome(base)
	defer os.RemoveAll(base)
	wide := []string{"日本語のコマンド名はとても長いですがルーンの数は少ないです", "файловая-система-команда-для-поиска-и-замены-текста", "αρχείο-συμπίεσης-και-αποσυμπίεσης-δεδομένων",
		"emoji 😀😀😀😀😀😀😀😀😀😀😀😀😀😀😀😀😀😀 tool", "e\u0301\u0301\u0301\u0301 combining marks e\u0301e\u0301e\u0301e\u0301e\u0301e\u0301e\u0301e\u0301e\u0301e\u0301e\u0301e\u0301e\u0301e\u0301e\u0301", "ＦＵＬＬ　ＷＩＤＴＨ　ｃｏｍｍａｎｄ　ｎａｍｅ　ｈｅｒｅ　ｘｙｚ",
		"żółć gęślą jaźń zażółć gęślą jaźń ąęśćżź", "tab\there\tand\tthere", "\u202eright-to-left override text here for the table", strings.Repeat("é", 46), strings.Repeat("ab", 23) + "é"}
	for k := 0; k < n; k++ {
		f := c10GenFile(r, []int{0, 1, 10, 11, 0, 1, 6, 7}[k%8])
		var words []string
		if f.Expected != nil {
			e := append([]vlib.Cmd(nil), f.Expected...)
			// texts whose byte length and character count are far apart, in the fields the formats cut or align
			for i := 0; i < 1+r.Intn(3) && len(e) > 0; i++ {
				j := r.Intn(len(e))
				w := wide[r.Intn(len(wide))]
				switch r.Intn(4) {
				case 0:
					e[j].Command = w
				case 1:
					e[j].Command = w + " " + e[j].Command
				case 2:
					e[j].Niche = w
				default:
					e[j].Description = w + " " + e[j].Description
				}
				e[j].Keywords = append(append([]string(nil), e[j].Keywords...), "findme")
			}
			f.Content = c10Emit(e, k%2 == 0)
			words = vlib.DBWords(e)
		}
		p := filepath.Join(base, "db.yml")
		os.WriteFile(p, f.Content, 0o644)
		os.Remove(p + ".backup")
		os.Remove(filepath.Join(base, "gone.yml.backup"))
		if k%5 == 4 { // the database file is gone and something lies in <file>.backup
			p = filepath.Join(base, "gone.yml")
			os.WriteFile(p+".backup", [][]byte{{}, []byte("[]\n"), []byte("# empty\n"), f.Content}[(k/5)%4], 0o644)
			ctx.R.Path("cli-runs-with-a-backup-file-only", 1)
		}
		for _, format := range []string{"list", "table", "json"} {
			q := "findme"
			if len(words) > 0 && r.Intn(2) == 0 {
				q = vlib.GenQuery(r, words, 1+r.Intn(2), []int{0, 0, 2}[r.Intn(3)])
			}
			if strings.TrimSpace(q) == "" || strings.ContainsAny(q, "<>|&;$\x00") {
				q = "findme"
			}
			args := []string{"--database", p, "--format", format, "--limit", fmt.Sprint([]int{1, 5, 50}[r.Intn(3)]), "--all-platforms"}
			if r.Intn(2) == 0 {
				args = append(args, "-v")
			}
			args = append(args, "--", q)
			cs := map[string]interface{}{"class": f.Class, "file_hex": fmt.Sprintf("%x", vlib.Trunc(string(f.Content), 1500)), "args_quoted": fmt.Sprintf("%q", args)}
			ctx.R.Begin(cs)
			ctx.R.Eval(1)
			var res CLIResult
			if ents, _ := os.ReadDir(h.Cwd); k%7 == 3 && len(ents) == 0 {
				// the shell's working directory was removed while it was still in it (a deleted build directory)
				res = h.RunCmd(60*time.Second, nil, append([]string{"/bin/sh", "-c", `rmdir "$PWD" && exec "$@"`, "sh", ctx.Wtf}, args...)...)
				os.MkdirAll(h.Cwd, 0o755)
				cs["working_directory_removed"] = true
				ctx.R.Path("cli-runs-in-a-removed-working-directory", 1)
			} else {
				res = h.Wtf(ctx.Wtf, nil, args...)
			}
			ctx.R.Path("cli-runs-"+format, 1)
			if strings.Contains(res.Stdout, "Found ") || strings.Contains(res.Stdout, "\"command\"") {
				ctx.R.Path("cli-runs-with-results", 1)
				ctx.R.Nontriv("cli", string(f.Content), format, q)
			}
			if bad, why := res.Crashed(); bad {
				ctx.R.Violate(vlib.Violation{Property: "C10", Clause: "panic", Path: "wtf search/" + format, Detail: "the binary did not end normally: " + why,
					Witness: map[string]interface{}{"case": cs, "stderr": vlib.Trunc(res.Stderr, 1500)}})
			}
		}
	}
}

// c10BigFiles: well-formed lists whose FILE is tens of MiB (a few entries with pasted logs or generated text as description, or
// a notebook that has been merged from many machines): past 16, 32 and 64 MiB. Every entry loads, the last one faithfully, and a
// word only the last entry holds finds it.
func c10BigFiles(ctx *Ctx, r *rand.Rand) {
	if ctx.Shard%8 != 4 && !(ctx.Thorough && ctx.Shard%2 == 0) {
		return
	}
	mib := []int{18, 70, 34, 17, 130, 20, 66, 40}[(ctx.Shard/2)%8]
	if !ctx.Thorough {
		mib = []int{18, 34}[(ctx.Shard/8)%2]
	}
	entries := 12 + r.Intn(9)
	per := mib << 20 / entries
	p := filepath.Join(ctx.Scratch, "bigfile.yml")
	cs := map[string]interface{}{"class": "wellformed-file-of-tens-of-MiB", "entries": entries, "approx_MiB": mib}
	ctx.R.Begin(cs)
	ctx.R.Eval(1)
	f, err := os.Create(p)
	if err != nil {
		panic(err)
	}
	defer os.Remove(p)
	words := []string{"alpha", "bravo", "charlie", "delta", "echo", "foxtrot", "golf", "hotel", "india", "juliett", "kilo", "lima"}
	var lastDesc string
	for i := 0; i < entries; i++ {
		var sb strings.Builder
		for sb.Len() < per {
			sb.WriteString(words[r.Intn(len(words))])
			sb.WriteByte(' ')
		}
		if i == entries-1 {
			sb.WriteString("zyzzyva")
			lastDesc = sb.String()
		}
		fmt.Fprintf(f, "- command: \"big-tool-%d --run\"\n  description: \"%s\"\n  keywords: [\"big\"]\n", i, sb.String())
	}
	f.Close()
	st, _ := os.Stat(p)
	cs["file_len"] = st.Size()
	var db *database.Database
	var lerr error
	if !ctx.R.Guard("C10", "LoadDatabase", cs, func() { db, lerr = database.LoadDatabase(p) }) {
		return
	}
	ctx.R.Path("files-of-tens-of-MiB", 1)
	if st.Size() > 64<<20 {
		ctx.R.Path("files-over-64MiB", 1)
	}
	if lerr != nil || db == nil {
		ctx.R.Violate(vlib.Violation{Property: "C10", Clause: "wellformed-list-rejected", Path: "LoadDatabase",
			Detail: fmt.Sprintf("a well-formed list of %d entries in a file of %d bytes does not load: %v", entries, st.Size(), vlib.Trunc(fmt.Sprint(lerr), 300)), Witness: cs})
		return
	}
	if len(db.Commands) != entries || db.Commands[entries-1].Command != fmt.Sprintf("big-tool-%d --run", entries-1) || db.Commands[entries-1].Description != lastDesc {
		ctx.R.Violate(vlib.Violation{Property: "C10", Clause: "wellformed-list-loaded-differently", Path: "LoadDatabase",
			Detail: fmt.Sprintf("a well-formed list of %d entries in a file of %d bytes loads as %d entries (last entry intact: %v)", entries, st.Size(), len(db.Commands),
				len(db.Commands) == entries && db.Commands[entries-1].Description == lastDesc), Witness: cs})
		return
	}
	ctx.R.Nontriv("bigfile", mib, entries)
	ctx.R.Guard("C10", "SearchUniversal", cs, func() {
		rs := db.SearchUniversal("zyzzyva", database.SearchOptions{Limit: 5, AllPlatforms: true})
		if len(rs) != 1 || rs[0].Command != &db.Commands[entries-1] {
			ctx.R.Violate(vlib.Violation{Property: "C10", Clause: "wellformed-list-loaded-differently", Path: "LoadDatabase+SearchUniversal",
				Detail: fmt.Sprintf("the word that only the last entry of the %d-byte file holds finds %d entries", st.Size(), len(rs)), Witness: cs})
		}
		db.SearchUniversal("alpha bravo", database.SearchOptions{Limit: 3, UseNLP: true, UseFuzzy: true})
	})
	// the same file as the notebook behind a small main database
	ctx.R.Guard("C10", "LoadDatabaseWithPersonal", cs, func() {
		mp := filepath.Join(ctx.Scratch, "bigfile-main.yml")
		os.WriteFile(mp, []byte("- command: ls\n  description: list\n"), 0o644)
		defer os.Remove(mp)
		m, err := database.LoadDatabaseWithPersonal(mp, p)
		if err != nil || m == nil || len(m.Commands) != entries+1 {
			n := -1
			if m != nil {
				n = len(m.Commands)
			}
			ctx.R.Violate(vlib.Violation{Property: "C10", Clause: "wellformed-list-loaded-differently", Path: "LoadDatabaseWithPersonal",
				Detail: fmt.Sprintf("a main list of 1 entry and a well-formed notebook of %d entries (%d bytes) load as %d entries (error: %v)", entries, st.Size(), n, err), Witness: cs})
		}
	})
}

// c10ByteRuns: queries that are a run of ONE byte value - every value from 0x00 to 0xFF (continuation bytes, lead bytes of 2-,
// 3- and 4-byte sequences that never get their tail, NUL, DEL) - in lengths around the bounds the program knows (1000 bytes,
// 1024, 4096, 65536), alone and glued to a word, through every search entry point.
func c10ByteRuns(ctx *Ctx, r *rand.Rand) {
	var db *database.Database
	if !ctx.R.Guard("C10", "LoadDatabase", "byte-runs", func() {
		db = vlib.MustLoad(vlib.GenCommands(r, vlib.DBSpec{N: 25, Pipelines: true, Unicode: true}))
	}) {
		return
	}
	cdb := database.NewCachedDatabase(db)
	sr := recovery.NewSearchRecovery()
	for b := 0; b < 256; b++ {
		if b%ctx.NShards != ctx.Shard {
			continue
		}
		for _, L := range []int{1, 3, 999, 1000, 1001, 1002, 1003, 1004, 1023, 1025, 4097, 65537} {
			run := strings.Repeat(string([]byte{byte(b)}), L)
			for vi, q := range []string{run, run + "list", "list " + run, run[:L/2] + " " + run[L/2:]} {
				if L > 5000 && vi > 1 {
					continue
				}
				o := database.SearchOptions{Limit: 5, UseNLP: (b+L+vi)%2 == 0, UseFuzzy: (b+vi)%2 == 0, AllPlatforms: true}
				cs := map[string]interface{}{"class": "run-of-one-byte-value", "byte": fmt.Sprintf("0x%02X", b), "length": L, "variant": vi, "opts": fmt.Sprintf("%+v", o)}
				ctx.R.Begin(cs)
				ctx.R.Eval(1)
				ctx.R.Guard("C10", "SearchUniversal", cs, func() { db.SearchUniversal(q, o) })
				ctx.R.Guard("C10", "SearchWithOptionsAndCache", cs, func() { cdb.SearchWithOptionsAndCache(q, o) })
				if L <= 1100 {
					ctx.R.Guard("C10", "SearchWithPipelineOptions", cs, func() { db.SearchWithPipelineOptions(q, o) })
					ctx.R.Guard("C10", "SearchWithNLP", cs, func() { db.SearchWithNLP(q, o) })
					ctx.R.Guard("C10", "GetSuggestions", cs, func() { db.GetSuggestions(q, 3) })
					ctx.R.Guard("C10", "RecoverFromSearchFailure", cs, func() { sr.RecoverFromSearchFailure(q, nil, db) })
				}
				ctx.R.Path("queries-that-are-a-run-of-one-byte-value", 1)
			}
		}
	}
}

// c10FewerRows: a well-formed database that has more entries than the embedding file beside it has rows (entries were added
// after the file was computed: one more, two more, half as many rows, none): every entry is searched for by a word of its own.
func c10FewerRows(ctx *Ctx, r *rand.Rand) {
	defer func() { embRowsKeep = -1 }()
	for k := 0; k < ctx.Pick(2, 12); k++ {
		cmds := vlib.GenCommands(r, vlib.DBSpec{N: 6 + r.Intn(20)})
		for i := range cmds {
			cmds[i].Description += fmt.Sprintf(" uniq%dword", i)
		}
		var db *database.Database
		if !ctx.R.Guard("C10", "LoadDatabase", "fewer-rows", func() { db = vlib.MustLoad(cmds) }) {
			continue
		}
		n := len(db.Commands)
		embRowsKeep = []int{n - 1, n - 2, n / 2, 1, n - 1}[(k+ctx.Shard)%5]
		cs0 := map[string]interface{}{"class": "database-longer-than-the-embedding-file", "entries": n, "rows": embRowsKeep}
		ok := false
		ctx.R.Guard("C10", "LoadEmbeddings", cs0, func() { ok = attachEmbeddings(ctx, r, db, "unit") })
		embRowsKeep = -1
		if !ok {
			ctx.R.Path("embedding-files-shorter-than-the-database-not-attached", 1)
		}
		cdb := database.NewCachedDatabase(db)
		for i := 0; i < n; i++ {
			for _, nlpOn := range []bool{false, true} {
				o := database.SearchOptions{Limit: 5, UseNLP: nlpOn, UseFuzzy: true, AllPlatforms: true}
				q := fmt.Sprintf("uniq%dword", i)
				cs := map[string]interface{}{"class": "database-longer-than-the-embedding-file", "entries": n, "rows": cs0["rows"], "query": q, "nlp": nlpOn}
				ctx.R.Begin(cs)
				ctx.R.Eval(1)
				ctx.R.Guard("C10", "SearchUniversal", cs, func() { db.SearchUniversal(q, o) })
				ctx.R.Guard("C10", "SearchWithOptionsAndCache", cs, func() { cdb.SearchWithOptionsAndCache(q, o) })
				ctx.R.Path("searches-on-a-database-longer-than-its-embedding-file", 1)
			}
		}
	}
}

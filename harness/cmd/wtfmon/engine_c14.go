package main

// C14 - accepted queries are clean; validation is stable and decisive.
//
// Engine "validate": in-process monitor of validation.ValidateQuery and
// validation.ValidateLimit against a reference predicate written from the
// property statement, over an exhaustively enumerated space (all strings of 0,
// 1 and 2 symbols over a hostile alphabet, all limits -200..300 plus the
// 32/64-bit boundaries) and over random long / boundary-length / invalid-UTF-8
// heavy strings. Engine "validate-cli": process-level spot check of the
// "Searching for: ..." line printed by the built binary.

import (
	"encoding/hex"
	"fmt"
	"math"
	"math/rand"
	"os"
	"path/filepath"
	"strconv"
	"strings"
	"sync"
	"unicode"
	"unicode/utf8"

	"github.com/Vedant9500/WTF/internal/constants"
	"github.com/Vedant9500/WTF/internal/validation"
	"github.com/Vedant9500/WTF/internal/zzverif/vlib"
)

func init() {
	engines["validate"] = engineValidate
	engines["validate-cli"] = engineValidateCLI
}

// Figures taken from the property statement (not from the code under test).
const (
	c14MaxBytes = 1000
	c14LimitMin = 1
	c14LimitMax = 100
)

func c14IsMeta(r rune) bool {
	switch r {
	case '<', '>', '|', '&', ';', '$':
		return true
	}
	return false
}

// ---------------------------------------------------------------------------
// Reference predicate.

type c14Ref struct {
	Accept bool
	// reasons for rejection (any subset may hold)
	Long, Meta, Blank bool
	// features of the input (for the non-triviality rule)
	HasCtrl, HasWS, HasMeta, HasInvalid, NearLimit bool
	InvalidBytes                                   int
	Runes                                          int
}

// c14Reference decides acceptance from the statement alone: the query is at
// most 1000 bytes long, none of its characters is one of < > | & ; $, and at
// least one character that is neither a control character (removed first) nor
// whitespace remains. A byte that is not part of a valid UTF-8 sequence is a
// character of its own that is not a control character, not whitespace and not
// a metacharacter (Go decodes it as one rune, and so is it counted).
func c14Reference(q string) c14Ref {
	var ref c14Ref
	ref.Long = len(q) > c14MaxBytes
	ref.NearLimit = len(q) >= 990
	content := false
	type rk struct {
		space, ctrl bool
		r           rune
	}
	var kinds []rk
	for i := 0; i < len(q); {
		r, sz := utf8.DecodeRuneInString(q[i:])
		i += sz
		ref.Runes++
		if r == utf8.RuneError && sz == 1 {
			ref.HasInvalid = true
			ref.InvalidBytes++
			content = true
			kinds = append(kinds, rk{r: -1})
			continue
		}
		if unicode.IsControl(r) {
			// removed before anything else is judged: never content, never
			// a metacharacter (none of the six is a control character)
			ref.HasCtrl = true
			kinds = append(kinds, rk{ctrl: true, space: unicode.IsSpace(r), r: r})
			continue
		}
		if c14IsMeta(r) {
			ref.Meta = true
			ref.HasMeta = true
			kinds = append(kinds, rk{r: r})
			continue
		}
		if unicode.IsSpace(r) {
			kinds = append(kinds, rk{space: true, r: r})
			continue
		}
		content = true
		kinds = append(kinds, rk{r: r})
	}
	// blank: nothing but whitespace is left (a metacharacter is not blank; it
	// is rejected for its own reason)
	ref.Blank = !content && !ref.Meta
	ref.Accept = !ref.Long && !ref.Meta && !ref.Blank
	// "whitespace other than single inner spaces": a non-control whitespace
	// rune that is not U+0020, or a U+0020 at either end or next to other
	// whitespace.
	for i, k := range kinds {
		if !k.space || k.ctrl {
			continue
		}
		if k.r != ' ' || i == 0 || i == len(kinds)-1 || kinds[i-1].space || kinds[i+1].space {
			ref.HasWS = true
			break
		}
	}
	return ref
}

func (ref c14Ref) features() int {
	n := 0
	for _, b := range []bool{ref.HasCtrl, ref.HasWS, ref.HasMeta, ref.HasInvalid, ref.NearLimit} {
		if b {
			n++
		}
	}
	return n
}

func (ref c14Ref) why() string {
	var w []string
	if ref.Long {
		w = append(w, "longer than 1000 bytes")
	}
	if ref.Meta {
		w = append(w, "contains a metacharacter")
	}
	if ref.Blank {
		w = append(w, "blank once control characters are removed")
	}
	if len(w) == 0 {
		return "accept"
	}
	return "reject: " + strings.Join(w, ", ")
}

// ---------------------------------------------------------------------------
// Alphabet.

type c14Alpha struct {
	All       []string // the hostile alphabet
	Content   []string // plain content symbols
	CtrlSpace []string // control characters and whitespace only
	NoMeta    []string // All minus the six metacharacters
	Valid     []string // NoMeta minus the invalid-UTF-8 classes
	Invalid   []string // invalid-UTF-8 byte classes
	Sub       []string // 40-symbol sub-alphabet for the 3-symbol enumeration
}

var c14MetaSyms = []string{"<", ">", "|", "&", ";", "$"}

func c14Alphabet() c14Alpha {
	var a c14Alpha
	var ctrl, space []string
	for c := 0; c <= 0x1f; c++ { // C0 incl. NUL TAB LF VT FF CR
		ctrl = append(ctrl, string(rune(c)))
	}
	ctrl = append(ctrl, "\x7f")     // DEL
	for c := 0x80; c <= 0x9f; c++ { // C1 incl. NEL U+0085 (valid two-byte encodings)
		ctrl = append(ctrl, string(rune(c)))
	}
	for _, r := range []rune{0x20, 0xA0, 0x1680} { // Zs
		space = append(space, string(r))
	}
	for c := 0x2000; c <= 0x200A; c++ {
		space = append(space, string(rune(c)))
	}
	for _, r := range []rune{0x202F, 0x205F, 0x3000, 0x2028, 0x2029} { // Zs, Zl, Zp
		space = append(space, string(r))
	}
	// format characters that look blank but are neither Cc nor White_Space
	format := []string{"\u200b", "\ufeff", "\u180e", "\u00ad", "\u2060"}
	a.Content = []string{"a", "Z", "7", "-", ".", "'", "\"", "\\", "/", "*", "%", "(", "`", "#", "!", "\u00e9", "\u65e5",
		"\u0301", "\U0001F600", "\ufffd"}
	// runes that alias a significant ASCII byte when a code point is narrowed (low byte, low seven bits): letters such as
	// U+013C (low byte '<'), U+4E3B (low byte ';'), U+00BC (low seven bits '<') are ordinary content
	for _, b := range []rune{'<', '>', '|', '&', ';', '$', 0x00, 0x09, 0x0a, 0x0d, 0x1b, 0x20, 0x7f} {
		a.Content = append(a.Content, string(rune(0x100)+b), string(rune(0x4e00)+b))
	}
	for _, b := range []rune{'<', '>', '|', '&', ';', '$'} {
		a.Content = append(a.Content, string(rune(0x80)+b))
	}
	a.Invalid = []string{"\x80", "\xbf", "\xc0", "\xc3", "\xe2\x82", "\xed\xa0\x80", "\xf8", "\xff",
		"\xc0\xaf", "\xf0\x9f\x98", "\xf4\x90\x80\x80"}
	a.CtrlSpace = append(append([]string{}, ctrl...), space...)
	a.Valid = append(append(append([]string{}, a.CtrlSpace...), format...), a.Content...)
	a.NoMeta = append(append([]string{}, a.Valid...), a.Invalid...)
	a.All = append(append([]string{}, a.NoMeta...), c14MetaSyms...)
	a.Sub = []string{"\x00", "\t", "\n", "\r", "\x01", "\x1b", "\x1f", "\x7f", "\u0085", "\u009f",
		" ", "\u00a0", "\u1680", "\u2003", "\u202f", "\u3000", "\u2028", "\u2029", "\u200b", "\ufeff",
		"<", ">", "|", "&", ";", "$",
		"a", "Z", "7", "-", "\u00e9", "\u65e5", "\u0301", "\U0001F600", "\ufffd",
		"\x80", "\xc3", "\xe2\x82", "\xed\xa0\x80", "\xff"}
	return a
}

// ---------------------------------------------------------------------------
// The monitor for one query.

type c14Case struct {
	Gen   string `json:"gen"`
	I     int    `json:"i"`
	Len   int    `json:"len"`
	Input string `json:"input,omitempty"`     // Go-quoted
	Hex   string `json:"input_hex,omitempty"` // exact bytes
}

func c14MkCase(gen string, i int, q string, full bool) c14Case {
	c := c14Case{Gen: gen, I: i, Len: len(q)}
	if full || len(q) <= 32 {
		c.Input = vlib.Q(q)
		c.Hex = hex.EncodeToString([]byte(q))
	}
	return c
}

func c14Witness(cs c14Case, ref c14Ref, out string, err error, more map[string]interface{}) map[string]interface{} {
	w := map[string]interface{}{"case": cs, "input": cs.Input, "input_hex": cs.Hex, "input_bytes": cs.Len, "input_runes": ref.Runes,
		"reference": ref.why(), "output": vlib.Q(out), "output_hex": hex.EncodeToString([]byte(out)), "output_bytes": len(out)}
	if err != nil {
		w["error"] = err.Error()
	}
	for k, v := range more {
		w[k] = v
	}
	return w
}

// c14OutputIssues scans an accepted output for the cleanliness clauses.
func c14OutputIssues(in, out string) (issues [][2]string) {
	rs := []rune(out) // an invalid byte counts as one rune, as Go does
	for i, r := range rs {
		if unicode.IsControl(r) {
			issues = append(issues, [2]string{"output-control", fmt.Sprintf("output rune %d is the control character U+%04X", i, r)})
			break
		}
	}
	for i, r := range rs {
		if !unicode.IsSpace(r) {
			continue
		}
		var what string
		switch {
		case i == 0:
			what = "leading whitespace"
		case i == len(rs)-1:
			what = "trailing whitespace"
		case unicode.IsSpace(rs[i-1]):
			what = "repeated whitespace"
		case r != ' ':
			what = "whitespace that is not a single U+0020"
		default:
			continue
		}
		issues = append(issues, [2]string{"output-whitespace", fmt.Sprintf("%s: output rune %d is U+%04X", what, i, r)})
		break
	}
	for i, r := range rs {
		if c14IsMeta(r) {
			issues = append(issues, [2]string{"output-metachar", fmt.Sprintf("output rune %d is the metacharacter %q", i, r)})
			break
		}
	}
	if no, ni := utf8.RuneCountInString(out), utf8.RuneCountInString(in); no > ni {
		issues = append(issues, [2]string{"output-longer", fmt.Sprintf("output has %d characters, input had %d", no, ni)})
	}
	return
}

// c14CheckQuery runs ValidateQuery on q and applies every clause. It returns
// the code's verdict for callers that need it.
var c14Calls int

// c14Neighbours calls the other exported functions of the validation package on the same text: in a process, query
// validation runs between path, file-name, log and input sanitising, and must not depend on whether they ran before.
func c14Neighbours(ctx *Ctx, q string) {
	defer func() { _ = recover() }() // their own behaviour is not this property's business
	switch c14Calls / 61 % 8 {
	case 0:
		validation.SanitizeFilename(q)
	case 1:
		validation.ValidateAndSanitizeUserInput(q, []string{"filename", "query", "path", "general", "log", ""}[c14Calls/488%6])
	case 2:
		validation.SanitizePath(q)
	case 3:
		validation.SanitizeInput(q)
	case 4:
		validation.SanitizeLogData(q)
	case 5:
		_ = validation.ValidatePath(q)
	case 6:
		_ = validation.ValidateDatabasePath(q)
	default:
		validation.ValidateLimit(len(q))
	}
	ctx.R.Path("calls-to-neighbouring-validation-functions", 1)
}

func c14CheckQuery(ctx *Ctx, gen string, i int, q string) {
	c14Calls++
	if c14Calls%61 == 1 {
		c14Neighbours(ctx, q)
	}
	ctx.R.Begin(c14MkCase(gen, i, q, false))
	ctx.R.Eval(1)
	ctx.R.Path(gen, 1)
	ref := c14Reference(q)
	cs := c14MkCase(gen, i, q, true)
	var out string
	var err error
	if !ctx.R.Guard("C14", "ValidateQuery", cs, func() { out, err = validation.ValidateQuery(q) }) {
		return
	}
	if ref.Accept {
		ctx.R.Path("accepted", 1)
	} else {
		if ref.Blank {
			ctx.R.Path("rejected-blank", 1)
		}
		if ref.Long {
			ctx.R.Path("rejected-long", 1)
		}
		if ref.Meta {
			ctx.R.Path("rejected-meta", 1)
		}
	}
	if ref.features() >= 2 {
		ctx.R.Nontriv(q)
		if ref.Accept && ref.HasInvalid && ref.HasCtrl {
			ctx.R.Sample(map[string]interface{}{"case": c14MkCase(gen, i, vlib.Trunc(q, 60), true), "reference": ref.why(), "output": vlib.Q(vlib.Trunc(out, 60))})
		}
	}
	accepted := err == nil
	if accepted != ref.Accept {
		d := fmt.Sprintf("code REJECTED (%v) a query the statement accepts (%d bytes, no metacharacter, not blank)", err, len(q))
		if accepted {
			d = fmt.Sprintf("code ACCEPTED (returned %s) a query the statement rejects: %s", vlib.Q(vlib.Trunc(out, 80)), ref.why())
		}
		ctx.R.Violate(vlib.Violation{Property: "C14", Clause: "accept-mismatch", Path: "ValidateQuery", Detail: d + "; input " + vlib.Q(vlib.Trunc(q, 80)),
			Witness: c14Witness(cs, ref, out, err, nil)})
	}
	if !accepted {
		return
	}
	// cleanliness of every accepted output, whatever the reference says
	for _, is := range c14OutputIssues(q, out) {
		ctx.R.Violate(vlib.Violation{Property: "C14", Clause: is[0], Path: "ValidateQuery", Detail: is[1] + "; input " + vlib.Q(vlib.Trunc(q, 80)) + " output " + vlib.Q(vlib.Trunc(out, 80)),
			Witness: c14Witness(cs, ref, out, err, nil)})
	}
	// idempotence
	var out2 string
	var err2 error
	if !ctx.R.Guard("C14", "ValidateQuery(ValidateQuery)", cs, func() { out2, err2 = validation.ValidateQuery(out) }) {
		return
	}
	if err2 != nil || out2 != out {
		cause := "other"
		if err2 != nil && len(out) > c14MaxBytes && ref.HasInvalid {
			cause = "invalid-utf8-expansion"
		}
		var d string
		if err2 != nil {
			d = fmt.Sprintf("cause=%s: validating the validated query is rejected (%v): input %d bytes with %d invalid byte(s) -> output %d bytes",
				cause, err2, len(q), ref.InvalidBytes, len(out))
		} else {
			d = fmt.Sprintf("cause=%s: validating the validated query changes it: %s -> %s", cause, vlib.Q(vlib.Trunc(out, 80)), vlib.Q(vlib.Trunc(out2, 80)))
		}
		more := map[string]interface{}{"second_output": vlib.Q(out2), "second_output_hex": hex.EncodeToString([]byte(out2)), "cause": cause}
		if err2 != nil {
			more["second_error"] = err2.Error()
		}
		ctx.R.Path("idempotence-failed:"+cause, 1)
		ctx.R.Violate(vlib.Violation{Property: "C14", Clause: "idempotence", Path: "ValidateQuery", Detail: d + "; input " + vlib.Q(vlib.Trunc(q, 60)),
			Witness: c14Witness(cs, ref, out, err, more)})
	}
}

// ---------------------------------------------------------------------------
// Limits.

func c14LimitValues() []int {
	var v []int
	for n := -200; n <= 300; n++ {
		v = append(v, n)
	}
	for _, b := range []int64{1 << 15, 1 << 16, 1 << 31, 1 << 32, 1 << 62} {
		for _, d := range []int64{-1, 0, 1} {
			v = append(v, int(b+d), int(-(b + d)))
		}
	}
	v = append(v, math.MaxInt64, math.MaxInt64-1, math.MinInt64, math.MinInt64+1, math.MaxInt32, math.MinInt32)
	return v
}

func c14CheckLimit(ctx *Ctx, n int) {
	cs := map[string]interface{}{"gen": "limits", "limit": n}
	ctx.R.Begin(cs)
	ctx.R.Eval(1)
	ctx.R.Path("limits", 1)
	var v int
	var err error
	if !ctx.R.Guard("C14", "ValidateLimit", cs, func() { v, err = validation.ValidateLimit(n) }) {
		return
	}
	w := map[string]interface{}{"limit": n, "returned": v}
	if err != nil {
		w["error"] = err.Error()
	}
	vio := func(clause, detail string) {
		ctx.R.Violate(vlib.Violation{Property: "C14", Clause: clause, Path: "ValidateLimit", Detail: detail, Witness: w})
	}
	if err == nil && (v < c14LimitMin || v > c14LimitMax) {
		vio("limit-range", fmt.Sprintf("ValidateLimit(%d) = (%d, nil): an accepted limit outside [1,100]", n, v))
	}
	switch {
	case n == 0:
		def := constants.DefaultSearchLimit
		if err != nil {
			vio("limit-default", fmt.Sprintf("ValidateLimit(0) is rejected (%v); 0 means the default", err))
		} else if v != def || def < c14LimitMin || def > c14LimitMax {
			vio("limit-default", fmt.Sprintf("ValidateLimit(0) = (%d, nil); the default is %d and must lie in [1,100]", v, def))
		}
	case n < 0 || n > c14LimitMax:
		if err == nil {
			vio("limit-accepts-invalid", fmt.Sprintf("ValidateLimit(%d) = (%d, nil): a limit outside 0..100 is accepted", n, v))
		}
	default: // 1..100
		if err != nil || v != n {
			vio("limit-range", fmt.Sprintf("ValidateLimit(%d) = (%d, %v): a limit in [1,100] must be accepted unchanged", n, v, err))
		}
	}
}

// ---------------------------------------------------------------------------
// Generators.

func c14Pick(r *rand.Rand, xs []string) string { return xs[r.Intn(len(xs))] }

// random string of 3..40 symbols
func c14Random(r *rand.Rand, a c14Alpha) string {
	n := 3 + r.Intn(38)
	var b strings.Builder
	switch m := r.Intn(100); {
	case m < 40: // uniform over the whole alphabet
		for i := 0; i < n; i++ {
			b.WriteString(c14Pick(r, a.All))
		}
	case m < 70: // mostly content, sprinkled with hostile symbols
		for i := 0; i < n; i++ {
			if r.Intn(10) < 7 {
				b.WriteString(c14Pick(r, a.Content))
			} else {
				b.WriteString(c14Pick(r, a.All))
			}
		}
	case m < 85: // nothing but control characters and whitespace, perhaps one content symbol
		at := -1
		if r.Intn(2) == 0 {
			at = r.Intn(n)
		}
		for i := 0; i < n; i++ {
			if i == at {
				b.WriteString(c14Pick(r, append(a.Content, a.Invalid...)))
			} else {
				b.WriteString(c14Pick(r, a.CtrlSpace))
			}
		}
	default: // hostile but without metacharacters (accepted unless blank)
		for i := 0; i < n; i++ {
			b.WriteString(c14Pick(r, a.NoMeta))
		}
	}
	return b.String()
}

var c14LastUnits = []string{"a", " ", "\t", "\x00", "\u00e9", "\u0085", "\u00a0", "\u65e5", "\u3000", "\u2028", "\U0001F600", "\U0001F600",
	"\xff", "\xc3", "\xe2\x82", "\xf0\x9f\x98", "\xed\xa0\x80"}

// c14Boundary builds a string of exactly 998..1002 bytes whose last unit is
// (usually) a multi-byte rune or an invalid sequence, so that byte 1000 falls
// inside it.
func c14Boundary(r *rand.Rand, a c14Alpha) string {
	L := 998 + r.Intn(5)
	mode := r.Intn(5)
	last := c14Pick(r, c14LastUnits)
	if mode == 0 && !utf8.ValidString(last) {
		last = "\U0001F600"
	}
	unit := func() string {
		switch mode {
		case 0: // letters with a few valid hostile symbols: the length alone decides
			if r.Intn(100) < 92 {
				return string(rune('a' + r.Intn(26)))
			}
			return c14Pick(r, a.Valid)
		case 1: // the same including invalid bytes
			if r.Intn(100) < 92 {
				return string(rune('a' + r.Intn(26)))
			}
			return c14Pick(r, a.NoMeta)
		case 2: // everything, metacharacters included
			if r.Intn(100) < 80 {
				return c14Pick(r, a.Content)
			}
			return c14Pick(r, a.All)
		case 3: // control characters and whitespace with little content
			if r.Intn(100) < 97 {
				return c14Pick(r, a.CtrlSpace)
			}
			return c14Pick(r, a.Content)
		default: // uniform without metacharacters
			return c14Pick(r, a.NoMeta)
		}
	}
	fill := func() string {
		if mode == 3 {
			return c14Pick(r, []string{" ", "\t", "\x00", "\n"})
		}
		return "a"
	}
	target := L - len(last)
	var b strings.Builder
	for b.Len() < target {
		u := unit()
		if len(u) > target-b.Len() {
			u = fill()
		}
		b.WriteString(u)
	}
	b.WriteString(last)
	return b.String()
}

// c14InvalidHeavy builds 100..1003 bytes that are mostly invalid UTF-8.
func c14InvalidHeavy(r *rand.Rand, a c14Alpha) string {
	L := 100 + r.Intn(904)
	k := 1 + r.Intn(3)
	pool := make([]string, k)
	for i := range pool {
		pool[i] = c14Pick(r, a.Invalid)
	}
	other := []string{" ", "a", "\t", "\x00", "  ", "\u0085"}
	dens := []int{100, 100, 95, 80}[r.Intn(4)]
	var b strings.Builder
	for b.Len() < L {
		u := c14Pick(r, pool)
		if r.Intn(100) >= dens {
			u = c14Pick(r, other)
		}
		if len(u) > L-b.Len() {
			u = "\xff"
		}
		b.WriteString(u)
	}
	return b.String()
}

// c14Fixed is a short list of hand-picked probes (run by shard 0).
func c14Fixed() []string {
	rep := strings.Repeat
	return []string{
		rep("\xff", 400), rep("\xff", 334), rep("a", 999) + "\xff",
		"", " ", "a", "a b", " a  b ", "a\tb", "a\nb", "a\rb", "a\x00b", "\x00", "\x01", "\x7f", "\u0085", "a\u0085b", "\u200b", "\ufeff",
		"a\x00|", "$\x00", "a$", "\x00 \x00", " \x00a\x00 ", "a \x00 b", "a\u00a0b", "a\u2028b", "\xff", "a\xff", "\xc3\x28",
		rep("a", 999), rep("a", 1000), rep("a", 1001),
		rep(" ", 1000), rep(" ", 1001), rep("\x00", 1000), rep("\x00", 1001),
		rep(" ", 999) + "a", rep(" ", 1000) + "a", "a" + rep(" ", 999), "a" + rep(" ", 1000),
		rep("\x00", 999) + "a", rep("\x00", 1000) + "a",
		rep("a", 998) + "\u00e9", rep("a", 999) + "\u00e9", rep("a", 997) + "\u65e5", rep("a", 998) + "\u65e5", rep("a", 997) + "\U0001F600",
		rep("a", 999) + "$", rep("a", 1000) + "$", rep("a", 999) + "\xff", rep("a", 998) + "\xff", rep("a", 1000) + "\xff",
		rep("\xff", 333), rep("\xff", 334), rep("\xff", 400), rep("\xff", 1000), rep("\xff", 1001),
		rep("\xe2\x82", 200), rep("a ", 500), rep(" a", 500), rep("a\t", 500), rep("\u00e9", 500), rep("\u00e9", 501),
	}
}

func c14SliceCount(total, shard, nshards int) int {
	if shard >= total%nshards {
		return total / nshards
	}
	return total/nshards + 1
}

// ---------------------------------------------------------------------------
// Engine "validate".

func engineValidate(ctx *Ctx) {
	a := c14Alphabet()
	K := len(a.All)
	r := vlib.NewRand(ctx.Seed, ctx.Shard, "validate")

	// --- exhaustive: strings of 0, 1, 2 symbols (3 over the sub-alphabet in thorough)
	enumerated, expected := 0, 0
	if ctx.Shard == 0 {
		c14CheckQuery(ctx, "exhaustive-1", -1, "") // the empty string
		enumerated++
		expected++
	}
	expected += c14SliceCount(K, ctx.Shard, ctx.NShards)
	for i := 0; i < K; i++ {
		if i%ctx.NShards == ctx.Shard {
			c14CheckQuery(ctx, "exhaustive-1", i, a.All[i])
			enumerated++
		}
	}
	expected += c14SliceCount(K*K, ctx.Shard, ctx.NShards)
	for idx := 0; idx < K*K; idx++ {
		if idx%ctx.NShards == ctx.Shard {
			c14CheckQuery(ctx, "exhaustive-2", idx, a.All[idx/K]+a.All[idx%K])
			enumerated++
		}
	}
	if ctx.Thorough {
		S := len(a.Sub)
		expected += c14SliceCount(S*S*S, ctx.Shard, ctx.NShards)
		for idx := 0; idx < S*S*S; idx++ {
			if idx%ctx.NShards == ctx.Shard {
				c14CheckQuery(ctx, "exhaustive-3", idx, a.Sub[idx/(S*S)]+a.Sub[(idx/S)%S]+a.Sub[idx%S])
				enumerated++
			}
		}
	}
	// --- exhaustive: limits
	lims := c14LimitValues()
	expected += c14SliceCount(len(lims), ctx.Shard, ctx.NShards)
	for i, n := range lims {
		if i%ctx.NShards == ctx.Shard {
			c14CheckLimit(ctx, n)
			enumerated++
		}
	}
	ctx.R.Extra["exhaustive_strings"] = enumerated
	ctx.R.Extra["exhaustive_space_complete"] = enumerated == expected
	if ctx.Shard == 0 {
		ctx.R.Extra["alphabet_symbols"] = K
		total := 1 + K + K*K + len(lims)
		if ctx.Thorough {
			total += len(a.Sub) * len(a.Sub) * len(a.Sub)
		}
		ctx.R.Extra["exhaustive_strings_expected"] = total
		for i, q := range c14Fixed() {
			c14CheckQuery(ctx, "fixed", i, q)
		}
	}

	// --- random
	for i, n := 0, ctx.N(240000, 12000000); i < n; i++ {
		c14CheckQuery(ctx, "random", i, c14Random(r, a))
	}
	for i, n := 0, ctx.N(48000, 2400000); i < n; i++ {
		c14CheckQuery(ctx, "boundary", i, c14Boundary(r, a))
	}
	for i, n := 0, ctx.N(8000, 400000); i < n; i++ {
		c14CheckQuery(ctx, "invalid-heavy", i, c14InvalidHeavy(r, a))
	}
	// words separated by long runs of whitespace / control characters (a pasted column, a here-document): runs of every length
	// class from a few to almost the whole 1000 bytes, at the front, between words and at the end
	for i, n := 0, ctx.N(16000, 400000); i < n; i++ {
		var b strings.Builder
		nw := 1 + r.Intn(3)
		for w := 0; w <= nw; w++ {
			run := []int{0, 1, 2, 7, 64, 255, 256, 257, 258, 300, 511, 512, 513, 700, 990}[r.Intn(15)]
			if w > 0 && w < nw && run == 0 {
				run = 1
			}
			one := r.Intn(3) == 0
			sym := c14Pick(r, a.CtrlSpace)
			for k := 0; k < run && b.Len() < 1100; k++ {
				if !one {
					sym = c14Pick(r, a.CtrlSpace)
				}
				if r.Intn(3) > 0 {
					sym = " "
				}
				b.WriteString(sym)
			}
			if w < nw {
				b.WriteString(c14Pick(r, []string{"git", "a", "commit", "\u00e9t\u00e9", "x-y", "7"}))
			}
		}
		c14CheckQuery(ctx, "long-whitespace-runs", i, b.String())
	}
	c14Concurrent(ctx, r, a)
}

// c14Concurrent: the verdict and the returned text for a string are the same when several goroutines validate at once
// (a pure function of the byte string has no shared scratch state).
func c14Concurrent(ctx *Ctx, r *rand.Rand, a c14Alpha) {
	n := ctx.Pick(3000, 30000)
	qs := make([]string, n)
	type res struct {
		out string
		ok  bool
	}
	want := make([]res, n)
	for i := range qs {
		switch i % 3 {
		case 0:
			qs[i] = c14Random(r, a)
		case 1:
			qs[i] = c14Boundary(r, a)
		default:
			qs[i] = c14InvalidHeavy(r, a)
		}
		o, err := validation.ValidateQuery(qs[i])
		want[i] = res{o, err == nil}
	}
	const G = 8
	type mm struct {
		i   int
		got res
		pan string
	}
	bad := make(chan mm, G)
	var wg sync.WaitGroup
	for g := 0; g < G; g++ {
		wg.Add(1)
		go func(g int) {
			defer wg.Done()
			for k := 0; k < n; k++ {
				i := (k*7 + g*131) % n
				var got res
				pan := ""
				func() {
					defer func() {
						if e := recover(); e != nil {
							pan = fmt.Sprint(e)
						}
					}()
					o, err := validation.ValidateQuery(qs[i])
					got = res{o, err == nil}
				}()
				if pan != "" || got != want[i] {
					select {
					case bad <- mm{i, got, pan}:
					default:
					}
					return
				}
			}
		}(g)
	}
	wg.Wait()
	close(bad)
	ctx.R.Eval(int64(n))
	ctx.R.Path("concurrent-validations", int64(n*G))
	for b := range bad {
		cs := c14MkCase("concurrent", b.i, qs[b.i], true)
		d := fmt.Sprintf("validated alone: accepted=%v %s; validated while 7 other goroutines validate: accepted=%v %s %s", want[b.i].ok, vlib.Q(vlib.Trunc(want[b.i].out, 60)), b.got.ok, vlib.Q(vlib.Trunc(b.got.out, 60)), b.pan)
		ctx.R.Violate(vlib.Violation{Property: "C14", Clause: "accept-mismatch", Path: "ValidateQuery/concurrent", Detail: d, Witness: cs})
		break
	}
}

// ---------------------------------------------------------------------------
// Engine "validate-cli": the "Searching for:" line of the built binary.

func c14NoNUL(s string) string { return strings.ReplaceAll(s, "\x00", "\x01") }

func c14CLIArg(r *rand.Rand, a c14Alpha, k int) string {
	word := func() string { return vlib.Word(r, nil) }
	switch k % 10 {
	case 9: // full-width and other compatibility forms of ASCII characters (an input method left in the wrong mode), among them the look-alikes of the metacharacters
		fw := []string{"\uff5c", "\uff06", "\uff1b", "\uff04", "\uff1c", "\uff1e", "\u3000", "\uff47\uff49\uff54", "\uff0d\uff52", "\ufe31", "\u2223", "\ufe64", "\ufe65", "\ufe50", "\ufe54", "\ufe69", "\ufe60"}
		w := word() + " " + word() + " " + word()
		for i, n := 0, 1+r.Intn(2); i < n; i++ {
			at := r.Intn(len(w) + 1)
			w = w[:at] + c14Pick(r, fw) + w[at:]
		}
		return w
	case 8: // a query wrapped in a pair of quote characters (as a shell that does not strip them passes it), blanks inside the quotes
		qc := c14Pick(r, []string{"'", "\"", "`"})
		inner := c14Pick(r, []string{"", " ", "  ", "\t"}) + c14Pick(r, []string{"", word(), word() + " " + word(), word() + "  " + word()}) + c14Pick(r, []string{"", " ", "  "})
		return qc + inner + qc
	case 0: // words with hostile whitespace / control characters between and around them
		var b strings.Builder
		for i, n := 0, 1+r.Intn(3); i < n; i++ {
			b.WriteString(c14Pick(r, a.CtrlSpace))
		}
		for i, n := 0, 1+r.Intn(3); i < n; i++ {
			b.WriteString(word())
			for j, m := 0, 1+r.Intn(3); j < m; j++ {
				b.WriteString(c14Pick(r, a.CtrlSpace))
			}
		}
		return c14NoNUL(b.String())
	case 1: // short uniform strings
		var b strings.Builder
		for i, n := 0, 1+r.Intn(10); i < n; i++ {
			b.WriteString(c14Pick(r, a.All))
		}
		return c14NoNUL(b.String())
	case 2: // a metacharacter somewhere in a plain query
		w := word() + " " + word()
		at := r.Intn(len(w) + 1)
		return w[:at] + c14Pick(r, c14MetaSyms) + w[at:]
	case 3: // blank: control characters and whitespace only
		var b strings.Builder
		for i, n := 0, r.Intn(6); i < n; i++ {
			b.WriteString(c14Pick(r, a.CtrlSpace))
		}
		return c14NoNUL(b.String())
	case 4: // boundary length
		L := 999 + r.Intn(3)
		last := c14Pick(r, []string{"a", "\u00e9", "\u65e5", "\U0001F600", " ", "\t", "\n", "\r\n", "\n\n\n\n\n\n\n\n\n", "\r"})
		if strings.ContainsAny(last, "\r\n") && r.Intn(2) == 0 {
			L = 1001 + r.Intn(12) // over the bound only by what trails it
		}
		var b strings.Builder
		for b.Len() < L {
			b.WriteString(word() + " ")
		}
		return b.String()[:L-len(last)-1] + "x" + last
	case 5: // invalid bytes inside words
		return c14NoNUL(word() + c14Pick(r, a.Invalid) + c14Pick(r, a.CtrlSpace) + c14Pick(r, a.Invalid) + word())
	case 6: // hostile, no metacharacters
		var b strings.Builder
		for i, n := 0, 2+r.Intn(12); i < n; i++ {
			if r.Intn(2) == 0 {
				b.WriteString(c14Pick(r, a.Content))
			} else {
				b.WriteString(c14Pick(r, a.NoMeta))
			}
		}
		return c14NoNUL(b.String())
	default: // plain
		return word() + "  " + word()
	}
}

func engineValidateCLI(ctx *Ctx) {
	a := c14Alphabet()
	r := vlib.NewRand(ctx.Seed, ctx.Shard, "validate-cli")
	base := filepath.Join(ctx.Scratch, "c14cli")
	h := NewHome(base)
	defer os.RemoveAll(base)
	dbp := filepath.Join(base, "db.yml")
	// 260 entries, every one of them matching the word "common": more matches than any acceptable limit
	cmds := vlib.GenCommands(r, vlib.DBSpec{N: 260})
	for i := range cmds {
		cmds[i].Description += " common"
	}
	cmds = vlib.StripCaches(cmds)
	if err := vlib.WriteYAML(dbp, cmds); err != nil {
		panic(err)
	}
	// the variables the program under test reads from its environment (collected from its source), apart from those that
	// say where its files are: set to numbers beyond every bound, negative numbers and text
	var envNames []string
	for _, n := range ctx.Dict().EnvNames {
		switch n {
		case "HOME", "PATH", "XDG_CONFIG_HOME", "TMPDIR", "TZ", "APPDATA", "USERPROFILE", "LOCALAPPDATA":
		default:
			envNames = append(envNames, n)
		}
	}
	const prefix = "Searching for:"
	prevLen, prevQ := 0, ""
	for i, n := 0, ctx.N(320, 3200); i < n; i++ {
		arg := c14CLIArg(r, a, i+ctx.Shard)
		if i%3 == 1 {
			arg = "common " + vlib.Word(r, nil) // an acceptable query with hundreds of matches
		}
		if i%6 == 2 {
			arg = c14CLIArg(r, a, 4) // around the 1000-byte bound (and handed over word by word below)
		}
		format := []string{"", "", "list", "table", "json", "json"}[r.Intn(6)]
		limitArg := []string{"", "", "0", "1", "7", "100", "101", "5000", "-3", "abc", "2147483648"}[r.Intn(11)]
		if i%3 == 1 {
			limitArg = []string{"", "0", "0", "", "100", "101", "7"}[r.Intn(7)]
		}
		var env []string
		if len(envNames) > 0 && r.Intn(4) > 0 {
			for _, name := range envNames { // every variable the program knows, each with a value of its own
				if r.Intn(4) > 0 {
					env = append(env, name+"="+[]string{"300", "101", "1000000", "-1", "0", "abc", "", "1e3", "99999999999999999999", "true", "100", "250", "65536"}[r.Intn(13)])
				}
			}
			ctx.R.Path("cli-runs-with-program-variables-set", 1)
		}
		args := []string{"--database", dbp, "--all-platforms"}
		if format != "" {
			args = append(args, "--format", format)
		}
		if limitArg != "" {
			args = append(args, "--limit="+limitArg)
		}
		if parts := strings.Split(arg, " "); len(parts) > 1 && i%3 == 2 {
			// the query typed without quotes: the shell hands its words over one by one, the program joins them with single blanks
			args = append(args, "--")
			args = append(args, parts...)
			ctx.R.Path("cli-queries-handed-over-word-by-word", 1)
			if len(arg) > 1000 {
				ctx.R.Path("cli-queries-over-1000-bytes-handed-over-word-by-word", 1)
			}
		} else {
			args = append(args, "--", arg)
		}
		cs := c14MkCase("cli", i, arg, true)
		ctx.R.Begin(cs)
		ctx.R.Eval(1)
		ref := c14Reference(arg)
		var want string
		var werr error
		if !ctx.R.Guard("C14", "ValidateQuery", cs, func() { want, werr = validation.ValidateQuery(arg) }) {
			continue
		}
		limitOK, limitVal := true, 0
		if limitArg != "" {
			v, err := strconv.Atoi(limitArg)
			limitVal = v
			limitOK = err == nil && v >= 0 && v <= 100
		}
		res := h.Wtf(ctx.Wtf, env, args...)
		var lines []string
		for _, l := range strings.Split(res.Stdout, "\n") {
			if strings.HasPrefix(l, prefix) {
				lines = append(lines, l)
			}
		}
		wit := c14Witness(cs, ref, want, werr, map[string]interface{}{"args_quoted": fmt.Sprintf("%q", args), "env": env, "rc": res.RC, "stdout": vlib.Q(vlib.Trunc(res.Stdout, 1500)), "stderr": vlib.Q(vlib.Trunc(res.Stderr, 1500)), "lines": len(lines)})
		vioC := func(clause, detail string) {
			ctx.R.Violate(vlib.Violation{Property: "C14", Clause: clause, Path: "wtf -- <query>", Detail: detail + "; argument " + vlib.Q(vlib.Trunc(arg, 80)), Witness: wit})
		}
		vio := func(detail string) { vioC("cli-echo", detail) }
		if bad, why := res.Crashed(); bad {
			vio("the process did not end normally: " + why)
			continue
		}
		if ref.features() >= 2 {
			ctx.R.Nontriv("cli", arg)
		}
		// what the run printed and recorded
		printed := 0
		switch format {
		case "json":
			_, items, _, _ := JSONBlock(res.Stdout)
			printed = len(items)
		case "table":
			for _, l := range strings.Split(res.Stdout, "\n") {
				f := strings.Fields(l)
				if len(f) > 0 && f[0] == fmt.Sprint(printed+1) && len(l) > 4 && l[3] == ' ' {
					printed++
				}
			}
		default:
			printed, _, _ = ListBlock(res.Stdout)
		}
		hf, okH := c17ReadHist(h.History())
		nowLen, nowQ := 0, ""
		if okH && len(hf.Entries) > 0 {
			nowLen, nowQ = len(hf.Entries), hf.Entries[len(hf.Entries)-1].Query
		}
		recorded := nowLen != prevLen || nowQ != prevQ
		prevLen, prevQ = nowLen, nowQ
		if format != "" || limitArg != "" {
			ctx.R.Path("cli-runs-with-format-or-limit", 1)
		}
		if !ref.Accept || !limitOK {
			ctx.R.Path("cli-rejected", 1)
			if !limitOK {
				ctx.R.Path("cli-rejected-limit", 1)
			}
			why := "limit " + limitArg + " is outside 0..100"
			if !ref.Accept {
				why = ref.why()
			}
			switch {
			case len(lines) > 0:
				vio(fmt.Sprintf("the statement rejects the request (%s) but the binary went on to search: %s", why, vlib.Q(vlib.Trunc(lines[0], 100))))
			case printed > 0:
				vioC("cli-rejected-request-answered", fmt.Sprintf("the statement rejects the request (%s) but the binary printed %d results", why, printed))
			case recorded:
				vioC("cli-rejected-request-answered", fmt.Sprintf("the statement rejects the request (%s) but the run recorded a search for %s in the history", why, vlib.Q(vlib.Trunc(nowQ, 60))))
			}
			continue
		}
		ctx.R.Path("cli-accepted", 1)
		switch {
		case werr != nil:
			ctx.R.Inconcl("in-process ValidateQuery disagrees with the reference (reported by engine validate)")
		case len(lines) == 0 && format != "json":
			vio("the statement accepts the query but no 'Searching for:' line was printed")
		case len(lines) == 0 && !(okH && nowQ == want):
			vio("the statement accepts the query; no 'Searching for:' line was printed and the history does not hold the validated query as its newest entry")
		case len(lines) > 0 && lines[0] != prefix+" "+want:
			vio(fmt.Sprintf("the binary searched for %s, the validated query is %s", vlib.Q(vlib.Trunc(strings.TrimPrefix(lines[0], prefix+" "), 80)), vlib.Q(vlib.Trunc(want, 80))))
		default:
			if len(lines) > 0 {
				// what was searched for must be clean as well
				for _, is := range c14OutputIssues(arg, strings.TrimPrefix(lines[0], prefix+" ")) {
					vio("searched query is not clean (" + is[0] + "): " + is[1])
				}
			}
		}
		// the limit in force: at most 100 whatever the environment says, at most the limit asked for
		bound := 100
		if limitArg != "" && limitVal >= 1 {
			bound = limitVal
		}
		if printed > bound {
			vioC("cli-limit", fmt.Sprintf("%d results printed for --limit %s (an accepted limit is between 1 and 100, 0 or none meaning the default)", printed, vlib.Q(limitArg)))
		}
		if printed >= 5 {
			ctx.R.Path("cli-answers-with-5-or-more-results", 1)
		}
		if printed == 100 {
			ctx.R.Path("cli-answers-with-100-results", 1)
		}
	}
}

package main

// C13 - project context only re-ranks.
//
// Engine "ctxboost": paired runs (without / with a context-boost map) on one
// loaded database instance, through SearchUniversal (NLP off and on; deciding)
// and through the legacy SearchWithPipelineOptions that `wtf pipeline` uses
// (weaker implied clauses only).
//
// Engine "analyzer": context.Analyzer on generated directories (marker files,
// decoys, arbitrary package.json / Makefile text).

import (
	"encoding/json"
	"fmt"
	"hash/fnv"
	"math"
	"math/rand"
	"os"
	"path/filepath"
	"reflect"
	"sort"
	"strings"

	pctx "github.com/Vedant9500/WTF/internal/context"
	"github.com/Vedant9500/WTF/internal/database"
	"github.com/Vedant9500/WTF/internal/nlp"
	"github.com/Vedant9500/WTF/internal/zzverif/vlib"
)

func init() {
	engines["ctxboost"] = c13EngineCtxBoost
	engines["analyzer"] = c13EngineAnalyzer
}

// ===========================================================================
// (A) ctxboost

const (
	c13RefEvals     = 5  // stable-reference rule
	c13ConfirmPairs = 10 // a suspected violation must reproduce on this many fresh pairs
	c13Eps          = 1e-9
)

var c13Factors = []float64{1, 1.3, 1.5, 2, 3, 10, 1000}

// words the real analyzer hands out (plain project vocabulary; generator input only)
var c13CtxWords = []string{"git", "commit", "branch", "docker", "build", "run", "npm", "install", "package", "test", "make",
	"service", "deploy", "go", "mod", "cargo", "compile", "bundle", "destroy", "init", "plan", "dev", "start", "lint", "k8s"}

type c13Case struct {
	DB     string             `json:"db"`
	N      int                `json:"n"`
	Query  string             `json:"query"`
	Opts   vlib.OptJSON       `json:"opts"`
	Boosts map[string]float64 `json:"boost_map"`
	Entry  string             `json:"entry"`
}

func c13RelEq(x, y float64) bool {
	if x == y {
		return true
	}
	if math.IsNaN(x) || math.IsNaN(y) {
		return math.IsNaN(x) && math.IsNaN(y)
	}
	d := math.Abs(x - y)
	m := math.Max(math.Abs(x), math.Abs(y))
	return d <= c13Eps*m || d <= 1e-12
}

// c13Lower: b is lower than a by more than the tolerance.
func c13Lower(a, b float64) bool {
	return b < a-c13Eps*math.Abs(a)-1e-12
}

// c13ScoreMap turns an answer into entry-index -> score. Lists with foreign
// or repeated entries are C01's business; here they make the case undecidable.
func c13ScoreMap(rk vlib.Ranked) (map[int]float64, string) {
	m := make(map[int]float64, len(rk))
	for _, it := range rk {
		if it.Idx < 0 {
			return nil, "foreign-entry-in-list"
		}
		if _, dup := m[it.Idx]; dup {
			return nil, "duplicate-entry-in-list"
		}
		m[it.Idx] = it.Score
	}
	return m, ""
}

// c13Eval evaluates one side of a pair; why != "" means undecidable (panic
// already reported, or malformed list).
type c13Eval func(b map[string]float64) (m map[int]float64, why string)

// c13StableRef applies the stable-reference rule to the un-boosted side:
// all evaluations must agree on the set of entries and on every score (1e-9).
func c13StableRef(ev c13Eval) (map[int]float64, string) {
	var m0 map[int]float64
	for i := 0; i < c13RefEvals; i++ {
		m, why := ev(nil)
		if why != "" {
			return nil, why
		}
		if i == 0 {
			m0 = m
			continue
		}
		if len(m) != len(m0) {
			return nil, "reference-unstable"
		}
		for k, v := range m0 {
			w, ok := m[k]
			if !ok || !c13RelEq(v, w) {
				return nil, "reference-unstable"
			}
		}
	}
	return m0, ""
}

// relation of an entry to the boosted words
const (
	c13Unrelated = 0 // contains no boosted word: score must be unchanged
	c13Related   = 1 // contains a boosted word: score must not be lowered
	c13Undecided = 2 // only "not lowered" is asserted
)

// c13Check evaluates the clauses for one entry; returns "", "candidates",
// "unrelated" or "lowered".
func c13Check(idx int, m0, mB map[int]float64, rel func(int) int) string {
	s0, in0 := m0[idx]
	sB, inB := mB[idx]
	if in0 != inB {
		return "candidates"
	}
	if !in0 {
		return ""
	}
	if rel(idx) == c13Unrelated {
		if !c13RelEq(s0, sB) {
			return "unrelated"
		}
		return ""
	}
	if c13Lower(s0, sB) {
		return "lowered"
	}
	return ""
}

type c13Susp struct {
	Kind string
	Idx  int
}

// c13Judge returns at most one suspicion per clause (lowest entry index).
func c13Judge(m0, mB map[int]float64, rel func(int) int) []c13Susp {
	idxs := make([]int, 0, len(m0)+4)
	for k := range m0 {
		idxs = append(idxs, k)
	}
	for k := range mB {
		if _, ok := m0[k]; !ok {
			idxs = append(idxs, k)
		}
	}
	sort.Ints(idxs)
	seen := map[string]bool{}
	var out []c13Susp
	for _, i := range idxs {
		k := c13Check(i, m0, mB, rel)
		if k != "" && !seen[k] {
			seen[k] = true
			out = append(out, c13Susp{k, i})
		}
	}
	return out
}

// c13Confirm re-runs fresh (un-boosted, boosted) pairs: an effect of the boost
// map shows in every pair, an effect of unordered iteration (C02) does not.
func c13Confirm(ev c13Eval, b map[string]float64, s c13Susp, rel func(int) int) bool {
	for i := 0; i < c13ConfirmPairs; i++ {
		m0, w0 := ev(nil)
		mB, wB := ev(b)
		if w0 != "" || wB != "" {
			return false
		}
		if c13Check(s.Idx, m0, mB, rel) != s.Kind {
			return false
		}
	}
	return true
}

func c13EntryText(c *vlib.Cmd) string {
	return fmt.Sprintf("command=%s description=%s keywords=%s tags=%s niche=%s", vlib.Q(vlib.Trunc(c.Command, 120)),
		vlib.Q(vlib.Trunc(c.Description, 160)), vlib.Q(vlib.Trunc(strings.Join(c.Keywords, ","), 120)),
		vlib.Q(vlib.Trunc(strings.Join(c.Tags, ","), 80)), vlib.Q(c.Niche))
}

func c13BoostString(b map[string]float64) string {
	ks := make([]string, 0, len(b))
	for k := range b {
		ks = append(ks, k)
	}
	sort.Strings(ks)
	var sb strings.Builder
	for _, k := range ks {
		fmt.Fprintf(&sb, "%q=%v;", k, b[k])
	}
	return sb.String()
}

// c13RunPair decides one (case, boost map) against the reference m0.
// clausePrefix is "" (SearchUniversal) or "pipeline-".
func c13RunPair(ctx *Ctx, cs c13Case, cmds []vlib.Cmd, ev c13Eval, m0 map[int]float64, rel func(int) int,
	clausePrefix string, pathName string) (mB map[int]float64) {
	mB, why := ev(cs.Boosts)
	if why != "" {
		ctx.R.Inconcl(why)
		return nil
	}
	ctx.R.Path(pathName, 1)
	if len(m0) == 0 && len(mB) == 0 {
		ctx.R.Path("pairs-empty-answer", 1)
	}
	changed, relN, unrelN := 0, 0, 0
	for k, v := range m0 {
		if w, ok := mB[k]; ok && !c13RelEq(v, w) {
			changed++
		}
		if rel(k) == c13Unrelated {
			unrelN++
		} else {
			relN++
		}
	}
	ctx.R.Path("entries-unrelated-checked", int64(unrelN))
	ctx.R.Path("entries-related-checked", int64(relN))
	if changed > 0 {
		ctx.R.Path("boost-effective", 1)
		ctx.R.Nontriv(cs.DB, cs.Entry, cs.Query, fmt.Sprintf("%+v", cs.Opts), c13BoostString(cs.Boosts))
		ctx.R.Sample(map[string]interface{}{"case": cs, "candidates": len(m0), "scores_changed": changed})
	}
	for _, s := range c13Judge(m0, mB, rel) {
		if !c13Confirm(ev, cs.Boosts, s, rel) {
			ctx.R.Inconcl("suspicion-not-reproducible-" + s.Kind)
			continue
		}
		s0, in0 := m0[s.Idx]
		sB, inB := mB[s.Idx]
		var hit []string
		for k := range cs.Boosts {
			if k != "" && strings.Contains(strings.ToLower(c13AllText(&cmds[s.Idx])), strings.ToLower(k)) {
				hit = append(hit, k)
			}
		}
		sort.Strings(hit)
		var clause, detail string
		switch s.Kind {
		case "candidates":
			clause = clausePrefix + "candidates-changed"
			detail = fmt.Sprintf("entry %d is a candidate without boosts: %v (score %v), with boosts %s: %v (score %v); candidates %d vs %d; %s",
				s.Idx, in0, s0, c13BoostString(cs.Boosts), inB, sB, len(m0), len(mB), c13EntryText(&cmds[s.Idx]))
		case "unrelated":
			clause = clausePrefix + "unrelated-changed"
			if clausePrefix == "" {
				clause = "unrelated-score-changed"
			}
			detail = fmt.Sprintf("entry %d contains none of the boosted words %s but its score went from %v to %v (ratio %.6g); %s",
				s.Idx, c13BoostString(cs.Boosts), s0, sB, sB/s0, c13EntryText(&cmds[s.Idx]))
		case "lowered":
			clause = clausePrefix + "score-lowered"
			detail = fmt.Sprintf("entry %d (mentions boosted %v) score lowered from %v to %v (ratio %.6g) by boosts %s, all factors >= 1; %s",
				s.Idx, hit, s0, sB, sB/s0, c13BoostString(cs.Boosts), c13EntryText(&cmds[s.Idx]))
		}
		ctx.R.Violate(vlib.Violation{Property: "C13", Clause: clause, Path: cs.Entry, Detail: detail,
			Witness: map[string]interface{}{"case": cs, "entry_index": s.Idx, "score_without": s0, "score_with": sB,
				"reproduced_on_fresh_pairs": c13ConfirmPairs}})
	}
	return mB
}

func c13AllText(c *vlib.Cmd) string {
	return c.Command + "\x00" + c.Description + "\x00" + strings.Join(c.Keywords, "\x00") + "\x00" + strings.Join(c.Tags, "\x00") + "\x00" + c.Niche
}

func c13DBSpec(k int) vlib.DBSpec {
	sizes := []int{5, 12, 25, 40, 80, 120, 300}
	return vlib.DBSpec{N: sizes[k%len(sizes)], TieHeavy: k%3 == 0, Platforms: (k / 2) % 3, Unicode: k%4 == 1,
		Pipelines: k%2 == 0, MixedCase: k%5 == 2}
}

func c13Query(r *rand.Rand, words []string) string {
	kind := []int{0, 0, 0, 1}[r.Intn(4)]
	nw := 1 + r.Intn(4)
	if r.Intn(7) == 0 {
		nw = 5 + r.Intn(8)
	}
	return vlib.GenQuery(r, words, nw, kind)
}

// c13GenBoosts draws 1-5 keys with factors from c13Factors. qWords are the
// words of the query as the searched path sees them, special are path-specific
// extras (NLP terms / niches).
func c13GenBoosts(r *rand.Rand, qWords, special, dbWords []string, oddKeys bool) map[string]float64 {
	n := 1 + r.Intn(5)
	b := map[string]float64{}
	for i := 0; i < n; i++ {
		var k string
		switch x := r.Intn(20); {
		case x < 8 && len(qWords) > 0:
			k = qWords[r.Intn(len(qWords))]
		case x < 11 && len(special) > 0:
			k = special[r.Intn(len(special))]
		case x < 15 && len(dbWords) > 0:
			k = dbWords[r.Intn(len(dbWords))]
		case x < 16:
			k = vlib.Word(r, nil)
		case x < 18:
			k = c13CtxWords[r.Intn(len(c13CtxWords))]
		case x < 19 || !oddKeys:
			k = vlib.RandWord(r)
		default: // keys that are not tokens: never equal to a query term
			if len(qWords) > 0 {
				k = strings.ToUpper(qWords[r.Intn(len(qWords))])
			} else {
				k = "Build"
			}
		}
		if k == "" {
			continue
		}
		b[k] = c13Factors[r.Intn(len(c13Factors))]
	}
	if len(b) == 0 {
		b[vlib.RandWord(r)] = 2
	}
	return b
}

func c13NLPWords(q string) (out []string) {
	defer func() { _ = recover() }()
	pq := nlp.NewQueryProcessor().ProcessQuery(q)
	if pq == nil {
		return nil
	}
	out = append(out, pq.Actions...)
	out = append(out, pq.Targets...)
	out = append(out, pq.GetEnhancedKeywords()...)
	for i := range out {
		out[i] = strings.ToLower(out[i])
	}
	return out
}

func c13EngineCtxBoost(ctx *Ctx) {
	r := vlib.NewRand(ctx.Seed, ctx.Shard, "ctxboost")
	nDB := ctx.N(64, 1920)
	nQ := 14
	nB := 4
	for d := 0; d < nDB; d++ {
		var cmds []vlib.Cmd
		var db *database.Database
		dbName := fmt.Sprintf("gen-%d-%d", ctx.Shard, d)
		everywhere := ""
		shipped := d%10 == 0 && ctx.Shard%4 == 0 // quick: 1 of 4 databases in 4 shards; thorough: 4 of 40
		if shipped {
			db = ctx.Shipped()
			cmds = db.Commands
			dbName = "shipped"
		} else {
			sp := c13DBSpec(ctx.Shard + d*ctx.NShards + int(ctx.Seed%7))
			if ctx.G(d)%16 == 9 { // thousands of entries: requests with hundreds of candidates (any window or cut-off inside the ranking is crossed)
				sp.N = 1200 + r.Intn(1500)
				ctx.R.Path("large-databases", 1)
			}
			cmds0 := vlib.GenCommands(r, sp)
			if ctx.G(d)%4 == 2 && len(cmds0) >= 5 {
				// a word every entry carries (a team tag, a product name): as common, and as weak a piece of evidence, as a word can be
				everywhere = []string{"runbook", "acme", "internal"}[r.Intn(3)]
				for i := range cmds0 {
					if i%2 == 0 {
						cmds0[i].Tags = append(append([]string(nil), cmds0[i].Tags...), everywhere)
					} else {
						cmds0[i].Description += " " + everywhere
					}
				}
				ctx.R.Path("databases-with-a-word-in-every-entry", 1)
			}
			if !ctx.R.Guard("C13", "LoadDatabase", dbName, func() { db = vlib.MustLoad(cmds0) }) {
				continue
			}
			cmds = db.Commands
		}
		n := len(cmds)
		ref := vlib.BuildRef(cmds, vlib.BM25FParams{})
		words := vlib.DBWords(cmds)
		// lower-cased texts for the substring notion of the legacy scorer
		lowText := make([]string, n)
		nicheSet := map[string]bool{}
		for i := range cmds {
			lowText[i] = strings.ToLower(c13AllText(&cmds[i]))
			if cmds[i].Niche != "" {
				nicheSet[strings.ToLower(cmds[i].Niche)] = true
			}
		}
		niches := make([]string, 0, len(nicheSet))
		for k := range nicheSet {
			niches = append(niches, k)
		}
		sort.Strings(niches)
		// which entries the legacy scorer matches for one word alone (lazy)
		wordMatch := map[string]map[int]bool{}
		legacyMatches := func(key string) map[int]bool {
			if m, ok := wordMatch[key]; ok {
				return m
			}
			m := map[int]bool{}
			ctx.R.Guard("C13", "SearchWithPipelineOptions/single-word", key, func() {
				for _, it := range vlib.Canon(cmds, db.SearchWithPipelineOptions(key, database.SearchOptions{Limit: n + 1})) {
					m[it.Idx] = true
				}
			})
			wordMatch[key] = m
			return m
		}

		nq := nQ
		if shipped {
			nq = ctx.Pick(6, 12)
		}
		// the most frequent words of a large database: requests made of them have hundreds or thousands of candidates
		var frequent []string
		if n > 1000 {
			type wf struct {
				w  string
				df int
			}
			var all []wf
			for w, df := range ref.DF {
				if len(w) > 2 {
					all = append(all, wf{w, df})
				}
			}
			sort.Slice(all, func(i, j int) bool { return all[i].df > all[j].df || all[i].df == all[j].df && all[i].w < all[j].w })
			for i := 0; i < len(all) && i < 150; i++ {
				frequent = append(frequent, all[i].w)
			}
			if nq > 8 {
				nq = 8
			}
		}
		carry := c13CarryT{}
		for qi := 0; qi < nq; qi++ {
			q := c13Query(r, words)
			if len(frequent) > 0 && qi%2 == 0 {
				q = vlib.GenQuery(r, frequent, 2+r.Intn(3), 0)
				ctx.R.Path("frequent-word-queries", 1)
			}
			typoQuery := false
			if everywhere != "" && qi%3 == 1 && len(words) > 0 {
				// the ubiquitous word next to a misspelt one (a word the database has never seen, a letter away from one it has)
				w := words[r.Intn(len(words))]
				if len(w) >= 4 && vlib.IsASCII(w) {
					i := 1 + r.Intn(len(w)-2)
					q = everywhere + " " + w[:i] + w[i+1:]
					typoQuery = true
					ctx.R.Path("queries-of-a-ubiquitous-and-a-misspelt-word", 1)
				}
			}
			qTok := vlib.Tokenize(q)
			c13Carry(ctx, r, db, cmds, &carry, q, dbName)

			// ---- SearchUniversal, NLP off and on --------------------------------
			for _, useNLP := range []bool{false, true} {
				o := database.SearchOptions{
					Limit:         n + 1, // nothing is cut, the NLP re-rank window covers every candidate
					UseNLP:        useNLP,
					UseFuzzy:      typoQuery || r.Intn(3) == 0, // (the application searches with typo tolerance on)
					AllPlatforms:  r.Intn(8) != 0,
					PipelineOnly:  r.Intn(10) == 0,
					PipelineBoost: []float64{0, 0, 0, 2, 0.5}[r.Intn(5)],
					TopTermsCap:   []int{0, 0, 0, 4, 50}[r.Intn(5)],
				}
				entry, pathName := "SearchUniversal/nlp-off", "pairs-nlp-off"
				var special []string
				if useNLP {
					entry, pathName = "SearchUniversal/nlp-on", "pairs-nlp-on"
					special = c13NLPWords(q)
				}
				base := c13Case{DB: dbName, N: n, Query: q, Opts: vlib.OptsJ(o), Entry: entry}
				cur := base
				ev := func(b map[string]float64) (map[int]float64, string) {
					oo := o
					oo.ContextBoosts = b
					var res []database.SearchResult
					if !ctx.R.Guard("C13", entry, cur, func() { res = db.SearchUniversal(q, oo) }) {
						return nil, "panic"
					}
					return c13ScoreMap(vlib.Canon(cmds, res))
				}
				ctx.R.Begin(base)
				m0, why := c13StableRef(ev)
				if why == "reference-unstable" {
					ctx.R.Extra["c13_unstable_reference_example"] = base
				}
				if len(m0) > 400 {
					ctx.R.Path("requests-with-over-400-candidates", 1)
				}
				for bi := 0; bi < nB; bi++ {
					cs := base
					cs.Boosts = c13GenBoosts(r, qTok, special, words, true)
					cur = cs
					ctx.R.Begin(cs)
					ctx.R.Eval(1)
					if why != "" {
						ctx.R.Inconcl(why)
						continue
					}
					rel := func(idx int) int {
						for k := range cs.Boosts {
							if ref.Contains(idx, k) {
								return c13Related
							}
						}
						return c13Unrelated
					}
					c13RunPair(ctx, cs, cmds, ev, m0, rel, "", pathName)
					if shipped {
						ctx.R.Path("shipped", 1)
					}
				}
			}

			// ---- legacy pipeline path (weaker clauses) ---------------------------
			{
				o := database.SearchOptions{
					Limit:         n + 1,
					PipelineOnly:  r.Intn(2) == 0,
					PipelineBoost: []float64{0, 2, 2, 0.5}[r.Intn(4)],
				}
				entry := "SearchWithPipelineOptions"
				base := c13Case{DB: dbName, N: n, Query: q, Opts: vlib.OptsJ(o), Entry: entry}
				cur := base
				ev := func(b map[string]float64) (map[int]float64, string) {
					oo := o
					oo.ContextBoosts = b
					var res []database.SearchResult
					if !ctx.R.Guard("C13", entry, cur, func() { res = db.SearchWithPipelineOptions(q, oo) }) {
						return nil, "panic"
					}
					return c13ScoreMap(vlib.Canon(cmds, res))
				}
				ctx.R.Begin(base)
				m0, why := c13StableRef(ev)
				qWords := strings.Fields(strings.ToLower(q))
				for bi := 0; bi < nB; bi++ {
					cs := base
					cs.Boosts = c13GenBoosts(r, qWords, niches, words, false)
					cur = cs
					ctx.R.Begin(cs)
					ctx.R.Eval(1)
					if why != "" {
						ctx.R.Inconcl(why)
						continue
					}
					assoc := map[int]string{}
					bkeys := make([]string, 0, len(cs.Boosts))
					for k := range cs.Boosts {
						bkeys = append(bkeys, strings.ToLower(k))
					}
					sort.Strings(bkeys)
					rel := func(idx int) int {
						for _, kl := range bkeys {
							if strings.Contains(lowText[idx], kl) {
								return c13Related
							}
						}
						// no textual mention; but when the scorer itself associates a boosted word with
						// the entry (word -> tool table) "unchanged" is not asserted
						for _, kl := range bkeys {
							if legacyMatches(kl)[idx] {
								assoc[idx] = kl
								return c13Undecided
							}
						}
						return c13Unrelated
					}
					mB := c13RunPair(ctx, cs, cmds, ev, m0, rel, "pipeline-", "pairs-pipeline")
					if len(assoc) > 0 && mB != nil {
						// observation, not a verdict: the scorer's own word->tool table lets a boost reach
						// entries that mention the word nowhere
						ctx.R.Path("pipeline-word-association-cases", 1)
						ai := make([]int, 0, len(assoc))
						for idx := range assoc {
							ai = append(ai, idx)
						}
						sort.Ints(ai)
						for _, idx := range ai {
							if sB, ok := mB[idx]; ok && !c13RelEq(m0[idx], sB) {
								ctx.R.Path("pipeline-word-association-score-changed", 1)
								if _, have := ctx.R.Extra["c13_word_association_example"]; !have {
									ctx.R.Extra["c13_word_association_example"] = map[string]interface{}{"case": cs, "entry_index": idx,
										"word": assoc[idx], "entry": c13EntryText(&cmds[idx]), "score_without": m0[idx], "score_with": sB}
								}
								break
							}
						}
					}
					if shipped {
						ctx.R.Path("shipped", 1)
					}
				}
			}
		}
	}
}

// c13CarryT: one boost map object that a long-lived caller hands to request after request (as the CLI's context object would
// in a session), with a private copy of what the caller put into it.
type c13CarryT struct {
	m    map[string]float64
	orig map[string]float64
	uses int
}

// c13Carry: the carried map first serves an enhanced request worded with the analysis vocabulary (action / target words), then
// the request in hand; the latter must score exactly as with a fresh map holding what the caller put in - a request may not
// leave boosts behind for the next one.
func c13Carry(ctx *Ctx, r *rand.Rand, db *database.Database, cmds []vlib.Cmd, c *c13CarryT, q, dbName string) {
	d := ctx.Dict()
	if len(d.NLPWords) == 0 || len(cmds) == 0 {
		return
	}
	if c.m == nil || c.uses > 6 {
		c.m, c.orig, c.uses = map[string]float64{}, map[string]float64{}, 0
		for i := 0; i < 1+r.Intn(2); i++ {
			w := c13CtxWords[r.Intn(len(c13CtxWords))]
			f := []float64{1.5, 2, 3}[r.Intn(3)]
			c.m[w], c.orig[w] = f, f
		}
	}
	c.uses++
	nlpQ := d.NLPWords[r.Intn(len(d.NLPWords))]
	if r.Intn(2) == 0 {
		nlpQ += " " + d.NLPWords[r.Intn(len(d.NLPWords))]
	}
	n := len(cmds)
	cs := map[string]interface{}{"db": dbName, "n": n, "earlier_enhanced_request": nlpQ, "query": q, "boosts_the_caller_put_in": c13BoostString(c.orig)}
	ctx.R.Begin(cs)
	ctx.R.Eval(1)
	ctx.R.Guard("C13", "SearchUniversal/boost-map-carried-over", cs, func() {
		db.SearchUniversal(nlpQ, database.SearchOptions{Limit: 5, UseNLP: true, AllPlatforms: true, ContextBoosts: c.m})
		for _, qq := range []string{q, nlpQ} {
			o := database.SearchOptions{Limit: n + 1, AllPlatforms: true}
			fresh := map[string]float64{}
			for k, v := range c.orig {
				fresh[k] = v
			}
			o.ContextBoosts = c.m
			a, _ := c13ScoreMap(vlib.Canon(cmds, db.SearchUniversal(qq, o)))
			o.ContextBoosts = fresh
			b, _ := c13ScoreMap(vlib.Canon(cmds, db.SearchUniversal(qq, o)))
			ctx.R.Path("requests-with-a-carried-boost-map", 1)
			for idx, sb := range b {
				if sa, ok := a[idx]; !ok || !c13RelEq(sa, sb) {
					ctx.R.Violate(vlib.Violation{Property: "C13", Clause: "unrelated-score-changed", Path: "SearchUniversal/boost-map-carried-over",
						Detail: fmt.Sprintf("request %q with the boost map that served the enhanced request %q before scores entry %d %v; with a fresh map holding what the caller put in (%s) it scores %v; the carried map now reads %s; %s",
							qq, nlpQ, idx, sa, c13BoostString(c.orig), sb, c13BoostString(c.m), c13EntryText(&cmds[idx])), Witness: cs})
					c.m = nil // start over with a new map
					return
				}
			}
			if len(a) != len(b) {
				ctx.R.Violate(vlib.Violation{Property: "C13", Clause: "candidates-changed", Path: "SearchUniversal/boost-map-carried-over",
					Detail: fmt.Sprintf("request %q has %d candidates with the carried boost map and %d with a fresh map of the same content", qq, len(a), len(b)), Witness: cs})
				c.m = nil
				return
			}
		}
	})
}

// ===========================================================================
// (B) analyzer

type c13Ent struct {
	Name  string
	IsDir bool
	Data  []byte
}

// marker table (from the documentation of the analyzer: which file names
// announce which project type). Only exact, unambiguous names are listed.
var c13ExactMarkers = map[string]pctx.ProjectType{
	".git":       pctx.ProjectTypeGit,
	"Dockerfile": pctx.ProjectTypeDocker, "docker-compose.yml": pctx.ProjectTypeDocker, "docker-compose.yaml": pctx.ProjectTypeDocker,
	"package.json": pctx.ProjectTypeNode, "node_modules": pctx.ProjectTypeNode, "yarn.lock": pctx.ProjectTypeNode, "pnpm-lock.yaml": pctx.ProjectTypeNode,
	"webpack.config.js": pctx.ProjectTypeWebpack, "webpack.config.ts": pctx.ProjectTypeWebpack,
	"vite.config.js": pctx.ProjectTypeVite, "vite.config.ts": pctx.ProjectTypeVite,
	"requirements.txt": pctx.ProjectTypePython, "setup.py": pctx.ProjectTypePython, "pyproject.toml": pctx.ProjectTypePython, "Pipfile": pctx.ProjectTypePython,
	"go.mod": pctx.ProjectTypeGo, "go.sum": pctx.ProjectTypeGo,
	"Cargo.toml": pctx.ProjectTypeRust, "Cargo.lock": pctx.ProjectTypeRust,
	"pom.xml": pctx.ProjectTypeJava, "build.gradle": pctx.ProjectTypeJava, "build.gradle.kts": pctx.ProjectTypeJava,
	"global.json": pctx.ProjectTypeDotNet, "nuget.config": pctx.ProjectTypeDotNet,
	"Gemfile": pctx.ProjectTypeRuby, "Rakefile": pctx.ProjectTypeRuby,
	"composer.json": pctx.ProjectTypePHP, "composer.lock": pctx.ProjectTypePHP,
	"CMakeLists.txt": pctx.ProjectTypeC,
	"Makefile":       pctx.ProjectTypeMake, "makefile": pctx.ProjectTypeMake,
	"kustomization.yaml": pctx.ProjectTypeKubernetes,
	"ansible.cfg":        pctx.ProjectTypeAnsible, "hosts": pctx.ProjectTypeAnsible, "inventory": pctx.ProjectTypeAnsible,
}

var c13ExactNames []string

func init() {
	for k := range c13ExactMarkers {
		c13ExactNames = append(c13ExactNames, k)
	}
	sort.Strings(c13ExactNames)
}

// c13MustType: the type a regular file of this name must announce ("" = no
// obligation).
func c13MustType(name string) pctx.ProjectType {
	if t, ok := c13ExactMarkers[name]; ok {
		return t
	}
	switch {
	case strings.HasSuffix(name, ".csproj"), strings.HasSuffix(name, ".vbproj"), strings.HasSuffix(name, ".fsproj"):
		return pctx.ProjectTypeDotNet
	case strings.Contains(name, "k8s") && strings.HasSuffix(name, ".yaml"):
		return pctx.ProjectTypeKubernetes
	case strings.HasSuffix(name, ".tf"), strings.HasSuffix(name, ".tfvars"):
		return pctx.ProjectTypeTerraform
	case strings.Contains(name, "playbook") && strings.HasSuffix(name, ".yml"):
		return pctx.ProjectTypeAnsible
	}
	return ""
}

// c13MaybeMarker is deliberately generous: a name for which it is false is
// certainly no marker of any kind.
func c13MaybeMarker(name string) bool {
	l := strings.ToLower(name)
	for _, m := range c13ExactNames {
		if strings.EqualFold(m, name) {
			return true
		}
	}
	for _, frag := range []string{"k8s", "kube", "playbook", "kustom", "proj", ".tf", "docker", "make", "package", "gem", "rake",
		"cargo", "go.", "pom", "gradle", "compos", "requirements", "setup", "pipfile", "ansible", "hosts", "inventory", "lock",
		"config", "node_", ".git", "global", "nuget", "cmake", "pyproject"} {
		if strings.Contains(l, frag) {
			return true
		}
	}
	return false
}

var c13Decoys = []string{"package.json.bak", "Dockerfile.old", "go.mod~", "Makefile.am", "makefile.inc", "requirements-dev.txt",
	"cargo.toml", "GEMFILE", "pom.xml.orig", ".gitignore", ".github", ".gitmodules", "docker-compose.override.yml", "main.tf.json",
	"terraform.tfstate", "k8s.txt", "playbook.txt", "README.md", "src", "main.go", "index.js", "app.py", "Package.json",
	"dockerfile", "MAKEFILE", "go.work", "setup.cfg", "tsconfig.json", "package-lock.json", "x.csproj.user", ".tf", "hosts.bak",
	"kustomization.yml", "kubernetes.yml", "site-playbook.yaml", "a.yaml", "b.yml", "LICENSE", ".env", "build.gradle.bak", "Cargo.toml.orig"}

func c13PatternMarker(r *rand.Rand) string {
	w := vlib.RandWord(r)
	switch r.Intn(12) {
	case 0:
		return w + ".csproj"
	case 1:
		return w + ".vbproj"
	case 2:
		return w + ".fsproj"
	case 3:
		return "deploy-k8s.yaml"
	case 4:
		return w + "-k8s-" + vlib.RandWord(r) + ".yaml"
	case 5:
		return "k8s.yaml"
	case 6:
		return "main.tf"
	case 7:
		return w + ".tf"
	case 8:
		return w + ".tfvars"
	case 9:
		return "playbook.yml"
	case 10:
		return w + "_playbook.yml"
	default:
		return "site-playbook-" + w + ".yml"
	}
}

var c13ScriptNames = []string{"build", "test", "start", "lint", "dev", "deploy", "clean", "watch", "serve", "format", "prepare",
	"postinstall", "docs", "release", "run", "install", "git", "docker"}

// c13GenPackageJSON returns the text and its class: "valid" (object with a
// string->string "scripts" of >= 1 entry), "noscripts" (valid JSON, no usable
// scripts), "broken" (wrong type / truncated / not JSON).
func c13GenPackageJSON(r *rand.Rand) ([]byte, string) {
	scripts := map[string]string{}
	for i, n := 0, 1+r.Intn(6); i < n; i++ {
		k := c13ScriptNames[r.Intn(len(c13ScriptNames))]
		switch r.Intn(8) {
		case 0:
			k = vlib.RandWord(r)
		case 1:
			k = k + ":" + vlib.RandWord(r)
		}
		scripts[k] = "node " + vlib.RandWord(r) + ".js"
	}
	doc := map[string]interface{}{"name": vlib.RandWord(r), "version": "1.0." + fmt.Sprint(r.Intn(20))}
	enc := func(v interface{}) []byte {
		b, _ := json.MarshalIndent(v, "", "  ")
		return b
	}
	switch r.Intn(16) {
	case 0, 1, 2, 3:
		doc["scripts"] = scripts
		return enc(doc), "valid"
	case 4: // odd keys
		scripts[""] = "echo empty"
		scripts["日本語"] = "echo unicode"
		scripts["with space"] = "echo sp"
		scripts["UPPER"] = "echo up"
		scripts["tab\tkey"] = "echo tab"
		scripts[strings.Repeat("k", 3000)] = "echo long"
		scripts["😀"] = "x"
		scripts["nan"] = "x"
		scripts["build"] = ""
		doc["scripts"] = scripts
		return enc(doc), "valid"
	case 5: // 200 KB, valid, scripts last
		doc["description"] = strings.Repeat("lorem ipsum ", 17000)
		doc["scripts"] = scripts
		return enc(doc), "valid"
	case 6: // many scripts
		for i := 0; i < 3000; i++ {
			scripts[fmt.Sprintf("s%d-%s", i, vlib.RandWord(r))] = "x"
		}
		doc["scripts"] = scripts
		return enc(doc), "valid"
	case 7:
		if r.Intn(2) == 0 {
			doc["dependencies"] = map[string]string{"left-pad": "^1.0.0"}
		}
		return enc(doc), "noscripts"
	case 8:
		doc["scripts"] = nil
		return enc(doc), "noscripts"
	case 9:
		doc["scripts"] = map[string]string{}
		return enc(doc), "noscripts"
	case 10: // wrong JSON type
		doc["scripts"] = []interface{}{[]string{"build", "test"}, "build", 42, true, map[string]interface{}{"build": 1, "test": "ok"},
			map[string]interface{}{"build": map[string]string{"a": "b"}}, map[string]interface{}{"build": nil, "x": []int{1}}}[r.Intn(7)]
		return enc(doc), "broken"
	case 11: // truncated
		doc["scripts"] = scripts
		b := enc(doc)
		return b[:1+r.Intn(len(b)-1)], "broken"
	case 12: // duplicate keys, BOM, top-level non-object
		switch r.Intn(4) {
		case 0:
			return []byte(`{"scripts":{"build":"a","build":"b","test":"c"},"scripts":{"late":"d"}}`), "valid"
		case 1:
			return append([]byte("\xef\xbb\xbf"), enc(doc)...), "broken"
		case 2:
			return []byte(`["scripts", {"build": "x"}]`), "broken"
		default:
			return []byte(`"scripts"`), "broken"
		}
	case 13:
		return []byte{}, "broken"
	case 14: // garbage
		b := make([]byte, 1+r.Intn(400))
		for i := range b {
			b[i] = byte(r.Intn(256))
		}
		return b, "broken"
	default: // deep nesting / huge broken
		if r.Intn(2) == 0 {
			return []byte(strings.Repeat(`{"scripts":`, 2000) + `{}` + strings.Repeat(`}`, 2000)), "broken"
		}
		return []byte(`{"scripts": {"build": "x"}, "pad": "` + strings.Repeat("A", 210000)), "broken"
	}
}

func c13GenMakefile(r *rand.Rand) []byte {
	var lines []string
	tgt := func() string {
		switch r.Intn(6) {
		case 0:
			return vlib.RandWord(r)
		case 1:
			return []string{"build test", "a b c", "dir/file.o", "$(BIN)", "all ", " lead", "my-target", "x_y"}[r.Intn(8)]
		default:
			return c13ScriptNames[r.Intn(len(c13ScriptNames))]
		}
	}
	for i, n := 0, r.Intn(25); i < n; i++ {
		switch r.Intn(20) {
		case 0, 1, 2, 3:
			lines = append(lines, tgt()+": "+tgt(), "\t@echo "+vlib.RandWord(r))
		case 4:
			lines = append(lines, tgt()+":")
		case 5:
			lines = append(lines, "VAR = value", "CC := gcc", "FLAGS ?= -O2", "X += y", "URL = http://example.com:8080/x")
		case 6:
			lines = append(lines, "\tcurl http://host:80/path", "\tdocker run -p 80:80 img", "\t@echo done: ok")
		case 7:
			lines = append(lines, ".PHONY: all clean "+tgt(), ".SUFFIXES:", ".DEFAULT_GOAL := all")
		case 8:
			lines = append(lines, "%.o: %.c", "\t$(CC) -c $< -o $@")
		case 9:
			lines = append(lines, "# comment: with colon", "  # indented comment: x", "#")
		case 10:
			lines = append(lines, tgt()+":: dep", tgt()+" : dep1 dep2", "    spaces: indented")
		case 11:
			lines = append(lines, strings.Repeat("long", 30000)+": dep")
		case 12:
			lines = append(lines, ":", "::", " : ", "=:", ":=", "a=b:c", "")
		case 13:
			lines = append(lines, "ifeq ($(OS),Windows_NT)", "target-win: x", "endif", "include other.mk", "export PATH := $(PATH):/x")
		case 14:
			lines = append(lines, "日本語: dep", "Ünï: x", "\x00bin: y", "tab\tin: z")
		case 15:
			lines = append(lines, "define BLOCK", "inner: not a target", "endef")
		case 16:
			lines = append(lines, "target: VAR = 1", "target: ; @echo inline")
		default:
			lines = append(lines, tgt()+": ", "\t"+vlib.RandWord(r)+" --flag")
		}
	}
	sep := "\n"
	if r.Intn(4) == 0 {
		sep = "\r\n"
	}
	s := strings.Join(lines, sep)
	if r.Intn(3) > 0 && len(lines) > 0 {
		s += sep
	}
	return []byte(s)
}

func c13SafeName(r *rand.Rand) string {
	for {
		n := vlib.RandWord(r) + []string{"", ".txt", ".md", ".c", ".py", ".rs", ".log", ".yaml", ".yml", ".json", ".toml", ".xml", ".js"}[r.Intn(13)]
		if r.Intn(10) == 0 {
			n = "." + n
		}
		if !c13MaybeMarker(n) && c13MustType(n) == "" {
			return n
		}
	}
}

var c13RecipeSeq int

var c13AllTools = []string{"go", "cargo", "rustc", "gcc", "g++", "cc", "clang", "cmake", "npm", "npx", "yarn", "pnpm", "node", "dotnet", "msbuild", "nuget", "python", "python3", "pip", "pip3",
	"pytest", "mvn", "gradle", "./gradlew", "java", "javac", "bundle", "gem", "rake", "ruby", "php", "composer", "docker", "docker-compose", "kubectl", "kustomize", "helm", "terraform",
	"ansible", "ansible-playbook", "git", "make", "$(MAKE)", "webpack", "vite"}

// c13ToolsOf: the programs one runs in a project of that type.
func c13ToolsOf(t pctx.ProjectType) []string {
	switch t {
	case pctx.ProjectTypeGo:
		return []string{"go"}
	case pctx.ProjectTypeRust:
		return []string{"cargo", "rustc"}
	case pctx.ProjectTypeNode:
		return []string{"npm", "yarn", "node", "npx", "pnpm"}
	case pctx.ProjectTypeDotNet:
		return []string{"dotnet", "msbuild", "nuget"}
	case pctx.ProjectTypePython:
		return []string{"python", "python3", "pip", "pytest"}
	case pctx.ProjectTypeJava:
		return []string{"mvn", "gradle", "./gradlew", "java", "javac"}
	case pctx.ProjectTypeRuby:
		return []string{"bundle", "gem", "rake", "ruby"}
	case pctx.ProjectTypePHP:
		return []string{"php", "composer"}
	case pctx.ProjectTypeC:
		return []string{"gcc", "cc", "clang", "cmake", "g++"}
	case pctx.ProjectTypeDocker:
		return []string{"docker", "docker-compose"}
	case pctx.ProjectTypeKubernetes:
		return []string{"kubectl", "kustomize", "helm"}
	case pctx.ProjectTypeTerraform:
		return []string{"terraform"}
	case pctx.ProjectTypeAnsible:
		return []string{"ansible", "ansible-playbook"}
	case pctx.ProjectTypeGit:
		return []string{"git"}
	case pctx.ProjectTypeMake:
		return []string{"make", "$(MAKE)"}
	case pctx.ProjectTypeWebpack:
		return []string{"webpack", "npx"}
	case pctx.ProjectTypeVite:
		return []string{"vite", "npx"}
	}
	return nil
}

type c13DirInfo struct {
	Mode        string
	PkgClass    string // "", valid, noscripts, broken
	HasMakefile bool
	MakeLines   int
}

// c13GenDir draws a directory listing.
func c13GenDir(r *rand.Rand) ([]c13Ent, c13DirInfo) {
	var ents []c13Ent
	var info c13DirInfo
	have := map[string]bool{}
	add := func(e c13Ent) {
		if e.Name == "" || have[e.Name] || strings.ContainsAny(e.Name, "/\x00") {
			return
		}
		have[e.Name] = true
		ents = append(ents, e)
	}
	addMarker := func(name string) {
		e := c13Ent{Name: name}
		asDir := r.Intn(10) == 0
		if name == "node_modules" || (name == ".git" && r.Intn(4) > 0) {
			asDir = true
		}
		if asDir {
			e.IsDir = true
			add(e)
			return
		}
		switch name {
		case "package.json":
			if have[name] {
				return
			}
			e.Data, info.PkgClass = c13GenPackageJSON(r)
		case "Makefile", "makefile":
			e.Data = c13GenMakefile(r)
			info.HasMakefile = true
			info.MakeLines += strings.Count(string(e.Data), "\n")
		default:
			if r.Intn(2) == 0 {
				e.Data = []byte(vlib.RandWord(r) + "\n")
			}
		}
		add(e)
	}
	anyMarker := func() string {
		if r.Intn(5) == 0 {
			return c13PatternMarker(r)
		}
		return c13ExactNames[r.Intn(len(c13ExactNames))]
	}
	decoy := func() {
		e := c13Ent{Name: c13Decoys[r.Intn(len(c13Decoys))], IsDir: r.Intn(6) == 0}
		if !e.IsDir && r.Intn(2) == 0 {
			e.Data = []byte("x\n")
		}
		add(e)
	}
	switch m := r.Intn(20); {
	case m < 3:
		info.Mode = "generic-only"
		for i, n := 0, r.Intn(7); i < n; i++ {
			add(c13Ent{Name: c13SafeName(r), IsDir: r.Intn(5) == 0, Data: []byte("data")})
		}
	case m < 6:
		info.Mode = "single"
		addMarker(anyMarker())
		for i, n := 0, r.Intn(4); i < n; i++ {
			if r.Intn(2) == 0 {
				decoy()
			} else {
				add(c13Ent{Name: c13SafeName(r)})
			}
		}
	case m >= 14 && m < 16:
		// one or two markers beside a Makefile whose recipes run the tools of the trade - the markers' own and others: whatever
		// the recipes say, a type is still reported once
		info.Mode = "recipes"
		var tools []string
		c13RecipeSeq++
		for i, n := 0, 1+r.Intn(2); i < n; i++ {
			mk := anyMarker()
			if i == 0 { // every marker name in turn
				mk = c13ExactNames[c13RecipeSeq%len(c13ExactNames)]
			}
			addMarker(mk)
			tools = append(tools, c13ToolsOf(c13MustType(mk))...)
		}
		if r.Intn(2) == 0 {
			for i, n := 0, 1+r.Intn(2); i < n; i++ {
				tools = append(tools, c13AllTools[r.Intn(len(c13AllTools))])
			}
		}
		var mk []string
		mk = append(mk, "all: build test")
		for _, tg := range []string{"build", "test", "release"} {
			mk = append(mk, tg+":")
			for i, n := 0, 1+r.Intn(3); i < n && len(tools) > 0; i++ {
				mk = append(mk, "\t"+[]string{"", "@", "-", "+", "@-"}[r.Intn(5)]+tools[r.Intn(len(tools))]+" "+[]string{"build", "test ./...", "run x", "--version", "install"}[r.Intn(5)])
			}
		}
		e := c13Ent{Name: []string{"Makefile", "makefile"}[r.Intn(2)], Data: []byte(strings.Join(mk, "\n") + "\n")}
		if !have["Makefile"] && !have["makefile"] {
			info.HasMakefile = true
			info.MakeLines += len(mk)
			add(e)
		}
	case m < 16:
		info.Mode = "multi"
		for i, n := 0, 2+r.Intn(9); i < n; i++ {
			addMarker(anyMarker())
		}
		for i, n := 0, r.Intn(5); i < n; i++ {
			decoy()
		}
		for i, n := 0, r.Intn(3); i < n; i++ {
			add(c13Ent{Name: c13SafeName(r)})
		}
	default:
		info.Mode = "content"
		if r.Intn(4) > 0 {
			e := c13Ent{Name: "package.json"}
			e.Data, info.PkgClass = c13GenPackageJSON(r)
			add(e)
		}
		if r.Intn(4) > 0 {
			for _, nm := range [][]string{{"Makefile"}, {"makefile"}, {"Makefile", "makefile"}}[r.Intn(3)] {
				e := c13Ent{Name: nm, Data: c13GenMakefile(r)}
				info.HasMakefile = true
				info.MakeLines += strings.Count(string(e.Data), "\n")
				add(e)
			}
		}
		for i, n := 0, r.Intn(4); i < n; i++ {
			addMarker(anyMarker())
		}
		for i, n := 0, r.Intn(3); i < n; i++ {
			decoy()
		}
	}
	// the files that usually sit beside a marker (ignore files, version pins, tool configuration): they announce nothing by
	// themselves and take nothing away from what the marker announces
	companions := map[string][]string{
		"Dockerfile": {".dockerignore"}, "docker-compose.yml": {".dockerignore", ".env"}, "docker-compose.yaml": {".dockerignore"},
		"package.json": {".npmignore", ".npmrc", ".nvmrc", ".eslintrc.json", ".prettierrc"}, ".git": {".gitignore", ".gitattributes", ".gitmodules"},
		"go.mod": {"go.work", ".golangci.yml"}, "requirements.txt": {".python-version", ".flake8"}, "pyproject.toml": {".python-version"},
		"Gemfile": {".ruby-version", ".rubocop.yml"}, "Cargo.toml": {"rust-toolchain", ".rustfmt.toml"}, "pom.xml": {".mvn", "mvnw"},
		"Makefile": {".make.cache"}, "CMakeLists.txt": {".clang-format"},
	}
	have = map[string]bool{}
	for _, e := range ents {
		have[e.Name] = true
	}
	for _, e := range append([]c13Ent(nil), ents...) {
		if cs, ok := companions[e.Name]; ok && r.Intn(2) == 0 {
			for _, c := range cs {
				if !have[c] && r.Intn(2) == 0 {
					have[c] = true
					ents = append(ents, c13Ent{Name: c, Data: []byte("*\n")})
				}
			}
		}
	}
	return ents, info
}

func c13WriteDir(dir string, ents []c13Ent, reverse bool) error {
	if err := os.MkdirAll(dir, 0o755); err != nil {
		return err
	}
	order := make([]int, len(ents))
	for i := range order {
		order[i] = i
		if reverse {
			order[i] = len(ents) - 1 - i
		}
	}
	for _, i := range order {
		e := ents[i]
		p := filepath.Join(dir, e.Name)
		if e.IsDir {
			if err := os.Mkdir(p, 0o755); err != nil {
				return err
			}
			continue
		}
		if err := os.WriteFile(p, e.Data, 0o644); err != nil {
			return err
		}
	}
	return nil
}

func c13CtxView(c *pctx.Context) map[string]interface{} {
	if c == nil {
		return nil
	}
	mt := []string{}
	for i, t := range c.MakeTargets {
		if i >= 40 {
			break
		}
		mt = append(mt, vlib.Trunc(t, 80))
	}
	ps := map[string]string{}
	for k, v := range c.PackageScripts {
		if len(ps) >= 40 {
			break
		}
		ps[vlib.Trunc(k, 80)] = vlib.Trunc(v, 40)
	}
	return map[string]interface{}{"project_types": c.ProjectTypes, "has_git": c.HasGit, "has_docker": c.HasDocker, "language": c.Language,
		"build_system": c.BuildSystem, "package_scripts_n": len(c.PackageScripts), "package_scripts": ps, "make_targets_n": len(c.MakeTargets),
		"make_targets": mt}
}

func c13SameContext(a, b *pctx.Context, ignoreDir bool) bool {
	if a == nil || b == nil {
		return a == b
	}
	x, y := *a, *b
	if ignoreDir {
		x.WorkingDir, y.WorkingDir = "", ""
	}
	return reflect.DeepEqual(x, y)
}

func c13EngineAnalyzer(ctx *Ctx) {
	r := vlib.NewRand(ctx.Seed, ctx.Shard, "analyzer")
	n := ctx.N(2048, 61440)
	for i := 0; i < n; i++ {
		ents, info := c13GenDir(r)
		twin := r.Intn(4) == 0
		crowd := 0
		if ctx.G(i)%96 == 5 { // a crowded directory (downloads, build output, data sets): hundreds to tens of thousands of entries that announce nothing
			crowd = []int{300, 1000, 2049, 4097, 5000, 9000, 20000}[r.Intn(7)]
			taken := map[string]bool{}
			for _, e := range ents {
				taken[e.Name] = true
			}
			for k := 0; k < crowd; k++ {
				nm := fmt.Sprintf("%szz-item-%05d.dat", []string{"", "a", "m", "~"}[k%4], k)
				if taken[nm] || c13MaybeMarker(nm) {
					continue
				}
				ents = append(ents, c13Ent{Name: nm, IsDir: k%97 == 0})
			}
			twin = false
			ctx.R.Path("crowded-directories", 1)
			if crowd > 4096 {
				ctx.R.Path("crowded-directories-over-4096", 1)
			}
		}
		names := make([]string, 0, len(ents))
		h := fnv.New64a()
		var pkgText, mkText string
		for _, e := range ents {
			nm := e.Name
			if e.IsDir {
				nm += "/"
			}
			names = append(names, nm)
		}
		sort.Strings(names)
		if crowd > 0 { // the witness lists the entries that matter
			kept := names[:0]
			for _, nm := range names {
				if !strings.Contains(nm, "zz-item-") {
					kept = append(kept, nm)
				}
			}
			names = append(kept, fmt.Sprintf("... plus %d entries named [a|m|~]zz-item-NNNNN.dat", crowd))
		}
		for _, e := range ents {
			if e.IsDir {
				continue
			}
			switch e.Name {
			case "package.json":
				pkgText = string(e.Data)
			case "Makefile", "makefile":
				mkText += "[" + e.Name + "]\n" + string(e.Data)
			}
		}
		h.Write([]byte(pkgText))
		h.Write([]byte{0})
		h.Write([]byte(mkText))
		cs := map[string]interface{}{"mode": info.Mode, "listing": names, "package_json_class": info.PkgClass,
			"package_json": vlib.Q(vlib.Trunc(pkgText, 700)), "makefiles": vlib.Q(vlib.Trunc(mkText, 900))}
		ctx.R.Begin(cs)
		ctx.R.Eval(1)
		dir := filepath.Join(ctx.Scratch, fmt.Sprintf("c13dir_%d", i))
		dir2 := dir + "_twin"
		outer := ""
		if twin && ctx.G(i)%2 == 0 {
			// the twin lies inside other projects: its parent directories hold a repository and the markers of other project types
			// (a sub-directory, a nested checkout, a vendored module); the report is a function of the directory's own listing
			outer = filepath.Join(ctx.Scratch, fmt.Sprintf("c13outer_%d", i))
			mid := filepath.Join(outer, "workspace")
			os.MkdirAll(filepath.Join(outer, ".git"), 0o755)
			os.MkdirAll(mid, 0o755)
			for _, mk := range []string{"go.mod", "package.json", "Dockerfile", "Makefile", "Cargo.toml", "requirements.txt"} {
				os.WriteFile(filepath.Join(outer, mk), []byte("{}\n"), 0o644)
				if r.Intn(2) == 0 {
					os.WriteFile(filepath.Join(mid, mk), []byte("{}\n"), 0o644)
				}
			}
			dir2 = filepath.Join(mid, "sub")
			ctx.R.Path("dirs-twin-inside-other-projects", 1)
		}
		if cw := ctx.Dict().ContextWords; twin && outer == "" && len(cw) > 0 {
			// the twin directory is NAMED like something the analyser knows (a marker, a project type, a tool): k8s, docker,
			// node_modules, my-kubernetes-cluster ... - the report is a function of the listing, not of the directory's own name
			w := strings.TrimLeft(cw[r.Intn(len(cw))], ".")
			if w != "" {
				name := []string{w, w, "my-" + w + "-cluster", w + "-files", strings.ToUpper(w)}[r.Intn(5)]
				outer = filepath.Join(ctx.Scratch, fmt.Sprintf("c13named_%d", i))
				os.MkdirAll(outer, 0o755)
				dir2 = filepath.Join(outer, name)
				ctx.R.Path("dirs-twin-named-like-something-the-analyser-knows", 1)
			}
		}
		os.RemoveAll(dir)
		if err := c13WriteDir(dir, ents, false); err != nil {
			ctx.R.Inconcl("cannot-create-directory")
			os.RemoveAll(dir)
			continue
		}
		if twin {
			os.RemoveAll(dir2)
			if err := c13WriteDir(dir2, ents, true); err != nil {
				twin = false
			}
		}
		var c1, c2, c3, c4 *pctx.Context
		var e1, e2, e3 error
		ok := ctx.R.Guard("C13", "AnalyzeDirectory", cs, func() {
			a := pctx.NewAnalyzer()
			c1, e1 = a.AnalyzeDirectory(dir)
			c2, e2 = a.AnalyzeDirectory(dir)
			c3, e3 = pctx.NewAnalyzer().AnalyzeDirectory(dir)
			if twin {
				c4, _ = pctx.NewAnalyzer().AnalyzeDirectory(dir2)
			}
		})
		os.RemoveAll(dir)
		if twin {
			os.RemoveAll(dir2)
		}
		if outer != "" {
			os.RemoveAll(outer)
		}
		if !ok {
			continue
		}
		vio := func(clause, path, detail string, extra map[string]interface{}) {
			w := map[string]interface{}{"case": cs, "context": c13CtxView(c1)}
			for k, v := range extra {
				w[k] = v
			}
			ctx.R.Violate(vlib.Violation{Property: "C13", Clause: clause, Path: path, Detail: detail, Witness: w})
		}
		if c1 == nil || c2 == nil || c3 == nil || e1 != nil || e2 != nil || e3 != nil {
			ctx.R.Inconcl("analyzer-returned-error-or-nil")
			continue
		}
		ctx.R.Path("dirs", 1)

		// --- deterministic function of the listing
		if !c13SameContext(c1, c2, false) {
			vio("nondeterministic", "AnalyzeDirectory/second-call", fmt.Sprintf("two calls on the same directory differ: types %v vs %v, scripts %d vs %d, targets %d vs %d",
				c1.ProjectTypes, c2.ProjectTypes, len(c1.PackageScripts), len(c2.PackageScripts), len(c1.MakeTargets), len(c2.MakeTargets)),
				map[string]interface{}{"second": c13CtxView(c2)})
		} else if !c13SameContext(c1, c3, false) {
			vio("nondeterministic", "AnalyzeDirectory/second-analyzer", fmt.Sprintf("a second Analyzer reports differently: types %v vs %v", c1.ProjectTypes, c3.ProjectTypes),
				map[string]interface{}{"second": c13CtxView(c3)})
		} else if twin && c4 != nil && !c13SameContext(c1, c4, true) {
			vio("nondeterministic", "AnalyzeDirectory/same-listing-other-directory",
				fmt.Sprintf("a directory with the identical listing (files created in reverse order; inside other projects: %v) is reported differently: types %v vs %v", outer != "", c1.ProjectTypes, c4.ProjectTypes),
				map[string]interface{}{"second": c13CtxView(c4), "twin_directory": dir2})
		}
		if twin {
			ctx.R.Path("dirs-twin", 1)
		}

		// --- boosts: deterministic, finite, >= 1
		var bm []map[string]float64
		if !ctx.R.Guard("C13", "GetContextBoosts", cs, func() {
			bm = append(bm, c1.GetContextBoosts(), c1.GetContextBoosts(), c1.GetContextBoosts(), c2.GetContextBoosts(), c3.GetContextBoosts())
		}) {
			continue
		}
		for k := 1; k < len(bm); k++ {
			if !reflect.DeepEqual(bm[0], bm[k]) {
				diff := ""
				for w, f := range bm[0] {
					if g, ok := bm[k][w]; !ok || g != f {
						diff = fmt.Sprintf("%q: %v vs %v (present %v)", vlib.Trunc(w, 60), f, g, ok)
						break
					}
				}
				if diff == "" {
					diff = fmt.Sprintf("sizes %d vs %d", len(bm[0]), len(bm[k]))
				}
				vio("boosts-nondeterministic", "GetContextBoosts", fmt.Sprintf("call 1 and call %d of GetContextBoosts differ for types %v: %s", k+1, c1.ProjectTypes, diff), nil)
				break
			}
		}
		bkeys := make([]string, 0, len(bm[0]))
		for w := range bm[0] {
			bkeys = append(bkeys, w)
		}
		sort.Strings(bkeys)
		for _, w := range bkeys {
			f := bm[0][w]
			if math.IsNaN(f) || math.IsInf(f, 0) || f < 1 {
				vio("boost-range", "GetContextBoosts", fmt.Sprintf("boost for word %s is %v (must be finite and >= 1); types %v", vlib.Q(vlib.Trunc(w, 80)), f, c1.ProjectTypes), nil)
				break
			}
		}
		ctx.R.Path("boost-words-checked", int64(len(bkeys)))

		// --- each type at most once; generic exactly when nothing else
		seen := map[pctx.ProjectType]int{}
		for _, t := range c1.ProjectTypes {
			seen[t]++
		}
		for _, t := range c1.ProjectTypes {
			if seen[t] > 1 {
				vio("type-duplicated", "AnalyzeDirectory", fmt.Sprintf("project type %q reported %d times: %v", t, seen[t], c1.ProjectTypes), nil)
				break
			}
		}
		hasGeneric := seen[pctx.ProjectTypeGeneric] > 0
		others := len(seen)
		if hasGeneric {
			others--
		}
		switch {
		case hasGeneric && others > 0:
			vio("generic", "AnalyzeDirectory", fmt.Sprintf("'generic' reported together with other types: %v", c1.ProjectTypes), nil)
		case !hasGeneric && others == 0:
			vio("generic", "AnalyzeDirectory", fmt.Sprintf("nothing recognised but 'generic' is not reported: %v", c1.ProjectTypes), nil)
		}
		if info.Mode == "generic-only" && (!hasGeneric || others > 0) {
			vio("generic", "AnalyzeDirectory/no-marker-names", fmt.Sprintf("listing %v holds no marker name, yet reported types are %v", names, c1.ProjectTypes), nil)
		}

		// --- reference detector: exact marker file present => type present
		classes := map[pctx.ProjectType]bool{}
		for _, e := range ents {
			if e.IsDir && e.Name != ".git" && e.Name != "node_modules" {
				continue
			}
			if !e.IsDir && e.Name == "node_modules" {
				continue
			}
			if t := c13MustType(e.Name); t != "" {
				classes[t] = true
				if seen[t] == 0 {
					vio("type-missing", "AnalyzeDirectory", fmt.Sprintf("marker %q is present but type %q is not reported: %v", e.Name, t, c1.ProjectTypes), nil)
				}
			}
		}

		// --- coverage
		if hasGeneric && others == 0 {
			ctx.R.Path("dirs-generic", 1)
		}
		if others >= 2 {
			ctx.R.Path("dirs-multi", 1)
		}
		switch info.PkgClass {
		case "valid":
			if len(c1.PackageScripts) > 0 {
				ctx.R.Path("package-json-valid", 1)
			} else {
				ctx.R.Path("package-json-valid-but-no-scripts-read", 1)
			}
		case "noscripts":
			ctx.R.Path("package-json-noscripts", 1)
		case "broken":
			ctx.R.Path("package-json-broken", 1)
		}
		if info.Mode == "recipes" {
			ctx.R.Path("directories-whose-makefile-runs-the-tools-of-its-markers", 1)
		}
		if info.HasMakefile {
			ctx.R.Path("makefile", 1)
			if len(c1.MakeTargets) > 0 {
				ctx.R.Path("makefile-with-targets", 1)
			}
		}
		if len(classes) >= 2 || info.PkgClass != "" || (info.HasMakefile && info.MakeLines > 0) {
			ctx.R.Nontriv("dir", strings.Join(names, "\x1f"), h.Sum64())
			if len(classes) >= 3 && info.PkgClass == "valid" {
				ctx.R.Sample(map[string]interface{}{"case": cs, "context": c13CtxView(c1), "boost_words": len(bkeys)})
			}
		}
	}
}

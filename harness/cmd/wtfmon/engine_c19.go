package main

// C19 - semantic embeddings are strictly optional and their files cannot hurt.
//
// Three engines:
//
//	embed-cosine  embedding.CosineSimilarity on generated finite float32 pairs
//	embed-files   hostile glove.bin / cmd_embeddings.bin, one memory-capped CHILD per load
//	embed-search  paired searches (no files / inert files / active files), one CHILD per
//	              (database, embedding directory) answering ~30 queries
//
// No hook: LoadEmbeddings resolves both files relative to the cwd, so the child
// chdir's into a directory holding generated files.

import (
	"bytes"
	"context"
	"encoding/binary"
	"encoding/hex"
	"encoding/json"
	"fmt"
	"io"
	"log"
	"math"
	"math/rand"
	"os"
	"os/exec"
	"path/filepath"
	"sort"
	"strings"
	"sync"
	"syscall"
	"time"
	"unicode"

	"github.com/Vedant9500/WTF/internal/constants"
	"github.com/Vedant9500/WTF/internal/database"
	"github.com/Vedant9500/WTF/internal/embedding"
	"github.com/Vedant9500/WTF/internal/zzverif/vlib"
)

func init() {
	engines["embed-cosine"] = engineC19Cosine
	engines["embed-files"] = engineC19Files
	engines["embed-search"] = engineC19Search
	helpers["c19embedload"] = c19HelperLoad
	helpers["c19embedsearch"] = c19HelperSearch
}

const (
	c19Dim       = 100
	c19CapBytes  = 3 << 30 // address-space cap of every child
	c19BaseKiB   = 64 * 1024
	c19PerByte   = 64
	c19ChildWait = 90 * time.Second
)

// ===========================================================================
// (1) embed-cosine

func c19Comp(r *rand.Rand, flavour int) float32 {
	sign := float32(1)
	if r.Intn(2) == 0 {
		sign = -1
	}
	switch flavour {
	case 0: // ordinary
		return float32(r.NormFloat64())
	case 1: // tiny normal numbers
		return sign * float32(math.Pow(10, -20-18*r.Float64()))
	case 2: // denormals
		return sign * math.Float32frombits(1+uint32(r.Intn(0x007fffff)))
	case 3: // huge, up to 1e18
		return sign * float32(math.Pow(10, 18*r.Float64()))
	case 4: // zeros of both signs
		return sign * 0
	case 5: // small integers (many exact ties / cancellations)
		return float32(r.Intn(7) - 3)
	default: // mixture
		return c19Comp(r, r.Intn(6))
	}
}

func c19Vec(r *rand.Rand, n, flavour int) []float32 {
	v := make([]float32, n)
	for i := range v {
		v[i] = c19Comp(r, flavour)
	}
	return v
}

func c19AllZero(v []float32) bool {
	for _, x := range v {
		if x != 0 {
			return false
		}
	}
	return true
}

func c19Bits(v []float32) []string {
	n := len(v)
	if n > 12 {
		n = 12
	}
	out := make([]string, n)
	for i := 0; i < n; i++ {
		out[i] = fmt.Sprintf("%08x", math.Float32bits(v[i]))
	}
	return out
}

func engineC19Cosine(ctx *Ctx) {
	r := vlib.NewRand(ctx.Seed, ctx.Shard, "embed-cosine")
	n := ctx.N(50000, 500000)
	for i := 0; i < n; i++ {
		la := r.Intn(201)
		if r.Intn(4) == 0 {
			la = r.Intn(6)
		}
		if r.Intn(5) == 0 {
			la = c19Dim
		}
		fa, fb := r.Intn(7), r.Intn(7)
		a := c19Vec(r, la, fa)
		var b []float32
		class := ""
		switch k := r.Intn(20); {
		case k < 6:
			class, b = "cos-random", c19Vec(r, la, fb)
		case k < 8:
			class, b = "cos-self", append([]float32(nil), a...)
		case k < 10: // scaled / negated copy
			class = "cos-scaled"
			s := []float32{-1, 2, -0.5, 1e-3, 1e3, -7}[r.Intn(6)]
			b = make([]float32, la)
			for j := range a {
				b[j] = a[j] * s
			}
		case k < 12: // one side all-zero
			class, b = "cos-zero", c19Vec(r, la, 4)
			if r.Intn(2) == 0 {
				a, b = b, a
			}
		case k < 13:
			class, a, b = "cos-zero", c19Vec(r, la, 4), c19Vec(r, la, 4)
		case k < 16: // mismatched lengths
			class = "cos-mismatch"
			lb := r.Intn(201)
			for lb == la {
				lb = r.Intn(201)
			}
			if r.Intn(3) == 0 {
				lb = la + 1
			}
			b = c19Vec(r, lb, fb)
		case k < 17: // empty
			class = "cos-empty"
			switch r.Intn(3) {
			case 0:
				a, b = nil, nil
			case 1:
				a, b = []float32{}, c19Vec(r, r.Intn(5), fb)
			default:
				a, b = c19Vec(r, r.Intn(5), fa), nil
			}
		default: // extreme magnitudes against each other
			class = "cos-extreme"
			a, b = c19Vec(r, la, []int{1, 2, 3}[r.Intn(3)]), c19Vec(r, la, []int{1, 2, 3}[r.Intn(3)])
		}
		cs := map[string]interface{}{"class": class, "len_a": len(a), "len_b": len(b), "a_bits_head": c19Bits(a), "b_bits_head": c19Bits(b), "i": i}
		if i%512 == 0 {
			ctx.R.Begin(cs)
		}
		ctx.R.Eval(1)
		ctx.R.Path(class, 1)
		var s1, s2, sa, sb float64
		if !ctx.R.Guard("C19", "CosineSimilarity", cs, func() {
			s1 = embedding.CosineSimilarity(a, b)
			s2 = embedding.CosineSimilarity(b, a)
			sa = embedding.CosineSimilarity(a, a)
			sb = embedding.CosineSimilarity(b, b)
		}) {
			continue
		}
		cs["ab"], cs["ba"] = fmt.Sprint(s1), fmt.Sprint(s2)
		mustZero := len(a) != len(b) || len(a) == 0 || c19AllZero(a) || c19AllZero(b)
		if mustZero {
			if !(s1 == 0) || !(s2 == 0) { // NaN fails both
				ctx.R.Violate(vlib.Violation{Property: "C19", Clause: "cosine-zero", Path: class,
					Detail:  fmt.Sprintf("CosineSimilarity of empty / all-zero / length-mismatched inputs (len %d vs %d) = %v and %v, want exactly 0", len(a), len(b), s1, s2),
					Witness: cs})
			}
		}
		if math.Float64bits(s1) != math.Float64bits(s2) && !(math.Abs(s1-s2) <= 1e-12) {
			ctx.R.Violate(vlib.Violation{Property: "C19", Clause: "cosine-symmetry", Path: class,
				Detail: fmt.Sprintf("CosineSimilarity(a,b)=%v but CosineSimilarity(b,a)=%v", s1, s2), Witness: cs})
		}
		for _, s := range []float64{s1, s2, sa, sb} {
			if !(s >= -1 && s <= 1) && !mustZero { // NaN / Inf fall here
				ctx.R.Violate(vlib.Violation{Property: "C19", Clause: "cosine-range", Path: class,
					Detail: fmt.Sprintf("CosineSimilarity on finite vectors = %v, outside [-1,1]", s), Witness: cs})
				break
			}
		}
		for k, v := range [][]float32{a, b} {
			s := []float64{sa, sb}[k]
			if len(v) > 0 && !c19AllZero(v) {
				if !(math.Abs(s-1) <= 1e-6) {
					ctx.R.Violate(vlib.Violation{Property: "C19", Clause: "cosine-self", Path: class,
						Detail: fmt.Sprintf("CosineSimilarity(v,v)=%v for a non-zero finite vector of length %d, want 1", s, len(v)), Witness: cs})
				}
			} else if !(s == 0) {
				ctx.R.Violate(vlib.Violation{Property: "C19", Clause: "cosine-zero", Path: class,
					Detail: fmt.Sprintf("CosineSimilarity(v,v)=%v for an empty / all-zero vector, want exactly 0", s), Witness: cs})
			}
		}
		if i < 4 {
			ctx.R.Sample(cs)
		}
	}
}

// ===========================================================================
// file formats

func c19F32(dst []byte, v []float32) []byte {
	var b [4]byte
	for _, x := range v {
		binary.LittleEndian.PutUint32(b[:], math.Float32bits(x))
		dst = append(dst, b[:]...)
	}
	return dst
}

func c19U32(dst []byte, x uint32) []byte {
	var b [4]byte
	binary.LittleEndian.PutUint32(b[:], x)
	return append(dst, b[:]...)
}

// c19Glove: [count u32] then per word [len u16][bytes][100 x f32].
func c19Glove(count uint32, words []string, vecs [][]float32) []byte {
	out := c19U32(nil, count)
	for i, w := range words {
		out = append(out, byte(len(w)), byte(len(w)>>8))
		out = append(out, w...)
		out = c19F32(out, vecs[i])
	}
	return out
}

// c19CmdFile: [num u32][dim u32] then per command [dim x f32].
func c19CmdFile(num, dim uint32, vecs [][]float32) []byte {
	out := c19U32(c19U32(nil, num), dim)
	for _, v := range vecs {
		out = c19F32(out, v)
	}
	return out
}

func c19Gauss(r *rand.Rand, n int) []float32 {
	v := make([]float32, n)
	for i := range v {
		v[i] = float32(r.NormFloat64())
	}
	return v
}

func c19Unit(v []float32, scale float64) []float32 {
	var s float64
	for _, x := range v {
		s += float64(x) * float64(x)
	}
	if s == 0 {
		return v
	}
	k := scale / math.Sqrt(s)
	out := make([]float32, len(v))
	for i, x := range v {
		out[i] = float32(float64(x) * k)
	}
	return out
}

// c19RefCos is the harness's own cosine (classification of generated files only).
func c19RefCos(a, b []float32) float64 {
	if len(a) != len(b) || len(a) == 0 {
		return 0
	}
	var d, na, nb float64
	for i := range a {
		d += float64(a[i]) * float64(b[i])
		na += float64(a[i]) * float64(a[i])
		nb += float64(b[i]) * float64(b[i])
	}
	if na == 0 || nb == 0 {
		return 0
	}
	return d / math.Sqrt(na) / math.Sqrt(nb)
}

// c19Tokens: the documented lookup rule of the embedding vocabulary - lower
// case, split at everything that is not a letter or a number, words of at
// least two bytes.
func c19Tokens(s string) []string {
	var out []string
	for _, w := range strings.FieldsFunc(strings.ToLower(s), func(r rune) bool { return !unicode.IsLetter(r) && !unicode.IsNumber(r) }) {
		if len(w) >= 2 {
			out = append(out, w)
		}
	}
	return out
}

// ===========================================================================
// child processes

type c19Cap struct {
	buf bytes.Buffer
	max int
}

func (c *c19Cap) Write(p []byte) (int, error) {
	if room := c.max - c.buf.Len(); room > 0 {
		if len(p) <= room {
			c.buf.Write(p)
		} else {
			c.buf.Write(p[:room])
		}
	}
	return len(p), nil
}

type c19Proc struct {
	Out, Err  string
	RC        int
	Signal    string
	TimedOut  bool
	MaxRSSKiB int64
	StartErr  string
}

// c19Run starts this binary as a helper. The helper caps its own address
// space (RLIMIT_AS) before touching any file, so no child can take more than
// 3 GiB; shards run one child at a time (<= 16 children machine-wide).
func c19Run(args ...string) c19Proc {
	self, err := os.Executable()
	if err != nil {
		return c19Proc{StartErr: err.Error(), RC: -1}
	}
	cx, cancel := context.WithTimeout(context.Background(), c19ChildWait)
	defer cancel()
	cmd := exec.CommandContext(cx, self, args...)
	cmd.Dir = "/"
	cmd.Env = []string{"PATH=/usr/bin:/bin", "HOME=/nonexistent", "GOTRACEBACK=single", "GOMAXPROCS=2", "LANG=C.UTF-8"}
	so, se := &c19Cap{max: 8 << 20}, &c19Cap{max: 64 << 10}
	cmd.Stdout, cmd.Stderr = so, se
	err = cmd.Run()
	p := c19Proc{}
	if cx.Err() == context.DeadlineExceeded {
		p.TimedOut = true
	}
	if err != nil {
		if ee, ok := err.(*exec.ExitError); ok {
			p.RC = ee.ExitCode()
			if ws, ok := ee.Sys().(syscall.WaitStatus); ok && ws.Signaled() {
				p.Signal = ws.Signal().String()
				p.RC = 128 + int(ws.Signal())
			}
		} else {
			p.RC = -1
			p.StartErr = err.Error()
		}
	}
	if cmd.ProcessState != nil {
		if ru, ok := cmd.ProcessState.SysUsage().(*syscall.Rusage); ok && ru != nil {
			p.MaxRSSKiB = int64(ru.Maxrss)
		}
	}
	p.Out, p.Err = so.buf.String(), se.buf.String()
	return p
}

// Crashed: killed by a signal, or a Go panic / runtime fatal error.
func (p c19Proc) Crashed() (bool, string) {
	if p.TimedOut {
		return false, ""
	}
	if p.Signal != "" {
		return true, "child killed by signal " + p.Signal
	}
	if p.RC != 0 {
		for _, m := range []string{"panic:", "fatal error:", "out of memory", "cannot allocate"} {
			if i := strings.Index(p.Err, m); i >= 0 {
				end := i + 160
				if end > len(p.Err) {
					end = len(p.Err)
				}
				return true, fmt.Sprintf("child exit status %d: %s", p.RC, strings.ReplaceAll(p.Err[i:end], "\n", " | "))
			}
		}
	}
	return false, ""
}

func c19CapAS() {
	lim := syscall.Rlimit{Cur: c19CapBytes, Max: c19CapBytes}
	var cur syscall.Rlimit
	if syscall.Getrlimit(syscall.RLIMIT_AS, &cur) == nil && cur.Max < lim.Max {
		lim.Max = cur.Max
		if lim.Cur > lim.Max {
			lim.Cur = lim.Max
		}
	}
	if err := syscall.Setrlimit(syscall.RLIMIT_AS, &lim); err != nil {
		fmt.Fprintln(os.Stderr, "c19-helper: setrlimit:", err)
		os.Exit(3)
	}
}

func c19HWM() int64 {
	b, err := os.ReadFile("/proc/self/status")
	if err != nil {
		return -1
	}
	for _, l := range strings.Split(string(b), "\n") {
		if strings.HasPrefix(l, "VmHWM:") {
			var k int64
			fmt.Sscanf(strings.TrimSpace(l[6:]), "%d", &k)
			return k
		}
	}
	return -1
}

// c19Attach calls LoadEmbeddings and recovers what it loaded from its log line
// (the index itself is unexported).
func c19Attach(db *database.Database) (has bool, vocab, ncmds int64) {
	var lb bytes.Buffer
	log.SetFlags(0)
	log.SetOutput(io.MultiWriter(os.Stderr, &lb))
	_ = db.LoadEmbeddings() // documented to log and return nil
	log.SetOutput(os.Stderr)
	has = db.HasEmbeddings()
	vocab, ncmds = -1, -1
	for _, l := range strings.Split(lb.String(), "\n") {
		if strings.HasPrefix(l, "Loaded semantic search:") {
			fmt.Sscanf(l, "Loaded semantic search: %d words, %d command embeddings", &vocab, &ncmds)
		}
	}
	return
}

// c19embedload <dir> <db.yml>
func c19HelperLoad(args []string) int {
	c19CapAS()
	if len(args) < 2 {
		fmt.Fprintln(os.Stderr, "c19-helper: usage: c19embedload <dir> <db.yml>")
		return 3
	}
	if err := os.Chdir(args[0]); err != nil {
		fmt.Fprintln(os.Stderr, "c19-helper:", err)
		return 3
	}
	db, err := database.LoadDatabase(args[1])
	if err != nil {
		fmt.Fprintln(os.Stderr, "c19-helper: database:", err)
		return 3
	}
	has, vocab, ncmds := c19Attach(db)
	rs := db.SearchUniversal("list files", database.SearchOptions{Limit: 10, AllPlatforms: true})
	rs2 := db.SearchUniversal("show hidden files", database.SearchOptions{Limit: 10, AllPlatforms: true, UseNLP: true, UseFuzzy: true})
	out, _ := json.Marshal(map[string]interface{}{"has": has, "vocab": vocab, "cmds": ncmds, "results": len(rs), "results2": len(rs2), "hwm_kib": c19HWM()})
	fmt.Println(string(out))
	return 0
}

type c19Q struct {
	Q string       `json:"q"`
	O vlib.OptJSON `json:"o"`
}

type c19Job struct {
	DB      string `json:"db"`
	Dir     string `json:"dir"` // cwd of the search; holds the embedding files (or nothing)
	Repeat  int    `json:"repeat"`
	Queries []c19Q `json:"queries"`
}

type c19Item struct {
	I int    `json:"i"`
	B uint64 `json:"b"` // score bits (NaN/Inf survive JSON)
}

// c19Ans: the answers of one query on ONE Database object, before LoadEmbeddings was
// called on it (Pre: the feature is not there) and after (Post).
type c19Ans struct {
	Pre   [][]c19Item `json:"pre"`
	Post  [][]c19Item `json:"post"`
	Panic string      `json:"panic,omitempty"`
}

type c19SearchOut struct {
	Has     bool     `json:"has"`
	Vocab   int64    `json:"vocab"`
	Cmds    int64    `json:"cmds"`
	N       int      `json:"n"`
	Answers []c19Ans `json:"answers"`
}

// c19embedsearch <job.json>
func c19HelperSearch(args []string) int {
	c19CapAS()
	if len(args) < 1 {
		return 3
	}
	raw, err := os.ReadFile(args[0])
	if err != nil {
		fmt.Fprintln(os.Stderr, "c19-helper:", err)
		return 3
	}
	var job c19Job
	if err := json.Unmarshal(raw, &job); err != nil {
		fmt.Fprintln(os.Stderr, "c19-helper:", err)
		return 3
	}
	if err := os.Chdir(job.Dir); err != nil {
		fmt.Fprintln(os.Stderr, "c19-helper:", err)
		return 3
	}
	db, err := database.LoadDatabase(job.DB)
	if err != nil {
		fmt.Fprintln(os.Stderr, "c19-helper: database:", err)
		return 3
	}
	var out c19SearchOut
	out.N = len(db.Commands)
	if job.Repeat < 1 {
		job.Repeat = 1
	}
	out.Answers = make([]c19Ans, len(job.Queries))
	run := func(post bool) {
		for qi, q := range job.Queries {
			a := &out.Answers[qi]
			func() {
				defer func() {
					if e := recover(); e != nil {
						a.Panic = fmt.Sprint(e)
					}
				}()
				for k := 0; k < job.Repeat; k++ {
					rs := db.SearchUniversal(q.Q, q.O.Opts())
					items := make([]c19Item, len(rs))
					for i, x := range rs {
						items[i] = c19Item{I: vlib.IndexOf(db.Commands, x.Command), B: math.Float64bits(x.Score)}
					}
					if post {
						a.Post = append(a.Post, items)
					} else {
						a.Pre = append(a.Pre, items)
					}
				}
			}()
		}
	}
	run(false)
	out.Has, out.Vocab, out.Cmds = c19Attach(db)
	run(true)
	b, _ := json.Marshal(out)
	fmt.Println(string(b))
	return 0
}

// ===========================================================================
// (2) embed-files

type c19FileCase struct {
	Class string // path / coverage class
	Name  string
	Glove []byte // nil = file absent
	Cmd   []byte
	InSub bool // files live in ./assets/
	// the files are named pipes fed with the bytes (a decompressor streaming into the path): the size is unknown up front
	GloveFifo, CmdFifo bool
	// expectation for well-formed files (generator sanity, never a violation)
	Valid     bool
	WantVocab int64
	WantCmds  int64
}

func c19Hex(b []byte) string {
	if b == nil {
		return "(absent)"
	}
	if len(b) <= 96 {
		return hex.EncodeToString(b)
	}
	return fmt.Sprintf("%s...(%d bytes)...%s", hex.EncodeToString(b[:64]), len(b), hex.EncodeToString(b[len(b)-16:]))
}

var c19TinyDB = []vlib.Cmd{
	{Command: "ls -la", Description: "list files including hidden files", Keywords: []string{"list", "files", "hidden"}},
	{Command: "find . -name pattern", Description: "find files by name", Keywords: []string{"find", "search", "files"}},
	{Command: "tar -xzf archive.tar.gz", Description: "extract a compressed archive", Keywords: []string{"extract", "archive"}},
}

// c19FileCases is a pure function of (seed, tier): every shard builds the same
// list and takes the cases i with i % nshards == shard.
func c19FileCases(seed int64, thorough bool) []c19FileCase {
	r := vlib.NewRand(seed, 0, "embed-files-cases")
	var cs []c19FileCase
	add := func(c c19FileCase) { cs = append(cs, c) }
	words := []string{"list", "files"}
	vecs := [][]float32{c19Unit(c19Gauss(r, c19Dim), 1), c19Unit(c19Gauss(r, c19Dim), 1)}
	cvecs := [][]float32{vecs[0], c19Unit(c19Gauss(r, c19Dim), 3)}
	vGlove := c19Glove(2, words, vecs)
	vCmd := c19CmdFile(2, c19Dim, cvecs)

	// --- valid files of several shapes
	add(c19FileCase{Class: "files-valid", Name: "base", Glove: vGlove, Cmd: vCmd, Valid: true, WantVocab: 2, WantCmds: 2})
	add(c19FileCase{Class: "files-valid", Name: "base in assets/", Glove: vGlove, Cmd: vCmd, InSub: true, Valid: true, WantVocab: 2, WantCmds: 2})
	add(c19FileCase{Class: "files-valid", Name: "glove only", Glove: vGlove, Valid: true, WantVocab: 2, WantCmds: 0})
	add(c19FileCase{Class: "files-valid", Name: "cmd only (no index)", Cmd: vCmd})
	add(c19FileCase{Class: "files-valid", Name: "no files"})
	for _, nw := range []int{1, 3, 50} {
		for _, nc := range []int{0, 1, 3, 40} {
			ws := make([]string, nw)
			vs := make([][]float32, nw)
			for i := range ws {
				ws[i] = fmt.Sprintf("w%d%s", i, vlib.RandWord(r))
				vs[i] = c19Vec(r, c19Dim, []int{0, 0, 3, 6}[r.Intn(4)])
			}
			ws[0] = "files"
			cv := make([][]float32, nc)
			for i := range cv {
				cv[i] = c19Vec(r, c19Dim, []int{0, 0, 4, 6}[r.Intn(4)])
			}
			add(c19FileCase{Class: "files-valid", Name: fmt.Sprintf("%d words, %d commands", nw, nc), Glove: c19Glove(uint32(nw), ws, vs),
				Cmd: c19CmdFile(uint32(nc), c19Dim, cv), Valid: true, WantVocab: int64(nw), WantCmds: int64(nc)})
		}
	}
	{ // odd but well-formed words: empty, NUL, invalid UTF-8, duplicate, 300 bytes
		ws := []string{"", "a\x00b", "\xff\xfe", "files", "files", strings.Repeat("x", 300), "日本語"}
		vs := make([][]float32, len(ws))
		for i := range vs {
			vs[i] = c19Gauss(r, c19Dim)
		}
		add(c19FileCase{Class: "files-valid", Name: "odd words", Glove: c19Glove(uint32(len(ws)), ws, vs), Cmd: vCmd, Valid: true, WantVocab: 6, WantCmds: 2})
		// non-finite components
		nf := c19Gauss(r, c19Dim)
		nf[3], nf[50], nf[99] = float32(math.NaN()), float32(math.Inf(1)), float32(math.Inf(-1))
		add(c19FileCase{Class: "files-valid", Name: "NaN/Inf components", Glove: c19Glove(2, words, [][]float32{nf, vecs[1]}),
			Cmd: c19CmdFile(2, c19Dim, [][]float32{nf, nf}), Valid: true, WantVocab: 2, WantCmds: 2})
		// trailing garbage after the declared records
		add(c19FileCase{Class: "files-valid", Name: "trailing bytes", Glove: append(append([]byte(nil), vGlove...), 1, 2, 3, 4, 5),
			Cmd: append(append([]byte(nil), vCmd...), 9, 9, 9), Valid: true, WantVocab: 2, WantCmds: 2})
		// count smaller than the records present
		add(c19FileCase{Class: "files-valid", Name: "count below records", Glove: c19Glove(1, words, vecs), Cmd: c19CmdFile(1, c19Dim, cvecs), Valid: true, WantVocab: 1, WantCmds: 1})
	}

	// --- streams: the path is a named pipe; what arrives is short, what the header claims is large
	{
		hdr := func(count uint32, body int) []byte { return append(c19U32(nil, count), make([]byte, body)...) }
		for _, cnt := range []uint32{2000000, 50000000, 0x7fffffff, 0xffffffff} {
			add(c19FileCase{Class: "files-stream", Name: fmt.Sprintf("glove.bin is a pipe: header claims %d words, 10 more bytes follow", cnt), Glove: hdr(cnt, 10), GloveFifo: true})
			add(c19FileCase{Class: "files-stream", Name: fmt.Sprintf("cmd_embeddings.bin is a pipe: header claims %d commands of 100, 8 more bytes follow", cnt), Glove: vGlove,
				Cmd: append(c19U32(c19U32(nil, cnt), 100), make([]byte, 8)...), CmdFifo: true})
		}
		add(c19FileCase{Class: "files-stream", Name: "glove.bin is a pipe carrying a valid file", Glove: vGlove, Cmd: vCmd, GloveFifo: true})
		add(c19FileCase{Class: "files-stream", Name: "both are pipes carrying valid files", Glove: vGlove, Cmd: vCmd, GloveFifo: true, CmdFifo: true})
		add(c19FileCase{Class: "files-stream", Name: "glove.bin is a pipe that delivers nothing", Glove: []byte{}, GloveFifo: true})
	}

	// --- every truncation of a small valid file, at every byte offset
	bases := 1
	if thorough {
		bases = 8
	}
	for b := 0; b < bases; b++ {
		g, c := vGlove, vCmd
		if b > 0 {
			ws := []string{vlib.RandWord(r), strings.Repeat("k", 1+r.Intn(40))}
			if b%2 == 0 {
				ws[0] = "files"
			}
			g = c19Glove(2, ws, [][]float32{c19Gauss(r, c19Dim), c19Vec(r, c19Dim, 6)})
			c = c19CmdFile(2, c19Dim, [][]float32{c19Gauss(r, c19Dim), c19Vec(r, c19Dim, 6)})
		}
		for off := 0; off < len(g); off++ {
			add(c19FileCase{Class: "files-truncation", Name: fmt.Sprintf("glove.bin[%d] cut at %d of %d", b, off, len(g)), Glove: g[:off:off], Cmd: c})
		}
		for off := 0; off < len(c); off++ {
			add(c19FileCase{Class: "files-truncation", Name: fmt.Sprintf("cmd_embeddings.bin[%d] cut at %d of %d", b, off, len(c)), Glove: g, Cmd: c[:off:off]})
		}
	}

	// --- counts far beyond the body
	counts := []uint32{0xFFFFFFFF, 1 << 31, 1000000}
	if thorough {
		counts = append(counts, 1<<31-1, 1<<24, 3000000, 0x80000001, 0xFFFFFF00)
	}
	rec := vGlove[4:] // well-formed records
	for _, n := range counts {
		for bi, bl := range []int{3, 8, 17, 64} {
			kinds := 2
			if thorough || bl == 8 {
				kinds = 3
			}
			for kind := 0; kind < kinds; kind++ {
				body := make([]byte, bl)
				switch kind {
				case 0: // the beginning of well-formed records
					copy(body, rec)
				case 1: // random bytes
					r.Read(body)
				} // 2: zero bytes
				for wi, withCmd := range []bool{true, false} {
					if !thorough && (bi+kind)%2 != wi { // quick: alternate instead of the product
						continue
					}
					c := c19FileCase{Class: "files-huge-count", Name: fmt.Sprintf("glove.bin count=%d body=%dB kind=%d", n, bl, kind), Glove: append(c19U32(nil, n), body...)}
					if withCmd {
						c.Cmd = vCmd
					}
					add(c)
				}
			}
		}
		for _, bl := range []int{0, 3, 64, 400, 800} {
			body := make([]byte, bl)
			copy(body, vCmd[8:])
			add(c19FileCase{Class: "files-huge-count", Name: fmt.Sprintf("cmd_embeddings.bin num=%d dim=100 body=%dB", n, bl), Glove: vGlove,
				Cmd: append(c19U32(c19U32(nil, n), c19Dim), body...)})
		}
	}

	// --- wrong dimension
	for _, d := range []uint32{0, 1, 99, 101, 0xFFFFFFFF, 1 << 31, 25, 400} {
		for _, n := range []uint32{2, 0, 1000000, 0xFFFFFFFF} {
			for _, bl := range []int{0, 64, 800} {
				body := make([]byte, bl)
				copy(body, vCmd[8:])
				add(c19FileCase{Class: "files-wrong-dim", Name: fmt.Sprintf("cmd_embeddings.bin num=%d dim=%d body=%dB", n, d, bl), Glove: vGlove,
					Cmd: append(c19U32(c19U32(nil, n), d), body...)})
			}
		}
	}

	// --- word length 65535 (and friends) with a short body
	for _, wl := range []int{65535, 65534, 32768, 1000} {
		for _, bl := range []int{0, 1, 10, 405} {
			body := make([]byte, bl)
			r.Read(body)
			g := append(c19U32(nil, 1), byte(wl), byte(wl>>8))
			add(c19FileCase{Class: "files-wordlen", Name: fmt.Sprintf("first word_len=%d body=%dB", wl, bl), Glove: append(g, body...), Cmd: vCmd})
			g2 := append(append([]byte(nil), c19Glove(3, words[:1], vecs[:1])...), byte(wl), byte(wl>>8))
			add(c19FileCase{Class: "files-wordlen", Name: fmt.Sprintf("second word_len=%d body=%dB", wl, bl), Glove: append(g2, body...), Cmd: vCmd})
		}
	}
	{ // a word that really is 65535 bytes long (well-formed, ~64 KiB file)
		w := strings.Repeat("z", 65535)
		add(c19FileCase{Class: "files-wordlen", Name: "real 65535-byte word", Glove: c19Glove(2, []string{w, "files"}, vecs), Cmd: vCmd, Valid: true, WantVocab: 2, WantCmds: 2})
	}

	// --- zero counts
	add(c19FileCase{Class: "files-zero", Name: "glove count 0", Glove: c19U32(nil, 0), Cmd: vCmd, Valid: true, WantVocab: 0, WantCmds: 2})
	add(c19FileCase{Class: "files-zero", Name: "glove count 0 + garbage", Glove: append(c19U32(nil, 0), 1, 2, 3), Cmd: vCmd, Valid: true, WantVocab: 0, WantCmds: 2})
	add(c19FileCase{Class: "files-zero", Name: "cmd num 0", Glove: vGlove, Cmd: c19CmdFile(0, c19Dim, nil), Valid: true, WantVocab: 2, WantCmds: 0})
	add(c19FileCase{Class: "files-zero", Name: "cmd num 0 dim 0", Glove: vGlove, Cmd: c19CmdFile(0, 0, nil)})
	add(c19FileCase{Class: "files-zero", Name: "both zero", Glove: c19U32(nil, 0), Cmd: c19CmdFile(0, c19Dim, nil), Valid: true, WantVocab: 0, WantCmds: 0})
	add(c19FileCase{Class: "files-zero", Name: "both empty files", Glove: []byte{}, Cmd: []byte{}})
	add(c19FileCase{Class: "files-zero", Name: "all-zero 1 KiB files", Glove: make([]byte, 1024), Cmd: make([]byte, 1024)})

	// --- random bytes
	nRand := 8
	if thorough {
		nRand = 100
	}
	for _, sz := range []int{0, 1, 2, 3, 4, 5, 7, 8, 9, 16, 64, 400, 817, 4096, 65536} {
		for k := 0; k < nRand; k++ {
			g := make([]byte, sz)
			r.Read(g)
			c := make([]byte, []int{sz, 8, 808}[r.Intn(3)])
			r.Read(c)
			fc := c19FileCase{Class: "files-random", Name: fmt.Sprintf("random %dB #%d", sz, k)}
			switch k % 5 {
			case 0: // both random
				fc.Glove, fc.Cmd = g, c
			case 1: // random glove, valid cmd
				fc.Glove, fc.Cmd = g, vCmd
			case 2: // valid glove, random cmd
				fc.Glove, fc.Cmd = vGlove, c
			case 3: // small count so that the parser goes deeper into random records
				if sz >= 4 {
					binary.LittleEndian.PutUint32(g, uint32(r.Intn(6)))
				}
				if len(g) >= 6 && r.Intn(2) == 0 {
					g[4], g[5] = byte(r.Intn(20)), 0
				}
				fc.Glove, fc.Cmd = g, vCmd
			default: // valid glove, cmd with small num, right dimension, random body
				if len(c) >= 8 {
					binary.LittleEndian.PutUint32(c, uint32(r.Intn(6)))
					binary.LittleEndian.PutUint32(c[4:], c19Dim)
				}
				fc.Glove, fc.Cmd = vGlove, c
			}
			add(fc)
		}
	}

	// --- ~1 MB of valid records with an inflated count
	{
		const nrec = 2450
		ws := make([]string, nrec)
		vs := make([][]float32, nrec)
		shared := c19Gauss(r, c19Dim)
		for i := range ws {
			ws[i] = fmt.Sprintf("word%04d", i)
			vs[i] = shared
		}
		ws[7] = "files"
		body := c19Glove(nrec, ws, vs)[4:]
		cbody := c19CmdFile(2600, c19Dim, make([][]float32, 0))[8:]
		for i := 0; i < 2600; i++ {
			cbody = c19F32(cbody, shared)
		}
		infl := []uint32{nrec + 1, 2 * nrec, 1000000, 0xFFFFFFFF}
		for _, n := range infl {
			add(c19FileCase{Class: "files-inflated", Name: fmt.Sprintf("glove.bin 1MB, %d records, count=%d", nrec, n), Glove: append(c19U32(nil, n), body...), Cmd: vCmd})
		}
		for _, n := range []uint32{2601, 1000000, 1 << 31} {
			add(c19FileCase{Class: "files-inflated", Name: fmt.Sprintf("cmd_embeddings.bin 1MB, 2600 records, num=%d", n), Glove: vGlove,
				Cmd: append(c19U32(c19U32(nil, n), c19Dim), cbody...)})
		}
		add(c19FileCase{Class: "files-inflated", Name: "1MB files, exact counts", Glove: append(c19U32(nil, nrec), body...),
			Cmd: append(c19U32(c19U32(nil, 2600), c19Dim), cbody...), Valid: true, WantVocab: nrec, WantCmds: 2600})
	}
	return cs
}

type c19LoadOut struct {
	Has      bool  `json:"has"`
	Vocab    int64 `json:"vocab"`
	Cmds     int64 `json:"cmds"`
	Results  int   `json:"results"`
	Results2 int   `json:"results2"`
	HWM      int64 `json:"hwm_kib"`
}

func c19WriteDir(dir string, fc c19FileCase) error {
	d := dir
	if fc.InSub {
		d = filepath.Join(dir, "assets")
	}
	if err := os.MkdirAll(d, 0o755); err != nil {
		return err
	}
	put := func(name string, data []byte, fifo bool) error {
		if data == nil {
			return nil
		}
		if fifo {
			return syscall.Mkfifo(filepath.Join(d, name), 0o644)
		}
		return os.WriteFile(filepath.Join(d, name), data, 0o644)
	}
	if err := put("glove.bin", fc.Glove, fc.GloveFifo); err != nil {
		return err
	}
	return put("cmd_embeddings.bin", fc.Cmd, fc.CmdFifo)
}

// c19Feed serves the named pipes of a case: as soon as a reader has opened one, its bytes are written and the pipe is closed.
// stop ends the attempt (the child is gone without ever opening it).
func c19Feed(dir string, fc c19FileCase, stop <-chan struct{}) *sync.WaitGroup {
	d := dir
	if fc.InSub {
		d = filepath.Join(dir, "assets")
	}
	var wg sync.WaitGroup
	feed := func(name string, data []byte) {
		defer wg.Done()
		for {
			select {
			case <-stop:
				return
			default:
			}
			fd, err := syscall.Open(filepath.Join(d, name), syscall.O_WRONLY|syscall.O_NONBLOCK, 0)
			if err != nil { // ENXIO: nobody reads yet
				time.Sleep(2 * time.Millisecond)
				continue
			}
			syscall.SetNonblock(fd, false)
			f := os.NewFile(uintptr(fd), name)
			f.Write(data)
			f.Close()
			return
		}
	}
	if fc.GloveFifo && fc.Glove != nil {
		wg.Add(1)
		go feed("glove.bin", fc.Glove)
	}
	if fc.CmdFifo && fc.Cmd != nil {
		wg.Add(1)
		go feed("cmd_embeddings.bin", fc.Cmd)
	}
	return &wg
}

func engineC19Files(ctx *Ctx) {
	dbPath := filepath.Join(ctx.Scratch, "c19tiny.yml")
	if err := vlib.WriteYAML(dbPath, c19TinyDB); err != nil {
		panic(err)
	}
	// baseline: the helper with an empty directory (also proves the helper works under the cap)
	emptyDir := filepath.Join(ctx.Scratch, "c19empty")
	os.MkdirAll(emptyDir, 0o755)
	var baseline int64
	for k := 0; k < 3; k++ {
		p := c19Run("c19embedload", emptyDir, dbPath)
		var lo c19LoadOut
		if p.RC != 0 || json.Unmarshal([]byte(strings.TrimSpace(p.Out)), &lo) != nil || lo.Has || lo.Results == 0 {
			panic(fmt.Sprintf("c19: baseline helper run failed: rc=%d out=%q err=%q start=%q", p.RC, p.Out, vlib.Trunc(p.Err, 2000), p.StartErr))
		}
		if p.MaxRSSKiB > baseline {
			baseline = p.MaxRSSKiB
		}
	}
	if baseline > c19BaseKiB/2 {
		panic(fmt.Sprintf("c19: baseline peak RSS %d KiB leaves no room under the 64 MiB allowance", baseline))
	}
	if ctx.Shard == 0 {
		ctx.R.Extra["baseline_rss_kib"] = baseline // numeric extras are summed over shards: only shard 0 reports
		ctx.R.Extra["child_address_space_cap_kib"] = int64(c19CapBytes / 1024)
	}
	cases := c19FileCases(ctx.Seed, ctx.Thorough)
	for i, fc := range cases {
		if i%ctx.NShards != ctx.Shard {
			continue
		}
		size := int64(len(fc.Glove) + len(fc.Cmd))
		bound := int64(c19BaseKiB) + c19PerByte*size/1024
		cs := map[string]interface{}{"class": fc.Class, "name": fc.Name, "case_index": i, "glove_bin_hex": c19Hex(fc.Glove), "cmd_embeddings_bin_hex": c19Hex(fc.Cmd),
			"glove_bin_size": len(fc.Glove), "cmd_embeddings_bin_size": len(fc.Cmd), "in_assets_subdir": fc.InSub, "rss_bound_kib": bound}
		dir := filepath.Join(ctx.Scratch, fmt.Sprintf("c19f%d", i))
		if err := c19WriteDir(dir, fc); err != nil {
			panic(err)
		}
		ctx.R.Begin(cs)
		ctx.R.Eval(1)
		ctx.R.Path(fc.Class, 1)
		stop := make(chan struct{})
		feeders := c19Feed(dir, fc, stop)
		p := c19Run("c19embedload", dir, dbPath)
		close(stop)
		feeders.Wait()
		os.RemoveAll(dir)
		cs["child_rc"], cs["child_peak_rss_kib"] = p.RC, p.MaxRSSKiB
		cs["glove_bin_is_a_pipe"], cs["cmd_embeddings_bin_is_a_pipe"] = fc.GloveFifo, fc.CmdFifo
		wit := map[string]interface{}{"case": cs, "stderr_tail": vlib.Trunc(p.Err, 1500), "stdout": vlib.Trunc(p.Out, 300)}
		if p.StartErr != "" {
			ctx.R.Inconcl("child-not-started")
			continue
		}
		if p.TimedOut {
			ctx.R.Inconcl("child-timeout")
			continue
		}
		crashed, why := p.Crashed()
		if crashed {
			ctx.R.Violate(vlib.Violation{Property: "C19", Clause: "loader-crash", Path: fc.Class,
				Detail: fmt.Sprintf("loading %s (glove.bin %d B, cmd_embeddings.bin %d B): %s; peak RSS %d KiB under a %d KiB address-space cap",
					fc.Name, len(fc.Glove), len(fc.Cmd), why, p.MaxRSSKiB, c19CapBytes/1024), Witness: wit})
			continue
		}
		if p.RC != 0 {
			ctx.R.Inconcl(fmt.Sprintf("helper-exit-%d", p.RC))
			fmt.Fprintf(os.Stderr, "c19: helper exit %d on case %d: %s\n", p.RC, i, vlib.Trunc(p.Err, 500))
			continue
		}
		if p.MaxRSSKiB > bound {
			ctx.R.Violate(vlib.Violation{Property: "C19", Clause: "loader-memory", Path: fc.Class,
				Detail: fmt.Sprintf("loading %s (files total %d B) peaked at %d KiB resident, allowance 64 MiB + 64 x size = %d KiB (baseline without files %d KiB)",
					fc.Name, size, p.MaxRSSKiB, bound, baseline), Witness: wit})
			continue
		}
		var lo c19LoadOut
		if json.Unmarshal([]byte(strings.TrimSpace(p.Out)), &lo) != nil {
			ctx.R.Inconcl("helper-output-unreadable")
			continue
		}
		if lo.Has {
			ctx.R.Path("files-index-attached", 1)
		} else {
			ctx.R.Path("files-rejected", 1)
		}
		if fc.Valid {
			// generator sanity: a well-formed file is expected to load with the declared counts; a miss is
			// not a violation of the statement ("vectors or an error"), it shows up as a missed floor.
			if lo.Has && lo.Vocab == fc.WantVocab && lo.Cmds == fc.WantCmds {
				ctx.R.Path("files-valid-loaded", 1)
			} else {
				ctx.R.Inconcl("valid-file-not-loaded-as-declared")
			}
		}
		if len(ctx.R.Samples) < 4 && (i%97 == 0 || fc.Class == "files-wordlen") {
			ctx.R.Sample(map[string]interface{}{"case": cs, "answer": lo})
		}
	}
}

// ===========================================================================
// (3) embed-search

type c19Config struct {
	Name   string
	Active bool // some similarity may reach the floor: only the "can only raise / bounded / ordered" clauses apply
	Attach bool // the loader is expected to attach an index (generator sanity)
	Glove  []byte
	Cmd    []byte
}

func c19Ranked(items []c19Item) vlib.Ranked {
	out := make(vlib.Ranked, len(items))
	for i, it := range items {
		out[i] = vlib.Item{Idx: it.I, Score: math.Float64frombits(it.B)}
	}
	return out
}

// c19W renders an answer for a witness; non-finite scores become strings (JSON has no NaN).
func c19W(a vlib.Ranked) interface{} {
	out := make([][2]interface{}, len(a))
	for i, it := range a {
		out[i][0] = it.Idx
		if math.IsNaN(it.Score) || math.IsInf(it.Score, 0) {
			out[i][1] = fmt.Sprint(it.Score)
		} else {
			out[i][1] = it.Score
		}
	}
	return out
}

func c19AllRanked(runs [][]c19Item) []vlib.Ranked {
	out := make([]vlib.Ranked, len(runs))
	for i, r := range runs {
		out[i] = c19Ranked(r)
	}
	return out
}

func c19RelEq(x, y float64) bool {
	if x == y {
		return true
	}
	d := math.Abs(x - y)
	return d <= 1e-9*math.Max(math.Abs(x), math.Abs(y)) || d <= 1e-12
}

func c19ScoreMap(a vlib.Ranked) map[int]float64 {
	m := make(map[int]float64, len(a))
	for _, it := range a {
		m[it.Idx] = it.Score
	}
	return m
}

// c19RefsAgree: the no-file answers agree entry by entry (set and scores within 1e-9).
func c19RefsAgree(refs []vlib.Ranked) bool {
	m0 := c19ScoreMap(refs[0])
	for _, r := range refs[1:] {
		if len(r) != len(refs[0]) {
			return false
		}
		for _, it := range r {
			s, ok := m0[it.Idx]
			if !ok || !c19RelEq(s, it.Score) {
				return false
			}
		}
	}
	return true
}

func c19Stable(refs []vlib.Ranked) bool {
	for _, r := range refs[1:] {
		if !vlib.Exact(refs[0], r) {
			return false
		}
	}
	return true
}

// c19JudgeInert: verdict "held" | "violated" | "inconclusive".
func c19JudgeInert(refs, cands []vlib.Ranked, limit int, nlp bool) (verdict, why, how string) {
	for _, c := range cands {
		for _, r := range refs {
			if vlib.Exact(r, c) {
				return "held", "", "exact"
			}
		}
	}
	stable := c19Stable(refs)
	ties, _ := vlib.HasTieGroup(refs[0], 0)
	if !nlp && stable && !ties {
		// scores of the lexical path do not depend on map order and nothing is tied: bit-identity is owed
		return "violated", "answer with inert embedding files is not bit-identical to the stable, tie-free answer without files", "exact"
	}
	for _, c := range cands {
		if v, _ := vlib.CompareToRef(refs, stable, c, limit); v == "held" {
			return "held", "", "approx"
		}
	}
	v, w := vlib.CompareToRef(refs, stable, cands[0], limit)
	return v, w, "approx"
}

// c19PairActive compares one answer with files against one answer without (both at Limit >= N).
func c19PairActive(ref, cand vlib.Ranked, alpha float64) (clause, detail string, raised bool) {
	rm, cm := c19ScoreMap(ref), c19ScoreMap(cand)
	if len(rm) != len(cm) {
		clause, detail = "candidates-changed", fmt.Sprintf("%d entries without files, %d with", len(rm), len(cm))
	}
	for i := range rm {
		if _, ok := cm[i]; !ok && clause == "" {
			clause, detail = "candidates-changed", fmt.Sprintf("entry %d is returned without embedding files but not with them", i)
		}
	}
	for i := range cm {
		if _, ok := rm[i]; !ok && clause == "" {
			clause, detail = "candidates-changed", fmt.Sprintf("entry %d is returned with embedding files but not without them", i)
		}
	}
	for _, it := range cand {
		s0, ok := rm[it.Idx]
		if !ok {
			continue
		}
		s1 := it.Score
		if !(s1 >= s0*(1-1e-9)) && clause == "" {
			clause, detail = "score-lowered", fmt.Sprintf("entry %d scores %v with embedding files, %v without", it.Idx, s1, s0)
		}
		if !(s1 <= s0*(1+alpha)*(1+1e-9)) && clause == "" {
			clause, detail = "score-unbounded", fmt.Sprintf("entry %d scores %v with embedding files, %v without: factor %.6g > 1+SemanticAlpha = %v", it.Idx, s1, s0, s1/s0, 1+alpha)
		}
		if s1 > s0*(1+1e-9) {
			raised = true
		}
	}
	return
}

func c19SelfChecks(c vlib.Ranked) (clause, detail string) {
	for i, it := range c {
		if math.IsNaN(it.Score) || math.IsInf(it.Score, 0) || it.Score < 0 {
			return "score-nonfinite", fmt.Sprintf("rank %d (entry %d) has score %v", i, it.Idx, it.Score)
		}
	}
	for i := 1; i < len(c); i++ {
		if c[i].Score > c[i-1].Score {
			return "order", fmt.Sprintf("rank %d score %v < rank %d score %v", i-1, c[i-1].Score, i, c[i].Score)
		}
	}
	return "", ""
}

func c19RunJob(ctx *Ctx, job c19Job, tag string) (*c19SearchOut, c19Proc) {
	jp := filepath.Join(ctx.Scratch, fmt.Sprintf("c19job_%s.json", tag))
	defer c19Remove(jp)
	b, _ := json.Marshal(job)
	if err := os.WriteFile(jp, b, 0o644); err != nil {
		panic(err)
	}
	p := c19Run("c19embedsearch", jp)
	if p.RC != 0 || p.TimedOut || p.StartErr != "" {
		return nil, p
	}
	var out c19SearchOut
	if err := json.Unmarshal([]byte(strings.TrimSpace(p.Out)), &out); err != nil || len(out.Answers) != len(job.Queries) {
		return nil, p
	}
	return &out, p
}

// c19BuildConfigs writes the embedding directories of one database.
func c19BuildConfigs(r *rand.Rand, cmds []vlib.Cmd, queries []c19Q, d int) []c19Config {
	// vocabulary: every token (lookup rule of the embedding vocabulary) of every query and of every entry
	vocabSet := map[string]bool{}
	qTokSet := map[string]bool{}
	for _, q := range queries {
		for _, t := range c19Tokens(q.Q) {
			vocabSet[t], qTokSet[t] = true, true
		}
	}
	cmdToks := make([][]string, len(cmds))
	for i := range cmds {
		ft := vlib.FieldTexts(&cmds[i])
		cmdToks[i] = c19Tokens(strings.Join(ft[:], " "))
		for _, t := range cmdToks[i] {
			vocabSet[t] = true
		}
	}
	vocab := make([]string, 0, len(vocabSet))
	for w := range vocabSet {
		if len(w) < 65536 {
			vocab = append(vocab, w)
		}
	}
	sort.Strings(vocab)
	N := len(cmds)

	// ACTIVE: random unit vector per word, command = normalised sum of its words (+ noise)
	wv := map[string][]float32{}
	wvecs := make([][]float32, len(vocab))
	for i, w := range vocab {
		wvecs[i] = c19Unit(c19Gauss(r, c19Dim), []float64{1, 1, 0.01, 40}[r.Intn(4)])
		wv[w] = wvecs[i]
	}
	ncmd := []int{N, N, N - 2, N + 3}[d%4]
	if ncmd < 1 {
		ncmd = N
	}
	cvecs := make([][]float32, ncmd)
	for i := range cvecs {
		sum := make([]float32, c19Dim)
		if i < N {
			for _, t := range cmdToks[i] {
				u := c19Unit(wv[t], 1)
				for k := range sum {
					sum[k] += u[k]
				}
			}
		}
		noise := c19Gauss(r, c19Dim)
		for k := range sum {
			sum[k] += 0.05 * noise[k]
		}
		cvecs[i] = c19Unit(sum, []float64{1, 1, 5, 1e-3}[r.Intn(4)])
		if r.Intn(12) == 0 { // the opposite direction: strongly negative similarity for related queries
			for k := range cvecs[i] {
				cvecs[i][k] = -cvecs[i][k]
			}
		}
	}
	activeGlove := c19Glove(uint32(len(vocab)), vocab, wvecs)
	activeCmd := c19CmdFile(uint32(ncmd), c19Dim, cvecs)

	// ACTIVE with non-finite components (the C01 invariant on scores still applies)
	bad := []float32{float32(math.NaN()), float32(math.Inf(1)), float32(math.Inf(-1)), math.MaxFloat32, -math.MaxFloat32}
	nwv := make([][]float32, len(wvecs))
	for i, v := range wvecs {
		nwv[i] = v
		if r.Intn(10) == 0 {
			nwv[i] = append([]float32(nil), v...)
			nwv[i][r.Intn(c19Dim)] = bad[r.Intn(len(bad))]
		}
	}
	ncv := make([][]float32, len(cvecs))
	for i, v := range cvecs {
		ncv[i] = v
		if r.Intn(4) == 0 {
			ncv[i] = append([]float32(nil), v...)
			for k, m := 0, 1+r.Intn(3); k < m; k++ {
				ncv[i][r.Intn(c19Dim)] = bad[r.Intn(len(bad))]
			}
		}
	}

	// INERT 1: all-zero command vectors (both signs of zero)
	zvecs := make([][]float32, N)
	for i := range zvecs {
		zvecs[i] = c19Vec(r, c19Dim, 4)
	}

	// INERT 2: vocabulary sharing no word with any query
	dw := make([]string, 0, 20)
	dv := make([][]float32, 0, 20)
	for len(dw) < 20 {
		w := "zq" + vlib.RandWord(r)
		if !qTokSet[w] && !vocabSet[w] {
			vocabSet[w] = true
			dw = append(dw, w)
			dv = append(dv, c19Gauss(r, c19Dim))
		}
	}

	// INERT 3: every similarity below the floor. Every word is a positive multiple of e0, so every query
	// embedding is a positive multiple of e0; command vectors have cosine <= 0.09 with e0.
	ovecs := make([][]float32, len(vocab))
	for i := range ovecs {
		ovecs[i] = make([]float32, c19Dim)
		ovecs[i][0] = float32(0.5 + 1.5*r.Float64())
	}
	e0 := make([]float32, c19Dim)
	e0[0] = 1
	ocv := make([][]float32, N)
	for i := range ocv {
		var v []float32
		for {
			rest := c19Gauss(r, c19Dim)
			rest[0] = 0
			rest = c19Unit(rest, 1)
			v = make([]float32, c19Dim)
			switch r.Intn(5) {
			case 0: // negative
				c := -r.Float64()
				for k := range v {
					v[k] = float32(math.Sqrt(1-c*c)) * rest[k]
				}
				v[0] = float32(c)
			case 1: // orthogonal
				copy(v, rest)
			case 2: // slightly positive, below the floor
				c := 0.01 + 0.08*r.Float64()
				for k := range v {
					v[k] = float32(math.Sqrt(1-c*c)) * rest[k]
				}
				v[0] = float32(c)
			case 3: // zero
			default: // exactly opposite
				v[0] = -3
			}
			if c19RefCos(e0, v) <= 0.0905 {
				break
			}
		}
		ocv[i] = v
	}

	cfgs := []c19Config{
		{Name: "inert-zero-cmd-vectors", Attach: true, Glove: activeGlove, Cmd: c19CmdFile(uint32(N), c19Dim, zvecs)},
		{Name: "inert-disjoint-vocabulary", Attach: true, Glove: c19Glove(uint32(len(dw)), dw, dv), Cmd: activeCmd},
		{Name: "inert-below-floor", Attach: true, Glove: c19Glove(uint32(len(vocab)), vocab, ovecs), Cmd: c19CmdFile(uint32(N), c19Dim, ocv)},
		{Name: "active", Active: true, Attach: true, Glove: activeGlove, Cmd: activeCmd},
		{Name: "active-nonfinite", Active: true, Attach: true, Glove: c19Glove(uint32(len(vocab)), vocab, nwv), Cmd: c19CmdFile(uint32(ncmd), c19Dim, ncv)},
	}
	if d%2 == 0 {
		cfgs = append(cfgs, c19Config{Name: "inert-glove-only", Attach: true, Glove: activeGlove})
	} else {
		cfgs = append(cfgs, c19Config{Name: "inert-cmd-file-only", Cmd: activeCmd})
	}
	return cfgs
}

// c19Obs holds what one child observed for one query: answers of the same Database object
// before and after LoadEmbeddings. Comparing inside one process keeps everything that is fixed
// at load time (TF-IDF norms summed in map order, ...) identical on both sides; what still
// varies call by call is absorbed by repeating both sides.
type c19Obs struct{ Pre, Post []vlib.Ranked }

func engineC19Search(ctx *Ctx) {
	r := vlib.NewRand(ctx.Seed, ctx.Shard, "embed-search")
	alpha := constants.SemanticAlpha
	nDB := ctx.N(160, 4800)
	nQ := 30
	if ctx.Shard == 0 {
		ctx.R.Extra["semantic_alpha_x1000"] = int64(math.Round(alpha * 1000)) // numeric extras are summed: shard 0 only
	}
	for d := 0; d < nDB; d++ {
		k := d + ctx.Shard
		sp := vlib.DBSpec{N: 5 + r.Intn(36), TieHeavy: k%3 == 0, Platforms: []int{0, 0, 0, 1}[k%4], Pipelines: k%2 == 0, Unicode: k%5 == 1, MixedCase: k%5 == 2}
		cmds := vlib.GenCommands(r, sp)
		N := len(cmds)
		dbName := fmt.Sprintf("gen-%d-%d", ctx.Shard, d)
		base := filepath.Join(ctx.Scratch, fmt.Sprintf("c19s%d", d))
		os.MkdirAll(base, 0o755)
		dbPath := filepath.Join(base, "db.yml")
		if err := vlib.WriteYAML(dbPath, cmds); err != nil {
			panic(err)
		}
		words := vlib.DBWords(cmds)
		queries := make([]c19Q, nQ)
		for qi := range queries {
			kind := []int{0, 0, 0, 1, 1, 2}[r.Intn(6)]
			q := vlib.GenQuery(r, words, 1+r.Intn(4), kind)
			if r.Intn(15) == 0 {
				q = []string{"", "?!", "a", strings.ToUpper(q)}[r.Intn(4)]
			}
			if r.Intn(7) == 0 {
				q = vlib.WithOddCase(r, q)
			}
			o := vlib.RandomOptions(r, N, words)
			if qi%3 != 2 { // two thirds at Limit >= N (the active clauses are stated there)
				o.Limit = []int{N, N + 7, 5 * N}[r.Intn(3)]
			}
			queries[qi] = c19Q{Q: q, O: vlib.OptsJ(o)}
		}
		cfgs := append([]c19Config{{Name: "no-files"}}, c19BuildConfigs(r, cmds, queries, k)...)

		caseOf := func(cfg string, qi int) map[string]interface{} {
			m := map[string]interface{}{"db": dbName, "entries": N, "spec": fmt.Sprintf("%+v", sp), "config": cfg}
			if qi >= 0 {
				m["query"], m["opts"] = queries[qi].Q, queries[qi].O
			}
			return m
		}

		for ci, cfg := range cfgs {
			dir := filepath.Join(base, fmt.Sprintf("cfg%d", ci))
			if err := c19WriteDir(dir, c19FileCase{Glove: cfg.Glove, Cmd: cfg.Cmd}); err != nil {
				panic(err)
			}
			cs := caseOf(cfg.Name, -1)
			ctx.R.Begin(cs)
			out, p := c19RunJob(ctx, c19Job{DB: dbPath, Dir: dir, Repeat: 3, Queries: queries}, fmt.Sprintf("%d_c%d", d, ci))
			if out == nil {
				if crashed, why := p.Crashed(); crashed {
					ctx.R.Violate(vlib.Violation{Property: "C19", Clause: "search-crash", Path: cfg.Name, Detail: why, Witness: map[string]interface{}{"case": cs, "stderr_tail": vlib.Trunc(p.Err, 1500)}})
				} else {
					ctx.R.Inconcl("search-child-failed")
					fmt.Fprintf(os.Stderr, "c19: search child failed rc=%d: %s\n", p.RC, vlib.Trunc(p.Err, 500))
				}
				continue
			}
			if cfg.Name == "no-files" && out.Has {
				panic("c19: the no-files child attached an embedding index (stray glove.bin next to the harness binary?)")
			}
			if out.Has != cfg.Attach || (cfg.Attach && out.Vocab <= 0) {
				ctx.R.Inconcl("index-attachment-not-as-generated:" + cfg.Name)
				continue
			}
			for qi, a := range out.Answers {
				q := queries[qi]
				cq := caseOf(cfg.Name, qi)
				ctx.R.Eval(1)
				if a.Panic != "" {
					ctx.R.Violate(vlib.Violation{Property: "C19", Clause: "search-crash", Path: cfg.Name, Detail: "SearchUniversal panicked: " + a.Panic, Witness: cq})
					continue
				}
				obs := []c19Obs{{c19AllRanked(a.Pre), c19AllRanked(a.Post)}}
				limit := vlib.LimitInForce(q.O.Limit)

				// clauses that need no reference
				selfBad := false
				for _, c := range obs[0].Post {
					if cl, det := c19SelfChecks(c); cl != "" {
						cq["with_files"], cq["without_files"] = c19W(c), c19W(obs[0].Pre[0])
						ctx.R.Violate(vlib.Violation{Property: "C19", Clause: cl, Path: cfg.Name, Detail: det, Witness: cq})
						selfBad = true
						break
					}
				}
				if selfBad {
					continue
				}

				// a suspected violation is re-observed in a fresh process with more repetitions, so that
				// a verdict never rests on a coincidence of map-order dependent ties / float sums
				confirm := func() bool {
					o2, _ := c19RunJob(ctx, c19Job{DB: dbPath, Dir: dir, Repeat: 8, Queries: []c19Q{q}}, fmt.Sprintf("%d_c%d_q%d", d, ci, qi))
					if o2 == nil || o2.Answers[0].Panic != "" {
						return false
					}
					obs = append(obs, c19Obs{c19AllRanked(o2.Answers[0].Pre), c19AllRanked(o2.Answers[0].Post)})
					return true
				}

				if !cfg.Active {
					ctx.R.Path("inert-pairs", 1)
					ctx.R.Path(cfg.Name, 1)
					judge := func() (v, why, how string) {
						for _, ob := range obs { // violated only if violated in every process observed
							v, why, how = c19JudgeInert(ob.Pre, ob.Post, limit, q.O.UseNLP)
							if v != "violated" {
								return
							}
						}
						return
					}
					v, why, how := judge()
					if v == "violated" {
						if !confirm() {
							ctx.R.Inconcl("confirmation-run-failed")
							continue
						}
						if v, why, how = judge(); v != "violated" {
							ctx.R.Path("suspicion-not-confirmed", 1)
						}
					}
					switch v {
					case "held":
						ctx.R.Path("inert-held-"+how, 1)
						if len(obs[0].Post[0]) > 0 {
							ctx.R.Path("inert-nonempty", 1)
						}
					case "inconclusive":
						ctx.R.Inconcl("inert: " + strings.SplitN(why, ":", 2)[0])
					default:
						cq["without_files"], cq["with_files"] = c19W(obs[0].Pre[0]), c19W(obs[0].Post[0])
						ctx.R.Violate(vlib.Violation{Property: "C19", Clause: "inert-differs", Path: cfg.Name,
							Detail: fmt.Sprintf("query %s: %s (%s comparison; %d+%d reference runs in %d processes, stable=%v)", vlib.Q(q.Q), why, how,
								len(obs[0].Pre), len(obs[len(obs)-1].Pre), len(obs), c19Stable(obs[0].Pre)),
							Witness: cq})
					}
					continue
				}

				// ACTIVE
				if q.O.Limit < out.N || q.O.Limit < N {
					ctx.R.Path("active-truncated-selfchecks-only", 1)
					continue
				}
				ctx.R.Path("active-pairs", 1)
				ctx.R.Path(cfg.Name, 1)
				var okPre, okPost vlib.Ranked
				judge := func() (clause, detail string, raised bool) {
					// EVERY answer given with the files in place - the first, and the same request asked again on the same object - has to be
					// explained by one of the answers given without them
					for _, ob := range obs {
						for k, c := range ob.Post {
							ok := false
							var cl0, det0 string
							for _, rr := range ob.Pre {
								cl, det, ra := c19PairActive(rr, c, alpha)
								if cl == "" {
									okPre, okPost = rr, c
									raised = raised || ra
									ok = true
									break
								}
								if cl0 == "" {
									cl0, det0 = cl, det
								}
							}
							if !ok {
								if k > 0 {
									det0 = fmt.Sprintf("(request asked for the %d. time on one object) %s", k+1, det0)
								}
								return cl0, det0, raised
							}
							if k > 0 {
								ctx.R.Path("active-repeated-answers-checked", 1)
							}
						}
					}
					return "", "", raised
				}
				clause, detail, raised := judge()
				if clause != "" {
					if !confirm() {
						ctx.R.Inconcl("confirmation-run-failed")
						continue
					}
					if clause, detail, raised = judge(); clause == "" {
						ctx.R.Path("suspicion-not-confirmed", 1)
					}
				}
				if clause != "" {
					agree := true
					for _, ob := range obs {
						agree = agree && c19RefsAgree(ob.Pre)
					}
					if !agree {
						ctx.R.Inconcl("active: reference unstable")
						continue
					}
					cq["without_files"], cq["with_files"] = c19W(obs[0].Pre[0]), c19W(obs[0].Post[0])
					ctx.R.Violate(vlib.Violation{Property: "C19", Clause: clause, Path: cfg.Name,
						Detail: fmt.Sprintf("query %s at limit %d >= %d entries: %s", vlib.Q(q.Q), q.O.Limit, N, detail), Witness: cq})
					continue
				}
				if raised {
					ctx.R.Path("active-raised", 1)
					ctx.R.Nontriv(dbName, q.Q)
					if cfg.Name == "active-nonfinite" {
						ctx.R.Path("active-nonfinite-raised", 1)
					}
					if len(okPre) == len(okPost) { // did the boost change the order?
						for i := range okPost {
							if okPost[i].Idx != okPre[i].Idx {
								ctx.R.Path("active-reordered", 1)
								break
							}
						}
					}
					ctx.R.Sample(map[string]interface{}{"case": cq, "without_files": c19W(okPre), "with_files": c19W(okPost)})
				}
			}
			c19Remove(dir)
		}
		c19Remove(base)
	}
}

// c19Remove deletes generated files unless C19_KEEP is set (debugging aid for replays).
func c19Remove(path string) {
	if os.Getenv("C19_KEEP") == "" {
		os.RemoveAll(path)
	}
}

package main

import (
	"fmt"
	"time"

	"github.com/Vedant9500/WTF/internal/cache"
	"github.com/Vedant9500/WTF/internal/zzverif/vlib"
)

// c12Big: the sizes and run lengths the step-by-step model histories cannot afford.
//
//   - caches of thousands up to a few hundred thousand entries (capacities around powers of two, and well past 65536),
//     filled past their capacity: the size never exceeds the capacity, every insert into the full cache discards exactly the
//     entry written longest ago (key listing compared after each of the first inserts past the capacity and at the end), the
//     eviction count moves by one per insert;
//   - one cache serving millions of lookups without a clear: hits, misses and evictions are compared with the counted history
//     at every power of two of lookups (and right before / after it) up to the end of the run.
//
// Each shard takes its own capacities and hit ratios.
func c12Big(ctx *Ctx) {
	caps := []int{4096, 4097, 5000, 8192, 10000, 16384, 20000, 32768, 40000, 65535, 65536, 65537, 70000, 100000, 131072, 200000}
	capacity := caps[ctx.Shard%len(caps)]
	cs := map[string]interface{}{"kind": "lru-big", "shard": ctx.Shard, "capacity": capacity}
	ctx.R.Begin(cs)
	ctx.R.Eval(1)
	viol := func(clause, method, format string, a ...interface{}) {
		ctx.R.Violate(vlib.Violation{Property: "C12", Clause: clause, Path: method + "/big", Detail: fmt.Sprintf(format, a...), Witness: cs})
	}
	key := func(i int) string { return fmt.Sprintf("big-%07d", i) }
	ctx.R.Guard("C12", "lru-big", cs, func() {
		c := cache.NewLRUCache(capacity, 0)
		if got := c.Capacity(); got != capacity {
			viol("capacity", "Capacity", "Capacity() = %d for a requested capacity of %d", got, capacity)
			return
		}
		for i := 0; i < capacity; i++ {
			c.Put(key(i), i)
			if i%257 == 0 || i > capacity-70 {
				if s := c.Size(); s != i+1 {
					viol("capacity", "Put", "after %d distinct inserts into capacity %d the cache holds %d entries", i+1, capacity, s)
					return
				}
			}
		}
		if st := c.Stats(); st.Evictions != 0 || st.Size != capacity {
			viol("stats", "Stats", "after filling capacity %d exactly: size %d, evictions %d", capacity, st.Size, st.Evictions)
			return
		}
		over := capacity/16 + 300
		for j := 0; j < over; j++ {
			c.Put(key(capacity+j), j)
			if s := c.Size(); s != capacity {
				viol("capacity", "Put", "after %d inserts into the full cache (capacity %d) it holds %d entries", j+1, capacity, s)
				return
			}
			if st := c.Stats(); st.Evictions != int64(j+1) || st.Size != capacity {
				viol("stats", "Stats", "after %d inserts into the full cache (capacity %d): evictions %d, size %d", j+1, capacity, st.Evictions, st.Size)
				return
			}
			if j < 40 || j == over-1 {
				// the key listing holds exactly the `capacity` most recently written keys
				ks := c.Keys()
				if len(ks) != capacity {
					viol("capacity", "Keys", "after %d inserts into the full cache (capacity %d) Keys() lists %d keys", j+1, capacity, len(ks))
					return
				}
				want := map[string]bool{}
				for i := j + 1; i <= capacity+j; i++ {
					want[key(i)] = true
				}
				for _, k := range ks {
					if !want[k] {
						viol("eviction-victim", "Put", "after %d inserts into the full cache (capacity %d) the cache still holds %q; the %d keys written longest ago had to go, one per insert", j+1, capacity, k, j+1)
						return
					}
				}
			}
			ctx.R.Path("big-evictions-checked", 1)
		}
		ctx.R.Path("big-capacity-histories", 1)
		ctx.R.Nontriv("lrumodel-big", ctx.Seed, ctx.Shard, capacity)
	})

	// --- long-lived cache: millions of lookups
	lookups := ctx.Pick(1<<21+1000, 1<<25+1000)
	small := []int{7, 64, 100, 1000, 3, 250, 16, 4000}[ctx.Shard%8]
	period := []int{3, 4, 5, 7, 2, 9, 11, 13}[(ctx.Shard/2)%8] // every period-th lookup asks for a key that was never stored
	cs2 := map[string]interface{}{"kind": "lru-many-lookups", "shard": ctx.Shard, "capacity": small, "lookups": lookups, "miss_every": period}
	ctx.R.Begin(cs2)
	ctx.R.Eval(1)
	ctx.R.Guard("C12", "lru-many-lookups", cs2, func() {
		c := cache.NewLRUCache(small, time.Duration(0))
		for i := 0; i < small; i++ {
			c.Put(key(i), i)
		}
		var hits, misses int64
		next := int64(1)
		for n := int64(1); n <= int64(lookups); n++ {
			if n%int64(period) == 0 {
				if _, ok := c.Get("absent"); ok {
					viol("get-value", "Get", "a key that was never stored was found after %d lookups", n)
					return
				}
				misses++
			} else {
				k := int(n % int64(small))
				v, ok := c.Get(key(k))
				if !ok || v != interface{}(k) {
					viol("get-value", "Get", "stored key %q: found=%v value=%v after %d lookups (no insert, delete or expiry since it was stored)", key(k), ok, v, n)
					return
				}
				hits++
			}
			if n == next-1 || n == next || n == next+1 || n == int64(lookups) {
				st := c.Stats()
				if st.Hits != hits || st.Misses != misses || st.Evictions != 0 || st.Size != small {
					viol("stats", "Stats", "after %d lookups on one cache (no clear): Stats() says hits=%d misses=%d evictions=%d size=%d; the history has hits=%d misses=%d evictions=0 size=%d",
						n, st.Hits, st.Misses, st.Evictions, st.Size, hits, misses, small)
					return
				}
				ctx.R.Path("big-lookup-checkpoints", 1)
				if n == next+1 {
					next *= 2
				}
			}
		}
		ctx.R.Path("big-lookups", int64(lookups))
		ctx.R.Path("big-lookup-histories", 1)
	})
}

// c12RealPause: the one history per shard that really waits. A cache with a lifetime of a few hundred milliseconds serves hits,
// misses and a capacity eviction, then nothing happens for longer than a second and longer than the lifetime (a user who
// comes back after a pause), then the same keys are asked for again: they have outlived the lifetime (misses), and the
// statistics still count everything since the last clear.
func c12RealPause(ctx *Ctx) {
	ttl := []time.Duration{300 * time.Millisecond, 100 * time.Millisecond, 700 * time.Millisecond, time.Second}[ctx.Shard%4]
	pause := ttl + []time.Duration{900 * time.Millisecond, 1100 * time.Millisecond, 1500 * time.Millisecond}[(ctx.Shard/4)%3]
	cs := map[string]interface{}{"kind": "lru-real-pause", "shard": ctx.Shard, "capacity": 2, "ttl": ttl.String(), "pause": pause.String()}
	ctx.R.Begin(cs)
	ctx.R.Eval(1)
	viol := func(clause, method, format string, a ...interface{}) {
		ctx.R.Violate(vlib.Violation{Property: "C12", Clause: clause, Path: method + "/after-a-real-pause", Detail: fmt.Sprintf(format, a...), Witness: cs})
	}
	ctx.R.Guard("C12", "lru-real-pause", cs, func() {
		t0 := time.Now()
		c := cache.NewLRUCache(2, ttl)
		c.Put("a", 1)
		c.Put("b", 2)
		_, h1 := c.Get("a")
		_, h2 := c.Get("b")
		_, m1 := c.Get("zz")
		c.Put("c", 3) // discards a
		if time.Since(t0) > ttl/2 {
			ctx.R.Inconcl("real-time-exceeded")
			return
		}
		if !h1 || !h2 || m1 {
			viol("get-value", "Get", "before the pause: a found=%v, b found=%v, zz found=%v", h1, h2, m1)
			return
		}
		st := c.Stats()
		if st.Hits != 2 || st.Misses != 1 || st.Evictions != 1 || st.Size != 2 {
			viol("stats", "Stats", "before the pause: hits=%d misses=%d evictions=%d size=%d; the history has 2 / 1 / 1 / 2", st.Hits, st.Misses, st.Evictions, st.Size)
			return
		}
		time.Sleep(pause)
		if _, ok := c.Get("b"); ok {
			viol("expiry-stale-hit", "Get", "an entry stored %v ago is still served, lifetime %v", time.Since(t0).Round(time.Millisecond), ttl)
			return
		}
		st = c.Stats()
		// (the lookup removed the expired b; c may still be counted until it is looked up or swept; an expired removal may or may not count as an eviction)
		if st.Hits != 2 || st.Misses != 2 || st.Evictions < 1 || st.Evictions > 3 || st.Size > 1 {
			viol("stats", "Stats", "after a pause of %v and one lookup of an expired key: hits=%d misses=%d evictions=%d size=%d; since the last clear 2 hits, 2 misses and 1 capacity eviction happened (no Clear was called)",
				pause, st.Hits, st.Misses, st.Evictions, st.Size)
			return
		}
		n := c.CleanupExpired()
		if n != st.Size {
			viol("sweeps", "CleanupExpired", "after the pause %d expired entries were still held, the sweep reports %d removals", st.Size, n)
			return
		}
		ctx.R.Path("real-pause-histories", 1)
		ctx.R.Nontriv("lru-real-pause", ctx.Seed, ctx.Shard)
	})
}

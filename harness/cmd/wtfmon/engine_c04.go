package main

import (
	"fmt"
	"math/rand"
	"os"
	"path/filepath"
	"runtime"
	"strings"

	"github.com/Vedant9500/WTF/internal/database"
	"github.com/Vedant9500/WTF/internal/zzverif/vlib"
)

func init() {
	engines["filters"] = engineFilters
	engines["filters-cli"] = engineFiltersCLI
}

var c04PlatformSets = [][]string{nil, nil, {"linux"}, {"windows"}, {"macos"}, {"windows", "macos"}, {"Darwin"}, {"LINUX"},
	// what `--platform "linux, macos"`, `--platform linux,` or `--platform ""` hand to the engine, and alias spellings
	{"linux", ""}, {"", "windows"}, {" "}, {""}, {"linux", " macos"}, {"osx"}, {"darwin "}, {"powershell"}, {"Windows", ""},
	// platforms no list of "known" names is likely to hold: whoever asks for them is not asking for the host's commands
	{"freebsd"}, {"solaris", "netbsd"}, {"haiku"}, {"android", "wsl"}, {"plan9", "FreeBSD"}}

func c04DB(ctx *Ctx, k int) vlib.DBSpec {
	return vlib.DBSpec{N: []int{6, 15, 30, 60, 150}[k%5], TieHeavy: k%3 == 0, Platforms: 2 - (k%5)/4, Pipelines: true,
		PseudoCmd: k%2 == 0, MixedCase: k%4 == 1}
}

// c04IsTool: "a recognised cross-platform tool" is whatever the program recognises (hook) - provided the program's text names
// it: a first word that is a tool's name with letters glued on ("gits", "dockerx") and that appears nowhere in the program
// is a different command, whatever a prefix comparison says.
var c04Named map[string]bool

func c04IsTool(cmd string) bool {
	if !database.VerifIsCrossPlatformTool(cmd) {
		return false
	}
	f := strings.Fields(strings.ToLower(cmd))
	if len(f) == 0 || c04Named == nil {
		return true
	}
	return c04Named[f[0]]
}

// c04Tools: the tool names the program recognises, found by asking the program about every word its own text contains.
func c04Tools(ctx *Ctx) []string {
	d := ctx.Dict()
	c04Named = map[string]bool{}
	var tools []string
	for _, w := range d.Words {
		lw := strings.ToLower(w)
		c04Named[lw] = true
		if database.VerifIsCrossPlatformTool(lw + " x") {
			tools = append(tools, lw)
		}
	}
	return tools
}

// c04Truth: when the database was loaded from a file the harness wrote, the platforms each entry declares IN THE FILE, by
// position (an entry that lost its tags on the way in would otherwise look unrestricted).
var c04Truth map[*database.Command][]string

func c04Report(ctx *Ctx, cs map[string]interface{}, o database.SearchOptions, rs []database.SearchResult, entry, path string) {
	if c04Truth != nil {
		rs2 := make([]database.SearchResult, 0, len(rs))
		for _, x := range rs {
			if pl, ok := c04Truth[x.Command]; ok && x.Command != nil {
				c := *x.Command
				c.Platform = pl
				rs2 = append(rs2, database.SearchResult{Command: &c, Score: x.Score})
			} else {
				rs2 = append(rs2, x)
			}
		}
		rs = rs2
	}
	for _, is := range vlib.CheckFilters(o, rs, c04IsTool) {
		ctx.R.Violate(vlib.Violation{Property: "C04", Clause: is.Clause, Path: entry + "/" + path, Detail: is.Detail, Witness: cs})
	}
}

func engineFilters(ctx *Ctx) {
	r := vlib.NewRand(ctx.Seed, ctx.Shard, "filters")
	nDB := ctx.N(320, 16000)
	nQ := ctx.Pick(24, 30)
	tools := c04Tools(ctx)
	ctx.R.Extra["recognised_tool_names_in_the_program_text"] = float64(len(tools)) / float64(ctx.NShards)
	c04ToolSweep(ctx, tools)
	c04Huge(ctx, r)
	c04SharedList(ctx, r)
	c04ManySearches(ctx, r)
	for d := 0; d < nDB; d++ {
		var db *database.Database
		dbName := fmt.Sprintf("gen-%d-%d", ctx.Shard, d)
		if d == 0 && ctx.Shard%8 == 3 {
			db = ctx.Shipped()
			dbName = "shipped"
		} else {
			cmds0 := vlib.GenCommands(r, c04DB(ctx, d+ctx.Shard))
			if len(tools) > 0 && len(cmds0) > 3 {
				// entries for other platforms whose command begins with a recognised tool's name with letters glued on, and
				// entries that do begin with the tool (those may come back)
				for k := 0; k < 2; k++ {
					i := r.Intn(len(cmds0))
					t := tools[r.Intn(len(tools))]
					first := t + []string{"s", "x", "er", "z", "ctl", "-plus"}[r.Intn(6)]
					if k == 1 && r.Intn(2) == 0 {
						first = t
					}
					cmds0[i].Command = first + " " + cmds0[i].Command
					cmds0[i].Platform = []string{vlib.AlienPlatforms[r.Intn(len(vlib.AlienPlatforms))]}
					if !c04Named[first] {
						ctx.R.Path("entries-named-like-a-tool-with-letters-glued-on", 1)
					}
				}
			}
			c04Truth = nil
			if !ctx.R.Guard("C04", "LoadDatabase", dbName, func() {
				if ctx.G(d)%4 == 3 {
					// a hand-maintained file: repeated platform names, keywords and tags written once with an anchor and referred
					// to by alias; what each entry declares is what the file says
					fp := filepath.Join(ctx.Scratch, fmt.Sprintf("c04anch%d.yml", d))
					plain := vlib.StripCaches(cmds0)
					for i := range plain { // valid UTF-8 only
						plain[i].Command, plain[i].Description = strings.ToValidUTF8(plain[i].Command, "?"), strings.ToValidUTF8(plain[i].Description, "?")
					}
					if err := vlib.WriteYAMLAnchored(fp, plain); err != nil {
						panic(err)
					}
					defer os.Remove(fp)
					x, err := database.LoadDatabase(fp)
					if err != nil {
						panic(err)
					}
					if len(x.Commands) != len(plain) {
						panic(fmt.Sprintf("%d entries written, %d loaded", len(plain), len(x.Commands)))
					}
					db = x
					c04Truth = map[*database.Command][]string{}
					for i := range db.Commands {
						c04Truth[&db.Commands[i]] = plain[i].Platform
					}
					dbName += "/file-with-anchors-and-aliases"
					ctx.R.Path("databases-from-files-with-aliases", 1)
					return
				}
				db = vlib.MustLoad(cmds0)
			}) {
				continue
			}
		}
		cdb := database.NewCachedDatabase(db)
		if g := ctx.G(d); dbName != "shipped" && g%4 == 1 {
			// a database that grows: a main file (without any platform tag in half of the cases) to which tagged entries are added by
			// the notebook merge, by a refresh of the caching wrapper, or by appending - the filters hold for what is searched now
			main := vlib.GenCommands(r, vlib.DBSpec{N: 3 + r.Intn(20), TieHeavy: true, Platforms: []int{0, 0, 1}[r.Intn(3)], Pipelines: true, PseudoCmd: true})
			add := vlib.GenCommands(r, vlib.DBSpec{N: 3 + r.Intn(20), TieHeavy: true, Platforms: 2, Pipelines: true, PseudoCmd: true})
			how := []string{"notebook-merge", "refresh", "append", "refresh-then-append", "retag"}[(g/4)%5]
			ok := ctx.R.Guard("C04", "grow database ("+how+")", dbName, func() {
				mp := filepath.Join(ctx.Scratch, fmt.Sprintf("c04main%d.yml", d))
				pp := filepath.Join(ctx.Scratch, fmt.Sprintf("c04pers%d.yml", d))
				if err := vlib.WriteYAML(mp, main); err != nil {
					panic(err)
				}
				defer os.Remove(mp)
				defer os.Remove(pp)
				switch how {
				case "retag":
					// requests are answered (and cached), then the same entries are handed over again with nothing changed but the
					// platforms they are declared for and their pipeline flags; the same requests again must obey the new attributes
					x, err := database.LoadDatabaseWithPersonal(mp, pp)
					if err != nil {
						panic(err)
					}
					db = x
					cdb = database.NewCachedDatabase(db)
					mws := vlib.DBWords(db.Commands)
					type rq struct {
						q string
						o database.SearchOptions
					}
					var asked []rq
					for i := 0; i < 6 && len(mws) > 0; i++ {
						o := database.SearchOptions{Limit: len(db.Commands) + 1, Platforms: c04PlatformSets[2+r.Intn(4)], PipelineOnly: r.Intn(3) == 0, NoCrossPlatform: r.Intn(3) == 0, UseNLP: r.Intn(2) == 0}
						q := vlib.GenQuery(r, mws, 1+r.Intn(2), 0)
						cdb.SearchWithOptionsAndCache(q, o)
						asked = append(asked, rq{q, o})
					}
					re := append([]database.Command(nil), db.Commands...)
					for i := range re {
						switch r.Intn(3) {
						case 0:
							re[i].Platform = []string{vlib.AlienPlatforms[r.Intn(len(vlib.AlienPlatforms))]}
						case 1:
							re[i].Platform = []string{"windows"}
						}
						if r.Intn(2) == 0 {
							re[i].Pipeline = false
						}
					}
					cdb.UpdateDatabase(re)
					db = cdb.Database
					for _, a := range asked {
						cs := map[string]interface{}{"db": dbName + "/retagged", "n": len(db.Commands), "query": a.q, "opts": vlib.OptsJ(a.o)}
						c04Report(ctx, cs, a.o, cdb.SearchWithOptionsAndCache(a.q, a.o), "SearchWithOptionsAndCache", "cached-after-retag")
						ctx.R.Path("requests-repeated-after-a-retag", 1)
					}
				case "notebook-merge":
					if err := vlib.WriteYAML(pp, add); err != nil {
						panic(err)
					}
					x, err := database.LoadDatabaseWithPersonal(mp, pp)
					if err != nil {
						panic(err)
					}
					db = x
					cdb = database.NewCachedDatabase(db)
				default:
					x, err := database.LoadDatabaseWithPersonal(mp, pp) // notebook absent
					if err != nil {
						panic(err)
					}
					db = x
					cdb = database.NewCachedDatabase(db)
					warm := vlib.DBWords(db.Commands)
					for i := 0; i < 3 && len(warm) > 0; i++ { // searches before the growth (whatever is derived from the content is derived now)
						cdb.SearchWithOptionsAndCache(warm[r.Intn(len(warm))], database.SearchOptions{Limit: 5, UseFuzzy: true})
					}
					grown := append(append([]database.Command{}, db.Commands...), vlib.MustLoad(add).Commands...)
					switch how {
					case "refresh":
						cdb.UpdateDatabase(grown)
						db = cdb.Database
					case "append":
						db.Commands = grown
					default:
						cdb.UpdateDatabase(append([]database.Command{}, db.Commands...))
						db = cdb.Database
						db.Commands = append(db.Commands, vlib.MustLoad(add).Commands...)
					}
				}
			})
			if !ok {
				continue
			}
			dbName += "/grown-by-" + how
			ctx.R.Path("grown-"+how, 1)
		}
		// a word table that knows a synonym for every word of a few entries: a request that paraphrases such an entry shares no
		// word with the database, and whatever answers it (a semantic stage, the fallback, nothing) is bound by the filters
		var paraphrases []string
		if g := ctx.G(d); dbName != "shipped" && g%8 == 6 && len(db.Commands) > 0 {
			syn := map[string]string{}
			for k := 0; k < 4; k++ {
				c := &db.Commands[r.Intn(len(db.Commands))]
				ft := vlib.FieldTexts(c)
				var qs []string
				for _, t := range vlib.Tokenize(strings.Join(ft[:], " ")) {
					if len(qs) < 12 {
						syn["syn"+t] = t
						qs = append(qs, "syn"+t)
					}
				}
				if len(qs) > 0 {
					paraphrases = append(paraphrases, strings.Join(qs, " "))
				}
			}
			ok := false
			ctx.R.Guard("C04", "LoadEmbeddings", dbName, func() { ok = attachEmbeddingsExtra(ctx, r, db, "unit", syn) })
			if ok {
				dbName += "/word-table-with-synonyms"
				ctx.R.Path("databases-with-a-word-table-holding-synonyms", 1)
			} else {
				paraphrases = nil
			}
		}
		cmds := db.Commands
		N := len(cmds)
		words := vlib.DBWords(cmds)
		if len(words) > 3000 {
			words = words[:3000]
		}
		mdb := database.NewMonitoredDatabase(db)
		for qi := 0; qi < nQ; qi++ {
			kind := qi % 3 // 0 lexical, 1 stop/punct, 2 typo (fuzzy path)
			q := vlib.GenQuery(r, words, 1+r.Intn(3), kind)
			if kind == 2 && r.Intn(2) == 0 && N > 0 { // typo of a raw word of some entry: guarantees a fuzzy candidate
				c := cmds[r.Intn(N)]
				f := strings.Fields(c.Command + " " + c.Description)
				w := f[r.Intn(len(f))]
				if len(w) > 3 {
					q = w[:1] + w[2:]
				}
			}
			o := database.SearchOptions{
				Limit:           []int{3, 10, N + 1}[r.Intn(3)],
				UseNLP:          r.Intn(2) == 0,
				UseFuzzy:        kind == 2 || r.Intn(2) == 0,
				FuzzyThreshold:  []int{0, -30}[r.Intn(2)],
				PipelineOnly:    r.Intn(3) == 0,
				PipelineBoost:   []float64{0, 2}[r.Intn(2)],
				AllPlatforms:    r.Intn(5) == 0,
				Platforms:       c04PlatformSets[r.Intn(len(c04PlatformSets))],
				NoCrossPlatform: r.Intn(3) == 0,
			}
			if qi < 2*len(paraphrases) {
				q = paraphrases[qi/2]
				o.PipelineOnly = qi%2 == 0
				o.Limit = N + 1
				ctx.R.Path("paraphrase-requests", 1)
			}
			cs := map[string]interface{}{"db": dbName, "n": N, "query": q, "opts": vlib.OptsJ(o)}
			ctx.R.Begin(cs)
			ctx.R.Eval(1)
			var res []database.SearchResult
			if !ctx.R.Guard("C04", "SearchUniversal", cs, func() { res = db.SearchUniversal(q, o) }) {
				continue
			}
			// which path answered, and was there anything to leak?
			path := "empty"
			off := o
			off.UseFuzzy = false
			var lex []database.SearchResult
			ctx.R.Guard("C04", "SearchUniversal", cs, func() { lex = db.SearchUniversal(q, off) })
			switch {
			case len(res) == 0:
			case len(lex) == 0 && o.UseFuzzy:
				path = "fuzzy"
			case o.UseNLP:
				path = "nlp"
			default:
				path = "lexical"
			}
			open := o
			open.AllPlatforms, open.PipelineOnly, open.NoCrossPlatform, open.Platforms, open.Limit = true, false, false, nil, N+1
			opportunity := false
			ctx.R.Guard("C04", "SearchUniversal", cs, func() {
				for _, x := range db.SearchUniversal(q, open) {
					if leak, _ := vlib.PlatformLeak(x.Command, o, c04IsTool); leak {
						opportunity = true
					}
					if o.PipelineOnly && vlib.DefinitelyNotPipeline(x.Command) {
						opportunity = true
					}
				}
			})
			if opportunity {
				ctx.R.Nontriv(dbName, q, fmt.Sprintf("%+v", vlib.OptsJ(o)))
				ctx.R.Path("opportunity-"+path, 1)
			}
			ctx.R.Path(path, 1)
			c04Report(ctx, cs, o, res, "SearchUniversal", path)
			// cached: miss, then hit
			ctx.R.Guard("C04", "SearchWithOptionsAndCache", cs, func() {
				h0 := cdb.GetCacheStats()["search"].Hits
				r1 := cdb.SearchWithOptionsAndCache(q, o)
				c04Report(ctx, cs, o, r1, "SearchWithOptionsAndCache", path)
				r2 := cdb.SearchWithOptionsAndCache(q, o)
				if cdb.GetCacheStats()["search"].Hits > h0 {
					ctx.R.Path("cached-hit", 1)
					c04Report(ctx, cs, o, r2, "SearchWithOptionsAndCache", "cached")
				}
				// the two-step history that a too-coarse key gets wrong: same query, filter options changed
				o2 := o
				o2.AllPlatforms = !o.AllPlatforms
				r3 := cdb.SearchWithOptionsAndCache(q, o2)
				c04Report(ctx, cs, o2, r3, "SearchWithOptionsAndCache", "cached-after-filter-change")
			})
			// the same query under a sequence of different platform requests on one caching wrapper: requests that
			// differ in the platforms asked for must not be served each other's answers
			if qi%3 == 0 {
				ctx.R.Guard("C04", "SearchWithOptionsAndCache", cs, func() {
					seqs := [][][]string{{{"windows", "linux"}, {"linux"}}, {{"macos", "windows"}, {"macos"}}, {{"linux"}, {"windows", "linux"}, {"windows"}},
						{{"windows", "windows"}, nil, {"windows"}}, {{"Windows"}, {"windows", "macos", "linux"}, {"macos", "linux"}}}
					seq := seqs[r.Intn(len(seqs))]
					for _, pl := range seq {
						o3 := o
						o3.AllPlatforms = false
						o3.Platforms = pl
						r3 := cdb.SearchWithOptionsAndCache(q, o3)
						cs3 := map[string]interface{}{"db": dbName, "n": N, "query": q, "opts": vlib.OptsJ(o3), "platform_request_sequence": seq}
						c04Report(ctx, cs3, o3, r3, "SearchWithOptionsAndCache", "cached-platform-sequence")
						ctx.R.Path("cached-platform-sequence-steps", 1)
					}
				})
			}
			if qi%4 == 0 {
				ctx.R.Guard("C04", "SearchWithOptionsAndMonitoring", cs, func() {
					c04Report(ctx, cs, o, mdb.SearchWithOptionsAndMonitoring(q, o), "SearchWithOptionsAndMonitoring", path)
				})
			}
			// legacy pipeline search used by `wtf pipeline`: pipeline-only clause
			if o.PipelineOnly {
				ctx.R.Guard("C04", "SearchWithPipelineOptions", cs, func() {
					rs := db.SearchWithPipelineOptions(q, o)
					if len(rs) > 0 {
						ctx.R.Path("pipeline-legacy", 1)
					}
					for _, is := range vlib.CheckFilters(database.SearchOptions{AllPlatforms: true, PipelineOnly: true}, rs, database.VerifIsCrossPlatformTool) {
						ctx.R.Violate(vlib.Violation{Property: "C04", Clause: is.Clause, Path: "SearchWithPipelineOptions/pipeline", Detail: is.Detail, Witness: cs})
					}
				})
			}
			if path == "fuzzy" && opportunity {
				ctx.R.Sample(map[string]interface{}{"case": cs, "path": path, "returned": len(res)})
			}
		}
	}
}

func engineFiltersCLI(ctx *Ctx) {
	r := vlib.NewRand(ctx.Seed, ctx.Shard, "filters-cli")
	c04Tools(ctx)
	nDB := ctx.N(48, 1600)
	for d := 0; d < nDB; d++ {
		sp := c04DB(ctx, d+ctx.Shard)
		if sp.N > 60 {
			sp.N = 60
		}
		cmds := vlib.GenCommands(r, sp)
		base := filepath.Join(ctx.Scratch, fmt.Sprintf("c04cli%d", d))
		h := NewHome(base)
		dbp := filepath.Join(base, "db.yml")
		vlib.WriteYAML(dbp, cmds)
		words := vlib.DBWords(cmds)
		nq := ctx.Pick(8, 12)
		for qi := 0; qi < nq+3; qi++ {
			q := vlib.GenQuery(r, words, 1+r.Intn(2), []int{0, 2}[qi%2])
			if strings.TrimSpace(q) == "" {
				continue
			}
			plats := c04PlatformSets[r.Intn(len(c04PlatformSets))]
			if qi >= nq {
				// a platform outside every list of known names, asked for with a word of an entry that is declared for this host only
				plats = c04PlatformSets[len(c04PlatformSets)-1-r.Intn(5)]
				var hostOnly []string
				for i := range cmds {
					if len(cmds[i].Platform) == 1 && strings.EqualFold(cmds[i].Platform[0], runtime.GOOS) {
						hostOnly = append(hostOnly, strings.Fields(cmds[i].Command+" "+cmds[i].Description)...)
					}
				}
				if len(hostOnly) > 0 {
					q = hostOnly[r.Intn(len(hostOnly))]
					if strings.IndexFunc(q, func(c rune) bool { return c >= 'a' && c <= 'z' }) < 0 || strings.ContainsAny(q, "<>|&;$") {
						q = vlib.GenQuery(r, words, 1, 0)
					}
				}
			}
			noCross := r.Intn(2) == 0
			args := []string{"--database", dbp, "--format", "json", "-v", "--no-color", "--limit", "50"}
			if len(plats) > 0 {
				args = append(args, "--platform", strings.Join(plats, ","))
				switch strings.ToLower(plats[0]) {
				case "freebsd", "solaris", "haiku", "android", "plan9":
					ctx.R.Path("cli-requests-for-platforms-outside-any-list-of-known-names", 1)
				}
			}
			if noCross {
				args = append(args, "--no-cross-platform")
			}
			args = append(args, "--", q)
			cs := map[string]interface{}{"db_entries": len(cmds), "args": args}
			ctx.R.Begin(cs)
			ctx.R.Eval(1)
			res := h.Wtf(ctx.Wtf, nil, args...)
			if bad, why := res.Crashed(); bad {
				ctx.R.Violate(vlib.Violation{Property: "C04", Clause: "crash", Path: "cli", Detail: why, Witness: map[string]interface{}{"case": cs, "stderr": vlib.Trunc(res.Stderr, 1500)}})
				continue
			}
			_, items, present, wf := JSONBlock(res.Stdout)
			if !present || !wf {
				ctx.R.Path("cli-empty", 1)
				continue
			}
			path := "cli"
			if strings.Contains(res.Stdout, "Warning: Search had issues") {
				path = "cli-recovery"
			}
			ctx.R.Path(path+"-nonempty", 1)
			if path == "cli-recovery" {
				continue // the statement lists lexical, NLP, typo-fallback and cached answers; the last-resort recovery search is not deciding here
			}
			ctx.R.Nontriv("cli", d, q, plats, noCross)
			o := database.SearchOptions{Platforms: plats, NoCrossPlatform: noCross}
			for i, it := range items {
				c := vlib.Cmd{Command: it.Command, Platform: it.Platforms}
				if leak, why := vlib.PlatformLeak(&c, o, c04IsTool); leak {
					cl := "platform"
					if noCross {
						cl = "no-cross-platform"
					}
					ctx.R.Violate(vlib.Violation{Property: "C04", Clause: cl, Path: path,
						Detail:  fmt.Sprintf("printed item %d %q platforms %v: %s (requested %v)", i, it.Command, it.Platforms, why, plats),
						Witness: map[string]interface{}{"case": cs, "stdout": vlib.Trunc(res.Stdout, 2000)}})
				}
			}
		}
		// `wtf pipeline`: every printed result is a pipeline command
		for qi := 0; qi < 3; qi++ {
			q := vlib.GenQuery(r, words, 1+r.Intn(2), 0)
			if strings.TrimSpace(q) == "" {
				continue
			}
			args := []string{"pipeline", "--database", dbp, "--limit", "20", "--", q}
			cs := map[string]interface{}{"db_entries": len(cmds), "args": args}
			ctx.R.Begin(cs)
			ctx.R.Eval(1)
			res := h.Wtf(ctx.Wtf, nil, args...)
			if bad, why := res.Crashed(); bad {
				ctx.R.Violate(vlib.Violation{Property: "C04", Clause: "crash", Path: "cli-pipeline", Detail: why, Witness: map[string]interface{}{"case": cs, "stderr": vlib.Trunc(res.Stderr, 1500)}})
				continue
			}
			// several entries may print the same command text: a printed line is a leak only if every entry that
			// prints like it is definitely not a pipeline command
			byShown := map[string]*vlib.Cmd{}
			someIsPipeline := map[string]bool{}
			for i := range cmds {
				k := strings.ReplaceAll(cmds[i].Command, "|", " │ ")
				byShown[k] = &cmds[i]
				if !vlib.DefinitelyNotPipeline(&cmds[i]) {
					someIsPipeline[k] = true
				}
			}
			n, shown, _ := ListBlock(res.Stdout)
			if n > 0 {
				ctx.R.Path("cli-pipeline-nonempty", 1)
				ctx.R.Nontriv("cli-pipeline", d, q)
			}
			for _, sc := range shown {
				if c, ok := byShown[sc]; ok && !someIsPipeline[sc] {
					ctx.R.Violate(vlib.Violation{Property: "C04", Clause: "pipeline-only", Path: "cli-pipeline",
						Detail:  fmt.Sprintf("`wtf pipeline` printed %q, which is not a pipeline command", c.Command),
						Witness: map[string]interface{}{"case": cs, "stdout": vlib.Trunc(res.Stdout, 1500)}})
				}
			}
		}
		os.RemoveAll(base)
	}
}

// c04ToolSweep: for every tool name the program recognises, entries for another platform whose command begins with that name
// with letters glued on are searched for by a unique word under a linux request: they are not that tool and may not come back.
func c04ToolSweep(ctx *Ctx, tools []string) {
	var cmds []vlib.Cmd
	var marks []string
	for i, t := range tools {
		if i%ctx.NShards != ctx.Shard {
			continue
		}
		for k, sfx := range []string{"s", "x", "er", "z", "ctl", "-plus", "2go"} {
			first := t + sfx
			if c04Named[first] {
				continue
			}
			m := fmt.Sprintf("zqmark%dx%d", i, k)
			marks = append(marks, m)
			cmds = append(cmds, vlib.Cmd{Command: first + " run " + m, Description: "does something on another system " + m, Platform: []string{"plan9"}})
		}
	}
	if len(cmds) == 0 {
		return
	}
	db := vlib.MustLoad(cmds)
	cdb := database.NewCachedDatabase(db)
	for _, m := range marks {
		for _, o := range []database.SearchOptions{{Limit: 5, Platforms: []string{"linux"}}, {Limit: 5, UseNLP: true}, {Limit: 5, UseFuzzy: true, Platforms: []string{"windows"}}} {
			q := m
			if o.UseFuzzy {
				q = m[:3] + m[4:]
			}
			cs := map[string]interface{}{"db": "tool-names-with-letters-glued-on", "n": len(cmds), "query": q, "opts": vlib.OptsJ(o)}
			ctx.R.Begin(cs)
			ctx.R.Eval(1)
			ctx.R.Path("tool-name-sweep", 1)
			ctx.R.Guard("C04", "SearchUniversal", cs, func() {
				c04Report(ctx, cs, o, db.SearchUniversal(q, o), "SearchUniversal", "tool-name-sweep")
				c04Report(ctx, cs, o, cdb.SearchWithOptionsAndCache(q, o), "SearchWithOptionsAndCache", "tool-name-sweep")
			})
		}
	}
}

// c04Huge: databases of 8 to 70 thousand entries (past 8192, past 65536; sizes that are no multiple of a worker count) searched
// under several processor counts. The entries that must be filtered out sit at the very end, where a notebook merge puts them:
// they match the query, are declared for one unusual platform only and are not pipelines.
func c04Huge(ctx *Ctx, r *rand.Rand) {
	sizes := []int{8193, 70001, 12289, 65543, 9001, 20011, 66003, 33333}
	if !ctx.Thorough && ctx.Shard%4 != 2 {
		return
	}
	n := sizes[(ctx.Shard/2)%len(sizes)]
	procs := []int{2, 3, 7, 16, 4, 8, 5, 32}[(ctx.Shard/4+ctx.Shard)%8]
	cs0 := map[string]interface{}{"db": "huge", "n": n, "gomaxprocs": procs}
	var db *database.Database
	var cmds []vlib.Cmd
	if !ctx.R.Guard("C04", "LoadDatabase", cs0, func() { db, cmds = vlib.HugeDB(r, n, 37) }) {
		return
	}
	defer runtime.GOMAXPROCS(runtime.GOMAXPROCS(procs))
	cdb := database.NewCachedDatabase(db)
	stockWords := vlib.DBWords(cmds[:300])
	for qi := 0; qi < ctx.Pick(10, 40); qi++ {
		q := vlib.TailWord
		switch qi % 4 {
		case 1:
			q = vlib.TailWord + " " + stockWords[r.Intn(len(stockWords))]
		case 2:
			q = "note " + stockWords[r.Intn(len(stockWords))]
		case 3:
			q = vlib.TailWord[:3] + vlib.TailWord[4:] // a typo: only the fallback finds the tail entries
		}
		o := database.SearchOptions{
			Limit:           []int{10, n + 1}[qi%2],
			UseNLP:          qi%3 == 0,
			UseFuzzy:        true,
			PipelineOnly:    qi%5 == 1,
			Platforms:       c04PlatformSets[r.Intn(len(c04PlatformSets))],
			NoCrossPlatform: qi%2 == 1,
		}
		cs := map[string]interface{}{"db": "huge", "n": n, "gomaxprocs": procs, "query": q, "opts": vlib.OptsJ(o)}
		ctx.R.Begin(cs)
		ctx.R.Eval(1)
		var res []database.SearchResult
		if !ctx.R.Guard("C04", "SearchUniversal", cs, func() { res = db.SearchUniversal(q, o) }) {
			continue
		}
		c04Report(ctx, cs, o, res, "SearchUniversal", "huge")
		ctx.R.Guard("C04", "SearchWithOptionsAndCache", cs, func() {
			c04Report(ctx, cs, o, cdb.SearchWithOptionsAndCache(q, o), "SearchWithOptionsAndCache", "huge")
			c04Report(ctx, cs, o, cdb.SearchWithOptionsAndCache(q, o), "SearchWithOptionsAndCache", "huge/cached")
		})
		// the unfiltered answer holds tail entries: there was something to filter
		open := o
		open.AllPlatforms, open.PipelineOnly, open.NoCrossPlatform, open.Platforms, open.Limit = true, false, false, nil, n+1
		ctx.R.Guard("C04", "SearchUniversal", cs, func() {
			for _, x := range db.SearchUniversal(q, open) {
				if leak, _ := vlib.PlatformLeak(x.Command, o, c04IsTool); leak || (o.PipelineOnly && vlib.DefinitelyNotPipeline(x.Command)) {
					ctx.R.Path("huge-database-searches-with-something-to-filter", 1)
					ctx.R.Nontriv("huge", n, q, fmt.Sprintf("%+v", vlib.OptsJ(o)))
					break
				}
			}
		})
		ctx.R.Path("huge-database-searches", 1)
	}
	ctx.R.Path("huge-databases", 1)
	if n > 65536 {
		ctx.R.Path("huge-databases-over-65536-entries", 1)
	}
}

// c04SharedList: a caller keeps ONE list of the platforms it supports and asks with prefixes of it (first the platform in hand,
// then two of them without cross-platform entries, ...): slices with spare capacity behind their end. Every request is judged
// against the platforms the caller asked for (a private copy), and the caller's list is unchanged afterwards.
func c04SharedList(ctx *Ctx, r *rand.Rand) {
	for d := 0; d < ctx.Pick(6, 40); d++ {
		cmds0 := vlib.GenCommands(r, vlib.DBSpec{N: 30 + r.Intn(60), TieHeavy: true, Platforms: 2, Pipelines: true, PseudoCmd: true})
		var db *database.Database
		if !ctx.R.Guard("C04", "LoadDatabase", "shared-list", func() { db = vlib.MustLoad(cmds0) }) {
			continue
		}
		words := vlib.DBWords(db.Commands)
		N := len(db.Commands)
		supported := []string{"linux", "windows", "macos", "android", "haiku"}
		r.Shuffle(len(supported), func(i, j int) { supported[i], supported[j] = supported[j], supported[i] })
		before := append([]string(nil), supported...)
		cdb := database.NewCachedDatabase(db)
		for step := 0; step < 8; step++ {
			k := 1 + r.Intn(len(supported)-1)
			o := database.SearchOptions{Limit: N + 1, UseFuzzy: step%3 == 2, UseNLP: step%2 == 1, NoCrossPlatform: step%2 == 1, Platforms: supported[:k]}
			asked := o
			asked.Platforms = append([]string(nil), before[:k]...)
			q := vlib.GenQuery(r, words, 1+r.Intn(2), []int{0, 0, 2}[r.Intn(3)])
			cs := map[string]interface{}{"db": "shared-platform-list", "n": N, "query": q, "opts": vlib.OptsJ(asked), "the_callers_list": before, "step": step}
			ctx.R.Begin(cs)
			ctx.R.Eval(1)
			ctx.R.Guard("C04", "SearchUniversal", cs, func() {
				var res []database.SearchResult
				if step%4 == 3 {
					res = cdb.SearchWithOptionsAndCache(q, o)
				} else {
					res = db.SearchUniversal(q, o)
				}
				c04Report(ctx, cs, asked, res, "SearchUniversal", "platform-list-with-spare-capacity")
			})
			ctx.R.Path("requests-with-a-prefix-of-the-callers-platform-list", 1)
			if fmt.Sprint(supported) != fmt.Sprint(before) {
				ctx.R.Violate(vlib.Violation{Property: "C04", Clause: "platform-leak", Path: "SearchUniversal/platform-list-with-spare-capacity",
					Detail: fmt.Sprintf("the search wrote into the caller's platform list: it was %v, it is %v (later requests with a longer prefix ask for other platforms than the caller means)", before, supported), Witness: cs})
				copy(supported, before)
			}
		}
	}
}

// c04ManySearches: one database object serves a request that reaches an entry of another platform with the filters off, then
// tens of thousands of requests that do not touch that entry (65,533 .. 65,536 and 131,070 of them - whatever is counted per
// search in 16 bits comes round), then the same request under the platform and pipeline filters.
func c04ManySearches(ctx *Ctx, r *rand.Rand) {
	if ctx.Shard%8 != 5 && !ctx.Thorough {
		return
	}
	old := runtime.GOMAXPROCS(1) // (a pooled per-search scratch object stays the same one)
	defer runtime.GOMAXPROCS(old)
	cmds := []vlib.Cmd{}
	for i := 0; i < 12; i++ {
		cmds = append(cmds, vlib.Cmd{Command: fmt.Sprintf("decoy%d --flag", i), Description: fmt.Sprintf("ordinary thing number%d", i), Platform: []string{"linux", "macos", "windows"}, Pipeline: i%2 == 0})
	}
	cmds = append(cmds, vlib.Cmd{Command: "zuntool /special", Description: "rare quokka operation", Platform: []string{"haiku"}, Pipeline: false})
	for _, gap := range []int{65534, 65535, 65536, 131070, 65533} {
		var db *database.Database
		if !ctx.R.Guard("C04", "LoadDatabase", "many-searches", func() { db = vlib.MustLoad(vlib.StripCaches(cmds)) }) {
			return
		}
		cs := map[string]interface{}{"db": "13 entries, one for another platform", "searches_in_between": gap}
		ctx.R.Begin(cs)
		ctx.R.Eval(1)
		ctx.R.Guard("C04", "SearchUniversal", cs, func() {
			open := database.SearchOptions{Limit: 20, AllPlatforms: true}
			for _, o := range []database.SearchOptions{{Limit: 20, Platforms: []string{"linux"}}, {Limit: 20, PipelineOnly: true, AllPlatforms: true}, {Limit: 20, Platforms: []string{"windows"}, NoCrossPlatform: true}} {
				if len(db.SearchUniversal("quokka", open)) != 1 {
					panic("the unfiltered request does not find the entry")
				}
				for i := 0; i < gap; i++ {
					db.SearchUniversal(fmt.Sprintf("number%d thing", i%12), database.SearchOptions{Limit: 3, Platforms: []string{"linux"}, PipelineOnly: i%5 == 0})
				}
				c04Report(ctx, map[string]interface{}{"case": cs, "query": "quokka", "opts": vlib.OptsJ(o)}, o, db.SearchUniversal("quokka", o), "SearchUniversal", "after-many-searches")
				ctx.R.Path("requests-repeated-after-tens-of-thousands-of-searches", 1)
			}
			ctx.R.Nontriv("many-searches", gap)
		})
	}
}

package main

import (
	"fmt"
	"github.com/Vedant9500/WTF/internal/recovery"
	"math/rand"
	"os"
	"os/exec"
	"path/filepath"
	"reflect"
	"strings"
	"time"

	"github.com/Vedant9500/WTF/internal/database"
	"github.com/Vedant9500/WTF/internal/zzverif/vlib"
)

func init() {
	engines["notebook"] = engineNotebook
	// texts of several lines that begin with a character an encoder has to look at before choosing a style: a pasted Makefile
	// recipe (tab first), a line or paragraph separator, an indicator character, a byte-order mark
	for _, lead := range []string{"\t", "\u2028", "\u2029", "\u0085", "\u00a0", "\ufeff", "#", "-", "- ", "|", ">", "!", "&", "*", "%", "@", "`", "'", "\"", "[", "{", ":", "?", ",", "\r"} {
		for _, body := range []string{"go build ./...\n\tgo test ./...", "l1\nl2\n", "l1\n\nl3", "l1\n  indented", "l1\r\nl2"} {
			c08Hostile = append(c08Hostile, lead+body)
		}
	}
}

var c08Hostile = []string{"-rf", "--force", "- leading dash space", "key: value", "a #comment", " #x", "'single'", "\"double\"", "it's", "{{.Names}}", "{a: b}", "[1, 2]",
	"null", "Null", "~", "true", "yes", "no", "123", "1e3", "0x1f", "1_000", "-0", ".inf", "2001-01-01", " leading blank", "trailing blank ", "  ", "tab\tinside", "\ttab first",
	"line1\nline2", "\n", "\n\n", "a\n", "\nb", "trailing newline\n\n", "cr\rlf\r\n", "\x01", "bell\x07", "esc\x1b[31mred", "\x7f", "\u0085nel", "\u2028ls", "\u00a0nbsp", "\ufeffbom",
	"\xff", "bad\xc3\x28utf8", "\xed\xa0\x80", "é", "日本語", "😀", "%s %d", "$HOME `id` $(id)", "a|b", "x && y", "> out", "<in", "*", "?", "!", "@", "&anchor", "*alias", "!!binary x",
	"|", ">", "|-", "- a\n- b", "---", "...", "%YAML", "", "x", strings.Repeat("long ", 400), "\\", "\\n", "a\\", "\"", "'", "''", ": ", ":", "?: ", "- ", "#"}

type c08Entry struct {
	Command, Description, Niche string
	Keywords, Platforms         []string
	Pipeline                    bool
	AutoDesc                    bool // save-pipeline without --description
	UserKeywords                []string
}

func c08Simple(r *rand.Rand) string {
	return []string{"alpha", "two words", "null", "true", "123", "key: v", "#tag", "-dash", "üñí", "x y z", "0x1f", "~", "a:b", "[x]", "{y}", "&a", "*b", "!c", "%d", "@e", "`f`"}[r.Intn(21)]
}

func c08Arg(r *rand.Rand, marker string) string {
	switch r.Intn(5) {
	case 0, 1:
		return c08Hostile[r.Intn(len(c08Hostile))] + marker
	case 2:
		return marker + c08Hostile[r.Intn(len(c08Hostile))]
	case 3:
		return c08Hostile[r.Intn(len(c08Hostile))]
	default:
		return "echo " + marker + " " + vlib.Word(r, nil)
	}
}

// c08JSONSafe: what encoding/json prints for a string (every invalid UTF-8 byte becomes U+FFFD).
func c08JSONSafe(s string) string {
	var b strings.Builder
	for _, r := range s { // ranging yields RuneError once per invalid byte
		b.WriteRune(r)
	}
	return b.String()
}

func c08Eq(a, b []string) bool {
	if len(a) == 0 && len(b) == 0 {
		return true
	}
	return reflect.DeepEqual(a, b)
}

var c08AutoKW = map[string]bool{"pipeline": true, "workflow": true, "search": true, "filter": true, "text": true, "processing": true, "sort": true, "order": true, "find": true}

// c08Match compares one loaded entry with one expected entry.
func c08Match(got vlib.Cmd, want c08Entry) string {
	if got.Command != want.Command {
		return fmt.Sprintf("command: stored %s, given %s", vlib.Q(got.Command), vlib.Q(want.Command))
	}
	if !want.AutoDesc && got.Description != want.Description {
		return fmt.Sprintf("description: stored %s, given %s", vlib.Q(got.Description), vlib.Q(want.Description))
	}
	if got.Niche != want.Niche {
		return fmt.Sprintf("category: stored %s, given %s", vlib.Q(got.Niche), vlib.Q(want.Niche))
	}
	if !c08Eq(got.Platform, want.Platforms) {
		return fmt.Sprintf("platforms: stored %q, given %q", got.Platform, want.Platforms)
	}
	if got.Pipeline != want.Pipeline {
		return fmt.Sprintf("pipeline flag: stored %v, given %v", got.Pipeline, want.Pipeline)
	}
	if want.Keywords != nil || !want.Pipeline || want.UserKeywords == nil && !want.AutoDesc {
		// plain save: keywords exactly as given
	}
	if want.UserKeywords != nil || want.AutoDesc || want.Pipeline && want.Keywords == nil {
		// save-pipeline: documented auto-keywords, then the user's keywords in order
		n := len(got.Keywords) - len(want.UserKeywords)
		if n < 0 || !c08Eq(got.Keywords[n:], want.UserKeywords) {
			return fmt.Sprintf("keywords: stored %q do not end with the given %q", got.Keywords, want.UserKeywords)
		}
		for _, k := range got.Keywords[:n] {
			if !c08AutoKW[k] {
				return fmt.Sprintf("keywords: stored %q contain %q which is neither given nor a documented auto-keyword", got.Keywords, k)
			}
		}
		return ""
	}
	if !c08Eq(got.Keywords, want.Keywords) {
		return fmt.Sprintf("keywords: stored %q, given %q", got.Keywords, want.Keywords)
	}
	return ""
}

func engineNotebook(ctx *Ctx) {
	r := vlib.NewRand(ctx.Seed, ctx.Shard, "notebook")
	nHist := ctx.N(96, 4800)
	markerSeq := 0
	for hI := 0; hI < nHist; hI++ {
		base := filepath.Join(ctx.Scratch, fmt.Sprintf("nb%d", hI))
		h := NewHome(base)
		if ctx.G(hI)%8 == 5 {
			// home directories as login names make them: dots (also two in a row), blanks, non-ASCII letters, shell metacharacters
			name := []string{"j..doe", "a..b..c", "first last", "jörg.müller", "x;y&z", "..hidden", "dots...", "-dash", "o'neil"}[(ctx.G(hI)/8)%9]
			h = NewHomeNamed(base, name)
			ctx.R.Path("homes-with-unusual-names", 1)
		}
		mainCmds := vlib.StripCaches(vlib.GenCommands(r, vlib.DBSpec{N: 3 + r.Intn(8)}))
		mainP := filepath.Join(base, "main.yml")
		mainKind := "generated"
		switch (ctx.G(hI) + hI) % 8 { // (spread over the shards: histories on the shipped database are the slow ones)
		case 3: // the shipped database as the main one (what a user has): thousands of entries before the notebook's
			mainCmds = ctx.Shipped().Commands
			mainP = ctx.ShippedPath()
			mainKind = "shipped"
		case 6: // a generated main database of a size just above a power of two
			mainCmds = vlib.StripCaches(vlib.GenCommands(r, vlib.DBSpec{N: []int{512, 1024, 2048, 4096}[r.Intn(4)] + 1 + r.Intn(6), TieHeavy: true}))
			mainKind = "generated-large"
		}
		if mainKind != "shipped" {
			vlib.WriteYAML(mainP, mainCmds)
		}
		ctx.R.Path("main-"+mainKind, 1)
		// the processor count the binary sees (a user's machine has 1 to hundreds)
		procEnv := []string{"GOMAXPROCS=" + []string{"1", "2", "3", "4", "5", "6", "7", "8", "12", "16", "32", "64"}[r.Intn(12)]}
		model := []c08Entry{}
		dupCmd := "" // the command string a hand-edited notebook lists twice
		start := []string{"missing", "empty-0-bytes", "empty-list", "populated"}[r.Intn(4)]
		if ctx.G(hI)%4 == 1 || ctx.G(hI)%8 == 0 {
			start = "populated"
		}
		os.MkdirAll(filepath.Dir(h.Personal()), 0o755)
		switch start {
		case "empty-0-bytes":
			os.WriteFile(h.Personal(), nil, 0o644)
		case "empty-list":
			os.WriteFile(h.Personal(), []byte("[]\n"), 0o644)
		case "populated":
			pre := vlib.StripCaches(vlib.GenCommands(r, vlib.DBSpec{N: 1 + r.Intn(5), Platforms: 1, Pipelines: true}))
			// unique command strings (the notebook is keyed by command string)
			seen := map[string]bool{}
			u := pre[:0]
			for _, c := range pre {
				if !seen[c.Command] {
					seen[c.Command] = true
					u = append(u, c)
				}
			}
			pre = u
			if ctx.G(hI)%4 == 1 && len(pre) >= 2 {
				// a notebook edited by hand (or written by two saves at once) that lists one command twice, with other entries
				// between and behind the two copies
				x := pre[0]
				x.Description = "an older note on the same command"
				x.Keywords = []string{"stale"}
				more := vlib.StripCaches(vlib.GenCommands(r, vlib.DBSpec{N: 3, PseudoCmd: true}))
				for i := range more {
					more[i].Command = fmt.Sprintf("%s --after-the-copy-%d", more[i].Command, i)
				}
				pre = append(append(append([]vlib.Cmd{}, pre...), x), more...)
				dupCmd = x.Command
				ctx.R.Path("notebooks-listing-a-command-twice", 1)
			}
			vlib.WriteYAML(h.Personal(), pre)
			if g := ctx.G(hI); g%8 == 0 {
				// a notebook kept by hand in another layout of the same list: JSON / flow style, indented, with document markers and
				// comments, without a final newline, with CR LF line ends
				layout := vlib.NotebookLayouts[(g/8)%len(vlib.NotebookLayouts)]
				if vlib.WriteYAMLLayout(h.Personal(), pre, layout) == nil {
					if nb, err := database.LoadDatabase(h.Personal()); err != nil || len(nb.Commands) != len(pre) {
						vlib.WriteYAML(h.Personal(), pre) // (a layout the loader reads differently is not what this class is about)
					} else {
						start = "populated/" + layout
						ctx.R.Path("notebooks-in-another-layout", 1)
					}
				}
			}
			for _, c := range pre {
				model = append(model, c08Entry{Command: c.Command, Description: c.Description, Niche: c.Niche, Keywords: c.Keywords, Platforms: c.Platform, Pipeline: c.Pipeline})
			}
		}
		if start == "missing" {
			os.RemoveAll(filepath.Dir(h.Personal()))
		}
		if ctx.G(hI)%4 == 2 {
			// the notebook path is a symbolic link (a dotfiles set-up): absolute target, relative target beside it, relative target in
			// a sibling directory, or dangling. The binary runs in another working directory.
			kind := []string{"absolute", "relative-same-dir", "relative-sibling-dir", "dangling"}[(ctx.G(hI)/4)%4]
			cfg := filepath.Dir(h.Personal())
			os.MkdirAll(cfg, 0o755)
			var target, targetAbs string
			switch kind {
			case "absolute":
				targetAbs = filepath.Join(base, "store", "work.yml")
				target = targetAbs
			case "relative-same-dir":
				target, targetAbs = "work.yml", filepath.Join(cfg, "work.yml")
			case "relative-sibling-dir":
				target, targetAbs = filepath.Join("..", "nbstore", "work.yml"), filepath.Join(filepath.Dir(cfg), "nbstore", "work.yml")
			default:
				target, targetAbs = "gone.yml", ""
				os.Remove(h.Personal())
				model = model[:0]
				dupCmd = ""
				start = "missing"
			}
			if targetAbs != "" {
				os.MkdirAll(filepath.Dir(targetAbs), 0o755)
				if data, err := os.ReadFile(h.Personal()); err == nil {
					os.WriteFile(targetAbs, data, 0o644)
					os.Remove(h.Personal())
				} else {
					os.WriteFile(targetAbs, []byte("[]\n"), 0o644)
					start = "empty-list"
				}
			}
			os.Symlink(target, h.Personal())
			start += "+symlink-" + kind
			ctx.R.Path("notebook-symlink-"+kind, 1)
		}
		steps := 5 + r.Intn(ctx.Pick(14, 36))
		trace := []string{"start:" + start}
		for s := 0; s < steps; s++ {
			markerSeq++
			marker := fmt.Sprintf("mk%dq%dz%d", ctx.Shard, hI, markerSeq)
			var e c08Entry
			var args []string
			pipelineCmd := r.Intn(4) == 0
			// command string: sometimes repeat an earlier one (replace instead of duplicate)
			if dupCmd != "" && r.Intn(3) == 0 {
				e.Command = dupCmd
			} else if len(model) > 0 && r.Intn(4) == 0 {
				e.Command = model[r.Intn(len(model))].Command
			} else {
				e.Command = c08Arg(r, "")
			}
			if strings.Contains(e.Command, "\x00") {
				e.Command = "x"
			}
			e.Description = c08Arg(r, " "+marker+" ")
			if !strings.Contains(e.Description, marker) {
				e.Description += " " + marker
			}
			if r.Intn(3) == 0 {
				e.Niche = c08Simple(r)
			}
			var kws []string
			for i := r.Intn(4); i > 0; i-- {
				kws = append(kws, c08Simple(r))
			}
			kwMarker := ""
			if r.Intn(2) == 0 { // a unique keyword: the saved command must also be found through its keywords
				kwMarker = "kw" + marker
				kws = append(kws, kwMarker)
			}
			for i := r.Intn(3); i > 0; i-- {
				e.Platforms = append(e.Platforms, []string{"linux", "macos", "windows", "cross-platform", "my os", "null", "123"}[r.Intn(7)])
			}
			// an earlier plain save repeated with every field as before except that its keyword list is split differently: two
			// keywords become one that contains the comma (quoted as the flag's CSV syntax wants it), or the other way round
			resplit := false
			if !pipelineCmd && r.Intn(8) == 0 {
				for _, m := range model {
					if m.UserKeywords != nil || m.AutoDesc || m.Pipeline || strings.ContainsAny(m.Command+m.Description, "\x00") {
						continue
					}
					okPl := true
					for _, pl := range m.Platforms { // only lists the flag's CSV syntax can carry unchanged
						if strings.TrimSpace(pl) == "" || strings.ContainsAny(pl, ",\"\n\r") {
							okPl = false
						}
					}
					if !okPl || strings.HasPrefix(m.Command, "-") {
						continue
					}
					var nk []string
					switch {
					case len(m.Keywords) >= 2 && !strings.ContainsAny(strings.Join(m.Keywords, ""), ",\"\n\r"):
						nk = []string{strings.Join(m.Keywords, ",")}
					case len(m.Keywords) == 1 && strings.Contains(m.Keywords[0], ",") && !strings.ContainsAny(m.Keywords[0], "\"\n\r"):
						nk = strings.Split(m.Keywords[0], ",")
					default:
						continue
					}
					e = c08Entry{Command: m.Command, Description: m.Description, Niche: m.Niche, Platforms: m.Platforms, Keywords: nk}
					args = []string{"save"}
					if len(nk) == 1 {
						args = append(args, "--keywords=\""+nk[0]+"\"")
					} else {
						args = append(args, "--keywords="+strings.Join(nk, ","))
					}
					if e.Niche != "" {
						args = append(args, "--category="+e.Niche)
					}
					if len(e.Platforms) > 0 {
						args = append(args, "--platforms="+strings.Join(e.Platforms, ","))
					}
					args = append(args, "--", e.Command, e.Description)
					resplit = true
					ctx.R.Path("re-saves-with-the-keyword-list-split-differently", 1)
					break
				}
			}
			// an earlier plain save repeated with ONE thing changed: the platform list, the pipeline flag, the category, the description,
			// or nothing at all - the notebook must hold what was given last, whichever field it is that differs
			if !resplit && !pipelineCmd && r.Intn(6) == 0 {
				for _, mi := range r.Perm(len(model)) {
					m := model[mi]
					if m.UserKeywords != nil || m.AutoDesc || strings.ContainsAny(m.Command+m.Description, "\x00") || strings.HasPrefix(m.Command, "-") ||
						strings.ContainsAny(strings.Join(m.Keywords, ""), ",\"\n\r") {
						continue
					}
					okPl := true
					for _, pl := range m.Platforms {
						if strings.TrimSpace(pl) == "" || strings.ContainsAny(pl, ",\"\n\r") {
							okPl = false
						}
					}
					if !okPl || (dupCmd != "" && m.Command == dupCmd) {
						continue
					}
					e = c08Entry{Command: m.Command, Description: m.Description, Niche: m.Niche, Platforms: append([]string(nil), m.Platforms...),
						Keywords: append([]string(nil), m.Keywords...), Pipeline: m.Pipeline}
					if len(m.Keywords) == 0 {
						e.Keywords = nil
					}
					what := []string{"platforms", "pipeline", "platforms+pipeline", "category", "description", "nothing"}[r.Intn(6)]
					if strings.Contains(what, "platforms") {
						switch {
						case len(e.Platforms) == 0:
							e.Platforms = []string{[]string{"linux", "macos", "windows"}[r.Intn(3)]}
						case r.Intn(2) == 0:
							e.Platforms = nil
						default:
							e.Platforms = append(e.Platforms, "solaris")
						}
					}
					if strings.Contains(what, "pipeline") {
						e.Pipeline = !e.Pipeline
					}
					if what == "category" {
						e.Niche = "cat" + c08Simple(r)
					}
					if what == "description" {
						e.Description = m.Description + " " + c08Simple(r)
					}
					args = []string{"save"}
					if len(e.Keywords) > 0 {
						args = append(args, "--keywords="+strings.Join(e.Keywords, ","))
					}
					if e.Niche != "" {
						args = append(args, "--category="+e.Niche)
					}
					if len(e.Platforms) > 0 {
						args = append(args, "--platforms="+strings.Join(e.Platforms, ","))
					}
					if e.Pipeline {
						args = append(args, "--pipeline")
					}
					args = append(args, "--", e.Command, e.Description)
					resplit = true
					ctx.R.Path("re-saves-with-one-field-changed", 1)
					ctx.R.Path("re-saves-with-one-field-changed/"+what, 1)
					break
				}
			}
			if resplit {
				// args are complete
			} else if pipelineCmd {
				name := c08Simple(r)
				args = []string{"save-pipeline"}
				e.Pipeline = true
				e.UserKeywords = append([]string{}, kws...)
				if r.Intn(2) == 0 {
					args = append(args, "--description="+e.Description)
				} else {
					e.AutoDesc = true
				}
				if len(kws) > 0 {
					args = append(args, "--keywords="+strings.Join(kws, ","))
				}
				if e.Niche != "" {
					args = append(args, "--category="+e.Niche)
				}
				if len(e.Platforms) > 0 {
					args = append(args, "--platforms="+strings.Join(e.Platforms, ","))
				}
				args = append(args, "--", name, e.Command)
			} else {
				args = []string{"save"}
				e.Keywords = kws
				e.Pipeline = r.Intn(4) == 0
				if len(kws) > 0 {
					args = append(args, "--keywords="+strings.Join(kws, ","))
				}
				if e.Niche != "" {
					args = append(args, "--category="+e.Niche)
				}
				if len(e.Platforms) > 0 {
					args = append(args, "--platforms="+strings.Join(e.Platforms, ","))
				}
				if e.Pipeline {
					args = append(args, "--pipeline")
				}
				args = append(args, "--", e.Command, e.Description)
			}
			cs := map[string]interface{}{"history": tail(trace, 10), "step": s, "args_quoted": fmt.Sprintf("%q", args), "start": start, "main": mainKind, "env": procEnv}
			ctx.R.Begin(cs)
			ctx.R.Eval(1)
			before, _ := os.ReadFile(h.Personal())
			res := h.Wtf(ctx.Wtf, procEnv, args...)
			trace = append(trace, fmt.Sprintf("%q", args))
			if bad, why := res.Crashed(); bad {
				ctx.R.Violate(vlib.Violation{Property: "C08", Clause: "save-crashes", Path: "wtf " + args[0], Detail: why + ": " + vlib.Trunc(strings.TrimSpace(res.Stderr), 300),
					Witness: map[string]interface{}{"case": cs, "stderr": vlib.Trunc(res.Stderr, 1500)}})
				break
			}
			success := res.RC == 0 && strings.Contains(res.Stdout, "saved successfully")
			if !success {
				ctx.R.Path("save-reported-failure", 1)
				after, _ := os.ReadFile(h.Personal())
				if string(after) != string(before) {
					ctx.R.Violate(vlib.Violation{Property: "C08", Clause: "failed-save-changed-notebook", Path: "wtf " + args[0],
						Detail: "save did not report success but the notebook changed", Witness: map[string]interface{}{"case": cs, "stdout": vlib.Trunc(res.Stdout, 500)}})
				}
				continue
			}
			ctx.R.Path("save-succeeded", 1)
			// reference model: replace by command string, else append
			replaced := false
			for i := range model {
				if model[i].Command == e.Command {
					model[i] = e
					replaced = true
					ctx.R.Path("save-replaced-existing", 1)
					break
				}
			}
			if !replaced {
				model = append(model, e)
			}
			// re-load the notebook with the real loader
			var nb *database.Database
			var lerr error
			if !ctx.R.Guard("C08", "LoadDatabase(notebook)", cs, func() { nb, lerr = database.LoadDatabase(h.Personal()) }) {
				break
			}
			if lerr != nil {
				ctx.R.Violate(vlib.Violation{Property: "C08", Clause: "notebook-unloadable-after-save", Path: "wtf " + args[0],
					Detail: "save reported success but the notebook no longer loads: " + vlib.Trunc(lerr.Error(), 200), Witness: cs})
				break
			}
			bad := false
			if dupCmd != "" && e.Command == dupCmd {
				// the command saved again is the one listed twice: whatever becomes of the copies, every entry with a DIFFERENT command
				// string is still there, unchanged, in its original order, and a copy holds what was just saved
				var others []c08Entry
				for _, m := range model {
					if m.Command != dupCmd {
						others = append(others, m)
					}
				}
				var rebuilt []c08Entry
				k, faithful := 0, false
				for _, c := range nb.Commands {
					if c.Command == dupCmd {
						if c08Match(c, e) == "" {
							faithful = true
							rebuilt = append(rebuilt, e)
						} else {
							rebuilt = append(rebuilt, c08Entry{Command: c.Command, Description: c.Description, Niche: c.Niche, Keywords: c.Keywords, Platforms: c.Platform, Pipeline: c.Pipeline})
						}
						continue
					}
					if k >= len(others) {
						k++
						continue
					}
					if why := c08Match(c, others[k]); why != "" && !bad {
						ctx.R.Violate(vlib.Violation{Property: "C08", Clause: "neighbour-changed", Path: "wtf " + args[0] + "/notebook-listing-the-command-twice",
							Detail: fmt.Sprintf("entry number %d among those with another command string: %s", k, why), Witness: cs})
						bad = true
					}
					rebuilt = append(rebuilt, others[k])
					k++
				}
				if k != len(others) && !bad {
					ctx.R.Violate(vlib.Violation{Property: "C08", Clause: "neighbour-lost-or-added", Path: "wtf " + args[0] + "/notebook-listing-the-command-twice",
						Detail: fmt.Sprintf("the notebook holds %d entries with another command string, %d were there before the save", k, len(others)), Witness: cs})
					bad = true
				}
				if !faithful && !bad {
					ctx.R.Violate(vlib.Violation{Property: "C08", Clause: "saved-entry-not-faithful", Path: "wtf " + args[0] + "/notebook-listing-the-command-twice",
						Detail: "no copy of the saved command holds what was just saved", Witness: cs})
					bad = true
				}
				if bad {
					break
				}
				model = rebuilt
				ctx.R.Path("re-saves-of-a-command-the-notebook-lists-twice", 1)
			} else if len(nb.Commands) != len(model) {
				dup := ""
				cnt := map[string]int{}
				for _, c := range nb.Commands {
					cnt[c.Command]++
					if cnt[c.Command] > 1 {
						dup = c.Command
					}
				}
				cl, d := "neighbour-lost-or-added", fmt.Sprintf("notebook has %d entries, reference has %d", len(nb.Commands), len(model))
				if dup != "" {
					cl, d = "duplicate-command", fmt.Sprintf("command string %s stored twice", vlib.Q(dup))
				}
				ctx.R.Violate(vlib.Violation{Property: "C08", Clause: cl, Path: "wtf " + args[0], Detail: d, Witness: cs})
				bad = true
			} else {
				for i := range model {
					if why := c08Match(nb.Commands[i], model[i]); why != "" {
						cl := "neighbour-changed"
						if model[i].Command == e.Command {
							cl = "saved-entry-not-faithful"
						}
						ctx.R.Violate(vlib.Violation{Property: "C08", Clause: cl, Path: "wtf " + args[0],
							Detail: fmt.Sprintf("entry %d of %d: %s", i, len(model), why), Witness: cs})
						bad = true
						break
					}
				}
			}
			if bad {
				break
			}
			ctx.R.Nontriv(hI, s, fmt.Sprintf("%q", args))
			// merged database = main entries then notebook entries
			if s%3 == 0 {
				ctx.R.Guard("C08", "LoadDatabaseWithPersonal", cs, func() {
					m, err := database.LoadDatabaseWithPersonal(mainP, h.Personal())
					if err != nil {
						ctx.R.Violate(vlib.Violation{Property: "C08", Clause: "merge", Path: "LoadDatabaseWithPersonal", Detail: "merged load fails: " + vlib.Trunc(err.Error(), 200), Witness: cs})
						return
					}
					ok := len(m.Commands) == len(mainCmds)+len(model)
					for i := 0; ok && i < len(mainCmds); i++ {
						ok = m.Commands[i].Command == mainCmds[i].Command && m.Commands[i].Description == mainCmds[i].Description
					}
					for i := 0; ok && i < len(model); i++ {
						ok = c08Match(m.Commands[len(mainCmds)+i], model[i]) == ""
					}
					ctx.R.Path("merge-checked", 1)
					ctx.R.Path("merge-checked-main-"+mainKind, 1)
					if !ok {
						ctx.R.Violate(vlib.Violation{Property: "C08", Clause: "merge", Path: "LoadDatabaseWithPersonal",
							Detail: fmt.Sprintf("merged database (%d entries) is not main (%d) followed by notebook (%d) entries in order", len(m.Commands), len(mainCmds), len(model)), Witness: cs})
					}
				})
			}
			// the search command loads through the retrying loader: when the main file is unreadable for the first attempts (being
			// rewritten by a sync tool, say) and fine afterwards, what is searched is still main entries followed by notebook entries
			if mainKind == "generated" && s%4 == 1 {
				ctx.R.Guard("C08", "LoadDatabaseWithFallback", cs, func() {
					good, _ := os.ReadFile(mainP)
					repairAt := 1 + r.Intn(2)
					os.WriteFile(mainP, []byte("- command: \"half written\n  descr"), 0o644)
					recovery.VerifSetObserver(&recovery.VerifObserver{OnAttempt: func(n int, err error) {
						if n == repairAt {
							os.WriteFile(mainP, good, 0o644)
						}
					}})
					m, err := recovery.NewDatabaseRecovery(recovery.RetryConfig{MaxAttempts: 3, BaseDelay: time.Microsecond, MaxDelay: 10 * time.Microsecond, BackoffFactor: 2}).LoadDatabaseWithFallback(mainP, h.Personal())
					recovery.VerifSetObserver(nil)
					os.WriteFile(mainP, good, 0o644)
					ctx.R.Path("merge-checked-after-transient-main-failure", 1)
					ok := err == nil && m != nil && len(m.Commands) == len(mainCmds)+len(model)
					for i := 0; ok && i < len(mainCmds); i++ {
						ok = m.Commands[i].Command == mainCmds[i].Command
					}
					for i := 0; ok && i < len(model); i++ {
						ok = c08Match(m.Commands[len(mainCmds)+i], model[i]) == ""
					}
					if !ok {
						n := -1
						if m != nil {
							n = len(m.Commands)
						}
						ctx.R.Violate(vlib.Violation{Property: "C08", Clause: "merge", Path: "LoadDatabaseWithFallback/transient-main-failure",
							Detail:  fmt.Sprintf("the main file was unreadable for the first %d load attempt(s) and fine afterwards: the database handed to the search has %d entries (error %v) instead of main (%d) followed by notebook (%d)", repairAt, n, err, len(mainCmds), len(model)),
							Witness: cs})
					}
				})
			}
			// a saved pipeline is found by `wtf pipeline <its words>` (what save-pipeline itself suggests to try next)
			if pipelineCmd && !resplit && (kwMarker != "" || !e.AutoDesc) && mainKind == "generated" {
				plain := true
				for _, c := range e.Command {
					if c < 0x20 || c > 0x7e {
						plain = false
					}
				}
				if plain && strings.TrimSpace(e.Command) == e.Command && e.Command != "" && !strings.Contains(e.Command, "  ") {
					word := kwMarker
					if word == "" {
						word = marker
					}
					pres := h.Wtf(ctx.Wtf, procEnv, "pipeline", "--database", mainP, "--limit", "50", "--", word)
					ctx.R.Path("pipeline-search-after-save-pipeline", 1)
					if badP, why := pres.Crashed(); badP {
						ctx.R.Violate(vlib.Violation{Property: "C08", Clause: "search-after-save-crashes", Path: "wtf pipeline", Detail: why,
							Witness: map[string]interface{}{"case": cs, "stderr": vlib.Trunc(pres.Stderr, 1200)}})
					} else {
						_, shown, _ := ListBlock(pres.Stdout)
						want := strings.ReplaceAll(e.Command, "|", " │ ")
						found := false
						for _, sc := range shown {
							if sc == want || strings.Join(strings.Fields(sc), " ") == strings.Join(strings.Fields(want), " ") {
								found = true
							}
						}
						if !found {
							ctx.R.Violate(vlib.Violation{Property: "C08", Clause: "saved-entry-not-found-by-search", Path: "wtf pipeline",
								Detail:  fmt.Sprintf("`wtf pipeline %s` (a unique word of the pipeline just saved) does not list it", word),
								Witness: map[string]interface{}{"case": cs, "stdout": vlib.Trunc(pres.Stdout, 1200)}})
						}
					}
				}
			}
			// searchable by the next search (process level): the unique marker word of the description
			if !resplit && (!e.AutoDesc || kwMarker != "") && s%2 == 0 {
				word := marker
				if e.AutoDesc || (kwMarker != "" && r.Intn(2) == 0) {
					word = kwMarker
					ctx.R.Path("search-after-save-by-keyword", 1)
				}
				sres := h.Wtf(ctx.Wtf, procEnv, "--database", mainP, "--all-platforms", "--limit", "100", "--format", "json", "--no-color", "--", word)
				ctx.R.Path("search-after-save", 1)
				ctx.R.Path("search-after-save-main-"+mainKind, 1)
				if badS, why := sres.Crashed(); badS {
					ctx.R.Violate(vlib.Violation{Property: "C08", Clause: "search-after-save-crashes", Path: "wtf search", Detail: why,
						Witness: map[string]interface{}{"case": cs, "stderr": vlib.Trunc(sres.Stderr, 1500)}})
					break
				}
				_, items, present, wf := JSONBlock(sres.Stdout)
				found := false
				if present && wf {
					for _, it := range items {
						if it.Command == c08JSONSafe(e.Command) && (e.AutoDesc || it.Description == c08JSONSafe(e.Description)) {
							found = true
						}
					}
				}
				if !found {
					ctx.R.Violate(vlib.Violation{Property: "C08", Clause: "saved-entry-not-found-by-search", Path: "wtf search",
						Detail:  fmt.Sprintf("searching for the unique word %q of the saved entry (description or keyword) does not return it", word),
						Witness: map[string]interface{}{"case": cs, "stdout": vlib.Trunc(sres.Stdout, 1500)}})
				}
			}
		}
		if hI < 2 {
			ctx.R.Sample(map[string]interface{}{"history": tail(trace, 6), "entries": len(model)})
		}
		ctx.R.Path("start-"+strings.SplitN(start, "+", 2)[0], 1)
		os.RemoveAll(base)
	}
}

func init() { engines["notebook-faults"] = engineNotebookFaults }

// engineNotebookFaults: saves while the existing notebook cannot be read (permission faults need an unprivileged
// process, so the binary runs under setpriv as uid 65534). Whatever save reports, every earlier entry must still
// be there afterwards; a save that reports success must have added the new entry to them.
func engineNotebookFaults(ctx *Ctx) {
	sp, err := exec.LookPath("setpriv")
	if err != nil {
		ctx.R.Extra["setpriv_missing"] = 1
		return
	}
	r := vlib.NewRand(ctx.Seed, ctx.Shard, "notebook-faults")
	n := ctx.N(96, 2400)
	os.Chmod(ctx.Scratch, 0o755)
	for i := 0; i < n; i++ {
		base := filepath.Join(ctx.Scratch, fmt.Sprintf("nf%d", i))
		h := NewHome(base)
		pre := vlib.StripCaches(vlib.GenCommands(r, vlib.DBSpec{N: 2 + r.Intn(6), Pipelines: true}))
		seen := map[string]bool{}
		u := pre[:0]
		for _, c := range pre {
			if !seen[c.Command] {
				seen[c.Command] = true
				u = append(u, c)
			}
		}
		pre = u
		os.MkdirAll(filepath.Dir(h.Personal()), 0o755)
		vlib.WriteYAML(h.Personal(), pre)
		fault := []string{"unreadable-0200", "unreadable-0000", "readable-control", "readonly-dir", "write-limit", "write-limit"}[i%6]
		switch fault {
		case "unreadable-0200":
			os.Chmod(h.Personal(), 0o200)
		case "unreadable-0000":
			os.Chmod(h.Personal(), 0)
		}
		filepath.Walk(base, func(p string, _ os.FileInfo, _ error) error { os.Chown(p, 65534, 65534); return nil })
		os.Chmod(base, 0o755)
		if fault == "readonly-dir" {
			os.Chmod(filepath.Dir(h.Personal()), 0o555)
		}
		args := []string{"save", "--", fmt.Sprintf("echo new-%d", i), "a new entry"}
		if i%3 == 0 {
			args = []string{"save-pipeline", "--", "p", fmt.Sprintf("cat x | sort -%d", i)}
		}
		cs := map[string]interface{}{"fault": fault, "earlier_entries": len(pre), "args_quoted": fmt.Sprintf("%q", args)}
		ctx.R.Begin(cs)
		ctx.R.Eval(1)
		argv := append([]string{sp, "--reuid", "65534", "--regid", "65534", "--clear-groups", ctx.Wtf}, args...)
		if fault == "write-limit" { // the write of the new notebook fails after k bytes (file-size limit): quota / disk full
			k := []int{0, 1, 100, 300, 700}[r.Intn(5)]
			argv = append([]string{"prlimit", fmt.Sprintf("--fsize=%d", k)}, argv...)
			cs["write_limit_bytes"] = k
		}
		res := h.RunCmd(60*time.Second, nil, argv...)
		os.Chmod(filepath.Dir(h.Personal()), 0o755)
		os.Chmod(h.Personal(), 0o644)
		if bad, why := res.Crashed(); bad {
			ctx.R.Violate(vlib.Violation{Property: "C08", Clause: "save-crashes", Path: "wtf " + args[0] + "/" + fault, Detail: why, Witness: map[string]interface{}{"case": cs, "stderr": vlib.Trunc(res.Stderr, 800)}})
			os.RemoveAll(base)
			continue
		}
		success := strings.Contains(res.Stdout, "saved successfully")
		ctx.R.Path("fault-"+fault, 1)
		if success {
			ctx.R.Path("fault-save-reported-success", 1)
		} else {
			ctx.R.Path("fault-save-reported-failure", 1)
		}
		ctx.R.Nontriv(i, fault)
		var nb *database.Database
		var lerr error
		ctx.R.Guard("C08", "LoadDatabase(notebook)", cs, func() { nb, lerr = database.LoadDatabase(h.Personal()) })
		if lerr != nil || nb == nil {
			ctx.R.Violate(vlib.Violation{Property: "C08", Clause: "notebook-unloadable-after-save", Path: "wtf " + args[0] + "/" + fault,
				Detail: fmt.Sprintf("after a save on a notebook that could not be read (%s) the notebook no longer loads: %v", fault, lerr), Witness: cs})
			os.RemoveAll(base)
			continue
		}
		// every earlier entry still there, unchanged, in its original position
		lost := ""
		for k, c := range pre {
			if k >= len(nb.Commands) || nb.Commands[k].Command != c.Command || nb.Commands[k].Description != c.Description {
				lost = fmt.Sprintf("entry %d (%s) of %d earlier entries is missing or changed; notebook now holds %d entries", k, vlib.Q(vlib.Trunc(c.Command, 60)), len(pre), len(nb.Commands))
				break
			}
		}
		if lost != "" {
			ctx.R.Violate(vlib.Violation{Property: "C08", Clause: "neighbour-lost-or-added", Path: "wtf " + args[0] + "/" + fault,
				Detail:  fmt.Sprintf("save (reported success: %v) on a notebook that could not be read: %s", success, lost),
				Witness: map[string]interface{}{"case": cs, "stdout": vlib.Trunc(res.Stdout, 400)}})
		} else if success && len(nb.Commands) != len(pre)+1 {
			ctx.R.Violate(vlib.Violation{Property: "C08", Clause: "saved-entry-not-faithful", Path: "wtf " + args[0] + "/" + fault,
				Detail: fmt.Sprintf("save reported success but the notebook holds %d entries, expected %d", len(nb.Commands), len(pre)+1), Witness: cs})
		} else if !success && len(nb.Commands) != len(pre) {
			ctx.R.Violate(vlib.Violation{Property: "C08", Clause: "failed-save-changed-notebook", Path: "wtf " + args[0] + "/" + fault,
				Detail: fmt.Sprintf("save reported failure but the notebook holds %d entries instead of %d", len(nb.Commands), len(pre)), Witness: cs})
		}
		if i < 2 {
			ctx.R.Sample(map[string]interface{}{"case": cs, "reported_success": success, "entries_after": len(nb.Commands)})
		}
		os.RemoveAll(base)
	}
}

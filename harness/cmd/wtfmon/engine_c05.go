package main

import (
	"fmt"
	"github.com/Vedant9500/WTF/internal/nlp"
	"math"
	"math/rand"
	"reflect"
	"sort"
	"strings"
	"time"

	"github.com/Vedant9500/WTF/internal/database"
	"github.com/Vedant9500/WTF/internal/zzverif/vlib"
)

func init() { engines["cachehist"] = engineCacheHist }

// c05Mutate changes exactly one option field.
func c05Mutate(r *rand.Rand, o database.SearchOptions, n int, words []string) (database.SearchOptions, string) {
	p := o
	switch r.Intn(12) {
	case 11:
		// option values that are different requests but look alike when rendered without quoting: two boost keys against one
		// key that spells out "key:value key" (and the like with commas, brackets, quotes)
		a, b := words[0], words[len(words)/2]
		forms := []map[string]float64{{a: 5, b: 2}, {a + ":5 " + b: 2}, {a: 5}, {a + ":5": 1.5, b: 2}, {a + "\":5,\"" + b: 2}, {"map[" + a: 5, b + "]": 2}}
		p.ContextBoosts = forms[r.Intn(len(forms))]
		return p, "ContextBoosts"
	case 0:
		p.Limit = []int{1, 2, 3, 5, n + 1, 0, -1, 10}[r.Intn(8)]
		return p, "Limit"
	case 1:
		p.ContextBoosts = map[string]float64{}
		for k, v := range o.ContextBoosts {
			p.ContextBoosts[k] = v
		}
		p.ContextBoosts[words[r.Intn(len(words))]] = []float64{1.5, 2, 3, 10, math.Inf(1)}[r.Intn(5)]
		return p, "ContextBoosts"
	case 2:
		p.PipelineOnly = !o.PipelineOnly
		return p, "PipelineOnly"
	case 3:
		p.PipelineBoost = []float64{0, 0.5, 2, 3}[r.Intn(4)]
		return p, "PipelineBoost"
	case 4:
		p.UseFuzzy = !o.UseFuzzy
		return p, "UseFuzzy"
	case 5:
		p.FuzzyThreshold = []int{0, 1, 40, -30}[r.Intn(4)]
		return p, "FuzzyThreshold"
	case 6:
		p.UseNLP = !o.UseNLP
		return p, "UseNLP"
	case 7:
		p.TopTermsCap = []int{0, 1, 2, 4}[r.Intn(4)]
		return p, "TopTermsCap"
	case 8:
		p.AllPlatforms = !o.AllPlatforms
		return p, "AllPlatforms"
	case 9:
		p.Platforms = append([]string(nil), [][]string{nil, {"windows"}, {"macos"}, {"linux"}, {"windows", "macos"},
			// one name that spells out two (what `--platform "windows macos"` hands over), and other look-alikes of the list above
			{"windows macos"}, {"windows,macos"}, {"windows", "macos", ""}, {"[windows", "macos]"}, {"windows\",\"macos"}}[r.Intn(10)]...)
		return p, "Platforms"
	default:
		p.NoCrossPlatform = !o.NoCrossPlatform
		return p, "NoCrossPlatform"
	}
}

func c05Diff(a, b database.SearchOptions) []string {
	var d []string
	add := func(name string, x, y interface{}) {
		if !reflect.DeepEqual(x, y) {
			d = append(d, name)
		}
	}
	add("Limit", a.Limit, b.Limit)
	if len(a.ContextBoosts) != 0 || len(b.ContextBoosts) != 0 {
		add("ContextBoosts", a.ContextBoosts, b.ContextBoosts)
	}
	add("PipelineOnly", a.PipelineOnly, b.PipelineOnly)
	add("PipelineBoost", a.PipelineBoost, b.PipelineBoost)
	add("UseFuzzy", a.UseFuzzy, b.UseFuzzy)
	add("FuzzyThreshold", a.FuzzyThreshold, b.FuzzyThreshold)
	add("UseNLP", a.UseNLP, b.UseNLP)
	add("TopTermsCap", a.TopTermsCap, b.TopTermsCap)
	add("AllPlatforms", a.AllPlatforms, b.AllPlatforms)
	if len(a.Platforms) != 0 || len(b.Platforms) != 0 {
		add("Platforms", a.Platforms, b.Platforms)
	}
	add("NoCrossPlatform", a.NoCrossPlatform, b.NoCrossPlatform)
	return d
}

type c05Past struct {
	q      string
	o      database.SearchOptions
	ans    vlib.Ranked // fresh (uncached) answer at that step
	served vlib.Ranked // what the wrapper returned at that step
	step   int
}

// c05NLPSweep: every word of the query-analysis vocabulary (also with an ending glued on) in front of every phrase it names,
// asked through the cache in lower case and then in upper case (spellings that may share an entry): each answer must be
// the uncached answer for that spelling.
func c05NLPSweep(ctx *Ctx, r *rand.Rand) {
	d := ctx.Dict()
	cmds := vlib.GenCommands(r, vlib.DBSpec{N: 30, TieHeavy: true, Pipelines: true})
	for i, t := range []string{"less file.txt", "cat file.txt", "vim file.txt", "tail -f app.log", "head -n 5 file", "nano notes.txt", "open report.pdf", "view image.png"} {
		cmds = append(cmds, vlib.Cmd{Command: t, Description: []string{"view file contents page by page", "print file contents", "edit a file", "follow a log file", "show first lines of a file", "edit text file", "open a document", "display an image"}[i], Keywords: []string{"file", "view", "show", "edit", "read"}})
	}
	db := vlib.MustLoad(cmds)
	cdb := database.NewCachedDatabase(db)
	o := database.SearchOptions{Limit: 8, UseNLP: true, AllPlatforms: true}
	budget, n := ctx.Pick(25000, 1000000), 0
	d.NLPCombos(ctx.Shard, ctx.NShards, "file", func(q string) {
		n++
		if n > budget {
			return
		}
		for _, sp := range []string{q, strings.ToUpper(q)} {
			cs := map[string]interface{}{"db": "nlp-sweep", "n": len(cmds), "entry": "SearchWithOptionsAndCache", "query": sp, "opts": vlib.OptsJ(o), "asked_before_in_another_spelling": sp != q}
			ctx.R.Begin(cs)
			ctx.R.Eval(1)
			ctx.R.Path("analysis-vocabulary-sweep", 1)
			ctx.R.Guard("C05", "SearchWithOptionsAndCache", cs, func() {
				got := vlib.Canon(db.Commands, cdb.SearchWithOptionsAndCache(sp, o))
				refs, stable := vlib.StableRef(3, func() vlib.Ranked { return vlib.Canon(db.Commands, db.SearchUniversal(sp, o)) })
				if v, why := vlib.CompareToRef(refs, stable, got, o.Limit); v == "violated" {
					ctx.R.Violate(vlib.Violation{Property: "C05", Clause: "cached-differs-from-fresh", Path: "SearchWithOptionsAndCache/case-variant",
						Detail:  fmt.Sprintf("the answer for %s through the cache (after the same words were asked in another spelling of letter case) differs from an uncached search: %s", vlib.Q(sp), why),
						Witness: map[string]interface{}{"case": cs, "got": got, "fresh": refs[0]}})
				}
			})
		}
	})
}

// c05BoostTwins: enhanced requests that differ only in a boost for a term the enhancement ADDS (a word that is not in the
// request as typed), asked one after the other through one caching wrapper. The database names, as commands of its own, the
// words the query analysis knows (tool names among them), so that such a boost moves a result.
func c05BoostTwins(ctx *Ctx, r *rand.Rand) {
	d := ctx.Dict()
	if len(d.NLPWords) < 10 {
		return
	}
	cmds := vlib.GenCommands(r, vlib.DBSpec{N: 20, Pipelines: true})
	for i, w := range d.NLPWords {
		if i%3 == ctx.Shard%3 && vlib.IsASCII(w) {
			cmds = append(cmds, vlib.Cmd{Command: w + " --input file", Description: "run " + w + " on a file", Keywords: []string{w}})
		}
	}
	db := vlib.MustLoad(vlib.StripCaches(cmds))
	qp := nlp.NewQueryProcessor()
	known := map[string]bool{}
	for _, w := range vlib.DBWords(db.Commands) {
		known[w] = true
	}
	var phrases []string
	phrases = append(phrases, d.NLPPhrases...)
	for i := 0; i < 400; i++ {
		phrases = append(phrases, d.NLPWords[r.Intn(len(d.NLPWords))]+" "+d.NLPWords[r.Intn(len(d.NLPWords))])
	}
	n := 0
	for i, q := range phrases {
		if i%ctx.NShards != ctx.Shard {
			continue
		}
		typed := map[string]bool{}
		for _, t := range vlib.Tokenize(q) {
			typed[t] = true
		}
		var added []string
		for _, t := range qp.ProcessQuery(q).GetEnhancedKeywords() {
			if !typed[t] && known[t] && !strings.Contains(strings.ToLower(q), t) {
				added = append(added, t)
			}
		}
		if len(added) == 0 {
			continue
		}
		if len(added) > 4 {
			added = added[:4]
		}
		cdb := database.NewCachedDatabase(db)
		var answers []vlib.Ranked
		for k := 0; k <= len(added); k++ {
			o := database.SearchOptions{Limit: 6, UseNLP: true, AllPlatforms: true}
			if k < len(added) {
				o.ContextBoosts = map[string]float64{added[k]: 6}
			}
			cs := map[string]interface{}{"db": "analysis words as commands", "n": len(db.Commands), "entry": "SearchWithOptionsAndCache", "query": q, "opts": vlib.OptsJ(o),
				"class": "boost on a term the enhancement adds", "terms_added_by_the_enhancement": added}
			ctx.R.Begin(cs)
			ctx.R.Eval(1)
			ctx.R.Guard("C05", "SearchWithOptionsAndCache", cs, func() {
				got := vlib.Canon(db.Commands, cdb.SearchWithOptionsAndCache(q, o))
				refs, stable := vlib.StableRef(3, func() vlib.Ranked { return vlib.Canon(db.Commands, db.SearchUniversal(q, o)) })
				answers = append(answers, refs[0])
				if v, why := vlib.CompareToRef(refs, stable, got, o.Limit); v == "violated" {
					ctx.R.Violate(vlib.Violation{Property: "C05", Clause: "cached-differs-from-fresh", Path: "SearchWithOptionsAndCache/boost-on-an-added-term",
						Detail:  fmt.Sprintf("the answer for %s with boosts %v through the cache (after the same request with a boost for another term the enhancement adds) differs from an uncached search: %s", vlib.Q(q), o.ContextBoosts, why),
						Witness: map[string]interface{}{"case": cs, "got": got, "fresh": refs[0]}})
				}
			})
			n++
		}
		for k := 1; k < len(answers); k++ {
			if !vlib.Exact(answers[0], answers[k]) {
				ctx.R.Path("boost-twin-sequences-with-different-answers", 1)
				ctx.R.Nontriv("boost-twins", q)
				break
			}
		}
	}
	ctx.R.Path("boost-twin-requests", int64(n))
}

func engineCacheHist(ctx *Ctx) {
	r := vlib.NewRand(ctx.Seed, ctx.Shard, "cachehist")
	c05NLPSweep(ctx, r)
	c05BoostTwins(ctx, vlib.NewRand(ctx.Seed, ctx.Shard, "boost-twins"))
	nHist := ctx.N(960, 38000)
	for h := 0; h < nHist; h++ {
		sp := vlib.DBSpec{N: []int{8, 20, 45, 90}[h%4], TieHeavy: h%3 == 0, Platforms: 2, Pipelines: true, PseudoCmd: h%2 == 0}
		bigAnswers := ctx.G(h)%8 == 6 // databases and limits large enough for answers of hundreds of results
		if bigAnswers {
			sp.N = 150 + r.Intn(500)
		}
		mk := func() []vlib.Cmd { return vlib.MustLoad(vlib.GenCommands(r, sp)).Commands }
		var db *database.Database
		dbName := fmt.Sprintf("gen-%d-%d", ctx.Shard, h)
		if h == 0 && ctx.Shard%8 == 5 {
			db = ctx.Shipped()
			dbName = "shipped"
		} else if !ctx.R.Guard("C05", "LoadDatabase", dbName, func() { db = vlib.MustLoad(vlib.GenCommands(r, sp)) }) {
			continue
		}
		if ctx.G(h)%4 == 2 && dbName != "shipped" {
			// a semantic word table is loaded: one more stage whose state a search may depend on
			ok := false
			ctx.R.Guard("C05", "LoadEmbeddings", dbName, func() { ok = attachEmbeddings(ctx, r, db, "unit") })
			if ok {
				dbName += "/with-embeddings"
				ctx.R.Path("histories-with-embeddings", 1)
			}
		}
		mdb := database.NewMonitoredDatabase(db)
		cdb := mdb.CachedDatabase
		words := vlib.DBWords(db.Commands)
		if len(words) > 2000 {
			words = words[:2000]
		}
		if len(words) == 0 {
			continue
		}
		// query pool with repeats, case variants and typo queries
		pool := []string{}
		for i := 0; i < 4+r.Intn(4); i++ {
			pool = append(pool, vlib.GenQuery(r, words, 1+r.Intn(4), []int{0, 0, 1, 2}[r.Intn(4)]))
		}
		if d := ctx.Dict(); ctx.G(h)%3 == 0 && len(d.NLPWords) > 0 && len(d.NLPPhrases) > 0 {
			// requests worded with the vocabulary of the query analysis (action / target / clue words, also as part of a longer
			// word, and the phrases it looks for); the history asks for them in several spellings of letter case
			for k := 0; k < 2; k++ {
				w := d.NLPWords[r.Intn(len(d.NLPWords))] + []string{"", "ing", "s", "ed"}[r.Intn(4)]
				pool = append(pool, w+" "+words[r.Intn(len(words))]+" "+d.NLPPhrases[r.Intn(len(d.NLPPhrases))])
			}
			ctx.R.Path("analysis-vocabulary-queries", 2)
		}
		if ctx.G(h)%3 == 2 {
			// requests that are equal after a Unicode lower-casing but not for the engine: U+212A KELVIN SIGN lower-cases to the
			// ASCII letter k, U+0130 to i + combining dot, U+017F (long s) upper-cases to S - the engine, which drops every
			// non-ASCII rune before it folds case, reads them as different words
			for _, q := range append([]string(nil), pool...) {
				for _, pr := range [][2]string{{"k", "\u212a"}, {"K", "\u212a"}, {"i", "\u0130"}, {"s", "\u017f"}, {"I", "\u0131"}} {
					if strings.Contains(q, pr[0]) {
						pool = append(pool, strings.Replace(q, pr[0], pr[1], 1))
						ctx.R.Path("unicode-case-twin-queries", 1)
						break
					}
				}
			}
		}
		if ctx.G(h)%6 == 4 && len(db.Commands) > 0 && dbName != "shipped" {
			// requests that differ in one byte that is not valid UTF-8 (a Latin-1 letter typed into a UTF-8 terminal): a word of the
			// database that holds a letter with an accent, misspelt, once with the byte 0xE9 and once with 0xE8 / 0xFF in the
			// accent's place
			for _, w := range []string{"café", "résumé", "déjà"} {
				i := r.Intn(len(db.Commands))
				db.Commands[i].Description += " " + w
				raw := strings.NewReplacer("é", "\xe9", "à", "\xe0").Replace(w)
				typo := raw[:1] + raw[2:]
				pool = append(pool, typo, strings.Replace(typo, "\xe9", "\xe8", 1), strings.Replace(typo, "\xe9", "\xff", 1))
			}
			db.BuildUniversalIndex()
			ctx.R.Path("histories-with-queries-differing-in-one-invalid-byte", 1)
		}
		if ctx.G(h)%4 == 1 {
			// long requests that differ only in a small part: the same text up to a byte offset near a power of two / the 1000-byte
			// query bound, then different words (and the mirror image: different words first, then the same long tail)
			L := []int{40, 100, 250, 256, 500, 512, 990, 1000, 1024, 2000, 4096}[r.Intn(11)]
			var fill strings.Builder
			for fill.Len() < L {
				if r.Intn(3) == 0 {
					fill.WriteString(words[r.Intn(len(words))])
				} else {
					fill.WriteString([]string{"a", "b", "x", "the", "of", "to", "q"}[r.Intn(7)])
				}
				fill.WriteByte(' ')
			}
			f := fill.String()[:L]
			w1, w2 := words[r.Intn(len(words))], words[r.Intn(len(words))]
			if r.Intn(2) == 0 {
				pool = append(pool, f+" "+w1, f+" "+w2, f+" "+w1+" "+w2)
			} else {
				pool = append(pool, w1+" "+f, w2+" "+f)
			}
			ctx.R.Path("long-twin-queries", 1)
		}
		cur := vlib.RandomOptions(r, len(db.Commands), words)
		if bigAnswers {
			cur.Limit = []int{101, 128, 150, 500, len(db.Commands), len(db.Commands) + 1}[r.Intn(6)]
			cur.AllPlatforms = true
			pool = append(pool, vlib.GenQuery(r, words, 8+r.Intn(8), 0), vlib.GenQuery(r, words, 12, 0))
		}
		cur.Platforms, cur.NoCrossPlatform = nil, false
		if cur.Limit <= 0 {
			cur.Limit = 5
		}
		if ctx.G(h)%4 == 3 && dbName != "shipped" {
			// look-alike requests one after the other on a fresh wrapper: lists and maps that differ, but read the same once
			// written down without quotes or separators ([windows macos] is two names or one)
			a, b := words[0], words[len(words)/2]
			q := a + " " + b
			base := database.SearchOptions{Limit: len(db.Commands) + 1, UseFuzzy: true}
			var seq []database.SearchOptions
			for _, pl := range [][]string{{"windows", "macos"}, {"windows macos"}, {"windows,macos"}, {"windows", "macos", ""}, {"linux", "macos"}, {"linux macos"}} {
				o := base
				o.Platforms = pl
				seq = append(seq, o)
			}
			for _, bm := range []map[string]float64{{a: 5, b: 2}, {a + ":5 " + b: 2}, {a: 5}, {a + ":5": 1.5, b: 2}, {"map[" + a: 5, b + "]": 2}} {
				o := base
				o.AllPlatforms = true
				o.ContextBoosts = bm
				seq = append(seq, o)
			}
			if ctx.G(h)%8 == 7 {
				// ... every one of them with a boost that is not a finite number for a word the query does not hold (requests
				// that cannot be written down as JSON are identified some other way)
				nf := []float64{math.NaN(), math.Inf(1), math.Inf(-1)}[r.Intn(3)]
				for i := range seq {
					bm := map[string]float64{"zzunrelated": nf}
					for k, v := range seq[i].ContextBoosts {
						bm[k] = v
					}
					seq[i].ContextBoosts = bm
				}
				ctx.R.Path("look-alike-sequences-with-a-non-finite-boost", 1)
			}
			lcdb := database.NewCachedDatabase(db)
			for _, k := range r.Perm(len(seq)) {
				o := seq[k]
				cs := map[string]interface{}{"db": dbName, "n": len(db.Commands), "entry": "SearchWithOptionsAndCache", "query": q, "opts": vlib.OptsJ(o), "class": "look-alike requests in sequence"}
				ctx.R.Begin(cs)
				ctx.R.Eval(1)
				ctx.R.Path("look-alike-request-steps", 1)
				ctx.R.Guard("C05", "SearchWithOptionsAndCache", cs, func() {
					got := vlib.Canon(db.Commands, lcdb.SearchWithOptionsAndCache(q, o))
					refs, stable := vlib.StableRef(3, func() vlib.Ranked { return vlib.Canon(db.Commands, db.SearchUniversal(q, o)) })
					if v, why := vlib.CompareToRef(refs, stable, got, vlib.LimitInForce(o.Limit)); v == "violated" {
						ctx.R.Violate(vlib.Violation{Property: "C05", Clause: "cached-differs-from-fresh", Path: "SearchWithOptionsAndCache/look-alike-requests",
							Detail:  "answer differs from an uncached search at this moment (requests that differ in their platform list / boost map were asked before): " + why,
							Witness: map[string]interface{}{"case": cs, "got": got, "fresh": refs[0]}})
					}
				})
			}
		}
		steps := 30 + r.Intn(ctx.Pick(60, 170))
		if dbName == "shipped" {
			steps = ctx.Pick(40, 200)
		}
		trace := []string{}
		past := []c05Past{}
		lastDelta := ""
		for s := 0; s < steps; s++ {
			op := r.Intn(100)
			switch {
			case op < 82: // search
				q := pool[r.Intn(len(pool))]
				if r.Intn(4) == 0 {
					q = strings.ToUpper(q)
				} else if r.Intn(6) == 0 && len(q) > 0 {
					q = strings.ToUpper(q[:1]) + q[1:]
				}
				if r.Intn(8) == 0 { // the cache files queries under their trimmed form: blank-padded variants must then get the same answer
					q = []string{" ", "  ", "\t"}[r.Intn(3)] + q
					if r.Intn(2) == 0 {
						q += " "
					}
					ctx.R.Path("blank-padded-queries", 1)
				}
				x := r.Intn(10)
				if bigAnswers && x < 4 {
					x = 9 // fewer option changes: more repeats of requests with long answers
				}
				switch {
				case x < 5:
					cur, lastDelta = c05Mutate(r, cur, len(db.Commands), words)
				case x == 5 && len(cur.ContextBoosts) > 0: // the caller edits its own boost map in place between two calls
					for k := range cur.ContextBoosts {
						cur.ContextBoosts[k] = []float64{1.5, 2, 3, 10}[r.Intn(4)]
						break
					}
					cur.ContextBoosts[words[r.Intn(len(words))]] = 5
					lastDelta = "ContextBoosts(in place)"
					ctx.R.Path("in-place-option-edits", 1)
				case x == 6 && len(cur.Platforms) > 0: // ... or its platform slice
					cur.Platforms[0] = []string{"windows", "macos", "linux"}[r.Intn(3)]
					lastDelta = "Platforms(in place)"
					ctx.R.Path("in-place-option-edits", 1)
				default:
					lastDelta = ""
				}
				o := cur
				entry := []string{"SearchWithOptionsAndCache", "SearchWithOptionsAndCache", "SearchWithPipelineOptionsAndCache", "SearchWithFuzzyAndCache",
					"SearchWithOptionsAndMonitoring", "SearchWithCache", "SearchWithMonitoring"}[r.Intn(7)]
				if entry == "SearchWithCache" || entry == "SearchWithMonitoring" {
					o = database.SearchOptions{Limit: cur.Limit}
				}
				cs := map[string]interface{}{"db": dbName, "n": len(db.Commands), "step": s, "entry": entry, "query": q, "opts": vlib.OptsJ(o),
					"changed_field": lastDelta, "trace_tail": tail(trace, 12)}
				ctx.R.Begin(cs)
				ctx.R.Eval(1)
				trace = append(trace, fmt.Sprintf("%s(%q,%s)", entry, q, lastDelta))
				ctx.R.Guard("C05", entry, cs, func() {
					st0 := cdb.GetCacheStats()["search"]
					var got []database.SearchResult
					switch entry {
					case "SearchWithOptionsAndCache":
						got = cdb.SearchWithOptionsAndCache(q, o)
					case "SearchWithPipelineOptionsAndCache":
						got = cdb.SearchWithPipelineOptionsAndCache(q, o)
					case "SearchWithFuzzyAndCache":
						got = cdb.SearchWithFuzzyAndCache(q, o)
					case "SearchWithOptionsAndMonitoring":
						got = mdb.SearchWithOptionsAndMonitoring(q, o)
					case "SearchWithCache":
						got = cdb.SearchWithCache(q, o.Limit)
					case "SearchWithMonitoring":
						got = mdb.SearchWithMonitoring(q, o.Limit)
					}
					st1 := cdb.GetCacheStats()["search"]
					hit := st1.Hits > st0.Hits
					cand := vlib.Canon(db.Commands, got)
					if len(got) > 1 && s%2 == 0 {
						// the caller does with its answer what callers do (re-sorts it, rescales the scores, cuts it): the list belongs to
						// the caller, and a later answer to the same request is unaffected
						got[0], got[len(got)-1] = got[len(got)-1], got[0]
						for i := range got {
							got[i].Score = -1 - got[i].Score
						}
						got[0].Command = nil
						ctx.R.Path("answers-edited-in-place-by-the-caller", 1)
					}
					refs, stable := vlib.StableRef(5, func() vlib.Ranked { return vlib.Canon(db.Commands, db.SearchUniversal(q, o)) })
					verdict, why := vlib.CompareToRef(refs, stable, cand, vlib.LimitInForce(o.Limit))
					if hit {
						ctx.R.Path("hit-steps", 1)
						if len(refs[0]) > 100 {
							ctx.R.Path("hits-with-over-100-results", 1)
						}
						if len(q) > 1000 {
							ctx.R.Path("hits-with-query-over-1000-bytes", 1)
						}
					} else {
						ctx.R.Path("miss-steps", 1)
					}
					// was this an answer-changing delta w.r.t. an earlier search of the same (case-folded) query?
					nq := strings.ToLower(strings.TrimSpace(q))
					for i := len(past) - 1; i >= 0 && i >= len(past)-40; i-- {
						p := past[i]
						if strings.ToLower(strings.TrimSpace(p.q)) != nq {
							continue
						}
						d := c05Diff(p.o, o)
						if len(d) == 1 {
							if ok, _ := vlib.Approx(p.ans, refs[0], 0); !ok {
								ctx.R.Path("answer-changing-delta:"+d[0], 1)
								ctx.R.Nontriv(dbName, h, nq, d[0], s)
							}
						}
						if len(d) == 0 && hit {
							ctx.R.Path("repeat-hit", 1)
							if p.q != q {
								ctx.R.Path("case-variant-hit", 1)
							}
						}
						break
					}
					switch verdict {
					case "violated":
						// which earlier request produced the list that was served?
						delta := "?"
						for i := 0; i < len(past); i++ { // oldest first: the request that originally filled the entry
							p := past[i]
							if strings.ToLower(strings.TrimSpace(p.q)) == nq && (vlib.Exact(p.served, cand) || vlib.Exact(p.ans, cand)) {
								d := c05Diff(p.o, o)
								sort.Strings(d)
								delta = strings.Join(d, "+")
								if delta == "" {
									delta = "none(stale)"
								}
								break
							}
						}
						ctx.R.Violate(vlib.Violation{Property: "C05", Clause: "cached-differs-from-fresh", Path: entry + "/delta=" + delta,
							Detail:  fmt.Sprintf("step %d (cache hit: %v): answer differs from an uncached search at this moment: %s; served list equals an earlier answer whose options differ in [%s]", s, hit, why, delta),
							Witness: map[string]interface{}{"case": cs, "got": cand, "fresh": refs[0]}})
					case "inconclusive":
						ctx.R.Inconcl(why)
					}
					past = append(past, c05Past{q, o, refs[0], cand, s})
				})
			case op < 85:
				cdb.InvalidateCache()
				trace = append(trace, "InvalidateCache")
				ctx.R.Path("op-invalidate", 1)
			case op < 88:
				en := r.Intn(4) > 0
				cdb.EnableCache(en)
				trace = append(trace, fmt.Sprintf("EnableCache(%v)", en))
				ctx.R.Path("op-enable", 1)
			case op < 91:
				cdb.CleanupExpiredCache()
				trace = append(trace, "CleanupExpiredCache")
				ctx.R.Path("op-cleanup", 1)
			case op < 96:
				d := []time.Duration{time.Minute, 4 * time.Minute, 5*time.Minute + time.Second, 11 * time.Minute}[r.Intn(4)]
				cdb.VerifSearchCache().VerifLRU().VerifAdvance(d)
				trace = append(trace, fmt.Sprintf("advance(%v)", d))
				ctx.R.Path("op-advance", 1)
			default:
				if dbName == "shipped" {
					continue
				}
				ctx.R.Guard("C05", "UpdateDatabase", trace, func() {
					repl := mk()
					switch r.Intn(8) {
					case 0:
						repl = nil // replaced by an empty database
					case 1:
						repl = []vlib.Cmd{}
					}
					switched := r.Intn(4) == 0 && cdb.IsCacheEnabled()
					if switched { // the cache is switched off while the database is replaced, and on again afterwards
						cdb.EnableCache(false)
						trace = append(trace, "EnableCache(false)")
						ctx.R.Path("op-update-database-while-the-cache-is-off", 1)
						defer func() {
							cdb.EnableCache(true)
							trace = append(trace, "EnableCache(true)")
						}()
					}
					if r.Intn(2) == 0 {
						cdb.UpdateDatabase(repl)
						trace = append(trace, fmt.Sprintf("UpdateDatabase(%d)", len(repl)))
					} else {
						mdb.LoadDatabaseWithMonitoring(repl)
						trace = append(trace, fmt.Sprintf("LoadDatabaseWithMonitoring(%d)", len(repl)))
					}
					past = past[:0]
					ctx.R.Path("op-update-database", 1)
				})
			}
		}
		if h < 2 {
			ctx.R.Sample(map[string]interface{}{"db": dbName, "history_tail": tail(trace, 15)})
		}
	}
}

func tail(xs []string, n int) []string {
	if len(xs) <= n {
		return append([]string(nil), xs...)
	}
	return append([]string(nil), xs[len(xs)-n:]...)
}

package main

import (
	"fmt"
	"math"
	"math/rand"
	"os"
	"path/filepath"
	"sort"
	"strings"

	"github.com/Vedant9500/WTF/internal/database"
	"github.com/Vedant9500/WTF/internal/zzverif/vlib"
)

// attachEmbeddings writes glove.bin / cmd_embeddings.bin for the words and entries of db into a scratch directory and
// loads them the way the application does (files resolved relative to the working directory). Single-threaded callers
// only (the working directory is process-wide). flavour: "unit" (unit word vectors), "scaled" (lengths 0.3-7),
// "non-finite" (a few NaN / +Inf / -Inf components), "huge" (components around 1e38: sums overflow float32), "cased" (the
// vocabulary also holds capitalised and upper-case spellings of some words, with vectors of their own), "partial" (a third of the
// database's words are missing from the word table).
func attachEmbeddings(ctx *Ctx, r *rand.Rand, db *database.Database, flavour string) bool {
	return attachEmbeddingsExtra(ctx, r, db, flavour, nil)
}

// embRowsKeep: when >= 0, only that many command rows are written (the database has grown since the file was computed).
var embRowsKeep = -1

// attachEmbeddingsExtra: the word table also holds the keys of `extra` (words no entry contains - a general-purpose word table
// knows far more words than a command database uses), each with a vector close to that of the database word it maps to, as a
// synonym or a common misspelling has.
func attachEmbeddingsExtra(ctx *Ctx, r *rand.Rand, db *database.Database, flavour string, extra map[string]string) bool {
	dir := filepath.Join(ctx.Scratch, fmt.Sprintf("emb-%d", r.Int63()))
	if os.MkdirAll(dir, 0o755) != nil {
		return false
	}
	defer os.RemoveAll(dir)
	spoil := func(v []float32) []float32 {
		switch flavour {
		case "non-finite":
			if r.Intn(3) == 0 {
				v[r.Intn(len(v))] = []float32{float32(math.NaN()), float32(math.Inf(1)), float32(math.Inf(-1))}[r.Intn(3)]
			}
		case "huge":
			if r.Intn(2) == 0 {
				for i := range v {
					v[i] *= 2e38
				}
			}
		}
		return v
	}
	wv := map[string][]float32{}
	var wl []string
	var vl [][]float32
	if flavour == "cased" {
		// a vocabulary from a cased model: "Linux" and "LINUX" next to "linux", each with a vector of its own
		for _, w := range vlib.DBWords(db.Commands) {
			if r.Intn(3) == 0 && len(w) > 1 {
				for _, cw := range []string{strings.ToUpper(w[:1]) + w[1:], strings.ToUpper(w)} {
					wl = append(wl, cw)
					vl = append(vl, c19Unit(c19Gauss(r, 100), 1))
				}
			}
		}
	}
	for _, w := range vlib.DBWords(db.Commands) {
		if flavour == "partial" && r.Intn(3) == 0 {
			continue // a word table that does not know every word of the database (no general-purpose table does)
		}
		scale := 1.0
		if flavour != "unit" {
			scale = []float64{0.3, 1, 2.5, 7}[r.Intn(4)]
		}
		v := spoil(c19Unit(c19Gauss(r, 100), scale))
		wv[w] = v
		wl = append(wl, w)
		vl = append(vl, v)
	}
	{
		var ks []string
		for w := range extra {
			ks = append(ks, w)
		}
		sort.Strings(ks)
		for _, w := range ks {
			near, ok := wv[extra[w]]
			if _, dup := wv[w]; dup || w == "" || !ok {
				continue
			}
			v := make([]float32, len(near))
			noise := c19Gauss(r, 100)
			for j := range v {
				v[j] = near[j] + 0.02*noise[j]
			}
			wl = append(wl, w)
			vl = append(vl, v)
		}
	}
	var cv [][]float32
	for k := range db.Commands {
		sum := make([]float32, 100)
		ft := vlib.FieldTexts(&db.Commands[k])
		for _, t := range vlib.Tokenize(strings.Join(ft[:], " ")) {
			if v, ok := wv[t]; ok {
				for j := range sum {
					sum[j] += v[j]
				}
			}
		}
		cv = append(cv, spoil(c19Unit(sum, 1)))
	}
	if embRowsKeep >= 0 && embRowsKeep < len(cv) {
		cv = cv[:embRowsKeep] // an embedding file computed before the last entries were added
	}
	if os.WriteFile(filepath.Join(dir, "glove.bin"), c19Glove(uint32(len(wl)), wl, vl), 0o644) != nil ||
		os.WriteFile(filepath.Join(dir, "cmd_embeddings.bin"), c19CmdFile(uint32(len(cv)), 100, cv), 0o644) != nil {
		return false
	}
	wd, err := os.Getwd()
	if err != nil || os.Chdir(dir) != nil {
		return false
	}
	db.LoadEmbeddings()
	os.Chdir(wd)
	return db.HasEmbeddings()
}

package main

import (
	"bytes"
	"context"
	"encoding/json"
	"fmt"
	"math/rand"
	"os"
	"os/exec"
	"path/filepath"
	"sort"
	"strings"
	"syscall"
	"time"

	wtfctx "github.com/Vedant9500/WTF/internal/context"
	"github.com/Vedant9500/WTF/internal/database"
	"github.com/Vedant9500/WTF/internal/recovery"
	"github.com/Vedant9500/WTF/internal/validation"
	"github.com/Vedant9500/WTF/internal/zzverif/vlib"
)

func init() {
	engines["cli-search"] = engineCLISearch
	engines["cli-commands"] = engineCLICommands
}

// c17Engine is the replica of what the `search` command documents: validated query and limit, NLP on, fuzzy on with
// the default threshold, platform flags, context boosts of the working directory, recovery search on an empty answer.
func c17Engine(db *database.Database, cwd, rawQuery string, limitFlag int, allPlatforms bool, platforms []string, noCross bool) (q string, L int, rs []database.SearchResult, accepted bool) {
	q, err := validation.ValidateQuery(rawQuery)
	if err != nil {
		return "", 0, nil, false
	}
	L, err = validation.ValidateLimit(limitFlag)
	if err != nil {
		return q, 0, nil, false
	}
	o := database.SearchOptions{Limit: L, UseFuzzy: true, FuzzyThreshold: -30, UseNLP: true, AllPlatforms: allPlatforms, Platforms: platforms, NoCrossPlatform: noCross}
	if cwd != "" { // "" = the working directory cannot be determined: no project context
		if pc, _ := wtfctx.NewAnalyzer().AnalyzeDirectory(cwd); pc != nil {
			o.ContextBoosts = pc.GetContextBoosts()
		}
	}
	rs = db.SearchUniversal(q, o)
	if len(rs) == 0 {
		if rec, err := recovery.NewSearchRecovery().RecoverFromSearchFailure(q, nil, db); err == nil && len(rec) > 0 {
			rs = rec
			if len(rs) > L { // the limit in force bounds the recovery answer too
				rs = rs[:L]
			}
		}
	}
	return q, L, rs, true
}

type c17HistFile struct {
	Entries []struct {
		Query        string    `json:"query"`
		ResultsCount int       `json:"results_count"`
		Timestamp    time.Time `json:"timestamp"`
	} `json:"entries"`
}

func c17ReadHist(p string) (c17HistFile, bool) {
	var h c17HistFile
	b, err := os.ReadFile(p)
	if err != nil {
		return h, false
	}
	return h, json.Unmarshal(b, &h) == nil
}

func c17UniqueDB(r *rand.Rand, n int, platforms int) []vlib.Cmd {
	cmds := vlib.GenCommands(r, vlib.DBSpec{N: n, Platforms: platforms, Pipelines: true, MixedCase: true, Unicode: true})
	// entries that stress the formatters: long multi-byte commands and categories (byte length and rune count
	// far apart), very long ASCII ones, text with tabs and ANSI-looking brackets
	wide := []string{"日本語のコマンド名はとても長いですがルーンの数は少ないです", "файловая-система-команда-для-поиска-и-замены-текста", "αρχείο-συμπίεσης-και-αποσυμπίεσης-δεδομένων-εδώ",
		"emoji 😀😀😀😀😀😀😀😀😀😀😀😀😀😀😀😀😀😀 tool", strings.Repeat("averyveryverylongcommandname-", 4), "tab\there [0m not-an-escape",
		// text that holds escape sequences as TEXT (commands that print or match them): a backslash followed by u0026, n, ", x1b
		`printf '\u0026\u003c\u003e\n'`, `echo "a \"quoted\" word \\ and \u0022 </script> &amp; <b>"`, `grep -P '\x1b\[[0-9;]*m|\t|\\u[0-9a-f]{4}'`, `sed 's/\\/\\\\/g; s/&/\&amp;/g'`}
	for i, w := range wide {
		if len(cmds) == 0 {
			break
		}
		k := (i * 7) % len(cmds)
		c := cmds[k]
		switch r.Intn(3) {
		case 0:
			c.Command = w + " " + c.Command
		case 1:
			c.Niche = w
		default:
			c.Command = c.Command + " " + w
			c.Niche = "分類カテゴリ名称長い長い長い"
		}
		cmds[k] = c
	}
	seen := map[string]bool{}
	out := cmds[:0]
	for _, c := range cmds {
		k := c.Command + "\x00" + c.Description
		if !seen[k] && !strings.ContainsAny(c.Command+c.Description, "\n") {
			seen[k] = true
			out = append(out, c)
		}
	}
	return out
}

func engineCLISearch(ctx *Ctx) {
	r := vlib.NewRand(ctx.Seed, ctx.Shard, "cli-search")
	engineStart := time.Now()
	// the names of the sub-commands, as the program's own help lists them: a query may begin with a word that is the beginning of
	// one of them ("pip install", "hist of changes", "set up vpn") - typed without quotes it is still a query
	var subPrefixes []string
	{
		hh := NewHome(filepath.Join(ctx.Scratch, "helpprobe"))
		out := hh.Wtf(ctx.Wtf, nil, "--help").Stdout
		var names []string
		in := false
		for _, l := range strings.Split(out, "\n") {
			if strings.HasPrefix(l, "Available Commands") {
				in = true
				continue
			}
			if in {
				f := strings.Fields(l)
				if len(f) == 0 || !strings.HasPrefix(l, " ") {
					break
				}
				names = append(names, f[0])
			}
		}
		for _, n := range names {
			for k := 1; k < len(n); k++ {
				p, uniq := n[:k], true
				for _, m := range names {
					if m != n && strings.HasPrefix(m, p) {
						uniq = false
					}
					if m == p {
						uniq = false
					}
				}
				if uniq {
					subPrefixes = append(subPrefixes, p)
				}
			}
		}
		os.RemoveAll(filepath.Join(ctx.Scratch, "helpprobe"))
	}
	nHome := ctx.N(192, 3200)
	for hI := 0; hI < nHome; hI++ {
		base := filepath.Join(ctx.Scratch, fmt.Sprintf("cs%d", hI))
		h := NewHome(base)
		cmds := c17UniqueDB(r, []int{6, 20, 60, 150}[hI%4], (hI+ctx.Shard)%3)
		twins := false
		var twinWords []string
		dbp := filepath.Join(base, "db.yml")
		dbKind := "generated"
		g := hI*ctx.NShards + ctx.Shard // global index of this home over all shards
		switch {
		case g%13 == 5:
			dbp = ctx.ShippedPath()
			dbKind = "shipped"
		case g%11 == 7:
			dbp = filepath.Join(base, "missing-dir", "nope.yml")
			dbKind = "missing-path"
		case g%11 == 9:
			os.WriteFile(dbp, []byte("- command: \"broken\n  description: [\n"), 0o644)
			dbKind = "malformed"
		default:
			if g%7 == 2 && len(cmds) > 2 {
				// a database that lists some command lines twice or three times under the same description - once per platform, or under two
				// categories: separate entries, separate results. (The uniqueness the other homes have exists for the harness's sake:
				// it maps printed items back to entries by their text. In these homes the count and the printed names decide.)
				for k := 0; k < 3; k++ {
					c := cmds[r.Intn(len(cmds))]
					if strings.ContainsAny(c.Command+c.Description, "\x00") || strings.TrimSpace(vlib.FirstAlnumWord(c.Command+" "+c.Description)) == "" {
						continue
					}
					for j := 1 + r.Intn(2); j > 0; j-- {
						t := c
						t.Niche = []string{"macos-terminal", "linux-basics", "twin category"}[r.Intn(3)]
						t.Platform = [][]string{{"linux"}, {"macos"}, {"linux", "macos", "windows"}, nil}[r.Intn(4)]
						t.Keywords = append(append([]string(nil), c.Keywords...), "twin")
						cmds = append(cmds, t)
					}
					twinWords = append(twinWords, vlib.FirstAlnumWord(c.Command+" "+c.Description))
				}
				twins = len(twinWords) > 0
				if twins {
					dbKind = "generated-with-twins"
				}
			}
			vlib.WriteYAML(dbp, cmds)
		}
		// the database the command will search (fallback ladder included), loaded the same way
		var db *database.Database
		if !ctx.R.Guard("C17", "LoadDatabaseWithFallback", dbKind, func() {
			var err error
			db, err = recovery.NewDatabaseRecovery(recovery.RetryConfig{MaxAttempts: 1}).LoadDatabaseWithFallback(dbp, h.Personal())
			if err != nil {
				panic(err)
			}
		}) || db == nil {
			continue
		}
		idx := map[string]int{}
		for i, c := range db.Commands {
			idx[c.Command+"\x00"+c.Description] = i
		}
		words := vlib.DBWords(db.Commands)
		if len(words) > 3000 {
			words = words[:3000]
		}
		ctx.R.Path("db-kind-"+dbKind, 1)
		nSearch := 1 + r.Intn(5)
		if twins {
			nSearch = 3 + r.Intn(3)
		}
		prevHist := 0
		prevQuery := ""
		// the history lives under the user's configuration directory: $XDG_CONFIG_HOME when set, else $HOME/.config
		histPath := h.History()
		var homeEnv []string
		if g%4 == 1 {
			xdg := filepath.Join(base, "xdg config")
			homeEnv = []string{"XDG_CONFIG_HOME=" + xdg}
			histPath = filepath.Join(xdg, "wtf", "search_history.json")
			ctx.R.Path("homes-with-xdg-config-home", 1)
		}
		if g%5 == 3 {
			// a home that has been in use: the history file is full or almost full (max_size 100) when the first search runs; in
			// two of three such homes its entries carry timestamps from a clock that ran ahead, or are not in timestamp order
			nPre := []int{99, 100, 100}[r.Intn(3)]
			tsMode := (g / 5) % 4
			perm := r.Perm(nPre)
			pre := c16ValidFileTS(nPre, "100", false, r.Intn(50), func(i int) int {
				switch tsMode {
				case 1:
					if i >= nPre-2 {
						return 20000000 + i // the newest entries are dated decades ahead
					}
				case 2:
					return perm[i]
				}
				return i
			})
			if tsMode == 3 {
				// entries dated at the ends of the representable calendar (a restored backup with broken dates, a test entry)
				first := []string{"0000-01-01T00:00:00Z", "0000-01-01T00:30:00+01:00", "0001-01-01T00:00:00Z"}[r.Intn(3)]
				last := []string{"9999-12-31T23:59:59Z", "9999-12-31T21:15:00-05:00", "9999-12-31T23:59:59.999999999Z"}[r.Intn(3)]
				txt := string(pre)
				if i := strings.Index(txt, `"timestamp": "`); i >= 0 {
					j := i + len(`"timestamp": "`)
					txt = txt[:j] + first + txt[j+strings.Index(txt[j:], `"`):]
				}
				if i := strings.LastIndex(txt, `"timestamp": "`); i >= 0 {
					j := i + len(`"timestamp": "`)
					txt = txt[:j] + last + txt[j+strings.Index(txt[j:], `"`):]
				}
				pre = []byte(txt)
			}
			os.MkdirAll(filepath.Dir(histPath), 0o755)
			os.WriteFile(histPath, pre, 0o644)
			if hf, ok := c17ReadHist(histPath); ok && len(hf.Entries) == nPre {
				if tsMode == 3 {
					ctx.R.Path("homes-with-a-history-dated-at-the-ends-of-the-calendar", 1)
				}
				prevHist, prevQuery = nPre, hf.Entries[nPre-1].Query
				ctx.R.Path("homes-with-a-full-history", 1)
				if tsMode != 0 {
					ctx.R.Path("homes-with-a-full-history-odd-timestamps", 1)
				}
			}
		}
		// the user's time zone: half of the homes run under a generated zone (TZ=<zone file>): fixed offsets between -12:00 and
		// +14:00, or a zone whose clocks went back ten minutes before the run started / will 55 minutes after it
		if zk := g / 2; g%2 == 0 && zk%10 != 0 {
			if z, ok := vlib.ZoneFor(zk, engineStart); ok {
				zp := filepath.Join(base, "zone")
				z.WriteFile(zp)
				homeEnv = append(homeEnv, "TZ="+zp)
				ctx.R.Path("homes-in-a-generated-time-zone", 1)
			}
		}
		for s := 0; s < nSearch; s++ {
			var raw string
			switch r.Intn(8) {
			case 0:
				raw = vlib.GenQuery(r, words, 1+r.Intn(2), 2) // typo
			case 1: // fragment + garbage: recovery search
				w := words[r.Intn(len(words))]
				if len(w) > 3 {
					w = w[1:]
				}
				raw = w + " zzqxj"
			case 2:
				raw = []string{"a|b", "x; y", "$HOME", "   ", "\t", "ok <tag>", strings.Repeat("long ", 250)}[r.Intn(7)] // rejected
			case 3:
				if prevQuery != "" {
					raw = prevQuery // immediate repeat
					break
				}
				fallthrough
			default:
				raw = vlib.GenQuery(r, words, 1+r.Intn(4), r.Intn(2))
				if r.Intn(4) == 0 {
					raw = "  " + strings.ToUpper(raw) + " "
				}
			}
			if twins && s < 2 {
				raw = twinWords[r.Intn(len(twinWords))] // a word of a command line that is listed more than once
				ctx.R.Path("requests-for-a-command-line-listed-more-than-once", 1)
			}
			wordByWord := false
			if len(subPrefixes) > 0 && r.Intn(9) == 0 && !(twins && s < 2) {
				raw = subPrefixes[r.Intn(len(subPrefixes))] + " " + words[r.Intn(len(words))]
				if r.Intn(2) == 0 {
					raw += " " + words[r.Intn(len(words))]
				}
				if ok := !strings.ContainsAny(raw, "<>|&;$\x00") && !strings.HasPrefix(raw, "-"); ok {
					wordByWord = true
					for _, w := range strings.Fields(raw) {
						if strings.HasPrefix(w, "-") {
							wordByWord = false
						}
					}
				}
			}
			limit := []int{-1, 0, 0, 1, 3, 5, 100, 101}[r.Intn(8)]
			format := []string{"list", "list", "table", "json", "json", "JSON", "bogus"}[r.Intn(7)]
			verbose := r.Intn(2) == 0
			noColorFlag := r.Intn(3) == 0
			noColorEnv := []string{"", "NO_COLOR=", "NO_COLOR=1"}[r.Intn(3)]
			// spellings of the flag: bare, =true, and an explicit =false (which leaves NO_COLOR in charge)
			noColorArg := ""
			switch {
			case noColorFlag:
				noColorArg = []string{"--no-color", "--no-color=true", "--no-color=1"}[r.Intn(3)]
			case r.Intn(4) == 0:
				noColorArg = []string{"--no-color=false", "--no-color=0"}[r.Intn(2)]
				ctx.R.Path("no-color-false-spelt-out", 1)
			}
			// the working directory was removed while the shell was still in it (a deleted build directory)
			cwdGone := r.Intn(10) == 0
			allPlat := r.Intn(2) == 0
			var plats []string
			if r.Intn(4) == 0 {
				plats = [][]string{{"linux"}, {"windows"}, {"macos", "windows"}}[r.Intn(3)]
			}
			noCross := r.Intn(5) == 0
			args := []string{"--database", dbp, "--format", format}
			if limit != 0 || r.Intn(2) == 0 {
				args = append(args, fmt.Sprintf("--limit=%d", limit))
			}
			if verbose {
				args = append(args, "-v")
			}
			if noColorArg != "" {
				args = append(args, noColorArg)
			}
			if allPlat {
				args = append(args, "--all-platforms")
			}
			if len(plats) > 0 {
				args = append(args, "--platform", strings.Join(plats, ","))
			}
			if noCross {
				args = append(args, "--no-cross-platform")
			}
			if wordByWord {
				// typed without quotes and without a sub-command: the words come first, one argument each
				args = append(strings.Fields(raw), args...)
				raw = strings.Join(strings.Fields(raw), " ")
				ctx.R.Path("queries-beginning-like-a-sub-command-typed-without-quotes", 1)
			} else {
				if r.Intn(2) == 0 {
					args = append([]string{"search"}, args...)
				}
				args = append(args, "--", raw)
			}
			env := append([]string(nil), homeEnv...)
			if noColorEnv != "" {
				env = append(env, noColorEnv)
			}
			cs := map[string]interface{}{"db": dbKind, "db_entries": len(db.Commands), "args_quoted": fmt.Sprintf("%q", args), "env": env, "search_no": s, "working_directory_removed": cwdGone}
			ctx.R.Begin(cs)
			ctx.R.Eval(1)
			var res CLIResult
			replicaCwd := h.Cwd
			tCall := time.Now()
			if cwdGone {
				ents, _ := os.ReadDir(h.Cwd)
				if len(ents) == 0 {
					res = h.RunCmd(60*time.Second, env, append([]string{"/bin/sh", "-c", `rmdir "$PWD" && exec "$@"`, "sh", ctx.Wtf}, args...)...)
					os.MkdirAll(h.Cwd, 0o755)
					replicaCwd = ""
					ctx.R.Path("runs-in-a-removed-working-directory", 1)
				} else {
					cwdGone = false
					res = h.Wtf(ctx.Wtf, env, args...)
				}
			} else {
				res = h.Wtf(ctx.Wtf, env, args...)
			}
			if bad, why := res.Crashed(); bad {
				ctx.R.Violate(vlib.Violation{Property: "C17", Clause: "command-crashes", Path: "wtf search", Detail: why,
					Witness: map[string]interface{}{"case": cs, "stderr": vlib.Trunc(res.Stderr, 1500)}})
				continue
			}
			// engine's answer (stable-reference rule)
			var q string
			var L int
			var accepted bool
			var refs []vlib.Ranked
			var refRes []database.SearchResult
			stable := true
			if !ctx.R.Guard("C17", "engine replica", cs, func() {
				for i := 0; i < 3; i++ {
					var rs []database.SearchResult
					q, L, rs, accepted = c17Engine(db, replicaCwd, raw, limit, allPlat, plats, noCross)
					a := vlib.Canon(db.Commands, rs)
					if i == 0 {
						refRes = rs
					} else if !vlib.Exact(refs[0], a) {
						stable = false
					}
					refs = append(refs, a)
				}
			}) {
				continue
			}
			searched := strings.Contains(res.Stdout, "Searching for: ")
			if !accepted {
				ctx.R.Path("rejected", 1)
				if searched {
					ctx.R.Violate(vlib.Violation{Property: "C17", Clause: "rejected-query-searched", Path: "wtf search", Detail: "a query / limit that validation rejects was searched", Witness: cs})
				}
				continue
			}
			ctx.R.Path("accepted", 1)
			if !searched || !strings.Contains(res.Stdout, "Searching for: "+q+"\n") {
				ctx.R.Violate(vlib.Violation{Property: "C17", Clause: "accepted-query-not-searched", Path: "wtf search",
					Detail: fmt.Sprintf("validated query %s not echoed", vlib.Q(q)), Witness: map[string]interface{}{"case": cs, "stdout": vlib.Trunc(res.Stdout, 600)}})
				continue
			}
			// colour
			if (noColorFlag || noColorEnv != "") && strings.Contains(res.Stdout, "\x1b") {
				clean := true
				for _, c := range db.Commands { // an ESC that comes from the data itself is not the formatter's
					if strings.Contains(c.Command+c.Description+c.Niche+strings.Join(c.Keywords, "")+strings.Join(c.Platform, ""), "\x1b") {
						clean = false
					}
				}
				if clean {
					ctx.R.Violate(vlib.Violation{Property: "C17", Clause: "escape-sequence-despite-no-color", Path: "wtf search/" + strings.ToLower(format),
						Detail: "terminal escape sequence in the output although colour is disabled", Witness: map[string]interface{}{"case": cs, "stdout": vlib.Trunc(res.Stdout, 600)}})
				}
			}
			if noColorFlag || noColorEnv != "" {
				ctx.R.Path("no-color-runs", 1)
			}
			// printed results
			printedN := -1
			var printed vlib.Ranked
			var unmatched []string
			var listNames []string
			lower := strings.ToLower(format)
			switch lower {
			case "json":
				block, items, present, wf := JSONBlock(res.Stdout)
				if present && !wf {
					ctx.R.Violate(vlib.Violation{Property: "C17", Clause: "json-malformed", Path: "wtf search/json", Detail: "the result block is not a well-formed JSON array of objects",
						Witness: map[string]interface{}{"case": cs, "block": vlib.Trunc(block, 800)}})
					continue
				}
				printedN = len(items)
				for _, it := range items {
					i, ok := idx[it.Command+"\x00"+it.Description]
					if !ok {
						i = -1
						unmatched = append(unmatched, fmt.Sprintf("%q / %q", it.Command, it.Description))
					}
					sc := it.Score
					printed = append(printed, vlib.Item{Idx: i, Score: sc})
				}
				ctx.R.Path("format-json", 1)
			case "table":
				n := 0
				for _, l := range strings.Split(res.Stdout, "\n") {
					f := strings.Fields(l)
					if len(f) > 0 && f[0] == fmt.Sprint(n+1) && len(l) > 4 && l[3] == ' ' {
						n++
					}
				}
				printedN = n
				ctx.R.Path("format-table", 1)
			default:
				n, names, _ := ListBlock(res.Stdout)
				printedN = n
				listNames = names
				ctx.R.Path("format-list", 1)
			}
			recoveryPath := strings.Contains(res.Stdout, "Warning: Search had issues")
			path := "wtf search/" + lower
			if recoveryPath {
				ctx.R.Path("recovery-answers", 1)
			}
			if printedN > L {
				ctx.R.Violate(vlib.Violation{Property: "C17", Clause: "more-than-limit", Path: path,
					Detail:  fmt.Sprintf("%d results printed, limit in force %d (recovery path: %v)", printedN, L, recoveryPath),
					Witness: map[string]interface{}{"case": cs, "stdout": vlib.Trunc(res.Stdout, 1500)}})
			}
			if printedN >= 0 && stable && printedN != len(refRes) {
				ctx.R.Violate(vlib.Violation{Property: "C17", Clause: "count-differs-from-engine", Path: path,
					Detail:  fmt.Sprintf("%d results printed, the engine returns %d for the validated query %s", printedN, len(refRes), vlib.Q(q)),
					Witness: map[string]interface{}{"case": cs, "stdout": vlib.Trunc(res.Stdout, 1500)}})
			} else if lower == "json" && printedN >= 0 {
				// exact results in rank order
				cand := printed
				if twins { // items cannot be told apart by their text: the count above and the names below decide
					cand = nil
				}
				if !verbose && cand != nil { // scores are not printed: compare entries only
					for i := range cand {
						if i < len(refs[0]) {
							cand[i].Score = refs[0][i].Score
						}
					}
					if !stable {
						cand = nil
					}
				}
				if cand != nil {
					v, why := vlib.CompareToRef(refs, stable, cand, L)
					switch v {
					case "violated":
						ctx.R.Violate(vlib.Violation{Property: "C17", Clause: "printed-differs-from-engine", Path: path,
							Detail: "printed results are not the engine's results in rank order: " + why,
							Witness: map[string]interface{}{"case": cs, "engine": refs[0], "printed": printed, "printed_items_not_in_database": unmatched,
								"engine_entries": func() []string {
									var o []string
									for _, x := range refRes {
										o = append(o, fmt.Sprintf("%q / %q", x.Command.Command, x.Command.Description))
									}
									return o
								}()}})
					case "inconclusive":
						ctx.R.Inconcl("engine reference unstable")
					default:
						ctx.R.Path("rank-order-compared", 1)
					}
				}
			}
			// list format: the printed command lines are the engine's commands, in rank order where the scores are distinct
			if listNames != nil && stable && printedN == len(refRes) && !noColorIrrelevant(noColorFlag, noColorEnv) {
				want := make([]string, len(refRes))
				distinctScores := true
				for i, x := range refRes {
					want[i] = x.Command.Command
					if i > 0 && refRes[i-1].Score == x.Score {
						distinctScores = false
					}
				}
				gotS, wantS := append([]string(nil), listNames...), append([]string(nil), want...)
				sort.Strings(gotS)
				sort.Strings(wantS)
				if fmt.Sprint(gotS) != fmt.Sprint(wantS) || (distinctScores && fmt.Sprint(listNames) != fmt.Sprint(want)) {
					ctx.R.Violate(vlib.Violation{Property: "C17", Clause: "printed-differs-from-engine", Path: path,
						Detail:  "the numbered entries printed are not the engine's results in rank order",
						Witness: map[string]interface{}{"case": cs, "printed": listNames, "engine": want}})
				} else {
					ctx.R.Path("list-order-compared", 1)
				}
			}
			if printedN > 0 {
				ctx.R.Nontriv(hI, s, fmt.Sprintf("%q", args))
			}
			// history: exactly one corresponding newest entry
			hf, okH := c17ReadHist(histPath)
			if !okH {
				ctx.R.Violate(vlib.Violation{Property: "C17", Clause: "history-missing-or-unreadable", Path: "search_history.json", Detail: "after an accepted search the history file is missing or not valid JSON", Witness: cs})
				continue
			}
			wantLen := prevHist + 1
			if prevQuery == q && prevHist > 0 {
				wantLen = prevHist
			}
			if wantLen > 100 { // the history keeps the newest 100
				wantLen = 100
			}
			if len(hf.Entries) != wantLen {
				ctx.R.Violate(vlib.Violation{Property: "C17", Clause: "history-length", Path: "search_history.json",
					Detail: fmt.Sprintf("history has %d entries after this search, expected %d (previous %d, immediate repeat: %v)", len(hf.Entries), wantLen, prevHist, prevQuery == q), Witness: cs})
			} else if last := hf.Entries[len(hf.Entries)-1]; last.Query != q || (printedN >= 0 && last.ResultsCount != printedN) {
				ctx.R.Violate(vlib.Violation{Property: "C17", Clause: "history-newest-entry", Path: "search_history.json",
					Detail: fmt.Sprintf("newest history entry is (%s, %d), the search was (%s, %d printed)", vlib.Q(last.Query), last.ResultsCount, vlib.Q(q), printedN), Witness: cs})
			} else if ts := last.Timestamp; ts.Before(tCall.Add(-5*time.Minute)) || ts.After(time.Now().Add(5*time.Minute)) {
				// the entry of this search carries the time of this search (five minutes of latitude for a stepping clock)
				ctx.R.Violate(vlib.Violation{Property: "C17", Clause: "history-newest-entry", Path: "search_history.json",
					Detail: fmt.Sprintf("the entry recorded for this search is stamped %s; the search ran between %s and %s", ts.Format(time.RFC3339), tCall.UTC().Format(time.RFC3339), time.Now().UTC().Format(time.RFC3339)), Witness: cs})
			} else {
				ctx.R.Path("history-checked", 1)
			}
			prevHist, prevQuery = len(hf.Entries), q
			if hI < 2 && s == 0 {
				ctx.R.Sample(map[string]interface{}{"case": cs, "printed": printedN, "engine": len(refRes), "limit_in_force": L})
			}
		}
		os.RemoveAll(base)
	}
	c17BrokenPipe(ctx, r)
}

// c17BrokenPipe: the reader of the output goes away after the first line (`wtf ... | head -n 1`) while the answer is far
// larger than a pipe buffer. However the process ends, the search leaves its entry in the history.
func c17BrokenPipe(ctx *Ctx, r *rand.Rand) {
	base := filepath.Join(ctx.Scratch, "cs-pipe")
	defer os.RemoveAll(base)
	var cmds []vlib.Cmd
	for i := 0; i < 160; i++ {
		cmds = append(cmds, vlib.Cmd{Command: fmt.Sprintf("bigtool%d --flag", i), Description: "report " + strings.Repeat(fmt.Sprintf("verbose%d text ", i), 150), Keywords: []string{"report"}})
	}
	for k := 0; k < ctx.Pick(2, 12); k++ {
		h := NewHome(filepath.Join(base, fmt.Sprintf("h%d", k)))
		dbp := filepath.Join(base, "big.yml")
		vlib.WriteYAML(dbp, cmds)
		q := []string{"report", "report verbose1", "REPORT text"}[r.Intn(3)]
		if q == "report" {
			q = "report text"
		}
		format := []string{"list", "json"}[r.Intn(2)] // the table format cuts its cells short: its output stays below a pipe buffer
		args := []string{"--database", dbp, "--all-platforms", "--limit", "100", "--format", format, "-v", "--", q}
		cs := map[string]interface{}{"class": "reader-closes-the-pipe-after-one-line", "args_quoted": fmt.Sprintf("%q", args)}
		ctx.R.Begin(cs)
		ctx.R.Eval(1)
		full := h.Wtf(ctx.Wtf, nil, args...)
		os.Remove(h.History())
		// the reader takes the output up to a few KiB into the result block (so the search has run and its answer is being
		// printed), then closes its end of the pipe
		cmd := exec.Command(ctx.Wtf, args...)
		cmd.Dir = h.Cwd
		cmd.Env = []string{"HOME=" + h.Dir, "PATH=/usr/bin:/bin", "LANG=C.UTF-8", "GOTRACEBACK=all"}
		var stderr bytes.Buffer
		cmd.Stderr = &stderr
		pipe, perr := cmd.StdoutPipe()
		if perr != nil || cmd.Start() != nil {
			ctx.R.Inconcl("cannot start the binary with a pipe")
			continue
		}
		var got []byte
		buf := make([]byte, 512)
		for {
			n, err := pipe.Read(buf)
			got = append(got, buf[:n]...)
			if i := bytes.Index(got, []byte("Searching for: ")); i >= 0 && len(got) > i+4000 {
				break
			}
			if err != nil {
				break
			}
		}
		pipe.Close()
		done := make(chan struct{})
		go func() { cmd.Wait(); close(done) }()
		select {
		case <-done:
		case <-time.After(60 * time.Second):
			cmd.Process.Kill()
			<-done
		}
		res := CLIResult{Stdout: string(got), Stderr: stderr.String()}
		if len(got) < 4000 || len(full.Stdout) < 70000 {
			ctx.R.Inconcl("answer too small for the broken-pipe case")
			continue
		}
		ctx.R.Path("broken-pipe-runs", 1)
		if len(full.Stdout) > 70000 {
			ctx.R.Path("broken-pipe-runs-with-output-over-64KiB", 1)
			ctx.R.Nontriv("broken-pipe", k, q, format)
		}
		if strings.Contains(res.Stderr, "panic:") || strings.Contains(res.Stderr, "fatal error:") {
			ctx.R.Violate(vlib.Violation{Property: "C17", Clause: "command-crashes", Path: "wtf search | reader that leaves early", Detail: "panic when the reader of the output went away",
				Witness: map[string]interface{}{"case": cs, "stderr": vlib.Trunc(res.Stderr, 1200)}})
			continue
		}
		want, err := validation.ValidateQuery(q)
		hf, ok := c17ReadHist(h.History())
		if err != nil {
			continue
		}
		if !ok || len(hf.Entries) != 1 || hf.Entries[0].Query != want {
			n := -1
			if ok {
				n = len(hf.Entries)
			}
			ctx.R.Violate(vlib.Violation{Property: "C17", Clause: "history-missing-or-unreadable", Path: "wtf search | reader that leaves early",
				Detail:  fmt.Sprintf("the search printed %d bytes when read to the end; with a reader that closes the pipe a few KiB into the result block the history holds %d entries (readable: %v) instead of the one entry for %s", len(full.Stdout), n, ok, vlib.Q(want)),
				Witness: cs})
		}
	}
}

// c17RunStdin runs wtf with scripted standard input.
func c17RunStdin(h *Home, wtf string, stdin string, args ...string) CLIResult {
	ctxT, cancel := context.WithTimeout(context.Background(), 30*time.Second)
	defer cancel()
	cmd := exec.CommandContext(ctxT, wtf, args...)
	cmd.Dir = h.Cwd
	cmd.Env = []string{"HOME=" + h.Dir, "PATH=/usr/bin:/bin", "GOTRACEBACK=all"}
	cmd.Stdin = strings.NewReader(stdin)
	var so, se bytes.Buffer
	cmd.Stdout, cmd.Stderr = &so, &se
	err := cmd.Run()
	res := CLIResult{Stdout: so.String(), Stderr: se.String()}
	res.TimedOut = ctxT.Err() == context.DeadlineExceeded
	if ee, ok := err.(*exec.ExitError); ok {
		res.RC = ee.ExitCode()
		if ws, ok := ee.Sys().(syscall.WaitStatus); ok && ws.Signaled() {
			res.Signal = ws.Signal().String()
		}
	}
	return res
}

// engineCLICommands: every documented sub-command starts and finishes without crashing for generated arguments.
func engineCLICommands(ctx *Ctx) {
	r := vlib.NewRand(ctx.Seed, ctx.Shard, "cli-commands")
	n := ctx.N(1600, 48000)
	base := filepath.Join(ctx.Scratch, "cc")
	h := NewHome(base)
	dbp := filepath.Join(base, "db.yml")
	vlib.WriteYAML(dbp, c17UniqueDB(r, 30, 1))
	arg := func() string {
		return []string{"", "x", "tar", "find", "ffmpeg", "docker", "-", "--", "-x", "--bogus", "日本語", "\x01\x02", "a b c", strings.Repeat("y", 3000), "'", "\"", "$(id)", "../..", "/", "null", "0", "-1", "%s"}[r.Intn(23)]
	}
	for i := 0; i < n; i++ {
		var args []string
		stdin := ""
		useStdin := false
		switch k := r.Intn(16); k {
		case 0:
			args = []string{"--help"}
		case 1:
			args = []string{"--version"}
		case 2:
			args = []string{"help", []string{"search", "save", "save-pipeline", "pipeline", "history", "wizard", "alias", "setup", "nope"}[r.Intn(9)]}
		case 3:
			args = []string{"history", []string{"", "--top", "--stats", "--clear", "-t", "-s", "--limit=3", "--limit=-1", "--limit=0"}[r.Intn(9)]}
			if args[1] == "" {
				args = args[:1]
			}
			if r.Intn(3) == 0 {
				args = append(args, arg())
			}
		case 4:
			args = []string{"pipeline", "--database", dbp, "--", arg()}
			if r.Intn(2) == 0 {
				args = []string{"pipeline", "--database", dbp, "-v", "--limit", "3", "--", "sort text"}
			}
		case 5:
			args = []string{"wizard"}
			if r.Intn(3) > 0 {
				args = append(args, []string{"tar", "find", "ffmpeg", "unknown", "TAR", ""}[r.Intn(6)])
			}
			if r.Intn(2) == 0 {
				useStdin = true
				for j := 0; j < r.Intn(8); j++ {
					stdin += []string{"1", "2", "3", "9", "y", "n", "", "file.txt", "q", "0", "-1", "abc", strings.Repeat("z", 500)}[r.Intn(13)] + "\n"
				}
			}
		case 6:
			args = []string{"alias", []string{"add", "list", "remove", "bogus", ""}[r.Intn(5)]}
			for j := 0; j < r.Intn(3); j++ {
				args = append(args, []string{"w", "wtf2", "my alias", "../x", "", "-"}[r.Intn(6)])
			}
		case 7:
			// `wtf setup <name>`: names a user may type (and names that are special to a shell, a format string or a pattern
			// language), with shell start-up files absent, empty, commented, or already holding alias lines from earlier runs
			names := []string{"hey", "miko", "cmd", "c++", "grep(", "what?*", "a[b", "x\\", ".*", "^$", "%s%d", "a=b", "my alias", "日本", "-", "$(id)", "'", strings.Repeat("n", 300), "(?i)x", "a{2,1}", "\\Q", "[[:alpha:]"}
			args = []string{"setup"}
			if r.Intn(8) > 0 {
				args = append(args, "--", names[r.Intn(len(names))])
			}
			for _, rc := range []string{".bashrc", ".zshrc"} {
				p := filepath.Join(h.Dir, rc)
				switch r.Intn(6) {
				case 0:
					os.Remove(p)
				case 1:
					os.WriteFile(p, nil, 0o644)
				case 2:
					os.WriteFile(p, []byte("# rc\n"), 0o644)
				case 3:
					os.WriteFile(p, []byte("# rc\nalias ll='ls -l'\nalias hey='/usr/local/bin/wtf'\n  alias c++='wtf'\nunalias miko\n# alias cmd='x'\n"), 0o644)
				case 4:
					os.WriteFile(p, []byte("export PATH=$PATH:~/bin\nalias "+names[r.Intn(len(names))]+"='wtf'\n"), 0o644)
				default: // left as the earlier runs made it
				}
			}
			ctx.R.Path("setup-runs", 1)
		case 8:
			args = []string{"save", "--", arg(), arg()}
		case 9:
			args = []string{"save-pipeline", "--", arg(), arg()}
		case 10:
			args = []string{"save"}
			for j := 0; j < r.Intn(4); j++ {
				args = append(args, arg())
			}
		case 11:
			args = []string{"search", "--database", dbp, "--", arg()}
		case 12:
			args = []string{"--database", dbp, "--limit", arg(), "--", "list files"}
		case 13:
			args = []string{"--database", arg(), "--", "list files"}
		case 14:
			args = []string{arg(), arg()}
		default:
			args = []string{"--format", arg(), "--database", dbp, "--platform", arg(), "--", "copy file"}
		}
		cs := map[string]interface{}{"args_quoted": fmt.Sprintf("%q", args), "stdin": vlib.Trunc(stdin, 100)}
		ctx.R.Begin(cs)
		ctx.R.Eval(1)
		hasNUL := false
		for _, a := range args {
			if strings.Contains(a, "\x00") {
				hasNUL = true
			}
		}
		if hasNUL {
			continue
		}
		var res CLIResult
		if useStdin {
			res = c17RunStdin(h, ctx.Wtf, stdin, args...)
		} else {
			res = h.Wtf(ctx.Wtf, nil, args...)
		}
		sub := args[0]
		if strings.HasPrefix(sub, "-") || len(args) == 0 {
			sub = "root"
		}
		known := map[string]bool{"search": true, "save": true, "save-pipeline": true, "pipeline": true, "history": true, "wizard": true, "alias": true, "setup": true, "help": true, "root": true}
		if !known[sub] {
			sub = "root"
		}
		ctx.R.Path("cmd-"+sub, 1)
		ctx.R.Nontriv(fmt.Sprintf("%q", args), stdin)
		if bad, why := res.Crashed(); bad {
			ctx.R.Violate(vlib.Violation{Property: "C17", Clause: "command-crashes", Path: "wtf " + sub, Detail: why + ": " + vlib.Trunc(strings.TrimSpace(res.Stderr), 200),
				Witness: map[string]interface{}{"case": cs, "stderr": vlib.Trunc(res.Stderr, 1500), "stdout": vlib.Trunc(res.Stdout, 300)}})
		}
		if i < 3 {
			ctx.R.Sample(cs)
		}
	}
}

// noColorIrrelevant: the list parser needs colour off to read command lines reliably.
func noColorIrrelevant(flag bool, env string) bool { return !flag && env == "" }

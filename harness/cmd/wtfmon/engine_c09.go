package main

import (
	"bytes"
	"encoding/json"
	"fmt"
	"github.com/Vedant9500/WTF/internal/history"
	"os"
	"os/exec"
	"path/filepath"
	"regexp"
	"sort"
	"strings"
	"syscall"
	"time"

	"github.com/Vedant9500/WTF/internal/database"
	"github.com/Vedant9500/WTF/internal/zzverif/vlib"
)

func init() { engines["crashwrite"] = engineCrashWrite }

const c09Syscalls = "openat,write,pwrite64,writev,fsync,fdatasync,rename,renameat,renameat2,close,unlink,unlinkat,ftruncate,link,linkat"

type c09Hist struct {
	Entries []struct {
		Query        string `json:"query"`
		ResultsCount int    `json:"results_count"`
		Context      string `json:"context"`
	} `json:"entries"`
	MaxSize int `json:"max_size"`
}

func c09HistKey(b []byte) (string, bool) {
	var h c09Hist
	if err := json.Unmarshal(b, &h); err != nil {
		return "", false
	}
	var sb strings.Builder
	fmt.Fprintf(&sb, "max=%d;", h.MaxSize)
	for _, e := range h.Entries {
		fmt.Fprintf(&sb, "%q/%d/%q;", e.Query, e.ResultsCount, e.Context)
	}
	return sb.String(), true
}

type c09Op struct {
	Name   string
	Args   []string
	Target string // "notebook" or "history"
	OkMsg  string
}

type c09State struct {
	Name     string
	Notebook []byte // nil = missing
	History  []byte // nil = missing
	// how the files sit in the file system: "" plain, "hard-linked" (a second name elsewhere, as a dotfiles checkout or a backup
	// tool makes), "symlinked" (the configuration path is a relative symbolic link into a sibling directory)
	Layout string
	// the files were last written days ago (the usual state of a notebook)
	Aged bool
	// extra environment of the runs (TMPDIR on another file system)
	Env []string
}

// c09Env: the extra environment of the runs of the state in hand.
var c09Env []string

func c09Notebook(n int) []byte {
	if n == 0 {
		return nil
	}
	var cmds []vlib.Cmd
	for i := 0; i < n; i++ {
		cmds = append(cmds, vlib.Cmd{Command: fmt.Sprintf("saved-tool-%d --flag value%d | sort", i, i), Description: fmt.Sprintf("my irreplaceable command number %d with some longer description text", i),
			Keywords: []string{"mine", fmt.Sprintf("kw%d", i)}, Niche: "personal", Platform: []string{"linux"}, Pipeline: i%2 == 0})
	}
	p := vlib.ScratchPath("nb.yml")
	vlib.WriteYAML(p, cmds)
	b, _ := os.ReadFile(p)
	os.Remove(p)
	return b
}

func c09History(n int) []byte {
	if n == 0 {
		return nil
	}
	var sb strings.Builder
	sb.WriteString("{\n  \"entries\": [\n")
	for i := 0; i < n; i++ {
		if i > 0 {
			sb.WriteString(",\n")
		}
		fmt.Fprintf(&sb, "    {\n      \"query\": \"earlier query %d\",\n      \"timestamp\": \"2026-01-02T03:04:%02d.5Z\",\n      \"results_count\": %d,\n      \"context\": \"generic directory\",\n      \"duration\": %d\n    }", i, i%60, i%7, 1+i%9)
	}
	sb.WriteString("\n  ],\n  \"max_size\": 100\n}")
	return []byte(sb.String())
}

func (s c09State) prepare(h *Home) {
	os.RemoveAll(h.Dir)
	os.MkdirAll(h.Dir, 0o755)
	os.MkdirAll(h.Cwd, 0o755)
	if s.Notebook != nil {
		os.MkdirAll(filepath.Dir(h.Personal()), 0o755)
		os.WriteFile(h.Personal(), s.Notebook, 0o644)
	}
	if s.History != nil {
		os.MkdirAll(filepath.Dir(h.History()), 0o755)
		os.WriteFile(h.History(), s.History, 0o644)
	}
	switch s.Layout {
	case "hard-linked":
		os.MkdirAll(filepath.Join(h.Dir, "other-names"), 0o755)
		if s.Notebook != nil {
			os.Link(h.Personal(), filepath.Join(h.Dir, "other-names", "notebook"))
		}
		if s.History != nil {
			os.Link(h.History(), filepath.Join(h.Dir, "other-names", "history"))
		}
	case "symlinked":
		store := filepath.Join(h.Dir, "dotfiles", "wtf")
		os.MkdirAll(store, 0o755)
		for _, p := range []string{h.Personal(), h.History()} {
			if b, err := os.ReadFile(p); err == nil {
				real := filepath.Join(store, filepath.Base(p))
				os.WriteFile(real, b, 0o644)
				os.Remove(p)
				rel, _ := filepath.Rel(filepath.Dir(p), real)
				os.Symlink(rel, p)
			}
		}
	}
	if s.Aged {
		then := time.Now().Add(-75 * time.Hour)
		for _, p := range []string{h.Personal(), h.History(), filepath.Dir(h.Personal()), filepath.Dir(h.History())} {
			os.Chtimes(p, then, then)
		}
	}
	c09Env = s.Env
}

var c09TidRe = regexp.MustCompile(`^(\d+)\s+([a-z0-9_]+)\(`)

// c09Count parses a strace -f log: for each system call name, the largest number of invocations by one thread.
func c09Count(trace []byte) map[string]int {
	per := map[string]int{}
	for _, l := range strings.Split(string(trace), "\n") {
		if m := c09TidRe.FindStringSubmatch(l); m != nil {
			per[m[1]+" "+m[2]]++
		}
	}
	out := map[string]int{}
	for k, c := range per {
		name := strings.SplitN(k, " ", 2)[1]
		if c > out[name] {
			out[name] = c
		}
	}
	return out
}

// c09Run runs the operation under an optional RLIMIT_FSIZE (k >= 0) and an
// optional kill before the n-th traced system call of a thread (n > 0).
func c09Run(ctx *Ctx, h *Home, op c09Op, k int64, n int, traceOut string) CLIResult {
	return c09RunSys(ctx, h, op, k, "", n, traceOut)
}

// c09RunSys: strace counts invocations per system call, so a crash point is (system call name, n): the process is
// killed on entering its n-th invocation of that call (in the thread that makes it).
func c09RunSys(ctx *Ctx, h *Home, op c09Op, k int64, sys string, n int, traceOut string) CLIResult {
	var argv []string
	if n > 0 || traceOut != "" {
		argv = []string{"strace", "-f", "-qq"}
		if traceOut != "" {
			argv = append(argv, "-o", traceOut)
		} else {
			argv = append(argv, "-o", "/dev/null")
		}
		argv = append(argv, "-e", "trace="+c09Syscalls)
		if n > 0 {
			if sys == "" {
				sys = c09Syscalls
			}
			argv = append(argv, "-e", fmt.Sprintf("inject=%s:signal=SIGKILL:when=%d", sys, n))
		}
	}
	if k >= 0 {
		argv = append(argv, "prlimit", fmt.Sprintf("--fsize=%d", k))
	}
	argv = append(argv, ctx.Wtf)
	argv = append(argv, op.Args...)
	return h.RunCmd(60*time.Second, c09Env, argv...)
}

// c09OtherVolume: a directory on a file system other than the one that holds dir (the memory-backed /dev/shm), for TMPDIR.
func c09OtherVolume(ctx *Ctx, dir string) string {
	var a, b syscall.Stat_t
	if syscall.Stat("/dev/shm", &a) != nil || syscall.Stat(dir, &b) != nil || a.Dev == b.Dev {
		return ""
	}
	d := fmt.Sprintf("/dev/shm/wtfverif_c09_%d_%d", os.Getpid(), ctx.Shard)
	if os.MkdirAll(d, 0o755) != nil {
		return ""
	}
	return d
}

func engineCrashWrite(ctx *Ctx) {
	if _, err := exec.LookPath("strace"); err != nil {
		ctx.R.Extra["strace_missing"] = 1
	}
	base := filepath.Join(ctx.Scratch, "cw")
	h := NewHome(base)
	mainP := filepath.Join(base, "main.yml")
	os.MkdirAll(base, 0o755)
	vlib.WriteYAML(mainP, []vlib.Cmd{{Command: "tar -czf x.tgz dir", Description: "compress a directory", Keywords: []string{"tar", "compress"}},
		{Command: "ls -la", Description: "list directory contents", Keywords: []string{"list"}}})
	ops := []c09Op{
		{"save", []string{"save", "--keywords=new,entry", "--category=fresh", "--", "echo brand-new-command", "a new description saved now"}, "notebook", "saved successfully"},
		{"save-pipeline", []string{"save-pipeline", "--", "my-pipe", "cat access.log | grep ERROR | sort | uniq -c"}, "notebook", "saved successfully"},
		{"search", []string{"--database", mainP, "--all-platforms", "--", "compress directory"}, "history", ""},
		// saving a command string that is already in the notebook (replace instead of append)
		{"save-replace", []string{"save", "--keywords=changed", "--", "saved-tool-0 --flag value0 | sort", "the description was edited and is now different"}, "notebook", "saved successfully"},
		// an immediate repeat of the newest history entry (update in place)
		{"search-repeat", []string{"--database", mainP, "--all-platforms", "--", "earlier query 1"}, "history", ""},
		// saving an existing command again with everything as before except the platforms it is declared for
		{"save-replace-platforms-only", []string{"save", "--keywords=mine,kw0", "--category=personal", "--platforms=windows,macos", "--pipeline", "--",
			"saved-tool-0 --flag value0 | sort", "my irreplaceable command number 0 with some longer description text"}, "notebook", "saved successfully"},
	}
	states := []c09State{
		{Name: "notebook-missing/history-missing"},
		{Name: "notebook-300B/history-2", Notebook: c09Notebook(2), History: c09History(2)},
		{Name: "notebook-5KB/history-100", Notebook: c09Notebook(ctx.Pick(25, 25)), History: c09History(100)},
	}
	if ctx.Thorough {
		states = append(states, c09State{Name: "notebook-20KB/history-30", Notebook: c09Notebook(100), History: c09History(30)})
	}
	states = append(states, c09State{Name: "notebook-5KB/history-100/hard-linked", Notebook: c09Notebook(25), History: c09History(100), Layout: "hard-linked"},
		c09State{Name: "notebook-5KB/history-100/symlinked", Notebook: c09Notebook(25), History: c09History(100), Layout: "symlinked"})
	// a notebook of several hundred KiB (years of use): whatever is done differently for large files is reached only here
	states = append(states, c09State{Name: "notebook-330KB/history-2", Notebook: c09Notebook(1500), History: c09History(2)})
	// files last written three days ago
	states = append(states, c09State{Name: "notebook-2KB/history-10/written-days-ago", Notebook: c09Notebook(10), History: c09History(10), Aged: true})
	// the directory for temporary files ($TMPDIR) is on another file system than the configuration directory (tmpfs /tmp, disk /home)
	if tmp := c09OtherVolume(ctx, base); tmp != "" {
		defer os.RemoveAll(tmp)
		states = append(states, c09State{Name: "notebook-2KB/history-10/TMPDIR-on-another-volume", Notebook: c09Notebook(10), History: c09History(10), Env: []string{"TMPDIR=" + tmp}})
	} else {
		ctx.R.Path("no-second-volume-for-TMPDIR", 1)
	}
	caseNo := 0
	mine := func() bool { caseNo++; return caseNo%ctx.NShards == ctx.Shard }
	for _, op := range ops {
		for _, st := range states {
			target := h.Personal()
			old := st.Notebook
			if op.Target == "history" {
				target = h.History()
				old = st.History
			}
			// fault-free run: the complete new content
			st.prepare(h)
			ff := c09Run(ctx, h, op, -1, 0, "")
			newB, err := os.ReadFile(target)
			if bad, why := ff.Crashed(); bad || err != nil || (op.OkMsg != "" && !strings.Contains(ff.Stdout, op.OkMsg)) {
				ctx.R.Violate(vlib.Violation{Property: "C09", Clause: "fault-free-run-fails", Path: op.Name, Detail: fmt.Sprintf("the fault-free reference run failed: %v %v", why, err),
					Witness: map[string]interface{}{"op": op.Name, "state": st.Name, "stdout": vlib.Trunc(ff.Stdout, 600), "stderr": vlib.Trunc(ff.Stderr, 600)}})
				continue
			}
			if op.OkMsg != "" && old != nil && bytes.Equal(newB, old) {
				ctx.R.Violate(vlib.Violation{Property: "C09", Clause: "success-reported-but-not-saved", Path: op.Name + "/fault-free",
					Detail:  fmt.Sprintf("without any fault %s printed its success message, yet the notebook reached through its path is unchanged (%d bytes)", op.Name, len(old)),
					Witness: map[string]interface{}{"op": op.Name, "state": st.Name, "stdout": vlib.Trunc(ff.Stdout, 400)}})
				continue
			}
			ctx.R.Path("layout:"+map[string]string{"": "plain"}[st.Layout]+st.Layout, 1)
			if st.Aged {
				ctx.R.Path("states-written-days-ago", 1)
			}
			if st.Env != nil {
				ctx.R.Path("states-with-TMPDIR-on-another-volume", 1)
			}
			oldKey, newKey := "", ""
			if op.Target == "history" {
				newKey, _ = c09HistKey(newB)
				if old != nil {
					oldKey, _ = c09HistKey(old)
				}
			}
			// count traced system calls per thread (fault-free, under the same wrappers)
			maxCalls := map[int64]map[string]int{}
			for _, k := range []int64{-1, 0} {
				st.prepare(h)
				tr := filepath.Join(base, "trace.txt")
				os.Remove(tr)
				c09Run(ctx, h, op, k, 0, tr)
				tb, _ := os.ReadFile(tr)
				maxCalls[k] = c09Count(tb)
			}
			verdict := func(cs map[string]interface{}, flavour string, res CLIResult) {
				got, rerr := os.ReadFile(target)
				missing := rerr != nil
				state := "torn"
				switch {
				case missing && old == nil:
					state = "old"
				case missing:
					state = "torn" // file vanished although it existed
				case op.Target == "notebook" && old != nil && bytes.Equal(got, old):
					state = "old"
				case op.Target == "notebook" && bytes.Equal(got, newB):
					state = "new"
				case old == nil && len(got) == 0:
					state = "old" // nothing before, nothing now
				case op.Target == "history":
					if old != nil && bytes.Equal(got, old) {
						state = "old"
					} else if key, ok := c09HistKey(got); ok {
						if key == newKey {
							state = "new"
						} else if old != nil && key == oldKey {
							state = "old"
						}
					}
				}
				ctx.R.Path("after-"+flavour+"-"+state, 1)
				path := op.Name + "/" + flavour
				if state == "torn" {
					detail := fmt.Sprintf("%s holds %d bytes: neither the complete previous content (%d bytes) nor the complete new content (%d bytes)", filepath.Base(target), len(got), len(old), len(newB))
					if missing {
						detail = filepath.Base(target) + " no longer exists"
					}
					if op.Target == "notebook" && old != nil {
						// how much of what was saved earlier is still loadable?
						lost := "notebook no longer loads"
						if db, err := database.LoadDatabase(target); err == nil {
							lost = fmt.Sprintf("notebook still parses, silently, with %d entries", len(db.Commands))
						}
						detail += "; " + lost
					}
					ctx.R.Violate(vlib.Violation{Property: "C09", Clause: "torn-file", Path: path, Detail: detail,
						Witness: map[string]interface{}{"case": cs, "file_after_hex": fmt.Sprintf("%x", vlib.Trunc(string(got), 300)), "stdout": vlib.Trunc(res.Stdout, 400)}})
				}
				if op.OkMsg != "" && strings.Contains(res.Stdout, op.OkMsg) && state != "new" {
					ctx.R.Violate(vlib.Violation{Property: "C09", Clause: "success-reported-but-not-saved", Path: path,
						Detail:  fmt.Sprintf("%s printed its success message but the notebook is %s", op.Name, state),
						Witness: map[string]interface{}{"case": cs, "stdout": vlib.Trunc(res.Stdout, 400)}})
				}
				if op.OkMsg != "" && !strings.Contains(res.Stdout, op.OkMsg) && res.Signal == "" && state == "old" {
					ctx.R.Path("failure-reported", 1)
				}
				// stray temporary files (reported, not a violation)
				if ents, err := os.ReadDir(filepath.Dir(target)); err == nil && len(ents) > 1 {
					ctx.R.Path("stray-files-beside-target", 1)
				}
			}
			// flavour 1: the write fails after k bytes (disk full / quota)
			var ks []int64
			L := int64(len(newB))
			switch {
			case L <= 512 || (ctx.Thorough && L <= 40000):
				for k := int64(0); k <= L; k++ {
					ks = append(ks, k)
				}
			default:
				step := int64(61)
				if L/150 > step {
					step = L / 150
				}
				for k := int64(0); k <= L; k += step {
					ks = append(ks, k)
				}
				ks = append(ks, 1, L-1, L, L+1)
				// densely around the previous length: a write that extends the file instead of replacing it is cut there
				if O := int64(len(old)); O > 0 && L > 40000 {
					d := int64(ctx.Pick(5, 1))
					for k := O - 8; k <= L+1 && k <= O+4096; k += d {
						if k >= 0 {
							ks = append(ks, k)
						}
					}
					ctx.R.Path("efbig-dense-around-previous-length", 1)
				}
			}
			for _, k := range ks {
				if !mine() {
					continue
				}
				cs := map[string]interface{}{"op": op.Name, "state": st.Name, "flavour": "write-fails-after-k-bytes", "k": k, "new_len": L, "old_len": len(old)}
				ctx.R.Begin(cs)
				ctx.R.Eval(1)
				st.prepare(h)
				res := c09Run(ctx, h, op, k, 0, "")
				if bad, why := res.Crashed(); bad {
					ctx.R.Violate(vlib.Violation{Property: "C09", Clause: "crash-on-write-failure", Path: op.Name + "/efbig", Detail: why, Witness: map[string]interface{}{"case": cs, "stderr": vlib.Trunc(res.Stderr, 1500)}})
				}
				if k < L {
					ctx.R.Nontriv(op.Name, st.Name, "efbig", k)
					ctx.R.Path("faults-efbig-biting", 1)
				}
				verdict(cs, "efbig", res)
			}
			// flavours 2+3: process killed before its n-th system call, with and without a short write before
			for _, k := range []int64{-1, L / 3, 0} {
				counts := map[string]int{}
				for name, c := range maxCalls[-1] {
					counts[name] = c
				}
				if k >= 0 {
					for name, c := range maxCalls[0] {
						if c > counts[name] {
							counts[name] = c
						}
					}
				}
				names := make([]string, 0, len(counts))
				for name := range counts {
					names = append(names, name)
				}
				sort.Strings(names)
				for _, sys := range names {
					for n := 1; n <= counts[sys]+1; n++ {
						if !mine() {
							continue
						}
						cs := map[string]interface{}{"op": op.Name, "state": st.Name, "flavour": "killed-on-entering-nth-call", "syscall": sys, "k": k, "n": n, "new_len": L, "old_len": len(old)}
						ctx.R.Begin(cs)
						ctx.R.Eval(1)
						st.prepare(h)
						res := c09RunSys(ctx, h, op, k, sys, n, "")
						if res.Signal != "" || res.RC == 137 {
							ctx.R.Nontriv(op.Name, st.Name, "kill", k, sys, n)
							ctx.R.Path("faults-killed", 1)
							ctx.R.Path("killed-on:"+sys, 1)
						} else {
							ctx.R.Path("kill-point-not-reached", 1)
						}
						verdict(cs, "kill", res)
					}
				}
			}
			// flavour: every attempt to move a file into place is refused (a volume that accepts writes but no more directory
			// updates, a stale network handle): however the program goes on from there, the file holds its previous content or the new one
			for _, errno := range []string{"ENOSPC", "EIO", "EPERM", "EXDEV", "EBUSY", "ESTALE", "EDQUOT"} {
				if !mine() {
					continue
				}
				cs := map[string]interface{}{"op": op.Name, "state": st.Name, "flavour": "every-rename-fails", "errno": errno, "new_len": L, "old_len": len(old)}
				ctx.R.Begin(cs)
				ctx.R.Eval(1)
				st.prepare(h)
				argv := []string{"strace", "-f", "-qq", "-o", "/dev/null", "-e", "trace=rename,renameat,renameat2,link,linkat", "-e", "inject=rename,renameat,renameat2,link,linkat:error=" + errno, ctx.Wtf}
				res := h.RunCmd(60*time.Second, c09Env, append(argv, op.Args...)...)
				if bad, why := res.Crashed(); bad {
					ctx.R.Violate(vlib.Violation{Property: "C09", Clause: "crash-on-write-failure", Path: op.Name + "/rename-fails", Detail: why, Witness: map[string]interface{}{"case": cs, "stderr": vlib.Trunc(res.Stderr, 1500)}})
				}
				ctx.R.Nontriv(op.Name, st.Name, "rename-fails", errno)
				ctx.R.Path("faults-every-rename-refused", 1)
				verdict(cs, "rename-fails", res)
			}
			ctx.R.Sample(map[string]interface{}{"op": op.Name, "state": st.Name, "new_len": L, "syscalls_fault_free": fmt.Sprint(maxCalls[-1]), "k_values": len(ks)})
		}
	}
	// Flavour 4: a killed LONG write followed by an ordinary SHORTER write. Whatever the killed write left behind
	// (a temporary file, a partial file) must not leak into the result of the next successful write: everything
	// saved earlier stays loadable after any such event.
	longDesc := strings.Repeat("a very long description that makes the interrupted write large ", 60)
	type follow struct {
		name          string
		st            c09State
		op1, op2      c09Op
		checkNotebook bool
	}
	follows := []follow{
		{"notebook: killed long save, then short save", states[2],
			c09Op{"save", []string{"save", "--", "echo long-one", longDesc}, "notebook", "saved successfully"},
			c09Op{"save", []string{"save", "--", "echo short-two", "s"}, "notebook", "saved successfully"}, true},
		{"history: killed search with a long query, then history --clear", states[2],
			c09Op{"search", []string{"--database", mainP, "--all-platforms", "--", strings.Repeat("verylongqueryword ", 50)}, "history", ""},
			c09Op{"history", []string{"history", "--clear"}, "history", "cleared successfully"}, false},
	}
	for _, fw := range follows {
		fw.st.prepare(h)
		tr := filepath.Join(base, "trace2.txt")
		os.Remove(tr)
		c09Run(ctx, h, fw.op1, -1, 0, tr)
		tb, _ := os.ReadFile(tr)
		counts := c09Count(tb)
		var points [][2]interface{}
		for _, sys := range []string{"write", "fsync", "fdatasync", "rename", "renameat", "renameat2", "close", "openat", "unlink", "unlinkat"} {
			for n := 1; n <= counts[sys]; n++ {
				points = append(points, [2]interface{}{sys, n})
			}
		}
		for _, pt := range points {
			sys, n := pt[0].(string), pt[1].(int)
			if !mine() {
				continue
			}
			cs := map[string]interface{}{"scenario": fw.name, "flavour": "killed-long-write-then-shorter-write", "syscall": sys, "n": n}
			ctx.R.Begin(cs)
			ctx.R.Eval(1)
			fw.st.prepare(h)
			res1 := c09RunSys(ctx, h, fw.op1, -1, sys, n, "")
			killed := res1.Signal != "" || res1.RC == 137
			var before []string
			if fw.checkNotebook {
				if db, err := database.LoadDatabase(h.Personal()); err == nil {
					for _, c := range db.Commands {
						before = append(before, c.Command)
					}
				} else {
					continue // already reported by the first flavours
				}
			}
			res2 := c09Run(ctx, h, fw.op2, -1, 0, "")
			ctx.R.Path("follow-up-writes", 1)
			if killed {
				ctx.R.Path("follow-up-after-kill", 1)
				ctx.R.Nontriv("follow", fw.name, sys, n)
			}
			if bad, why := res2.Crashed(); bad || !strings.Contains(res2.Stdout, fw.op2.OkMsg) {
				ctx.R.Violate(vlib.Violation{Property: "C09", Clause: "later-write-fails-after-interrupted-write", Path: fw.op2.Name + "/after-kill",
					Detail: fmt.Sprintf("the ordinary operation after the interrupted one did not succeed: %v %s", why, vlib.Trunc(res2.Stdout, 200)), Witness: cs})
				continue
			}
			if fw.checkNotebook {
				db, err := database.LoadDatabase(h.Personal())
				if err != nil {
					ctx.R.Violate(vlib.Violation{Property: "C09", Clause: "earlier-entries-lost", Path: "save/after-kill",
						Detail: "after a killed save followed by an ordinary save the notebook no longer loads: " + vlib.Trunc(err.Error(), 200), Witness: cs})
					continue
				}
				ok := len(db.Commands) == len(before)+1
				for i := 0; ok && i < len(before); i++ {
					ok = db.Commands[i].Command == before[i]
				}
				if !ok || db.Commands[len(db.Commands)-1].Command != "echo short-two" {
					ctx.R.Violate(vlib.Violation{Property: "C09", Clause: "earlier-entries-lost", Path: "save/after-kill",
						Detail: fmt.Sprintf("after a killed save followed by an ordinary save the notebook holds %d entries, expected the %d earlier ones plus the new one", len(db.Commands), len(before)), Witness: cs})
				}
			} else {
				b, _ := os.ReadFile(h.History())
				key, okJ := c09HistKey(b)
				if !okJ || !strings.HasSuffix(key, ";") || strings.Contains(key, "/") {
					ctx.R.Violate(vlib.Violation{Property: "C09", Clause: "torn-file", Path: "history --clear/after-kill",
						Detail:  fmt.Sprintf("after a killed search followed by `history --clear` the history file (%d bytes) is not a complete empty history (parses: %v)", len(b), okJ),
						Witness: map[string]interface{}{"case": cs, "file_hex": fmt.Sprintf("%x", vlib.Trunc(string(b), 300))}})
				}
			}
		}
	}
	// Flavour 8: the failing or killed write is not the first of the day: two ordinary saves (searches) succeed first.
	c09AfterEarlierWrites(ctx, h, mainP, mine)
	c09Env = nil
	// Flavour 5: the target is a single-file bind mount from a nearly full volume (docker-style `-v file:file`): the
	// final rename is refused (EBUSY) and any write *in place* runs out of space after a few bytes. The file must still
	// be complete-old or complete-new, and a save that did not take effect must say so.
	if ctx.Shard == 0 || ctx.Shard == ctx.NShards/2 {
		c09BindMounted(ctx, h, base, mainP)
	}
	// Flavour 6: the volume that holds the configuration directory runs full: for every number of free pages from none to
	// enough, with and without temporary files left behind by earlier killed writes (left by really killing such a write).
	if ctx.Shard == 1%ctx.NShards || ctx.Shard == (ctx.NShards/2+1)%ctx.NShards {
		c09FullVolume(ctx, h, base, mainP)
	}
	// Flavour 7: within one process, a failed write followed by a successful one on the same object (a long-running user of the
	// history package): what the failed attempt prepared may not end up in the file the next attempt installs.
	if ctx.Shard == 2%ctx.NShards || ctx.Shard == (ctx.NShards/2+2)%ctx.NShards {
		c09InProcess(ctx, base)
	}
	// Flavour 9: the configuration directory does not allow new files (mode 0555, a directory owned by an administrator) while
	// the files in it are the user's own and writable, and the write that is attempted fails after k bytes. Needs an
	// unprivileged process (root ignores modes): the binary runs under setpriv as uid 65534.
	if ctx.Shard == 3%ctx.NShards || ctx.Shard == (ctx.NShards/2+3)%ctx.NShards {
		c09ReadOnlyDir(ctx, base, mainP)
	}
	ctx.R.Extra["strace_version"] = strings.TrimSpace(strings.SplitN(runOut("strace", "-V"), "\n", 2)[0])
}

func c09ReadOnlyDir(ctx *Ctx, base, mainP string) {
	sp, err := exec.LookPath("setpriv")
	if err != nil {
		ctx.R.Path("setpriv-unavailable", 1)
		return
	}
	os.Chmod(ctx.Scratch, 0o755)
	os.Chmod(base, 0o755)
	os.Chmod(mainP, 0o644)
	type sc struct {
		name   string
		target func(h *Home) string
		old    []byte
		op     c09Op
	}
	scs := []sc{
		{"notebook", func(h *Home) string { return h.Personal() }, c09Notebook(25), c09Op{"save", []string{"save", "--keywords=new,entry", "--", "echo brand-new-command", "a new description saved now"}, "notebook", "saved successfully"}},
		{"notebook", func(h *Home) string { return h.Personal() }, c09Notebook(25), c09Op{"save-replace", []string{"save", "--keywords=changed", "--", "saved-tool-0 --flag value0 | sort", "the description was edited and is now different"}, "notebook", "saved successfully"}},
		{"history", func(h *Home) string { return h.History() }, c09History(30), c09Op{"search", []string{"--database", mainP, "--all-platforms", "--", "compress directory"}, "history", ""}},
	}
	ks := []int64{-1, 0, 1, 2, 17, 100, 511, 512, 1000, 1024, 2000, 3000, 4095, 4096, 4097, 5000}
	for si, s := range scs {
		for _, k := range ks {
			hb := filepath.Join(base, fmt.Sprintf("rod%d", si))
			os.RemoveAll(hb)
			h := NewHome(hb)
			dst := s.target(h)
			os.MkdirAll(filepath.Dir(dst), 0o755)
			os.MkdirAll(h.Cwd, 0o755)
			os.WriteFile(dst, s.old, 0o644)
			filepath.Walk(hb, func(p string, _ os.FileInfo, _ error) error { os.Chown(p, 65534, 65534); return nil })
			os.Chmod(filepath.Dir(dst), 0o555)
			cs := map[string]interface{}{"scenario": s.name + " in a directory that allows no new files", "op": s.op.Name, "write_limit_bytes": k, "old_len": len(s.old), "uid": 65534}
			ctx.R.Begin(cs)
			ctx.R.Eval(1)
			argv := []string{}
			if k >= 0 {
				argv = append(argv, "prlimit", fmt.Sprintf("--fsize=%d", k))
			}
			argv = append(argv, sp, "--reuid", "65534", "--regid", "65534", "--clear-groups", ctx.Wtf)
			argv = append(argv, s.op.Args...)
			res := h.RunCmd(60*time.Second, nil, argv...)
			os.Chmod(filepath.Dir(dst), 0o755)
			got, _ := os.ReadFile(dst)
			ctx.R.Path("read-only-directory-runs", 1)
			ctx.R.Nontriv("rod", s.op.Name, k)
			if bad, why := res.Crashed(); bad {
				ctx.R.Violate(vlib.Violation{Property: "C09", Clause: "crash-on-write-failure", Path: s.op.Name + "/read-only-directory", Detail: why, Witness: cs})
				continue
			}
			state := "torn"
			switch {
			case bytes.Equal(got, s.old):
				state = "old"
			case s.op.Target == "history":
				if _, ok := c09HistKey(got); ok && len(got) >= len(s.old) {
					state = "new"
				}
			case s.op.Target == "notebook":
				if db, err := database.LoadDatabase(dst); err == nil && len(db.Commands) >= 25 && strings.Contains(res.Stdout, s.op.OkMsg) {
					state = "new"
				}
			}
			ctx.R.Path("after-read-only-directory-"+state, 1)
			if state == "torn" {
				ctx.R.Violate(vlib.Violation{Property: "C09", Clause: "torn-file", Path: s.op.Name + "/read-only-directory",
					Detail:  fmt.Sprintf("%s in a directory of mode 0555, write limit %d bytes: the file holds %d bytes, neither the complete previous content (%d bytes) nor a complete new one", s.name, k, len(got), len(s.old)),
					Witness: map[string]interface{}{"case": cs, "stdout": vlib.Trunc(res.Stdout, 300), "stderr": vlib.Trunc(res.Stderr, 300)}})
			}
			if s.op.OkMsg != "" && strings.Contains(res.Stdout, s.op.OkMsg) && bytes.Equal(got, s.old) {
				ctx.R.Violate(vlib.Violation{Property: "C09", Clause: "success-reported-but-not-saved", Path: s.op.Name + "/read-only-directory",
					Detail: "save printed its success message but the notebook is unchanged", Witness: cs})
			}
			os.RemoveAll(hb)
		}
	}
}

// c09AfterEarlierWrites: on files last written days ago (and on fresh ones), two ordinary writes succeed, then a third one
// fails after k bytes or is killed at a system call: the file holds the complete content the second write left, or the complete
// content of the third - in particular everything saved by the first two is still there.
func c09AfterEarlierWrites(ctx *Ctx, h *Home, mainP string, mine func() bool) {
	type scen struct {
		target  string
		earlier []c09Op
		last    c09Op
	}
	scens := []scen{
		{"notebook", []c09Op{
			{"save", []string{"save", "--", "echo first-today", "the first command saved today"}, "notebook", "saved successfully"},
			{"save", []string{"save", "--keywords=two", "--", "echo second-today | sort", "the second command saved today"}, "notebook", "saved successfully"}},
			c09Op{"save", []string{"save", "--", "echo third-today", "the third command saved today, the one whose write goes wrong"}, "notebook", "saved successfully"}},
		// a pipeline saved under a name, something else, then a pipeline saved under the same name with another command
		{"notebook", []c09Op{
			{"save-pipeline", []string{"save-pipeline", "--", "my-pipe", "cat access.log | sort"}, "notebook", "saved successfully"},
			{"save", []string{"save", "--", "echo in-between", "saved between the two pipelines"}, "notebook", "saved successfully"}},
			c09Op{"save-pipeline", []string{"save-pipeline", "--", "my-pipe", "cat access.log | sort | uniq -c | head"}, "notebook", "saved successfully"}},
		{"history", []c09Op{
			{"search", []string{"--database", mainP, "--all-platforms", "--", "compress directory"}, "history", ""},
			{"search", []string{"--database", mainP, "--all-platforms", "--", "list directory"}, "history", ""}},
			c09Op{"search", []string{"--database", mainP, "--all-platforms", "--", "directory contents"}, "history", ""}},
	}
	for _, aged := range []bool{true, false} {
		for _, sc := range scens {
			st := c09State{Name: "notebook-2KB/history-10", Notebook: c09Notebook(10), History: c09History(10), Aged: aged}
			if aged {
				st.Name += "/written-days-ago"
			}
			target := h.Personal()
			if sc.target == "history" {
				target = h.History()
			}
			key := func(b []byte) string {
				if sc.target == "history" {
					k, ok := c09HistKey(b)
					if !ok {
						return "unparsable:" + string(b)
					}
					return k
				}
				return string(b)
			}
			setup := func() ([]byte, bool) {
				st.prepare(h)
				for _, op := range sc.earlier {
					res := c09Run(ctx, h, op, -1, 0, "")
					if bad, _ := res.Crashed(); bad || (op.OkMsg != "" && !strings.Contains(res.Stdout, op.OkMsg)) {
						return nil, false
					}
				}
				b, err := os.ReadFile(target)
				return b, err == nil
			}
			old, ok := setup()
			if !ok {
				ctx.R.Inconcl("earlier-writes-failed")
				continue
			}
			c09Run(ctx, h, sc.last, -1, 0, "")
			newB, err := os.ReadFile(target)
			if err != nil || key(newB) == key(old) {
				ctx.R.Inconcl("third-write-changed-nothing")
				continue
			}
			counts := map[string]int{}
			for _, k := range []int64{-1, 0} {
				setup()
				tr := filepath.Join(filepath.Dir(mainP), "trace3.txt")
				os.Remove(tr)
				c09Run(ctx, h, sc.last, k, 0, tr)
				tb, _ := os.ReadFile(tr)
				for name, c := range c09Count(tb) {
					if c > counts[name] {
						counts[name] = c
					}
				}
			}
			verdict := func(cs map[string]interface{}, before []byte, res CLIResult, path string) {
				got, rerr := os.ReadFile(target)
				state := "torn"
				switch {
				case rerr != nil:
				case key(got) == key(before):
					state = "old"
				case key(got) == key(newB):
					state = "new"
				}
				ctx.R.Path("after-earlier-writes-"+state, 1)
				if state != "torn" {
					return
				}
				detail := fmt.Sprintf("after two successful writes and a third one that went wrong, %s holds %d bytes: neither what the second write left (%d bytes) nor the complete third content (%d bytes)",
					filepath.Base(target), len(got), len(before), len(newB))
				if sc.target == "notebook" {
					if db, err := database.LoadDatabase(target); err == nil {
						have := map[string]bool{}
						for _, c := range db.Commands {
							have[c.Command] = true
						}
						detail += fmt.Sprintf("; it loads with %d entries, first-today present: %v, second-today present: %v", len(db.Commands), have["echo first-today"], have["echo second-today | sort"])
					} else {
						detail += "; it no longer loads"
					}
				}
				ctx.R.Violate(vlib.Violation{Property: "C09", Clause: "earlier-entries-lost", Path: path, Detail: detail,
					Witness: map[string]interface{}{"case": cs, "stdout": vlib.Trunc(res.Stdout, 400), "file_after_quoted": vlib.Q(vlib.Trunc(string(got), 400))}})
			}
			L := int64(len(newB))
			for _, k := range []int64{0, 1, int64(len(old)) / 2, int64(len(old)), int64(len(old)) + 1, L - 1} {
				if !mine() {
					continue
				}
				cs := map[string]interface{}{"scenario": "two successful writes, then a failing one", "target": sc.target, "state": st.Name, "flavour": "write-fails-after-k-bytes", "k": k}
				ctx.R.Begin(cs)
				ctx.R.Eval(1)
				before, ok := setup()
				if !ok {
					ctx.R.Inconcl("earlier-writes-failed")
					continue
				}
				res := c09Run(ctx, h, sc.last, k, 0, "")
				ctx.R.Nontriv("after-earlier", sc.target, aged, "efbig", k)
				verdict(cs, before, res, sc.last.Name+"/after-earlier-writes/efbig")
			}
			names := make([]string, 0, len(counts))
			for name := range counts {
				names = append(names, name)
			}
			sort.Strings(names)
			for _, sys := range names {
				for n := 1; n <= counts[sys]+1; n++ {
					if !mine() {
						continue
					}
					cs := map[string]interface{}{"scenario": "two successful writes, then a killed one", "target": sc.target, "state": st.Name, "flavour": "killed-on-entering-nth-call", "syscall": sys, "n": n}
					ctx.R.Begin(cs)
					ctx.R.Eval(1)
					before, ok := setup()
					if !ok {
						ctx.R.Inconcl("earlier-writes-failed")
						continue
					}
					res := c09RunSys(ctx, h, sc.last, -1, sys, n, "")
					if res.Signal != "" || res.RC == 137 {
						ctx.R.Nontriv("after-earlier", sc.target, aged, sys, n)
					}
					verdict(cs, before, res, sc.last.Name+"/after-earlier-writes/kill")
				}
			}
			if aged {
				ctx.R.Path("after-earlier-writes-on-files-written-days-ago", 1)
			}
		}
	}
}

func runOut(name string, args ...string) string {
	b, _ := exec.Command(name, args...).CombinedOutput()
	return string(b)
}

func c09BindMounted(ctx *Ctx, h *Home, base, mainP string) {
	vol := filepath.Join(base, "vol")
	os.MkdirAll(vol, 0o755)
	if err := syscall.Mount("tmpfs", vol, "tmpfs", 0, "size=8192"); err != nil {
		ctx.R.Path("bind-mount-unavailable", 1)
		return
	}
	defer syscall.Unmount(vol, syscall.MNT_DETACH)
	type sc struct {
		name   string
		target func() string
		old    []byte
		op     c09Op
	}
	// old contents sized just below the 8192-byte volume, so that the new content does not fit
	hist := c09History(30)
	pad := 8150 - len(hist)
	if pad > 0 {
		hist = bytes.Replace(hist, []byte("\"context\": \"generic directory\""), []byte("\"context\": \"generic directory "+strings.Repeat("x", pad)+"\""), 1)
	}
	nEntries := 40
	nb := c09Notebook(nEntries)
	for len(nb) > 8150 && nEntries > 1 {
		nEntries--
		nb = c09Notebook(nEntries)
	}
	scs := []sc{
		{"history on a bind-mounted file", h.History, hist, c09Op{"search", []string{"--database", mainP, "--all-platforms", "--", "compress directory with a rather long query text to add bytes"}, "history", ""}},
		{"notebook on a bind-mounted file", h.Personal, nb, c09Op{"save", []string{"save", "--", "echo new", strings.Repeat("long description ", 20)}, "notebook", "saved successfully"}},
	}
	for _, s := range scs {
		for rep := 0; rep < 3; rep++ {
			os.RemoveAll(h.Dir)
			os.MkdirAll(h.Dir, 0o755)
			os.MkdirAll(h.Cwd, 0o755)
			dst := s.target()
			os.MkdirAll(filepath.Dir(dst), 0o755)
			src := filepath.Join(vol, "file")
			os.Remove(src)
			if err := os.WriteFile(src, s.old, 0o644); err != nil {
				ctx.R.Path("bind-mount-unavailable", 1)
				return
			}
			os.WriteFile(dst, nil, 0o644)
			if err := syscall.Mount(src, dst, "", syscall.MS_BIND, ""); err != nil {
				ctx.R.Path("bind-mount-unavailable", 1)
				return
			}
			cs := map[string]interface{}{"scenario": s.name, "flavour": "rename-refused-and-volume-full", "old_len": len(s.old), "volume_bytes": 8192}
			ctx.R.Begin(cs)
			ctx.R.Eval(1)
			res := c09Run(ctx, h, s.op, -1, 0, "")
			got, _ := os.ReadFile(dst)
			syscall.Unmount(dst, syscall.MNT_DETACH)
			ctx.R.Path("bind-mounted-target-runs", 1)
			ctx.R.Nontriv("bind", s.name, rep)
			if bad, why := res.Crashed(); bad {
				ctx.R.Violate(vlib.Violation{Property: "C09", Clause: "crash-on-write-failure", Path: s.op.Name + "/bind-mounted", Detail: why, Witness: cs})
				continue
			}
			complete := bytes.Equal(got, s.old)
			if !complete && s.op.Target == "history" {
				_, complete = c09HistKey(got) // a complete new history parses
			}
			if !complete && s.op.Target == "notebook" {
				if db, err := database.LoadDatabase(dst); err == nil && len(db.Commands) > 0 {
					complete = false // the volume cannot hold the complete new content
				}
			}
			if !complete {
				ctx.R.Violate(vlib.Violation{Property: "C09", Clause: "torn-file", Path: s.op.Name + "/bind-mounted",
					Detail:  fmt.Sprintf("%s: the file holds %d bytes, neither the complete previous content (%d bytes) nor a complete new one", s.name, len(got), len(s.old)),
					Witness: map[string]interface{}{"case": cs, "stdout": vlib.Trunc(res.Stdout, 300)}})
			}
			if s.op.OkMsg != "" && strings.Contains(res.Stdout, s.op.OkMsg) && bytes.Equal(got, s.old) {
				ctx.R.Violate(vlib.Violation{Property: "C09", Clause: "success-reported-but-not-saved", Path: s.op.Name + "/bind-mounted",
					Detail: "save printed its success message but the notebook is unchanged", Witness: cs})
			}
		}
	}
}

func c09FreePages(dir string) int64 {
	var st syscall.Statfs_t
	if err := syscall.Statfs(dir, &st); err != nil {
		return -1
	}
	return int64(st.Bavail)
}

func c09FullVolume(ctx *Ctx, h *Home, base, mainP string) {
	cfg := filepath.Join(h.Dir, ".config")
	type sc struct {
		name   string
		target func() string
		old    []byte
		op     c09Op
	}
	scs := []sc{
		{"notebook on a volume that runs full", h.Personal, c09Notebook(60), c09Op{"save", []string{"save", "--", "echo new", strings.Repeat("long description ", 20)}, "notebook", "saved successfully"}},
		{"history on a volume that runs full", h.History, c09History(60), c09Op{"search", []string{"--database", mainP, "--all-platforms", "--", "compress directory with a rather long query text to add bytes"}, "history", ""}},
	}
	mount := func() bool {
		os.RemoveAll(h.Dir)
		os.MkdirAll(cfg, 0o755)
		os.MkdirAll(h.Cwd, 0o755)
		if err := syscall.Mount("tmpfs", cfg, "tmpfs", 0, "size=262144"); err != nil {
			ctx.R.Path("full-volume-unavailable", 1)
			return false
		}
		return true
	}
	for si, s := range scs {
		if ctx.Shard != 1%ctx.NShards && si == 0 && ctx.NShards > 2 { // one scenario per participating shard
			continue
		}
		if ctx.Shard == 1%ctx.NShards && si == 1 && ctx.NShards > 2 {
			continue
		}
		// reference: the complete new content on a roomy volume
		if !mount() {
			return
		}
		dst := s.target()
		os.MkdirAll(filepath.Dir(dst), 0o755)
		os.WriteFile(dst, s.old, 0o644)
		c09Run(ctx, h, s.op, -1, 0, "")
		newB, _ := os.ReadFile(dst)
		syscall.Unmount(cfg, syscall.MNT_DETACH)
		newKey, _ := c09HistKey(newB)
		oldKey, _ := c09HistKey(s.old)
		need := int64(len(newB))/4096 + 2
		for leftovers := 0; leftovers <= 2; leftovers++ {
			for f := int64(0); f <= need+1; f++ {
				if !mount() {
					return
				}
				dst := s.target()
				os.MkdirAll(filepath.Dir(dst), 0o755)
				os.WriteFile(dst, s.old, 0o644)
				// earlier killed writes (killed when about to flush / about to rename): whatever they leave behind stays
				for i := 0; i < leftovers; i++ {
					c09RunSys(ctx, h, s.op, -1, []string{"fsync", "renameat"}[i%2], 1, "")
				}
				if ents, _ := os.ReadDir(filepath.Dir(dst)); len(ents) > 1 {
					ctx.R.Path("full-volume-with-leftover-files", 1)
				}
				old, _ := os.ReadFile(dst)
				if !bytes.Equal(old, s.old) { // the killed writes already completed or damaged it: reported by the other flavours
					if k, ok := c09HistKey(old); !(s.op.Target == "history" && ok && (k == newKey || k == oldKey)) && !bytes.Equal(old, newB) {
						syscall.Unmount(cfg, syscall.MNT_DETACH)
						continue
					}
				}
				// ballast: leave exactly f free pages
				ballast := filepath.Join(cfg, "ballast")
				size := int64(0)
				for try := 0; try < 6; try++ {
					free := c09FreePages(cfg)
					if free == f {
						break
					}
					size += (free - f) * 4096
					if size < 0 {
						size = 0
					}
					fh, err := os.OpenFile(ballast, os.O_CREATE|os.O_WRONLY, 0o644)
					if err != nil {
						break
					}
					fh.Truncate(0)
					fh.Write(make([]byte, size))
					fh.Close()
				}
				free := c09FreePages(cfg)
				cs := map[string]interface{}{"scenario": s.name, "flavour": "volume-full", "free_pages_requested": f, "free_pages": free, "leftover_killed_writes": leftovers,
					"old_len": len(old), "new_len": len(newB)}
				ctx.R.Begin(cs)
				ctx.R.Eval(1)
				res := c09Run(ctx, h, s.op, -1, 0, "")
				got, rerr := os.ReadFile(dst)
				syscall.Unmount(cfg, syscall.MNT_DETACH)
				ctx.R.Path("full-volume-runs", 1)
				ctx.R.Nontriv("full", s.name, leftovers, f)
				if bad, why := res.Crashed(); bad {
					ctx.R.Violate(vlib.Violation{Property: "C09", Clause: "crash-on-write-failure", Path: s.op.Name + "/volume-full", Detail: why, Witness: map[string]interface{}{"case": cs, "stderr": vlib.Trunc(res.Stderr, 1200)}})
					continue
				}
				state := "torn"
				switch {
				case rerr != nil:
				case bytes.Equal(got, old):
					state = "old"
				case s.op.Target == "notebook" && bytes.Equal(got, newB):
					state = "new"
				case s.op.Target == "history":
					if k, ok := c09HistKey(got); ok && k == newKey {
						state = "new"
					} else if ok && k == oldKey {
						state = "old"
					}
				}
				ctx.R.Path("after-volume-full-"+state, 1)
				if state == "torn" {
					detail := fmt.Sprintf("%s: with %d free pages and %d earlier killed writes the file holds %d bytes: neither the complete previous content (%d bytes) nor the complete new content (%d bytes)",
						s.name, free, leftovers, len(got), len(old), len(newB))
					if s.op.Target == "notebook" {
						if db, err := database.LoadDatabase(dst); err != nil {
							detail += "; notebook no longer loads"
						} else {
							detail += fmt.Sprintf("; notebook parses with %d entries", len(db.Commands))
						}
					}
					ctx.R.Violate(vlib.Violation{Property: "C09", Clause: "torn-file", Path: s.op.Name + "/volume-full", Detail: detail,
						Witness: map[string]interface{}{"case": cs, "stdout": vlib.Trunc(res.Stdout, 300), "file_after_hex": fmt.Sprintf("%x", vlib.Trunc(string(got), 200))}})
				}
				if s.op.OkMsg != "" && strings.Contains(res.Stdout, s.op.OkMsg) && state != "new" {
					ctx.R.Violate(vlib.Violation{Property: "C09", Clause: "success-reported-but-not-saved", Path: s.op.Name + "/volume-full",
						Detail: fmt.Sprintf("save printed its success message but the notebook is %s", state), Witness: cs})
				}
			}
		}
	}
}

func c09InProcess(ctx *Ctx, base string) {
	vol := filepath.Join(base, "inproc")
	os.MkdirAll(vol, 0o755)
	if err := syscall.Mount("tmpfs", vol, "tmpfs", 0, "size=131072"); err != nil {
		ctx.R.Path("full-volume-unavailable", 1)
		return
	}
	defer syscall.Unmount(vol, syscall.MNT_DETACH)
	path := filepath.Join(vol, "wtf", "search_history.json")
	ballast := filepath.Join(vol, "ballast")
	for round := 0; round < 12; round++ {
		os.RemoveAll(filepath.Dir(path))
		os.Remove(ballast)
		sh := history.NewSearchHistory(path, 100)
		var model []string
		add := func(q string) {
			sh.AddEntry(q, len(q)%7, "generic directory", time.Millisecond)
			if n := len(model); n > 0 && model[n-1] == q {
				return
			}
			model = append(model, q)
		}
		for i := 0; i < 5+round*7; i++ {
			add(fmt.Sprintf("earlier query %d with some words to make it longer", i))
		}
		cs := map[string]interface{}{"flavour": "in-process: failed Save, then successful Save on the same object", "entries_before": len(model), "free_pages_during_the_failed_save": round % 4}
		ctx.R.Begin(cs)
		ctx.R.Eval(1)
		if err := sh.Save(); err != nil {
			ctx.R.Inconcl("baseline Save failed: " + err.Error())
			continue
		}
		// fill the volume so that the next write cannot complete
		free := c09FreePages(vol)
		keep := int64(round % 4)
		if free > keep {
			os.WriteFile(ballast, make([]byte, (free-keep)*4096), 0o644)
		}
		for i := 0; i < 30; i++ {
			add(fmt.Sprintf("query recorded while the disk was full %d %s", i, strings.Repeat("x", 200)))
		}
		err1 := sh.Save()
		os.Remove(ballast)
		add("query after space was freed")
		err2 := sh.Save()
		ctx.R.Path("in-process-sequences", 1)
		if err1 != nil {
			ctx.R.Path("in-process-sequences-with-a-failed-save", 1)
			ctx.R.Nontriv("inproc", round)
		}
		if err2 != nil {
			ctx.R.Violate(vlib.Violation{Property: "C09", Clause: "later-write-fails-after-interrupted-write", Path: "SearchHistory.Save/in-process",
				Detail: fmt.Sprintf("Save after space was freed fails: %v (the earlier Save returned: %v)", err2, err1), Witness: cs})
			continue
		}
		if len(model) > 100 { // the history keeps the newest 100
			model = model[len(model)-100:]
		}
		b, _ := os.ReadFile(path)
		var got c09Hist
		okJ := json.Unmarshal(b, &got) == nil
		same := okJ && len(got.Entries) == len(model)
		for i := 0; same && i < len(model); i++ {
			same = got.Entries[i].Query == model[i]
		}
		if !same {
			n := -1
			if okJ {
				n = len(got.Entries)
			}
			ctx.R.Violate(vlib.Violation{Property: "C09", Clause: "torn-file", Path: "SearchHistory.Save/in-process",
				Detail:  fmt.Sprintf("after a Save that failed (%v) and a later Save that succeeded on the same object the history file (%d bytes) parses: %v, holds %d entries, expected the %d recorded ones", err1, len(b), okJ, n, len(model)),
				Witness: map[string]interface{}{"case": cs, "file_head_hex": fmt.Sprintf("%x", vlib.Trunc(string(b), 200))}})
		}
	}
}

package main

// C18 - metrics are keyed by identity and account for every event.
//
// Two engines share one oracle: a shadow ledger keyed by identity
// (kind, name, sorted tag pairs). Every call the harness issues against the
// code under test updates the ledger in the same step; the ledger is compared
// with what the collector / monitor reports at quiescent points only
// (sequential: after every batch; concurrent: after WaitGroup.Wait).
//
//	metrics       sequential: Collector, PerformanceMonitor, MonitoredDatabase
//	metrics-conc  the same three objects shared by G goroutines (race build)
//
// Tag maps are rebuilt before every call (shuffled insertion order, different
// capacity hints, grown-then-shrunk maps), so "the same tags" is presented in
// as many physical forms as the map implementation offers.

import (
	"context"
	"fmt"
	"math"
	"math/rand"
	"runtime"
	"sort"
	"strings"
	"sync"
	"sync/atomic"
	"time"

	"github.com/Vedant9500/WTF/internal/database"
	"github.com/Vedant9500/WTF/internal/metrics"
	"github.com/Vedant9500/WTF/internal/zzverif/vlib"
)

func init() {
	engines["metrics"] = engineC18Seq
	engines["metrics-conc"] = engineC18Conc
}

// ---------------------------------------------------------------------------
// Identities

type c18Ident struct {
	Kind  string            `json:"kind"` // counter | gauge | histogram | timer
	Name  string            `json:"name"`
	Tags  map[string]string `json:"tags"` // harness-private copy, never handed to the code under test
	keys  []string          // sorted
	canon string
}

// c18Canon is the unambiguous rendering of an identity (every part quoted).
func c18Canon(kind, name string, tags map[string]string) string {
	keys := make([]string, 0, len(tags))
	for k := range tags {
		keys = append(keys, k)
	}
	sort.Strings(keys)
	var b strings.Builder
	fmt.Fprintf(&b, "%s|%q", kind, name)
	for _, k := range keys {
		fmt.Fprintf(&b, "|%q=%q", k, tags[k])
	}
	return b.String()
}

func c18MakeIdent(kind, name string, tags map[string]string) c18Ident {
	cp := make(map[string]string, len(tags))
	keys := make([]string, 0, len(tags))
	for k, v := range tags {
		cp[k] = v
		keys = append(keys, k)
	}
	sort.Strings(keys)
	return c18Ident{Kind: kind, Name: name, Tags: cp, keys: keys, canon: c18Canon(kind, name, cp)}
}

func (id *c18Ident) show() string {
	parts := make([]string, 0, len(id.keys))
	for _, k := range id.keys {
		parts = append(parts, fmt.Sprintf("%q=%q", k, id.Tags[k]))
	}
	return fmt.Sprintf("%s %q{%s}", id.Kind, id.Name, strings.Join(parts, ","))
}

// Clean pools: no ':' '=' or empty strings, no name ends in a histogram
// suffix (_count/_sum/_mean/_pNN), so two different identities can never
// render alike and a reported series maps back to exactly one identity.
var c18Names = []string{"requests_total", "latency_ms", "db_ops", "cache_lookups", "q", "searches", "errors", "load", "x", "queue_depth", "m1", "M1",
	"lookups\xff", "lookups\xfe"} // (names and values that are not valid UTF-8 - a Latin-1 file name used as a tag - differing in that one byte)
var c18Keys = []string{"operation", "success", "cache_hit", "host", "zone", "method", "status", "k1", "k2", "K1", "shard", "a"}
var c18Vals = []string{"true", "false", "load", "save", "GET", "POST", "a", "b", "0", "1", "us_east", "A", "caf\xe9.yml", "caf\xe8.yml"}
var c18Kinds = []string{"counter", "counter", "counter", "gauge", "histogram", "histogram", "timer"}

func c18TagCount(r *rand.Rand) int {
	switch k := r.Intn(100); {
	case k < 14:
		return 0
	case k < 32:
		return 1
	case k < 62:
		return 2
	case k < 78:
		return 3
	case k < 88:
		return 4
	case k < 94:
		return 5
	default:
		return 6
	}
}

// c18GenIdents draws n distinct identities. About half are derived from an
// earlier one by a single change (one value, one tag more/less, other name,
// other kind) so near-identities that a sloppy key would merge are the norm.
func c18GenIdents(r *rand.Rand, n int) []c18Ident {
	var out []c18Ident
	seen := map[string]bool{}
	for tries := 0; len(out) < n && tries < 50*n; tries++ {
		var id c18Ident
		if len(out) > 0 && r.Intn(2) == 0 {
			b := out[r.Intn(len(out))]
			tags := map[string]string{}
			for k, v := range b.Tags {
				tags[k] = v
			}
			kind, name := b.Kind, b.Name
			switch r.Intn(6) {
			case 5: // a histogram whose name is another series' name + "_duration", and the timer of that name with the same tags
				// (a timer keeps its observations in a histogram of that derived name): two identities, two series
				base := c18Names[r.Intn(len(c18Names))]
				h := c18MakeIdent("histogram", base+"_duration", tags)
				if !seen[h.canon] && len(out) < n {
					seen[h.canon] = true
					out = append(out, h)
				}
				kind, name = "timer", base
			case 0: // one value differs
				if len(b.keys) > 0 {
					tags[b.keys[r.Intn(len(b.keys))]] = c18Vals[r.Intn(len(c18Vals))]
				}
			case 1: // one tag less
				if len(b.keys) > 0 {
					delete(tags, b.keys[r.Intn(len(b.keys))])
				}
			case 2: // one tag more
				if len(tags) < 6 {
					tags[c18Keys[r.Intn(len(c18Keys))]] = c18Vals[r.Intn(len(c18Vals))]
				}
			case 3:
				name = c18Names[r.Intn(len(c18Names))]
			case 4:
				kind = c18Kinds[r.Intn(len(c18Kinds))]
			}
			id = c18MakeIdent(kind, name, tags)
		} else {
			tags := map[string]string{}
			for want := c18TagCount(r); len(tags) < want; {
				tags[c18Keys[r.Intn(len(c18Keys))]] = c18Vals[r.Intn(len(c18Vals))]
			}
			id = c18MakeIdent(c18Kinds[r.Intn(len(c18Kinds))], c18Names[r.Intn(len(c18Names))], tags)
		}
		if seen[id.canon] {
			continue
		}
		seen[id.canon] = true
		out = append(out, id)
	}
	return out
}

// c18Tags builds a fresh map equal to id.Tags and returns it together with
// the insertion order used. 0 tags come as nil, an empty literal or an empty
// map with a capacity hint.
func c18Tags(r *rand.Rand, id *c18Ident) (map[string]string, string) {
	n := len(id.keys)
	if n == 0 {
		switch r.Intn(3) {
		case 0:
			return nil, "nil"
		case 1:
			return map[string]string{}, "empty"
		default:
			return make(map[string]string, 1+r.Intn(40)), "empty+hint"
		}
	}
	perm := r.Perm(n)
	var m map[string]string
	variant := r.Intn(6)
	switch variant {
	case 1:
		m = make(map[string]string, n)
	case 2:
		m = make(map[string]string, 9+r.Intn(8))
	case 3:
		m = make(map[string]string, 64+r.Intn(200))
	default:
		m = map[string]string{}
	}
	junk := 0
	if variant == 5 { // grown with foreign keys that are deleted again: equal map, other layout
		junk = 9 + r.Intn(30)
		for j := 0; j < junk/2; j++ {
			m[fmt.Sprintf("\x01junk%d", j)] = "x"
		}
	}
	order := make([]string, n)
	for i, p := range perm {
		k := id.keys[p]
		m[k] = id.Tags[k]
		order[i] = k
	}
	if variant == 5 {
		for j := junk / 2; j < junk; j++ {
			m[fmt.Sprintf("\x01junk%d", j)] = "x"
		}
		for j := 0; j < junk; j++ {
			delete(m, fmt.Sprintf("\x01junk%d", j))
		}
	}
	return m, strings.Join(order, "\x1f")
}

// c18Obs draws an integer-valued observation < 2^38 (float64 sums of a few
// thousand of them are exact in any order). Values straddle every default
// bucket edge and the overflow bucket.
func c18Obs(r *rand.Rand) int64 {
	switch k := r.Intn(20); {
	case k < 5:
		return int64(r.Intn(13))
	case k < 11:
		e := []int64{1, 2, 3, 5, 6, 10, 11, 25, 26, 50, 51, 100, 101, 250, 251, 500, 501, 1000, 1001, 2500, 2501, 5000, 5001, 10000}
		return e[r.Intn(len(e))]
	case k < 14:
		return 10001 + int64(r.Intn(5))
	case k < 18:
		return int64(r.Intn(1 << 20))
	default:
		return r.Int63n(1 << 38)
	}
}

// ---------------------------------------------------------------------------
// The collector world: one Collector, its identities, the shadow ledger.

type c18Entry struct {
	id         c18Ident
	idx        int
	n          int64 // counter: value; gauge: net value; histogram/timer: observations   (atomic)
	sum        int64 // histogram/timer: exact integer sum of observations                (atomic)
	sumUnknown int32 // timer driven through Time(): wall-clock sum, not compared         (atomic)
	nonFinite  int32 // bit 1: a NaN was observed, 2: +Inf, 4: -Inf (the exact sum is then NaN / +Inf / -Inf) (atomic, or-ed)
	calls      int64 // collector lookups issued for this identity                         (atomic)
	ptrs       []interface{}
	orders     map[string]bool
	merged     bool // shares a metric with a different identity
}

// c18Local is per-goroutine bookkeeping, merged at quiescent points.
type c18Local struct {
	ptrs   map[int][]interface{}
	orders map[int]map[string]bool
}

func c18NewLocal() *c18Local {
	return &c18Local{ptrs: map[int][]interface{}{}, orders: map[int]map[string]bool{}}
}

func (l *c18Local) note(idx int, p interface{}, order string) {
	found := false
	for _, q := range l.ptrs[idx] {
		if q == p {
			found = true
			break
		}
	}
	if !found {
		l.ptrs[idx] = append(l.ptrs[idx], p)
	}
	o := l.orders[idx]
	if o == nil {
		o = map[string]bool{}
		l.orders[idx] = o
	}
	if len(o) < 16 {
		o[order] = true
	}
}

type c18World struct {
	ctx      *Ctx
	col      *metrics.Collector
	ents     []*c18Entry
	owner    map[interface{}]int
	reported map[string]bool
	ambig    bool // sub-class "different identities, naive renderings collide": a shared metric and its consequences are clause key-ambiguity
	conc     bool
	where    string
	pfx      string // path prefix ("" or "conc/")
	events   int64
}

func c18NewWorld(ctx *Ctx, ids []c18Ident, ambig, conc bool, where string) *c18World {
	w := &c18World{ctx: ctx, col: metrics.NewCollector(), owner: map[interface{}]int{}, reported: map[string]bool{},
		ambig: ambig, conc: conc, where: where}
	if conc {
		w.pfx = "conc/"
	}
	for i := range ids {
		w.ents = append(w.ents, &c18Entry{id: ids[i], idx: i, orders: map[string]bool{}})
	}
	return w
}

// op issues ONE lookup (fresh tag map) and, unless probe, one record call on
// the metric it got, updating the ledger in the same step.
func (w *c18World) op(r *rand.Rand, e *c18Entry, loc *c18Local, probe bool) {
	tags, order := c18Tags(r, &e.id)
	atomic.AddInt64(&e.calls, 1)
	var p interface{}
	switch e.id.Kind {
	case "counter":
		c := w.col.Counter(e.id.Name, tags)
		p = c
		if !probe {
			if r.Intn(5) < 3 {
				c.Inc()
				atomic.AddInt64(&e.n, 1)
			} else {
				k := int64(r.Intn(1001))
				c.Add(k)
				atomic.AddInt64(&e.n, k)
			}
		}
	case "gauge":
		g := w.col.Gauge(e.id.Name, tags)
		p = g
		if !probe {
			switch r.Intn(3) {
			case 0:
				g.Inc()
				atomic.AddInt64(&e.n, 1)
			case 1:
				g.Dec()
				atomic.AddInt64(&e.n, -1)
			default:
				k := int64(r.Intn(200) - 50)
				g.Add(float64(k))
				atomic.AddInt64(&e.n, k)
			}
		}
	case "histogram":
		h := w.col.Histogram(e.id.Name, tags)
		p = h
		if !probe {
			if r.Intn(150) == 0 { // an observation is an observation, also when it is not a finite number
				k := r.Intn(3)
				h.Observe([]float64{math.NaN(), math.Inf(1), math.Inf(-1)}[k])
				atomic.AddInt64(&e.n, 1)
				for {
					old := atomic.LoadInt32(&e.nonFinite)
					if atomic.CompareAndSwapInt32(&e.nonFinite, old, old|1<<uint(k)) {
						break
					}
				}
				w.ctx.R.Path("non-finite-observations", 1)
			} else {
				v := c18Obs(r)
				h.Observe(float64(v))
				atomic.AddInt64(&e.n, 1)
				atomic.AddInt64(&e.sum, v)
			}
		}
	case "timer":
		t := w.col.Timer(e.id.Name, tags)
		p = t
		if !probe {
			switch r.Intn(6) {
			case 0:
				t.Time()()
				atomic.StoreInt32(&e.sumUnknown, 1)
				atomic.AddInt64(&e.n, 1)
			case 1:
				t.TimeFunc(func() {})
				atomic.StoreInt32(&e.sumUnknown, 1)
				atomic.AddInt64(&e.n, 1)
			default:
				v := c18Obs(r)
				t.Histogram().Observe(float64(v))
				atomic.AddInt64(&e.n, 1)
				atomic.AddInt64(&e.sum, v)
			}
		}
	}
	loc.note(e.idx, p, order)
}

func (w *c18World) ordersOf(e *c18Entry) []string {
	var o []string
	for k := range e.orders {
		o = append(o, strings.ReplaceAll(k, "\x1f", ","))
	}
	sort.Strings(o)
	if len(o) > 6 {
		o = o[:6]
	}
	return o
}

func (w *c18World) violate(clause, path string, e *c18Entry, detail string, more map[string]interface{}) {
	if w.ambig && e.merged { // consequence of two different identities sharing one metric
		clause = "key-ambiguity"
	}
	k := fmt.Sprintf("%s|%s|%d", clause, path, e.idx)
	if w.reported[k] {
		return
	}
	w.reported[k] = true
	wit := map[string]interface{}{"identity": e.id, "insertion_orders": w.ordersOf(e), "where": w.where,
		"lookups": atomic.LoadInt64(&e.calls), "metrics_handed_out": len(e.ptrs)}
	for k, v := range more {
		wit[k] = v
	}
	w.ctx.R.Violate(vlib.Violation{Property: "C18", Clause: clause, Path: w.pfx + path, Detail: detail, Witness: wit})
}

// merge folds per-goroutine bookkeeping into the ledger and reports the two
// pointer-identity events: one identity -> several metrics (split), several
// identities -> one metric (merge).
func (w *c18World) merge(loc *c18Local) {
	for idx, ps := range loc.ptrs {
		e := w.ents[idx]
		for _, p := range ps {
			known := false
			for _, q := range e.ptrs {
				if q == p {
					known = true
					break
				}
			}
			if known {
				continue
			}
			e.ptrs = append(e.ptrs, p)
			if own, ok := w.owner[p]; ok && own != idx {
				o := w.ents[own]
				o.merged, e.merged = true, true
				w.violate("identity-merge", "Collector."+c18Title(e.id.Kind), e,
					fmt.Sprintf("two different identities share one metric: %s and %s got the same *%s", o.id.show(), e.id.show(), c18Title(e.id.Kind)),
					map[string]interface{}{"other_identity": o.id})
			} else if !ok {
				w.owner[p] = idx
			}
		}
		for o := range loc.orders[idx] {
			if len(e.orders) < 16 {
				e.orders[o] = true
			}
		}
		if len(e.ptrs) > 1 && !w.ambig {
			w.violate("identity-split", "Collector."+c18Title(e.id.Kind), e,
				fmt.Sprintf("%s: %d lookups with equal name and tags returned %d different metrics (%d tags, %d insertion orders used)",
					e.id.show(), atomic.LoadInt64(&e.calls), len(e.ptrs), len(e.id.keys), len(e.orders)), nil)
		}
	}
	loc.ptrs = map[int][]interface{}{}
	loc.orders = map[int]map[string]bool{}
}

func c18Title(kind string) string {
	if kind == "" {
		return kind
	}
	return strings.ToUpper(kind[:1]) + kind[1:]
}

// totalClause: in the concurrent engine a deficit is a lost increment.
func (w *c18World) totalClause(base string, got, exp float64) string {
	if w.conc && got < exp {
		return "lost-increment"
	}
	return base
}

var c18Pcts = []float64{0, 1, 5, 25, 50, 75, 90, 95, 99, 99.9, 100}

func (w *c18World) checkHistogram(e *c18Entry, h *metrics.Histogram, path string) {
	if h == nil {
		return
	}
	cnt, sum, mean := h.Count(), h.Sum(), h.Mean()
	if cnt > 0 && !math.IsNaN(sum) && !math.IsInf(sum, 0) {
		want := sum / float64(cnt)
		if !(math.Abs(mean-want) <= 1e-9*math.Max(1, math.Abs(want))) {
			w.violate("histogram-total", path, e, fmt.Sprintf("%s: Mean() = %v but Sum()/Count() = %v/%d = %v", e.id.show(), mean, sum, cnt, want), nil)
		}
		w.ctx.R.Path("percentile-checks", 1)
	}
	prev, prevP := math.Inf(-1), -1.0
	vals := make([]float64, len(c18Pcts))
	for i, p := range c18Pcts {
		v := h.Percentile(p)
		vals[i] = v
		if !(v >= prev) {
			w.violate("percentile-order", path, e,
				fmt.Sprintf("%s: Percentile(%v) = %v < Percentile(%v) = %v (count %d)", e.id.show(), p, v, prevP, prev, cnt),
				map[string]interface{}{"percentiles": c18Pcts, "values": vals[:i+1]})
			break
		}
		prev, prevP = v, p
	}
}

// check compares ledger and collector at a quiescent point.
func (w *c18World) check(stage string) {
	w.ctx.R.Path("quiescent-checks", 1)
	all := w.col.GetAllMetrics()
	groups := map[string][]float64{}
	for _, m := range all {
		k := c18Canon(string(m.Type), m.Name, m.Tags)
		groups[k] = append(groups[k], m.Value)
	}
	series := func(e *c18Entry, kind, name string, exp float64, what string) {
		vals := groups[c18Canon(kind, name, e.id.Tags)]
		tot := 0.0
		for _, v := range vals {
			tot += v
		}
		if len(vals) > 1 && !w.ambig {
			w.violate("duplicate-series", "Collector.GetAllMetrics", e,
				fmt.Sprintf("%s: GetAllMetrics reports %d series named %q with this tag set, values %v (%s)", e.id.show(), len(vals), name, vals, stage),
				map[string]interface{}{"series_values": vals, "stage": stage})
		}
		if tot != exp && !(len(vals) == 0 && exp == 0) {
			w.violate(w.totalClause("series-total", tot, exp), "Collector.GetAllMetrics", e,
				fmt.Sprintf("%s: %s summed over the %d series %q of this identity = %v, ledger says %v (%s)", e.id.show(), what, len(vals), name, tot, exp, stage),
				map[string]interface{}{"series_values": vals, "expected": exp, "stage": stage})
		}
	}
	for _, e := range w.ents {
		exp := atomic.LoadInt64(&e.n)
		expSum := atomic.LoadInt64(&e.sum)
		if len(e.ptrs) == 0 {
			continue
		}
		more := map[string]interface{}{"stage": stage}
		switch e.id.Kind {
		case "counter":
			var got int64
			for _, p := range e.ptrs {
				if c, _ := p.(*metrics.Counter); c != nil {
					got += c.Value()
				}
			}
			if got != exp {
				w.violate(w.totalClause("counter-total", float64(got), float64(exp)), "Collector.Counter", e,
					fmt.Sprintf("%s: Value() over the %d metric(s) of this identity = %d, increments applied (Inc + Add) = %d (%s)", e.id.show(), len(e.ptrs), got, exp, stage), more)
			}
			series(e, "counter", e.id.Name, float64(exp), "counter value")
		case "gauge":
			got := 0.0
			for _, p := range e.ptrs {
				if g, _ := p.(*metrics.Gauge); g != nil {
					got += g.Value()
				}
			}
			if got != float64(exp) {
				w.violate(w.totalClause("series-total", got, float64(exp)), "Collector.Gauge", e,
					fmt.Sprintf("%s: Value() over the %d metric(s) of this identity = %v, net of Inc/Dec/Add applied = %d (%s)", e.id.show(), len(e.ptrs), got, exp, stage), more)
			}
			series(e, "gauge", e.id.Name, float64(exp), "gauge value")
		case "histogram", "timer":
			var cnt int64
			sum := 0.0
			path := "Collector." + c18Title(e.id.Kind)
			for _, p := range e.ptrs {
				var h *metrics.Histogram
				if e.id.Kind == "timer" {
					if t, _ := p.(*metrics.Timer); t != nil {
						h = t.Histogram()
					}
				} else {
					h, _ = p.(*metrics.Histogram)
				}
				if h == nil {
					continue
				}
				cnt += h.Count()
				sum += h.Sum()
				if !w.ambig {
					w.checkHistogram(e, h, path)
				}
			}
			if cnt != exp {
				w.violate(w.totalClause("histogram-total", float64(cnt), float64(exp)), path, e,
					fmt.Sprintf("%s: Count() over the %d metric(s) of this identity = %d, observations made = %d (%s)", e.id.show(), len(e.ptrs), cnt, exp, stage), more)
			}
			if nf := atomic.LoadInt32(&e.nonFinite); nf != 0 {
				// the exact sum of observations that include NaN / Inf
				want := math.NaN()
				switch {
				case nf&1 != 0 || nf&6 == 6:
				case nf&2 != 0:
					want = math.Inf(1)
				default:
					want = math.Inf(-1)
				}
				if atomic.LoadInt32(&e.sumUnknown) == 0 && len(e.ptrs) == 1 && !(sum == want || math.IsNaN(sum) && math.IsNaN(want)) {
					w.violate("histogram-total", path, e,
						fmt.Sprintf("%s: Sum() = %v, the exact sum of the %d observations (non-finite ones among them) is %v (%s)", e.id.show(), sum, exp, want, stage), more)
				}
			} else if atomic.LoadInt32(&e.sumUnknown) == 0 && sum != float64(expSum) {
				w.violate(w.totalClause("histogram-total", sum, float64(expSum)), path, e,
					fmt.Sprintf("%s: Sum() over the %d metric(s) of this identity = %v, exact sum of the %d integer observations = %d (%s)", e.id.show(), len(e.ptrs), sum, exp, expSum, stage), more)
			}
			if e.id.Kind == "histogram" { // timers are not part of GetAllMetrics
				series(e, "histogram", e.id.Name+"_count", float64(exp), "observation count")
				if atomic.LoadInt32(&e.nonFinite) == 0 {
					series(e, "histogram", e.id.Name+"_sum", float64(expSum), "observation sum")
				}
				// the percentiles as exported (also what the performance report shows) never decrease as the percentile grows
				if !w.ambig && exp > 0 {
					prev, prevName := math.Inf(-1), ""
					var shown []float64
					for _, sfx := range []string{"_p50", "_p90", "_p95", "_p99"} {
						vals := groups[c18Canon("histogram", e.id.Name+sfx, e.id.Tags)]
						if len(vals) != 1 {
							break
						}
						shown = append(shown, vals[0])
						if !(vals[0] >= prev) {
							w.violate("percentile-order", "Collector.GetAllMetrics", e,
								fmt.Sprintf("%s: exported %s = %v is smaller than %s = %v (%d observations)", e.id.show(), e.id.Name+sfx, vals[0], prevName, prev, exp),
								map[string]interface{}{"exported_p50_p90_p95_p99": shown, "stage": stage})
							break
						}
						prev, prevName = vals[0], e.id.Name+sfx
					}
					if len(shown) == 4 {
						w.ctx.R.Path("exported-percentile-checks", 1)
						if shown[2] >= 10000 {
							w.ctx.R.Path("exported-percentiles-two-in-the-overflow-bucket", 1)
						}
					}
				}
			}
		}
	}
}

// reset: Collector.Reset() starts a new epoch: every series starts from nothing, handles of the old epoch are no longer used.
func (w *c18World) reset() {
	w.col.Reset()
	for _, e := range w.ents {
		atomic.StoreInt64(&e.n, 0)
		atomic.StoreInt64(&e.sum, 0)
		atomic.StoreInt32(&e.sumUnknown, 0)
		atomic.StoreInt32(&e.nonFinite, 0)
		e.ptrs = nil
	}
	w.owner = map[interface{}]int{}
	w.ctx.R.Path("collector-resets", 1)
}

// finish records coverage for the world.
func (w *c18World) finish() {
	for _, e := range w.ents {
		if len(e.ptrs) == 0 {
			continue
		}
		if w.ambig {
			w.ctx.R.Path("identities-ambiguity-class", 1)
			continue
		}
		switch n := len(e.id.keys); {
		case n == 0:
			w.ctx.R.Path("identities-0tag", 1)
		case n == 1:
			w.ctx.R.Path("identities-1tag", 1)
		default:
			w.ctx.R.Path("identities-2+tags", 1)
			if len(e.orders) >= 2 {
				w.ctx.R.Nontriv("C18", e.id.canon)
				w.ctx.R.Sample(map[string]interface{}{"identity": e.id, "insertion_orders": w.ordersOf(e), "lookups": e.calls, "metrics_handed_out": len(e.ptrs)})
			}
		}
		if len(e.ptrs) > 1 {
			w.ctx.R.Path("identities-split", 1)
			if len(e.id.keys) < 2 {
				w.ctx.R.Path("identities-split-under-2-tags", 1)
			}
		}
	}
	c18AddExtra(w.ctx, "identities", float64(len(w.ents)))
}

func c18AddExtra(ctx *Ctx, k string, v float64) {
	old, _ := ctx.R.Extra[k].(float64)
	ctx.R.Extra[k] = old + v
}

// ---------------------------------------------------------------------------
// Ambiguity sub-class: identities that DIFFER but whose naive renderings
// (name + sep1 + key + sep2 + value ...) coincide. Small, own clause.

func c18AmbigFamilies(r *rand.Rand) [][]c18Ident {
	tok := func() string { return c18Vals[r.Intn(len(c18Vals))] }
	a, b, c, d, e := c18Names[r.Intn(len(c18Names))], "k"+tok(), tok(), "j"+tok(), tok()
	seps := [][2]string{{":", "="}, {",", "="}, {";", "="}, {"|", "="}, {" ", "="}, {":", ":"}, {",", ":"}, {"&", "="}, {"\x00", "\x00"}, {"", ""}, {"_", "_"}, {"{", "="}}
	sp := seps[r.Intn(len(seps))]
	s1, s2 := sp[0], sp[1]
	kind := []string{"counter", "counter", "histogram", "gauge", "timer"}[r.Intn(5)]
	mk := func(name string, kv ...string) c18Ident {
		t := map[string]string{}
		for i := 0; i+1 < len(kv); i += 2 {
			t[kv[i]] = kv[i+1]
		}
		return c18MakeIdent(kind, name, t)
	}
	fams := [][]c18Ident{
		// tag folded into the name
		{mk(a + s1 + b + s2 + c), mk(a, b, c)},
		// second tag folded into the first value
		{mk(a, b, c+s1+d+s2+e), mk(a, b, c, d, e)},
		// the key/value boundary moved
		{mk(a, b+s2+c, d), mk(a, b, c+s2+d)},
		// empty strings
		{mk(a, "", ""), mk(a + s1 + s2)},
		{mk("", b, c), mk(s1 + b + s2 + c)},
		{mk(a, b, ""), mk(a + s1 + b + s2)},
		{mk(a, "", c), mk(a + s1 + s2 + c)},
		{mk(a, b, ""), mk(a)},
	}
	// keep the families whose members really are different identities
	var out [][]c18Ident
	for _, f := range fams {
		if f[0].canon != f[1].canon {
			out = append(out, f)
		}
	}
	r.Shuffle(len(out), func(i, j int) { out[i], out[j] = out[j], out[i] })
	if len(out) > 3 {
		out = out[:3]
	}
	return out
}

func c18AmbigRound(ctx *Ctx, r *rand.Rand, rd int) {
	for fi, fam := range c18AmbigFamilies(r) {
		w := c18NewWorld(ctx, fam, true, false, fmt.Sprintf("shard %d round %d ambiguity family %d", ctx.Shard, rd, fi))
		cs := map[string]interface{}{"part": "ambiguity", "round": rd, "family": fam}
		ctx.R.Begin(cs)
		loc := c18NewLocal()
		n := 12 + r.Intn(12)
		ctx.R.Guard("C18", "Collector", cs, func() {
			for i := 0; i < n; i++ {
				w.op(r, w.ents[i%len(w.ents)], loc, false)
				w.merge(loc)
			}
		})
		ctx.R.Eval(int64(n))
		ctx.R.Path("ambiguity-events", int64(n))
		w.check("end of family")
		w.finish()
		c18AddExtra(ctx, "ambiguity_families", 1)
	}
}

// ---------------------------------------------------------------------------
// Monitor ledger and report check (PerformanceMonitor, MonitoredDatabase).

type c18MonExp struct {
	nSearch  int64 // atomic
	hits     int64 // atomic; meaningful when hitKnown
	misses   int64 // atomic
	qlenSum  int64 // atomic
	hitKnown bool
	dbOps    [][2]string // (operation, success) identities, fixed before goroutines start
	dbCnt    []int64     // atomic, parallel to dbOps
}

func (x *c18MonExp) dbIndex(op string, ok bool) int {
	s := fmt.Sprintf("%t", ok)
	for i, k := range x.dbOps {
		if k[0] == op && k[1] == s {
			return i
		}
	}
	return -1
}

func c18NewMonExp(ops []string, hitKnown bool) *c18MonExp {
	x := &c18MonExp{hitKnown: hitKnown}
	for _, op := range ops {
		x.dbOps = append(x.dbOps, [2]string{op, "true"}, [2]string{op, "false"})
	}
	x.dbCnt = make([]int64, len(x.dbOps))
	return x
}

func c18CheckReport(ctx *Ctx, obj string, conc bool, rep metrics.PerformanceReport, x *c18MonExp, where string, once map[string]bool) {
	ctx.R.Path("quiescent-checks", 1)
	pfx := ""
	if conc {
		pfx = "conc/"
	}
	groups := map[string][]float64{}
	byName := map[string]float64{}
	for _, m := range rep.ApplicationMetrics {
		k := c18Canon(string(m.Type), m.Name, m.Tags)
		groups[k] = append(groups[k], m.Value)
		if m.Type == metrics.MetricTypeCounter {
			byName[m.Name] += m.Value
		}
	}
	get := func(kind, name string, tags map[string]string) (float64, []float64) {
		vals := groups[c18Canon(kind, name, tags)]
		t := 0.0
		for _, v := range vals {
			t += v
		}
		return t, vals
	}
	vio := func(clause, path, detail string, wit map[string]interface{}) {
		k := clause + "|" + path + "|" + detail
		if once[k] {
			return
		}
		once[k] = true
		if wit == nil {
			wit = map[string]interface{}{}
		}
		wit["where"] = where
		ctx.R.Violate(vlib.Violation{Property: "C18", Clause: clause, Path: pfx + obj + "." + path, Detail: detail, Witness: wit})
	}
	total := func(base string, got, exp float64) string {
		if conc && got < exp {
			return "lost-increment"
		}
		return base
	}
	dup := func(path, name string, tags map[string]string, vals []float64) {
		if len(vals) > 1 {
			vio("duplicate-series", path, fmt.Sprintf("the report carries %d series %q with tag set %v (values %v) - one identity, several series", len(vals), name, c18ShowTags(tags), vals),
				map[string]interface{}{"name": name, "tags": tags, "series_values": vals})
		}
	}
	n := atomic.LoadInt64(&x.nSearch)
	hits, misses := atomic.LoadInt64(&x.hits), atomic.LoadInt64(&x.misses)
	sp := "RecordSearchOperation"
	tT, vT := get("counter", "searches_total", map[string]string{"cache_hit": "true"})
	tF, vF := get("counter", "searches_total", map[string]string{"cache_hit": "false"})
	dup(sp, "searches_total", map[string]string{"cache_hit": "true"}, vT)
	dup(sp, "searches_total", map[string]string{"cache_hit": "false"}, vF)
	if tT+tF != float64(n) {
		vio(total("monitor-search-total", tT+tF, float64(n)), sp, fmt.Sprintf("searches_total{cache_hit=true} %v + {cache_hit=false} %v = %v, searches recorded = %d", tT, tF, tT+tF, n), nil)
	}
	if byName["searches_total"] != float64(n) {
		vio(total("monitor-search-total", byName["searches_total"], float64(n)), sp, fmt.Sprintf("searches_total over all its series = %v, searches recorded = %d", byName["searches_total"], n), nil)
	}
	cH, vH := get("counter", "cache_hits_total", nil)
	cM, vM := get("counter", "cache_misses_total", nil)
	dup(sp, "cache_hits_total", nil, vH)
	dup(sp, "cache_misses_total", nil, vM)
	if cH+cM != float64(n) {
		vio(total("monitor-search-total", cH+cM, float64(n)), sp, fmt.Sprintf("cache_hits_total %v + cache_misses_total %v = %v, searches recorded = %d", cH, cM, cH+cM, n), nil)
	}
	if x.hitKnown {
		if tT != float64(hits) || tF != float64(misses) {
			vio(total("monitor-search-total", tT+tF, float64(n)), sp, fmt.Sprintf("searches_total{cache_hit=true} = %v, {false} = %v; recorded with cacheHit=true %d, false %d", tT, tF, hits, misses), nil)
		}
		if cH != float64(hits) || cM != float64(misses) {
			vio(total("monitor-search-total", cH+cM, float64(n)), sp, fmt.Sprintf("cache_hits_total = %v, cache_misses_total = %v; recorded with cacheHit=true %d, false %d", cH, cM, hits, misses), nil)
		}
	} else if cH != tT || cM != tF {
		vio("monitor-search-total", sp, fmt.Sprintf("cache_hits_total %v / cache_misses_total %v disagree with searches_total{cache_hit=true} %v / {false} %v (each search feeds both)", cH, cM, tT, tF), nil)
	}
	qc, vqc := get("histogram", "query_length_count", nil)
	qs, vqs := get("histogram", "query_length_sum", nil)
	dup(sp, "query_length_count", nil, vqc)
	dup(sp, "query_length_sum", nil, vqs)
	if qc != float64(n) {
		vio(total("monitor-search-total", qc, float64(n)), sp, fmt.Sprintf("query_length_count = %v, searches recorded = %d", qc, n), nil)
	}
	if want := atomic.LoadInt64(&x.qlenSum); qs != float64(want) {
		vio(total("monitor-search-total", qs, float64(want)), sp, fmt.Sprintf("query_length_sum = %v, exact sum of the %d recorded query lengths = %d", qs, n, want), nil)
	}
	dp := "RecordDatabaseOperation"
	var all int64
	for i, k := range x.dbOps {
		c := atomic.LoadInt64(&x.dbCnt[i])
		all += c
		tags := map[string]string{"operation": k[0], "success": k[1]}
		t, vals := get("counter", "database_operations_total", tags)
		dup(dp, "database_operations_total", tags, vals)
		if t != float64(c) {
			vio(total("monitor-dbop-total", t, float64(c)), dp, fmt.Sprintf("database_operations_total{operation=%s,success=%s} over its %d series = %v, operations recorded = %d", k[0], k[1], len(vals), t, c),
				map[string]interface{}{"series_values": vals})
		}
	}
	if byName["database_operations_total"] != float64(all) {
		vio(total("monitor-dbop-total", byName["database_operations_total"], float64(all)), dp,
			fmt.Sprintf("database_operations_total over all its series = %v, database operations recorded = %d", byName["database_operations_total"], all), nil)
	}
}

func c18ShowTags(t map[string]string) string {
	keys := make([]string, 0, len(t))
	for k := range t {
		keys = append(keys, k)
	}
	sort.Strings(keys)
	p := make([]string, len(keys))
	for i, k := range keys {
		p[i] = k + "=" + t[k]
	}
	return "{" + strings.Join(p, ",") + "}"
}

var c18OpNames = []string{"load", "save", "search", "index", "merge", "import", "backup", "reload", "imp\xf6rt", "imp\xe4rt"}

func c18PickOps(r *rand.Rand) []string {
	p := r.Perm(len(c18OpNames))
	n := 2 + r.Intn(3)
	ops := make([]string, n)
	for i := range ops {
		ops[i] = c18OpNames[p[i]]
	}
	return ops
}

// c18MonitorOp issues one record call on pm and updates the ledger.
func c18MonitorOp(r *rand.Rand, pm *metrics.PerformanceMonitor, x *c18MonExp, ops []string) (search bool) {
	d := time.Duration(r.Int63n(int64(5 * time.Second)))
	if r.Intn(2) == 0 {
		hit := r.Intn(3) == 0
		ql := r.Intn(200)
		pm.RecordSearchOperation(d, r.Intn(50), hit, ql)
		atomic.AddInt64(&x.nSearch, 1)
		atomic.AddInt64(&x.qlenSum, int64(ql))
		if hit {
			atomic.AddInt64(&x.hits, 1)
		} else {
			atomic.AddInt64(&x.misses, 1)
		}
		return true
	}
	op := ops[r.Intn(len(ops))]
	ok := r.Intn(4) != 0
	pm.RecordDatabaseOperation(op, d, ok)
	atomic.AddInt64(&x.dbCnt[x.dbIndex(op, ok)], 1)
	return false
}

// c18DefaultMonitorRound: the package-level monitor (RecordSearchOperation / RecordDatabaseOperation / GetPerformanceReport as
// package functions), one for the whole process, with one ledger for the whole process. In between, the package-level
// collector helpers are used for series of the same names and ResetMetrics() is called: they are another collector's business.
var c18DefaultExp *c18MonExp
var c18DefaultOps = []string{"load", "save", "search", "index", "reload"}

func c18DefaultMonitorRound(ctx *Ctx, r *rand.Rand, rd int) {
	if c18DefaultExp == nil {
		c18DefaultExp = c18NewMonExp(c18DefaultOps, true)
	}
	x := c18DefaultExp
	cs := map[string]interface{}{"part": "package-level monitor", "round": rd}
	ctx.R.Begin(cs)
	n := 20 + r.Intn(40)
	ctx.R.Guard("C18", "metrics.Record*", cs, func() {
		for i := 0; i < n; i++ {
			d := time.Duration(r.Int63n(int64(5 * time.Second)))
			switch r.Intn(6) {
			case 0, 1:
				hit := r.Intn(3) == 0
				ql := r.Intn(200)
				metrics.RecordSearchOperation(d, r.Intn(50), hit, ql)
				atomic.AddInt64(&x.nSearch, 1)
				atomic.AddInt64(&x.qlenSum, int64(ql))
				if hit {
					atomic.AddInt64(&x.hits, 1)
				} else {
					atomic.AddInt64(&x.misses, 1)
				}
			case 2, 3:
				op := c18DefaultOps[r.Intn(len(c18DefaultOps))]
				ok := r.Intn(4) != 0
				metrics.RecordDatabaseOperation(op, d, ok)
				atomic.AddInt64(&x.dbCnt[x.dbIndex(op, ok)], 1)
			case 4: // the collector helpers, with names the monitor uses too
				metrics.DefaultCounter([]string{"cache_misses_total", "cache_hits_total", "searches_total"}[r.Intn(3)], nil).Add(int64(1 + r.Intn(40)))
				metrics.DefaultCounter("database_operations_total", map[string]string{"operation": c18DefaultOps[r.Intn(len(c18DefaultOps))], "success": "true"}).Inc()
				metrics.DefaultHistogram("query_length", nil).Observe(float64(r.Intn(100)))
				metrics.DefaultGauge("search_results", nil).Set(float64(r.Intn(100)))
				metrics.DefaultTimer("search_duration", map[string]string{"cache_hit": "true"}).TimeFunc(func() {})
				metrics.RecordMemoryUsage()
				_ = metrics.GetSystemMetrics()
				_ = metrics.GetAllMetrics()
				ctx.R.Path("default-collector-helper-calls", 1)
			default:
				if r.Intn(3) == 0 {
					metrics.ResetMetrics()
					ctx.R.Path("default-collector-resets", 1)
				} else if r.Intn(3) == 0 {
					metrics.EnablePerformanceMonitoring(false)
					metrics.EnablePerformanceMonitoring(true)
					ctx.R.Path("monitor-paused-and-resumed", 1)
				}
			}
		}
	})
	ctx.R.Eval(int64(n))
	var rep metrics.PerformanceReport
	if ctx.R.Guard("C18", "metrics.GetPerformanceReport", cs, func() { rep = metrics.GetPerformanceReport() }) {
		c18CheckReport(ctx, "package-level monitor", false, rep, x, fmt.Sprintf("shard %d round %d", ctx.Shard, rd), map[string]bool{})
		ctx.R.Path("package-level-monitor-rounds", 1)
	}
}

func c18SeqMonitorRound(ctx *Ctx, r *rand.Rand, rd int) {
	pm := metrics.NewPerformanceMonitor()
	ops := c18PickOps(r)
	x := c18NewMonExp(ops, true)
	batches := 2 + r.Intn(3)
	cs := map[string]interface{}{"part": "monitor", "round": rd, "operations": ops, "batches": batches}
	ctx.R.Begin(cs)
	once := map[string]bool{}
	for b := 0; b < batches; b++ {
		n := 20 + r.Intn(60)
		ctx.R.Guard("C18", "PerformanceMonitor", cs, func() {
			for i := 0; i < n; i++ {
				if c18MonitorOp(r, pm, x, ops) {
					ctx.R.Path("monitor-search-ops", 1)
				} else {
					ctx.R.Path("monitor-db-ops", 1)
				}
				switch r.Intn(16) { // calls that record no search and no database operation
				case 0:
					pm.RecordMemoryUsage()
					ctx.R.Path("monitor-bystander-calls", 1)
				case 1:
					_ = pm.IsEnabled()
					_ = pm.GetPerformanceReport()
					rp := pm.GetPerformanceReport()
					_ = rp.String()
					ctx.R.Path("monitor-bystander-calls", 1)
				case 2:
					bm := metrics.NewBenchmarker(pm)
					bm.BenchmarkFunction("nothing", func() {}, 1+r.Intn(3))
					bm.ProfileMemory("nothing", func() {})
					ctx.R.Path("monitor-bystander-calls", 1)
				case 3:
					mctx, cancel := context.WithCancel(context.Background())
					done := make(chan struct{})
					go func() { pm.StartMemoryMonitoring(mctx, time.Millisecond); close(done) }()
					time.Sleep(3 * time.Millisecond)
					cancel()
					<-done
					ctx.R.Path("monitor-bystander-calls", 1)
				}
			}
		})
		ctx.R.Eval(int64(n))
		var rep metrics.PerformanceReport
		if ctx.R.Guard("C18", "PerformanceMonitor.GetPerformanceReport", cs, func() { rep = pm.GetPerformanceReport() }) {
			c18CheckReport(ctx, "PerformanceMonitor", false, rep, x, fmt.Sprintf("shard %d round %d after batch %d", ctx.Shard, rd, b), once)
		}
		// the report asked for again: reading it changes nothing
		if ctx.R.Guard("C18", "PerformanceMonitor.GetPerformanceReport", cs, func() { rep = pm.GetPerformanceReport() }) {
			c18CheckReport(ctx, "PerformanceMonitor", false, rep, x, fmt.Sprintf("shard %d round %d after batch %d, second reading", ctx.Shard, rd, b), once)
		}
		if r.Intn(2) == 0 {
			// monitoring paused and resumed with nothing recorded in between: what was recorded before stays counted
			ctx.R.Guard("C18", "PerformanceMonitor.Enable", cs, func() {
				for k := 1 + r.Intn(2); k > 0; k-- {
					pm.Enable(false)
					pm.Enable(true)
				}
			})
			ctx.R.Path("monitor-paused-and-resumed", 1)
			if ctx.R.Guard("C18", "PerformanceMonitor.GetPerformanceReport", cs, func() { rep = pm.GetPerformanceReport() }) {
				c18CheckReport(ctx, "PerformanceMonitor", false, rep, x, fmt.Sprintf("shard %d round %d after batch %d and Enable(false); Enable(true)", ctx.Shard, rd, b), once)
			}
		}
	}
}

type c18DB struct {
	db      *database.Database
	mdb     *database.MonitoredDatabase
	words   []string
	queries []string
}

func c18MakeDB(ctx *Ctx, r *rand.Rand, cs interface{}) *c18DB {
	d := &c18DB{}
	cmds := vlib.GenCommands(r, vlib.DBSpec{N: 20 + r.Intn(40), TieHeavy: r.Intn(2) == 0, Pipelines: r.Intn(2) == 0})
	if !ctx.R.Guard("C18", "LoadDatabase", cs, func() { d.db = vlib.MustLoad(cmds) }) {
		return nil
	}
	d.mdb = database.NewMonitoredDatabase(d.db)
	d.words = vlib.DBWords(d.db.Commands)
	nq := 4 + r.Intn(5)
	for i := 0; i < nq; i++ {
		d.queries = append(d.queries, vlib.GenQuery(r, d.words, 1+r.Intn(3), r.Intn(3)))
	}
	d.queries = append(d.queries, "")
	return d
}

// c18MDBSearch issues one monitored search and updates the ledger.
func c18MDBSearch(r *rand.Rand, d *c18DB, x *c18MonExp) {
	q := d.queries[r.Intn(len(d.queries))]
	if r.Intn(2) == 0 {
		d.mdb.SearchWithMonitoring(q, []int{1, 3, 5, 10}[r.Intn(4)])
	} else {
		o := vlib.RandomOptions(r, len(d.db.Commands), d.words)
		if r.Intn(2) == 0 { // few distinct option sets so that cache hits occur
			o = database.SearchOptions{Limit: 5, UseNLP: r.Intn(2) == 0, UseFuzzy: true}
		}
		d.mdb.SearchWithOptionsAndMonitoring(q, o)
	}
	atomic.AddInt64(&x.nSearch, 1)
	atomic.AddInt64(&x.qlenSum, int64(len(q)))
}

func c18SeqMDBRound(ctx *Ctx, r *rand.Rand, rd int) {
	cs := map[string]interface{}{"part": "monitored-database", "round": rd}
	ctx.R.Begin(cs)
	d := c18MakeDB(ctx, r, cs)
	if d == nil {
		return
	}
	x := c18NewMonExp([]string{"load"}, false)
	once := map[string]bool{}
	k := 20 + r.Intn(41)
	j := 2 + r.Intn(5)
	loadAt := map[int]int{}
	for i := 0; i < j; i++ {
		loadAt[r.Intn(k)]++
	}
	ok := ctx.R.Guard("C18", "MonitoredDatabase", cs, func() {
		for i := 0; i < k; i++ {
			for l := 0; l < loadAt[i]; l++ {
				d.mdb.LoadDatabaseWithMonitoring(d.db.Commands)
				atomic.AddInt64(&x.dbCnt[x.dbIndex("load", true)], 1)
				ctx.R.Path("monitor-db-ops", 1)
			}
			c18MDBSearch(r, d, x)
			ctx.R.Path("monitor-search-ops", 1)
			// the wrapper's other methods between two searches: the measuring helpers run monitored searches of their own
			// (each of them is an operation recorded), the reading ones record nothing
			switch r.Intn(12) {
			case 0:
				qs := []string{d.queries[r.Intn(len(d.queries))], d.queries[r.Intn(len(d.queries))]}[:1+r.Intn(2)]
				it := 1 + r.Intn(3)
				d.mdb.BenchmarkSearch(qs, it)
				for _, q := range qs {
					atomic.AddInt64(&x.nSearch, int64(it))
					atomic.AddInt64(&x.qlenSum, int64(it*len(q)))
				}
				ctx.R.Path("monitor-bystander-calls", 1)
			case 1:
				q := d.queries[r.Intn(len(d.queries))]
				d.mdb.ProfileSearchMemory(q)
				atomic.AddInt64(&x.nSearch, 1)
				atomic.AddInt64(&x.qlenSum, int64(len(q)))
				ctx.R.Path("monitor-bystander-calls", 1)
			case 2:
				q := d.queries[r.Intn(len(d.queries))]
				it := 1 + r.Intn(3)
				spa := database.NewSearchPerformanceAnalyzer(d.mdb)
				spa.AnalyzeQuery(q, it)
				_ = spa.GenerateReport()
				_ = spa.GetResults()
				atomic.AddInt64(&x.nSearch, int64(it))
				atomic.AddInt64(&x.qlenSum, int64(it*len(q)))
				ctx.R.Path("monitor-bystander-calls", 1)
			case 3:
				d.mdb.RecordMemoryUsage()
				_ = d.mdb.IsMonitoringEnabled()
				_ = d.mdb.GetPerformanceReport()
				_ = d.mdb.GetPerformanceReport()
				ctx.R.Path("monitor-bystander-calls", 1)
			}
			if r.Intn(15) == 0 {
				d.mdb.EnableMonitoring(false)
				d.mdb.EnableMonitoring(true)
				ctx.R.Path("monitor-paused-and-resumed", 1)
			}
		}
	})
	ctx.R.Eval(int64(k + j))
	ctx.R.Path("monitored-database-rounds", 1)
	if !ok {
		return
	}
	var rep metrics.PerformanceReport
	if ctx.R.Guard("C18", "MonitoredDatabase.GetPerformanceReport", cs, func() { rep = d.mdb.GetPerformanceReport() }) {
		c18CheckReport(ctx, "MonitoredDatabase", false, rep, x, fmt.Sprintf("shard %d round %d: %d searches, %d loads", ctx.Shard, rd, k, j), once)
	}
}

// ---------------------------------------------------------------------------
// Sequential engine

func c18SeqCollectorRound(ctx *Ctx, r *rand.Rand, rd int) {
	ids := c18GenIdents(r, 20+r.Intn(11))
	w := c18NewWorld(ctx, ids, false, false, fmt.Sprintf("shard %d round %d", ctx.Shard, rd))
	batches := 4 + r.Intn(3)
	cs := map[string]interface{}{"part": "collector", "round": rd, "identities": len(ids), "batches": batches}
	ctx.R.Begin(cs)
	loc := c18NewLocal()
	hot := r.Perm(len(w.ents))
	if len(hot) > 3 {
		hot = hot[:3]
	}
	for b := 0; b < batches; b++ {
		n := 40 + r.Intn(41)
		done := 0
		ctx.R.Guard("C18", "Collector", cs, func() {
			if b == 0 { // every identity at least once
				for _, i := range r.Perm(len(w.ents)) {
					w.op(r, w.ents[i], loc, false)
					w.merge(loc)
					done++
				}
			}
			for i := 0; i < n; i++ {
				e := w.ents[r.Intn(len(w.ents))]
				if r.Intn(4) == 0 {
					e = w.ents[hot[r.Intn(len(hot))]]
				}
				w.op(r, e, loc, r.Intn(10) == 0)
				w.merge(loc)
				done++
			}
		})
		ctx.R.Eval(int64(done))
		w.events += int64(done)
		ctx.R.Guard("C18", "Collector.GetAllMetrics", cs, func() { w.check(fmt.Sprintf("after batch %d", b)) })
		if b+1 < batches && r.Intn(2) == 0 {
			// Reset between batches; the series used last before it is the one used first after it (and then others, and it again)
			ctx.R.Guard("C18", "Collector.Reset", cs, func() {
				e := w.ents[r.Intn(len(w.ents))]
				for _, x := range w.ents { // prefer a series without tags (the most common kind in the application)
					if len(x.id.keys) == 0 && r.Intn(3) > 0 {
						e = x
						break
					}
				}
				w.op(r, e, loc, false)
				w.merge(loc)
				w.reset()
				w.op(r, e, loc, false)
				w.merge(loc)
				w.op(r, w.ents[r.Intn(len(w.ents))], loc, false)
				w.merge(loc)
				w.op(r, e, loc, false)
				w.merge(loc)
				w.check(fmt.Sprintf("after Reset following batch %d", b))
			})
		}
	}
	c18AddExtra(ctx, "events", float64(w.events))
	w.finish()
}

// c18ManySeries: one collector holding tens of thousands of series of each kind (per-query, per-user or per-path tags in a
// long-running process): identity and totals hold for the last series as for the first.
func c18ManySeries(ctx *Ctx, r *rand.Rand) {
	n := 66000 + r.Intn(3000)
	cs := map[string]interface{}{"part": "many-series", "series_per_kind": n}
	ctx.R.Begin(cs)
	ctx.R.Guard("C18", "Collector/many-series", cs, func() {
		col := metrics.NewCollector()
		tag := func(i int) map[string]string {
			return map[string]string{"id": fmt.Sprint(i), "zone": "z" + fmt.Sprint(i%7)}
		}
		tagRev := func(i int) map[string]string {
			return map[string]string{"zone": "z" + fmt.Sprint(i%7), "id": fmt.Sprint(i)}
		}
		for i := 0; i < n; i++ {
			col.Counter("many_c", tag(i)).Inc()
			col.Histogram("many_h", tag(i)).Observe(float64(i % 50))
			col.Gauge("many_g", tag(i)).Add(2)
			col.Timer("many_t", tag(i)).Histogram().Observe(1)
		}
		ctx.R.Eval(int64(4 * n))
		probes := []int{0, 1, n / 2, 65534, 65535, 65536, 65537, n - 2, n - 1}
		for _, i := range probes {
			vio := func(kind, detail string) {
				ctx.R.Violate(vlib.Violation{Property: "C18", Clause: "identity-split", Path: "Collector." + kind + "/many-series",
					Detail: fmt.Sprintf("series number %d of %d: %s", i, n, detail), Witness: cs})
			}
			c1, c2 := col.Counter("many_c", tag(i)), col.Counter("many_c", tagRev(i))
			if c1 != c2 {
				vio("Counter", "two lookups with equal name and tags returned different counters")
			}
			c1.Inc()
			c2.Add(2)
			if v := col.Counter("many_c", tag(i)).Value(); v != 4 {
				ctx.R.Violate(vlib.Violation{Property: "C18", Clause: "counter-total-lost", Path: "Collector.Counter/many-series",
					Detail: fmt.Sprintf("series number %d of %d: Value() = %d after 1 + 1 + 2 increments", i, n, v), Witness: cs})
			}
			h1, h2 := col.Histogram("many_h", tag(i)), col.Histogram("many_h", tagRev(i))
			if h1 != h2 {
				vio("Histogram", "two lookups with equal name and tags returned different histograms")
			}
			h1.Observe(3)
			if c := col.Histogram("many_h", tag(i)).Count(); c != 2 {
				ctx.R.Violate(vlib.Violation{Property: "C18", Clause: "histogram-total-lost", Path: "Collector.Histogram/many-series",
					Detail: fmt.Sprintf("series number %d of %d: Count() = %d after 2 observations", i, n, c), Witness: cs})
			}
			if col.Gauge("many_g", tag(i)) != col.Gauge("many_g", tagRev(i)) {
				vio("Gauge", "two lookups with equal name and tags returned different gauges")
			}
			if col.Timer("many_t", tag(i)) != col.Timer("many_t", tagRev(i)) {
				vio("Timer", "two lookups with equal name and tags returned different timers")
			}
			ctx.R.Path("many-series-probes", 1)
		}
		total := 0.0
		for _, m := range col.GetAllMetrics() {
			if m.Name == "many_c" {
				total += m.Value
			}
		}
		if want := float64(n + 3*len(probes)); total != want {
			ctx.R.Violate(vlib.Violation{Property: "C18", Clause: "series-total-lost", Path: "Collector.GetAllMetrics/many-series",
				Detail: fmt.Sprintf("the exported counters of %d series sum to %v, increments applied: %v", n, total, want), Witness: cs})
		}
		ctx.R.Nontriv("many-series", n)
	})
}

// c18CustomBuckets: histograms built with bucket bounds of the caller's own (the exported constructor): bounds below zero, a
// first bound of zero, very wide and very narrow ones. Count, Sum and Mean account for every observation and percentiles
// never decrease as the percentile grows (probed every half per cent).
func c18CustomBuckets(ctx *Ctx, r *rand.Rand) {
	sets := [][]float64{{-10, -5, 0, 5, 10}, {-100, -1}, {0, 1, 2}, {-0.5}, {1e-9, 1e9}, {-1e6, -1e3, -1, -1e-3}, {5}, {-3, 3}, {0.1, 0.2, 0.4, 0.8, 1.6, 3.2}, {-273.15, 0, 36.6, 100}}
	for k := 0; k < ctx.Pick(4, 40); k++ {
		b := sets[(k+ctx.Shard)%len(sets)]
		h := metrics.NewHistogramWithBuckets("custom", append([]float64(nil), b...), nil)
		cs := map[string]interface{}{"part": "histogram with bucket bounds of the caller's own", "bounds": fmt.Sprint(b)}
		ctx.R.Begin(cs)
		n := 2 + r.Intn(60)
		var sum float64
		lo, hi := b[0]-math.Abs(b[0])-1, b[len(b)-1]+math.Abs(b[len(b)-1])+1
		var obs []float64
		ctx.R.Guard("C18", "Histogram/custom-buckets", cs, func() {
			for i := 0; i < n; i++ {
				v := lo + r.Float64()*(hi-lo)
				if r.Intn(3) == 0 { // clustered in one bucket (often the first)
					v = b[0] - r.Float64()*math.Abs(b[0]+1)
				}
				v = math.Round(v*8) / 8 // (exact sums)
				h.Observe(v)
				obs = append(obs, v)
				sum += v
			}
			ctx.R.Eval(int64(n))
			if h.Count() != int64(n) || h.Sum() != sum {
				ctx.R.Violate(vlib.Violation{Property: "C18", Clause: "histogram-total-lost", Path: "Histogram/custom-buckets",
					Detail: fmt.Sprintf("bounds %v: Count() = %d, Sum() = %v after %d observations summing to %v", b, h.Count(), h.Sum(), n, sum), Witness: cs})
				return
			}
			prev, prevP := math.Inf(-1), -1.0
			for p := 0.0; p <= 100; p += 0.5 {
				v := h.Percentile(p)
				if !(v >= prev) {
					ctx.R.Violate(vlib.Violation{Property: "C18", Clause: "percentile-order", Path: "Histogram/custom-buckets",
						Detail:  fmt.Sprintf("bounds %v, %d observations: Percentile(%v) = %v < Percentile(%v) = %v", b, n, p, v, prevP, prev),
						Witness: map[string]interface{}{"case": cs, "observations": fmt.Sprint(obs)}})
					return
				}
				prev, prevP = v, p
			}
			ctx.R.Path("custom-bucket-histograms", 1)
			ctx.R.Nontriv("custom-buckets", fmt.Sprint(b), n)
		})
	}
}

func engineC18Seq(ctx *Ctx) {
	r := vlib.NewRand(ctx.Seed, ctx.Shard, "metrics")
	c18CustomBuckets(ctx, vlib.NewRand(ctx.Seed, ctx.Shard, "metrics-custom-buckets"))
	if ctx.Shard%4 == 1 || ctx.NShards < 4 {
		c18ManySeries(ctx, r)
	}
	rounds := ctx.N(160, 24000)
	for rd := 0; rd < rounds; rd++ {
		c18SeqCollectorRound(ctx, r, rd)
		if rd%4 == 0 {
			c18AmbigRound(ctx, r, rd)
		}
		c18SeqMonitorRound(ctx, r, rd)
		if rd%3 == 0 {
			c18DefaultMonitorRound(ctx, r, rd)
		}
		if rd%4 == 1 {
			c18SeqMDBRound(ctx, r, rd)
		}
	}
}

// ---------------------------------------------------------------------------
// Concurrent engine

// c18Barrier: step i opens when all n goroutines arrived (or one aborted).
type c18Barrier struct {
	n       int32
	arrived []int32
	aborted int32
}

func c18NewBarrier(n, steps int) *c18Barrier {
	return &c18Barrier{n: int32(n), arrived: make([]int32, steps)}
}

func (b *c18Barrier) wait(i int) {
	atomic.AddInt32(&b.arrived[i], 1)
	for atomic.LoadInt32(&b.arrived[i]) < b.n && atomic.LoadInt32(&b.aborted) == 0 {
		runtime.Gosched()
	}
}

func c18Recover(ctx *Ctx, bar *c18Barrier, path string, cs interface{}) {
	if x := recover(); x != nil {
		if bar != nil {
			atomic.StoreInt32(&bar.aborted, 1)
		}
		ctx.R.Violate(vlib.Violation{Property: "C18", Clause: "panic", Path: path, Detail: fmt.Sprintf("panic in a client goroutine: %v", x), Witness: cs})
	}
}

func c18ConcCollectorRound(ctx *Ctx, r *rand.Rand, rd, G, K int) {
	ids := c18GenIdents(r, 12+r.Intn(9))
	w := c18NewWorld(ctx, ids, false, true, fmt.Sprintf("shard %d round %d G=%d K=%d", ctx.Shard, rd, G, K))
	cs := map[string]interface{}{"part": "collector", "round": rd, "identities": len(ids), "goroutines": G, "ops_per_goroutine": K}
	ctx.R.Begin(cs)
	for wave := 0; wave < 2; wave++ {
		bar := c18NewBarrier(G, len(w.ents))
		locs := make([]*c18Local, G)
		var wg, rwg sync.WaitGroup
		var stop int32
		var issued int64
		if (rd+wave)%2 == 0 { // a reader alongside the writers; what it reads is not compared
			rwg.Add(1)
			go func() {
				defer rwg.Done()
				defer c18Recover(ctx, nil, "conc/Collector.GetAllMetrics", cs)
				for atomic.LoadInt32(&stop) == 0 {
					_ = w.col.GetAllMetrics()
					runtime.Gosched()
				}
			}()
		}
		for g := 0; g < G; g++ {
			locs[g] = c18NewLocal()
			gr := vlib.NewRand(ctx.Seed, ctx.Shard, fmt.Sprintf("c18conc-col-%d-%d-%d", rd, wave, g))
			wg.Add(1)
			go func(gr *rand.Rand, loc *c18Local) {
				defer wg.Done()
				defer c18Recover(ctx, bar, "conc/Collector", cs)
				n := int64(0)
				if wave == 0 { // all goroutines meet every identity at its creation
					for i, e := range w.ents {
						bar.wait(i)
						w.op(gr, e, loc, false)
						n++
					}
				}
				for i := 0; i < K; i++ {
					w.op(gr, w.ents[gr.Intn(len(w.ents))], loc, gr.Intn(10) == 0)
					n++
					if gr.Intn(3) == 0 {
						runtime.Gosched()
					}
				}
				atomic.AddInt64(&issued, n)
			}(gr, locs[g])
		}
		wg.Wait()
		atomic.StoreInt32(&stop, 1)
		rwg.Wait()
		for _, loc := range locs {
			w.merge(loc)
		}
		ctx.R.Eval(issued)
		ctx.R.Path("concurrent-ops", issued)
		w.events += issued
		ctx.R.Guard("C18", "conc/Collector.GetAllMetrics", cs, func() { w.check(fmt.Sprintf("after Wait of wave %d, %d goroutines", wave, G)) })
	}
	c18AddExtra(ctx, "events", float64(w.events))
	c18AddExtra(ctx, "goroutine_rounds", 1)
	w.finish()
}

func c18ConcMonitorRound(ctx *Ctx, r *rand.Rand, rd, G, K int) {
	pm := metrics.NewPerformanceMonitor()
	ops := c18PickOps(r)
	x := c18NewMonExp(ops, true)
	cs := map[string]interface{}{"part": "monitor", "round": rd, "operations": ops, "goroutines": G, "ops_per_goroutine": K}
	ctx.R.Begin(cs)
	once := map[string]bool{}
	bar := c18NewBarrier(G, 2*len(ops)+2)
	var wg, rwg sync.WaitGroup
	var stop int32
	var nS, nD int64
	if rd%2 == 1 {
		rwg.Add(1)
		go func() {
			defer rwg.Done()
			defer c18Recover(ctx, nil, "conc/PerformanceMonitor.GetPerformanceReport", cs)
			for atomic.LoadInt32(&stop) == 0 {
				_ = pm.GetPerformanceReport()
				runtime.Gosched()
			}
		}()
	}
	for g := 0; g < G; g++ {
		gr := vlib.NewRand(ctx.Seed, ctx.Shard, fmt.Sprintf("c18conc-mon-%d-%d", rd, g))
		wg.Add(1)
		go func(gr *rand.Rand) {
			defer wg.Done()
			defer c18Recover(ctx, bar, "conc/PerformanceMonitor", cs)
			var s, d int64
			step := 0
			for _, op := range ops { // all goroutines meet every series at its creation
				for _, ok := range []bool{true, false} {
					bar.wait(step)
					step++
					pm.RecordDatabaseOperation(op, time.Duration(gr.Int63n(int64(time.Second))), ok)
					atomic.AddInt64(&x.dbCnt[x.dbIndex(op, ok)], 1)
					d++
				}
			}
			for _, hit := range []bool{true, false} {
				bar.wait(step)
				step++
				ql := gr.Intn(200)
				pm.RecordSearchOperation(time.Duration(gr.Int63n(int64(time.Second))), gr.Intn(50), hit, ql)
				atomic.AddInt64(&x.nSearch, 1)
				atomic.AddInt64(&x.qlenSum, int64(ql))
				if hit {
					atomic.AddInt64(&x.hits, 1)
				} else {
					atomic.AddInt64(&x.misses, 1)
				}
				s++
			}
			for i := 0; i < K; i++ {
				if c18MonitorOp(gr, pm, x, ops) {
					s++
				} else {
					d++
				}
				if gr.Intn(3) == 0 {
					runtime.Gosched()
				}
			}
			atomic.AddInt64(&nS, s)
			atomic.AddInt64(&nD, d)
		}(gr)
	}
	wg.Wait()
	atomic.StoreInt32(&stop, 1)
	rwg.Wait()
	ctx.R.Eval(nS + nD)
	ctx.R.Path("concurrent-ops", nS+nD)
	ctx.R.Path("monitor-search-ops", nS)
	ctx.R.Path("monitor-db-ops", nD)
	var rep metrics.PerformanceReport
	if ctx.R.Guard("C18", "conc/PerformanceMonitor.GetPerformanceReport", cs, func() { rep = pm.GetPerformanceReport() }) {
		c18CheckReport(ctx, "PerformanceMonitor", true, rep, x, fmt.Sprintf("shard %d round %d after Wait, G=%d K=%d", ctx.Shard, rd, G, K), once)
	}
}

func c18ConcMDBRound(ctx *Ctx, r *rand.Rand, rd, G, K int) {
	cs := map[string]interface{}{"part": "monitored-database", "round": rd, "goroutines": G, "searches_per_goroutine": K}
	ctx.R.Begin(cs)
	d := c18MakeDB(ctx, r, cs)
	if d == nil {
		return
	}
	x := c18NewMonExp([]string{"load"}, false)
	once := map[string]bool{}
	loads := func(j int) { // replacing the entries is not a concurrent operation of the wrapper: done alone
		ctx.R.Guard("C18", "conc/MonitoredDatabase.LoadDatabaseWithMonitoring", cs, func() {
			for i := 0; i < j; i++ {
				d.mdb.LoadDatabaseWithMonitoring(d.db.Commands)
				atomic.AddInt64(&x.dbCnt[x.dbIndex("load", true)], 1)
				ctx.R.Path("monitor-db-ops", 1)
				ctx.R.Eval(1)
			}
		})
	}
	loads(1 + r.Intn(4))
	var wg sync.WaitGroup
	bar := c18NewBarrier(G, 1)
	for g := 0; g < G; g++ {
		gr := vlib.NewRand(ctx.Seed, ctx.Shard, fmt.Sprintf("c18conc-mdb-%d-%d", rd, g))
		wg.Add(1)
		go func(gr *rand.Rand) {
			defer wg.Done()
			defer c18Recover(ctx, bar, "conc/MonitoredDatabase", cs)
			bar.wait(0)
			for i := 0; i < K; i++ {
				c18MDBSearch(gr, d, x)
				if gr.Intn(2) == 0 {
					runtime.Gosched()
				}
			}
		}(gr)
	}
	wg.Wait()
	n := atomic.LoadInt64(&x.nSearch)
	ctx.R.Eval(n)
	ctx.R.Path("concurrent-ops", n)
	ctx.R.Path("monitor-search-ops", n)
	ctx.R.Path("monitored-database-rounds", 1)
	loads(1 + r.Intn(3))
	var rep metrics.PerformanceReport
	if ctx.R.Guard("C18", "conc/MonitoredDatabase.GetPerformanceReport", cs, func() { rep = d.mdb.GetPerformanceReport() }) {
		c18CheckReport(ctx, "MonitoredDatabase", true, rep, x, fmt.Sprintf("shard %d round %d after Wait, G=%d, %d searches per goroutine", ctx.Shard, rd, G, K), once)
	}
}

// c18ConcDistinctRound: every goroutine registers series of its OWN (per-worker, per-query tags: distinct identities of one
// name) while the others register theirs, records through the handle it got, and after Wait every identity is looked up again:
// same object, every recorded event in it, and in the export.
func c18ConcDistinctRound(ctx *Ctx, rd, G, S int) {
	cs := map[string]interface{}{"part": "collector/distinct-series-registered-concurrently", "round": rd, "goroutines": G, "series_per_goroutine_and_kind": S}
	ctx.R.Begin(cs)
	col := metrics.NewCollector()
	tag := func(g, i int) map[string]string {
		return map[string]string{"worker": fmt.Sprint(g), "item": fmt.Sprint(i)}
	}
	type handles struct {
		c []*metrics.Counter
		h []*metrics.Histogram
		g []*metrics.Gauge
		t []*metrics.Timer
	}
	hs := make([]handles, G)
	bar := c18NewBarrier(G, S)
	var wg sync.WaitGroup
	for g := 0; g < G; g++ {
		wg.Add(1)
		go func(g int) {
			defer wg.Done()
			defer c18Recover(ctx, bar, "conc/Collector/distinct-series", cs)
			h := &hs[g]
			for i := 0; i < S; i++ {
				bar.wait(i)
				c := col.Counter("distinct_c", tag(g, i))
				c.Add(5)
				h.c = append(h.c, c)
				hi := col.Histogram("distinct_h", tag(g, i))
				hi.Observe(2)
				hi.Observe(3)
				h.h = append(h.h, hi)
				ga := col.Gauge("distinct_g", tag(g, i))
				ga.Add(7)
				h.g = append(h.g, ga)
				ti := col.Timer("distinct_t", tag(g, i))
				ti.Histogram().Observe(1)
				h.t = append(h.t, ti)
			}
		}(g)
	}
	wg.Wait()
	ctx.R.Eval(int64(G * S * 4))
	ctx.R.Path("concurrent-ops", int64(G*S*4))
	bad := 0
	vio := func(clause, kind string, g, i int, detail string) {
		bad++
		if bad > 3 {
			return
		}
		ctx.R.Violate(vlib.Violation{Property: "C18", Clause: clause, Path: "conc/Collector." + kind + "/distinct-series",
			Detail: fmt.Sprintf("series {worker=%d,item=%d} registered by goroutine %d while %d others registered theirs: %s", g, i, g, G-1, detail), Witness: cs})
	}
	ctx.R.Guard("C18", "conc/Collector/distinct-series", cs, func() {
		for g := 0; g < G; g++ {
			if len(hs[g].c) != S {
				continue // the goroutine stopped early (reported)
			}
			for i := 0; i < S; i++ {
				if c := col.Counter("distinct_c", tag(g, i)); c != hs[g].c[i] {
					vio("identity-split", "Counter", g, i, fmt.Sprintf("a later lookup returns another counter (value %d; the first one holds %d)", c.Value(), hs[g].c[i].Value()))
				} else if v := c.Value(); v != 5 {
					vio("counter-total-lost", "Counter", g, i, fmt.Sprintf("Value() = %d after Add(5)", v))
				}
				if h := col.Histogram("distinct_h", tag(g, i)); h != hs[g].h[i] {
					vio("identity-split", "Histogram", g, i, fmt.Sprintf("a later lookup returns another histogram (count %d; the first one holds %d)", h.Count(), hs[g].h[i].Count()))
				} else if h.Count() != 2 || h.Sum() != 5 {
					vio("histogram-total-lost", "Histogram", g, i, fmt.Sprintf("Count() = %d, Sum() = %v after observing 2 and 3", h.Count(), h.Sum()))
				}
				if ga := col.Gauge("distinct_g", tag(g, i)); ga != hs[g].g[i] {
					vio("identity-split", "Gauge", g, i, "a later lookup returns another gauge")
				}
				if ti := col.Timer("distinct_t", tag(g, i)); ti != hs[g].t[i] {
					vio("identity-split", "Timer", g, i, "a later lookup returns another timer")
				}
			}
		}
		total, series := 0.0, 0
		for _, m := range col.GetAllMetrics() {
			if m.Name == "distinct_c" {
				total += m.Value
				series++
			}
		}
		if want := float64(5 * G * S); bad == 0 && (total != want || series != G*S) {
			vio("series-total-lost", "GetAllMetrics", 0, 0, fmt.Sprintf("the export lists %d counters of that name summing to %v; %d were registered and %v added", series, total, G*S, want))
		}
	})
	ctx.R.Path("distinct-series-registered-concurrently", int64(G*S*4))
	if bad == 0 {
		ctx.R.Nontriv("c18-distinct", ctx.Seed, ctx.Shard, rd)
	}
}

func engineC18Conc(ctx *Ctx) {
	r := vlib.NewRand(ctx.Seed, ctx.Shard, "metrics-conc")
	rounds := ctx.N(32, 960)
	for rd := 0; rd < rounds; rd++ {
		G := []int{2, 4, 8, 16}[(rd+ctx.Shard)%4]
		c18ConcDistinctRound(ctx, rd, G, 40+r.Intn(80))
		c18ConcCollectorRound(ctx, r, rd, G, 120+r.Intn(120))
		c18ConcMonitorRound(ctx, r, rd, G, 80+r.Intn(80))
		if rd%2 == 0 {
			c18ConcMDBRound(ctx, r, rd, G, 6+r.Intn(8))
		}
		ctx.R.Path(fmt.Sprintf("goroutines-%d", G), 1)
	}
}

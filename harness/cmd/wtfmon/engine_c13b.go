package main

import (
	"fmt"
	"os"
	"path/filepath"
	"sort"
	"strings"

	"github.com/Vedant9500/WTF/internal/zzverif/vlib"
)

func init() { engines["ctxboost-cli"] = engineCtxBoostCLI }

// engineCtxBoostCLI: the same `wtf` search run from an empty working directory and from project directories with
// marker files (git, node with scripts, go, docker, make with targets, python ...): the project context may re-rank
// but never adds or removes a candidate (limit >= number of entries), and a command that mentions none of the
// boosted words keeps its score.
func engineCtxBoostCLI(ctx *Ctx) {
	r := vlib.NewRand(ctx.Seed, ctx.Shard, "ctxboost-cli")
	n := ctx.N(48, 1600)
	for i := 0; i < n; i++ {
		base := filepath.Join(ctx.Scratch, fmt.Sprintf("cb%d", i))
		h := NewHome(base)
		cmds := c17UniqueDB(r, []int{12, 30, 60}[i%3], 0)
		// project words in the database so that boosts have something to act on
		boostWords := []string{"git", "commit", "docker", "build", "npm", "install", "test", "make", "go", "python", "pip", "run", "deploy", "lint"}
		for k := range cmds {
			if r.Intn(2) == 0 {
				cmds[k].Description += " " + boostWords[r.Intn(len(boostWords))]
			}
		}
		dbp := filepath.Join(base, "db.yml")
		vlib.WriteYAML(dbp, cmds)
		proj := filepath.Join(base, "project")
		os.MkdirAll(proj, 0o755)
		var markers []string
		for _, m := range [][2]string{{".git", "dir"}, {"package.json", `{"name":"x","scripts":{"lint":"eslint .","deploy":"sh d.sh","test":"jest"}}`}, {"go.mod", "module x\n"},
			{"Dockerfile", "FROM scratch\n"}, {"Makefile", "build:\n\tgo build\ntest: build\n\tgo test\nrelease:\n\techo\n"}, {"requirements.txt", "x\n"}, {"Cargo.toml", "[package]\n"}, {"main.tf", "\n"}} {
			if r.Intn(2) == 0 {
				continue
			}
			markers = append(markers, m[0])
			if m[1] == "dir" {
				os.MkdirAll(filepath.Join(proj, m[0]), 0o755)
			} else {
				os.WriteFile(filepath.Join(proj, m[0]), []byte(m[1]), 0o644)
			}
		}
		words := vlib.DBWords(cmds)
		for qi := 0; qi < ctx.Pick(5, 6); qi++ {
			q := vlib.GenQuery(r, append(words, boostWords...), 1+r.Intn(3), 0)
			if strings.TrimSpace(q) == "" {
				continue
			}
			args := []string{"--database", dbp, "--all-platforms", "--limit", "100", "--format", "json", "-v", "--no-color", "--", q}
			cs := map[string]interface{}{"db_entries": len(cmds), "query": q, "markers": markers}
			ctx.R.Begin(cs)
			ctx.R.Eval(1)
			run := func(cwd string) (map[string]float64, bool) {
				hh := *h
				hh.Cwd = cwd
				res := hh.Wtf(ctx.Wtf, nil, args...)
				if bad, why := res.Crashed(); bad {
					ctx.R.Violate(vlib.Violation{Property: "C13", Clause: "crash", Path: "cli", Detail: why, Witness: cs})
					return nil, false
				}
				_, items, present, wf := JSONBlock(res.Stdout)
				if present && !wf {
					return nil, false
				}
				out := map[string]float64{}
				for _, it := range items {
					out[it.Command+"\x00"+it.Description] = it.Score
				}
				return out, true
			}
			plain, ok1 := run(h.Cwd)
			plain2, ok1b := run(h.Cwd)
			inProj, ok2 := run(proj)
			if !ok1 || !ok1b || !ok2 {
				continue
			}
			if fmt.Sprint(sortedKeys(plain)) != fmt.Sprint(sortedKeys(plain2)) {
				ctx.R.Inconcl("reference unstable")
				continue
			}
			ctx.R.Path("cli-context-pairs", 1)
			if len(markers) > 0 && len(plain) > 0 {
				ctx.R.Nontriv("ctx-cli", i, q, strings.Join(markers, ","))
				ctx.R.Path("cli-context-pairs-in-project", 1)
			}
			if a, b := sortedKeys(plain), sortedKeys(inProj); fmt.Sprint(a) != fmt.Sprint(b) {
				ctx.R.Violate(vlib.Violation{Property: "C13", Clause: "candidates-changed", Path: "cli/project-directory",
					Detail:  fmt.Sprintf("the set of printed commands differs between an empty directory (%d) and a project directory with %v (%d)", len(a), markers, len(b)),
					Witness: map[string]interface{}{"case": cs, "empty_dir": a, "project_dir": b}})
				continue
			}
			raised := false
			for k, s0 := range plain {
				s1 := inProj[k]
				if s1 < s0*(1-1e-9) {
					ctx.R.Violate(vlib.Violation{Property: "C13", Clause: "score-lowered", Path: "cli/project-directory",
						Detail: fmt.Sprintf("%q scores %.6g in an empty directory and %.6g in the project directory", strings.SplitN(k, "\x00", 2)[0], s0, s1), Witness: cs})
					break
				}
				if s1 > s0*(1+1e-9) {
					raised = true
				}
			}
			if raised {
				ctx.R.Path("cli-context-raised-a-score", 1)
			}
		}
		os.RemoveAll(base)
	}
}

func sortedKeys(m map[string]float64) []string {
	out := make([]string, 0, len(m))
	for k := range m {
		out = append(out, k)
	}
	sort.Strings(out)
	return out
}

package main

import (
	"fmt"
	"os"
	"path/filepath"
	"regexp"
	"strconv"
	"strings"

	"github.com/Vedant9500/WTF/internal/zzverif/vlib"
)

func init() { engines["history-cli"] = engineHistoryCLI }

var (
	c16bRecentRe = regexp.MustCompile(`^(\d+)\. (.*)$`)
	c16bTopRe    = regexp.MustCompile(`^(\d+)\. "(.*)" \((\d+) times, last used: `)
)

// engineHistoryCLI: a sequence of real searches, then the `wtf history` views, compared with the history file:
// recent queries are the distinct queries newest first, the frequencies of --top sum to the entry count, --stats
// reports the entry and distinct-query counts, --clear empties the log.
func engineHistoryCLI(ctx *Ctx) {
	r := vlib.NewRand(ctx.Seed, ctx.Shard, "history-cli")
	n := ctx.N(48, 1600)
	for i := 0; i < n; i++ {
		base := filepath.Join(ctx.Scratch, fmt.Sprintf("hc%d", i))
		h := NewHome(base)
		cmds := c17UniqueDB(r, 15, 0)
		dbp := filepath.Join(base, "db.yml")
		vlib.WriteYAML(dbp, cmds)
		words := vlib.DBWords(cmds)
		pool := []string{}
		for k := 0; k < 3+r.Intn(4); k++ {
			pool = append(pool, vlib.GenQuery(r, words, 1+r.Intn(2), 0))
		}
		var model []string // validated queries in chronological order, immediate repeats collapsed
		// some homes start with a history file that is almost full: the bound of 100 is then crossed by real searches
		if i%3 == 0 {
			nPre := 97 + r.Intn(4)
			var sb strings.Builder
			sb.WriteString("{\n  \"entries\": [\n")
			for k := 0; k < nPre; k++ {
				if k > 0 {
					sb.WriteString(",\n")
				}
				q := fmt.Sprintf("old query %d", k%40)
				if k > 0 && q == model[len(model)-1] {
					q += " x"
				}
				model = append(model, q)
				fmt.Fprintf(&sb, "    {\"query\": %q, \"timestamp\": \"2026-01-02T03:%02d:%02d.5Z\", \"results_count\": %d, \"context\": \"generic directory\", \"duration\": 3}", q, k/60, k%60, k%6)
			}
			sb.WriteString("\n  ],\n  \"max_size\": 100\n}")
			os.MkdirAll(filepath.Dir(h.History()), 0o755)
			os.WriteFile(h.History(), []byte(sb.String()), 0o644)
			ctx.R.Path("cli-history-almost-full-start", 1)
		}
		for s := 0; s < 3+r.Intn(12); s++ {
			q := strings.Join(strings.Fields(pool[r.Intn(len(pool))]), " ")
			if q == "" {
				continue
			}
			res := h.Wtf(ctx.Wtf, nil, "--database", dbp, "--all-platforms", "--", q)
			if bad, _ := res.Crashed(); bad || !strings.Contains(res.Stdout, "Searching for: ") {
				continue
			}
			if len(model) == 0 || model[len(model)-1] != q {
				model = append(model, q)
			}
			if len(model) > 100 { // the log keeps the most recent 100
				model = model[len(model)-100:]
				ctx.R.Path("cli-history-bound-crossed", 1)
			}
		}
		cs := map[string]interface{}{"searches_in_order": model}
		ctx.R.Begin(cs)
		ctx.R.Eval(1)
		distinct := map[string]int{}
		for _, q := range model {
			distinct[q]++
		}
		var recentWant []string
		seen := map[string]bool{}
		for k := len(model) - 1; k >= 0; k-- {
			if !seen[model[k]] {
				seen[model[k]] = true
				recentWant = append(recentWant, model[k])
			}
		}
		viol := func(clause, path, detail string, out string) {
			ctx.R.Violate(vlib.Violation{Property: "C16", Clause: clause, Path: path, Detail: detail, Witness: map[string]interface{}{"case": cs, "stdout": vlib.Trunc(out, 1200)}})
		}
		// recent
		res := h.Wtf(ctx.Wtf, nil, "history", "--limit", "100")
		if bad, why := res.Crashed(); bad {
			viol("panic", "wtf history", why, res.Stderr)
			continue
		}
		var got []string
		for _, l := range strings.Split(res.Stdout, "\n") {
			if m := c16bRecentRe.FindStringSubmatch(l); m != nil && !strings.HasPrefix(l, "To run") {
				got = append(got, m[2])
			}
		}
		if len(model) > 0 && fmt.Sprint(got) != fmt.Sprint(recentWant) {
			viol("recent", "wtf history", fmt.Sprintf("recent view prints %q, the searches made give %q", got, recentWant), res.Stdout)
		}
		// top
		res = h.Wtf(ctx.Wtf, nil, "history", "--top", "--limit", "100")
		sum, rows := 0, 0
		prev := 1 << 30
		sorted := true
		for _, l := range strings.Split(res.Stdout, "\n") {
			if m := c16bTopRe.FindStringSubmatch(l); m != nil {
				k, _ := strconv.Atoi(m[3])
				if distinct[m[2]] != k {
					viol("top", "wtf history --top", fmt.Sprintf("%q reported %d times, searched %d times (after collapsing immediate repeats)", m[2], k, distinct[m[2]]), res.Stdout)
				}
				if k > prev {
					sorted = false
				}
				prev = k
				sum += k
				rows++
			}
		}
		if len(model) > 0 && (sum != len(model) || rows != len(distinct) || !sorted) {
			viol("top", "wtf history --top", fmt.Sprintf("frequencies sum to %d over %d rows (sorted: %v); the log has %d entries and %d distinct queries", sum, rows, sorted, len(model), len(distinct)), res.Stdout)
		}
		// stats
		res = h.Wtf(ctx.Wtf, nil, "history", "--stats")
		if len(model) > 0 && (!strings.Contains(res.Stdout, fmt.Sprintf("Total searches: %d\n", len(model))) || !strings.Contains(res.Stdout, fmt.Sprintf("Unique queries: %d\n", len(distinct)))) {
			viol("stats", "wtf history --stats", fmt.Sprintf("statistics do not report %d searches / %d unique queries", len(model), len(distinct)), res.Stdout)
		}
		// file agrees with the model
		if hf, ok := c17ReadHist(h.History()); ok {
			var fq []string
			for _, e := range hf.Entries {
				fq = append(fq, e.Query)
			}
			if fmt.Sprint(fq) != fmt.Sprint(model) && len(model) > 0 {
				viol("content", "search_history.json", fmt.Sprintf("file holds %q, searches made (immediate repeats collapsed) %q", fq, model), "")
			}
		}
		// clear
		res = h.Wtf(ctx.Wtf, nil, "history", "--clear")
		if hf, ok := c17ReadHist(h.History()); len(model) > 0 && (!ok || len(hf.Entries) != 0) {
			viol("clear", "wtf history --clear", "after --clear the history file is missing, unreadable or not empty", res.Stdout)
		}
		ctx.R.Path("cli-history-sessions", 1)
		if len(model) > len(distinct) {
			ctx.R.Path("cli-history-with-repeats", 1)
			ctx.R.Nontriv("history-cli", i, strings.Join(model, "|"))
		}
		if i < 2 {
			ctx.R.Sample(cs)
		}
		os.RemoveAll(base)
	}
}

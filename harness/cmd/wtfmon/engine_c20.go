package main

import (
	"fmt"
	"math/rand"
	"os"
	"path/filepath"
	"strings"
	"unicode"

	"github.com/Vedant9500/WTF/internal/database"
	"github.com/Vedant9500/WTF/internal/zzverif/vlib"
)

func init() {
	engines["caseinv"] = engineCaseInv
	engines["caseinv-cli"] = engineCaseInvCLI
}

// c20Respellable: letters whose lower-casing agrees with simple case folding:
// r is the canonical lower or upper form of a two-way pair.
func c20Respellable(r rune) bool {
	l, u := unicode.ToLower(r), unicode.ToUpper(r)
	if l == u || (r != l && r != u) {
		return false
	}
	return unicode.ToLower(u) == l && unicode.ToUpper(l) == u
}

// c20Respell re-spells the case of letters of q. mode: 0 upper, 1 lower, 2 title, 3 alternating, 4 random.
func c20Respell(r *rand.Rand, q string, mode int) string {
	var b strings.Builder
	i := 0
	startOfWord := true
	for _, c := range q {
		out := c
		if c20Respellable(c) {
			up := false
			switch mode {
			case 0:
				up = true
			case 1:
				up = false
			case 2:
				up = startOfWord
			case 3:
				up = i%2 == 0
			default:
				up = r.Intn(2) == 0
			}
			if up {
				out = unicode.ToUpper(c)
			} else {
				out = unicode.ToLower(c)
			}
			i++
		}
		startOfWord = unicode.IsSpace(c)
		b.WriteRune(out)
	}
	return b.String()
}

// c20NLPSweep: every word the query-analysis package names (also with an ending glued on, so that it is only contained in a
// longer word) in front of every phrase it names: the analysis - and with it the NLP answer - of the lower-case and the
// upper-case spelling must be the same.
func c20NLPSweep(ctx *Ctx, r *rand.Rand) {
	d := ctx.Dict()
	cmds := vlib.GenCommands(r, vlib.DBSpec{N: 30, TieHeavy: true, Pipelines: true})
	// entries the action / target vocabulary can tell apart
	for i, t := range []string{"less file.txt", "cat file.txt", "vim file.txt", "tail -f app.log", "head -n 5 file", "nano notes.txt", "open report.pdf", "view image.png"} {
		cmds = append(cmds, vlib.Cmd{Command: t, Description: []string{"view file contents page by page", "print file contents", "edit a file", "follow a log file", "show first lines of a file", "edit text file", "open a document", "display an image"}[i], Keywords: []string{"file", "view", "show", "edit", "read"}})
	}
	db := vlib.MustLoad(cmds)
	o := database.SearchOptions{Limit: len(cmds) + 1, UseNLP: true, AllPlatforms: true}
	budget := ctx.Pick(25000, 1000000)
	n := 0
	total := d.NLPCombos(ctx.Shard, ctx.NShards, "file", func(q string) {
		n++
		if n > budget {
			return
		}
		up := strings.ToUpper(q)
		cs := map[string]interface{}{"db": "nlp-sweep", "n": len(cmds), "query": q, "variant": up, "opts": vlib.OptsJ(o)}
		ctx.R.Begin(cs)
		ctx.R.Eval(1)
		ctx.R.Path("nlp-vocabulary-sweep", 1)
		ctx.R.Guard("C20", "SearchUniversal", cs, func() {
			a := vlib.Canon(db.Commands, db.SearchUniversal(q, o))
			b := vlib.Canon(db.Commands, db.SearchUniversal(up, o))
			if ok, why := vlib.Approx(a, b, o.Limit); !ok {
				a2 := vlib.Canon(db.Commands, db.SearchUniversal(q, o))
				if okA, _ := vlib.Approx(a, a2, o.Limit); !okA {
					ctx.R.Inconcl("nlp sweep: reference unstable")
					return
				}
				ctx.R.Violate(vlib.Violation{Property: "C20", Clause: "case-changes-answer", Path: "SearchUniversal/nlp-sweep",
					Detail:  fmt.Sprintf("%s and %s get different answers: %s", vlib.Q(q), vlib.Q(up), why),
					Witness: map[string]interface{}{"case": cs, "a": a, "b": b}})
			}
		})
	})
	c18AddExtra(ctx, "nlp_vocabulary_combinations", float64(total))
	c18AddExtra(ctx, "nlp_vocabulary_words", float64(len(d.NLPWords))/float64(ctx.NShards))
	c18AddExtra(ctx, "nlp_vocabulary_phrases", float64(len(d.NLPPhrases))/float64(ctx.NShards))
}

func engineCaseInv(ctx *Ctx) {
	r := vlib.NewRand(ctx.Seed, ctx.Shard, "caseinv")
	c20NLPSweep(ctx, r)
	nDB := ctx.N(240, 12000)
	nQ := ctx.Pick(40, 60)
	for d := 0; d < nDB; d++ {
		var db *database.Database
		dbName := fmt.Sprintf("gen-%d-%d", ctx.Shard, d)
		if d == 0 && ctx.Shard%8 == 7 {
			db = ctx.Shipped()
			dbName = "shipped"
		} else {
			sp := dbSpecFor(r, d+ctx.Shard)
			sp.MixedCase = true
			sp.Unicode = d%2 == 0
			if sp.N > 200 {
				sp.N = 200
			}
			cmds0 := vlib.GenCommands(r, sp)
			if !ctx.R.Guard("C20", "LoadDatabase", dbName, func() { db = vlib.MustLoad(cmds0) }) {
				continue
			}
		}
		cmds := db.Commands
		N := len(cmds)
		if N == 0 {
			continue
		}
		if g := ctx.G(d); dbName != "shipped" && g%5 == 3 && N < 400 {
			// an embedding index whose vocabulary comes from a cased model
			if attachEmbeddings(ctx, r, db, []string{"cased", "cased", "unit"}[(g/5)%3]) {
				dbName += "/embeddings"
				ctx.R.Path("databases-with-a-cased-embedding-vocabulary", 1)
			}
		}
		words := vlib.DBWords(cmds)
		if len(words) > 3000 {
			words = words[:3000]
		}
		cdb := database.NewCachedDatabase(db)
		nq := nQ
		if dbName == "shipped" {
			nq = ctx.Pick(25, 200)
		}
		for qi := 0; qi < nq; qi++ {
			var q string
			switch qi % 5 {
			case 0, 1:
				q = vlib.GenQuery(r, words, 1+r.Intn(5), []int{0, 1}[r.Intn(2)])
			case 2:
				q = vlib.GenQuery(r, words, 1+r.Intn(2), 2) // typo: fuzzy fallback decides
			case 3: // NLP clue phrases and intent words
				q = []string{"see the contents of a file without opening it", "show file contents without editing", "find large files", "create new directory",
					"install package", "compress archive folder", "view running processes", "search text in files", "change permissions of file", "download url",
					// context clues that are only substrings of longer words (the clue detector works on the raw text)
					"preview file contents without opening", "reading logs without editing them", "looking inside archive without opening it",
					"showing text file without opening editor", "displayed contents without editing", "overview of file without opening"}[r.Intn(16)]
				if r.Intn(2) == 0 {
					q += " " + vlib.Word(r, words)
				}
			default:
				c := cmds[r.Intn(N)]
				f := strings.Fields(c.Command + " " + c.Description)
				q = f[r.Intn(len(f))]
				if r.Intn(2) == 0 && len(q) > 3 {
					q = q[:len(q)-1]
				}
				if r.Intn(3) == 0 {
					q += " " + []string{"Ärger", "ÉCOLE", "файл", "ΑΡΧΕΊΟ", "straße"}[r.Intn(5)]
				}
			}
			q2 := c20Respell(r, q, r.Intn(5))
			if q2 == q {
				q2 = c20Respell(r, q, 0)
				if q2 == q {
					q2 = c20Respell(r, q, 1)
				}
			}
			if q2 == q {
				continue
			}
			o := vlib.RandomOptions(r, N, words)
			o.UseFuzzy = qi%5 == 2 || o.UseFuzzy
			cs := map[string]interface{}{"db": dbName, "n": N, "query": q, "respelt": q2, "opts": vlib.OptsJ(o)}
			ctx.R.Begin(cs)
			ctx.R.Eval(1)
			ctx.R.Guard("C20", "SearchUniversal", cs, func() {
				L := vlib.LimitInForce(o.Limit)
				refs, stable := vlib.StableRef(5, func() vlib.Ranked { return vlib.Canon(cmds, db.SearchUniversal(q, o)) })
				cand := vlib.Canon(cmds, db.SearchUniversal(q2, o))
				path := "empty"
				if len(refs[0]) > 0 {
					off := o
					off.UseFuzzy = false
					lex := db.SearchUniversal(q, off)
					switch {
					case len(lex) == 0:
						path = "fuzzy"
					case o.UseNLP:
						path = "nlp"
					default:
						path = "lexical"
					}
					ctx.R.Nontriv(dbName, q, q2, fmt.Sprintf("%+v", vlib.OptsJ(o)))
				}
				ctx.R.Path("pairs-"+path, 1)
				verdict, why := vlib.CompareToRef(refs, stable, cand, L)
				switch verdict {
				case "violated":
					ctx.R.Violate(vlib.Violation{Property: "C20", Clause: "case-changes-answer", Path: "SearchUniversal/" + path,
						Detail:  fmt.Sprintf("answers for %s and %s differ: %s", vlib.Q(q), vlib.Q(q2), why),
						Witness: map[string]interface{}{"case": cs, "a": refs[0], "b": cand}})
				case "inconclusive":
					ctx.R.Inconcl("reference unstable")
				}
				// cached: search(q) then search(q') on one CachedDatabase
				if qi%2 == 0 {
					c1 := vlib.Canon(cmds, cdb.SearchWithOptionsAndCache(q, o))
					h0 := cdb.GetCacheStats()["search"].Hits
					c2 := vlib.Canon(cmds, cdb.SearchWithOptionsAndCache(q2, o))
					if cdb.GetCacheStats()["search"].Hits > h0 {
						ctx.R.Path("cached-variant-hit", 1)
					}
					refs2, stable2 := vlib.StableRef(3, func() vlib.Ranked { return vlib.Canon(cmds, db.SearchUniversal(q2, o)) })
					if v, why := vlib.CompareToRef(refs2, stable2, c2, L); v == "violated" {
						ctx.R.Violate(vlib.Violation{Property: "C20", Clause: "cached-case-variant", Path: "SearchWithOptionsAndCache",
							Detail:  fmt.Sprintf("cached answer for %s (after %s) differs from its own uncached answer: %s", vlib.Q(q2), vlib.Q(q), why),
							Witness: map[string]interface{}{"case": cs, "cached": c2, "fresh": refs2[0]}})
					}
					if v, why := vlib.CompareToRef(refs, stable, c1, L); v == "violated" {
						ctx.R.Violate(vlib.Violation{Property: "C20", Clause: "cached-case-variant", Path: "SearchWithOptionsAndCache",
							Detail:  fmt.Sprintf("cached answer for %s differs from its own uncached answer: %s", vlib.Q(q), why),
							Witness: map[string]interface{}{"case": cs, "cached": c1, "fresh": refs[0]}})
					}
				}
				if qi < 3 {
					ctx.R.Sample(map[string]interface{}{"case": cs, "path": path})
				}
			})
		}
	}
}

// engineCaseInvCLI: two command lines whose queries differ only in letter case
// or in leading / trailing / repeated blanks print the same result block.
func engineCaseInvCLI(ctx *Ctx) {
	r := vlib.NewRand(ctx.Seed, ctx.Shard, "caseinv-cli")
	nDB := ctx.N(64, 1920)
	for d := 0; d < nDB; d++ {
		sp := vlib.DBSpec{N: []int{10, 30, 80}[d%3], MixedCase: true, Platforms: d % 2, Pipelines: true}
		cmds := vlib.GenCommands(r, sp)
		// unique command strings so printed items identify entries
		seen := map[string]bool{}
		uniq := cmds[:0]
		for _, c := range cmds {
			if !seen[c.Command] {
				seen[c.Command] = true
				uniq = append(uniq, c)
			}
		}
		cmds = uniq
		idx := map[string]int{}
		for i, c := range cmds {
			idx[c.Command] = i
		}
		base := filepath.Join(ctx.Scratch, fmt.Sprintf("c20cli%d", d))
		h := NewHome(base)
		dbp := filepath.Join(base, "db.yml")
		vlib.WriteYAML(dbp, cmds)
		words := vlib.DBWords(cmds)
		var targets []string
		if ctx.G(d)%4 == 2 && len(words) > 4 {
			// the binary runs inside a project whose Makefile targets and package scripts are spelt with capitals and are words
			// of the database (the project context boosts by name)
			var mk, pj strings.Builder
			pj.WriteString("{\n  \"name\": \"demo\",\n  \"scripts\": {")
			for i := 0; i < 4; i++ {
				w := words[r.Intn(len(words))]
				t := []string{strings.ToUpper(w[:1]) + w[1:], strings.ToUpper(w), w}[r.Intn(3)]
				targets = append(targets, t)
				fmt.Fprintf(&mk, "%s:\n\t@echo %s\n\n", t, t)
				if i > 0 {
					pj.WriteString(",")
				}
				fmt.Fprintf(&pj, "\n    %q: \"echo\"", t)
			}
			pj.WriteString("\n  }\n}\n")
			os.WriteFile(filepath.Join(h.Cwd, "Makefile"), []byte(mk.String()), 0o644)
			os.WriteFile(filepath.Join(h.Cwd, "package.json"), []byte(pj.String()), 0o644)
			ctx.R.Path("cli-homes-inside-a-project-with-capitalised-targets", 1)
		}
		// the locale the user's shell exports (the same for both spellings of a pair): case folding of a query may not follow it
		var locEnv []string
		if loc := []string{"", "", "C", "en_US.UTF-8", "tr_TR.UTF-8", "az_AZ.UTF-8", "de_DE.UTF-8", "tr_TR", "lt_LT.UTF-8", "el_GR.UTF-8"}[r.Intn(10)]; loc != "" {
			locEnv = [][]string{{"LC_ALL=" + loc}, {"LANG=" + loc}, {"LC_CTYPE=" + loc, "LANG=" + loc}}[r.Intn(3)]
			ctx.R.Path("cli-homes-with-a-locale", 1)
			if strings.HasPrefix(loc, "tr") || strings.HasPrefix(loc, "az") || strings.HasPrefix(loc, "lt") {
				ctx.R.Path("cli-homes-with-a-special-casing-locale", 1)
			}
		}
		comparePair := func(q, q2, kind string, limit int) {
			mk := func(query string) []string {
				return []string{"--database", dbp, "--format", "json", "-v", "--no-color", "--limit", fmt.Sprint(limit), "--all-platforms", "--", query}
			}
			cs := map[string]interface{}{"db_entries": len(cmds), "query": q, "variant": q2, "kind": kind, "limit": limit, "env": locEnv}
			ctx.R.Begin(cs)
			ctx.R.Eval(1)
			rank := func(query string) (vlib.Ranked, string, bool) {
				res := h.Wtf(ctx.Wtf, locEnv, mk(query)...)
				if bad, why := res.Crashed(); bad {
					ctx.R.Violate(vlib.Violation{Property: "C20", Clause: "crash", Path: "cli", Detail: why, Witness: cs})
					return nil, "", false
				}
				block, items, present, wf := JSONBlock(res.Stdout)
				if present && !wf {
					return nil, block, false
				}
				rk := vlib.Ranked{}
				for _, it := range items {
					i, ok := idx[it.Command]
					if !ok {
						i = -1
					}
					rk = append(rk, vlib.Item{Idx: i, Score: it.Score})
				}
				return rk, block, true
			}
			var refs []vlib.Ranked
			stable := true
			okAll := true
			for i := 0; i < 3; i++ {
				a, _, ok := rank(q)
				if !ok {
					okAll = false
					break
				}
				if i > 0 && !vlib.Exact(refs[0], a) {
					stable = false
				}
				refs = append(refs, a)
			}
			if !okAll {
				return
			}
			b, _, ok := rank(q2)
			if !ok {
				return
			}
			if len(refs[0]) > 0 {
				ctx.R.Nontriv("cli", d, q, q2, limit)
				ctx.R.Path("cli-pairs-nonempty", 1)
				if kind != "case" {
					ctx.R.Path("cli-pairs-blanks", 1)
				}
			} else {
				ctx.R.Path("cli-pairs-empty", 1)
			}
			verdict, why := vlib.CompareToRef(refs, stable, b, limit)
			switch verdict {
			case "violated":
				ctx.R.Violate(vlib.Violation{Property: "C20", Clause: "cli-variant-changes-output", Path: "cli/" + kind,
					Detail:  fmt.Sprintf("result blocks for %s and %s differ: %s", vlib.Q(q), vlib.Q(q2), why),
					Witness: map[string]interface{}{"case": cs, "a": refs[0], "b": b}})
			case "inconclusive":
				ctx.R.Inconcl("cli reference unstable")
			}
		}
		for qi := 0; qi < ctx.Pick(6, 8); qi++ {
			qkind := []int{0, 2, 2}[r.Intn(3)]
			q := vlib.GenQuery(r, words, 1+r.Intn(3), qkind)
			if strings.TrimSpace(q) == "" {
				continue
			}
			if qkind == 2 {
				ctx.R.Path("cli-typo-queries", 1)
			}
			if len(targets) > 0 && r.Intn(2) == 0 { // the request names a target exactly as the project file spells it
				q = targets[r.Intn(len(targets))] + " " + vlib.GenQuery(r, words, 1+r.Intn(2), 0)
			}
			if qi%4 == 3 {
				// the argument carries quote characters of its own (a shell that does not strip them, a query pasted with its quotes)
				qc := []string{"'", "\"", "`"}[r.Intn(3)]
				q = qc + q + qc
				ctx.R.Path("cli-queries-wrapped-in-quote-characters", 1)
			}
			q2 := c20Respell(r, q, r.Intn(5))
			kind := "case"
			if r.Intn(2) == 0 { // whitespace padding
				kind = "case+blanks"
				switch r.Intn(6) {
				case 0: // exactly one leading blank, nothing else
					q2 = " " + q2
				case 1: // exactly one trailing blank
					q2 = q2 + " "
				case 2:
					q2 = " " + q2 + " "
				case 3: // blanks only, case untouched
					q2 = " " + q
				default:
					q2 = strings.Repeat(" ", r.Intn(3)) + strings.ReplaceAll(q2, " ", strings.Repeat(" ", 1+r.Intn(3))) + strings.Repeat(" ", r.Intn(3))
					if r.Intn(3) == 0 {
						q2 = "\t" + q2 + "\n"
					}
				}
			}
			if q2 == q {
				continue
			}
			limit := []int{1, 3, 5, 20}[r.Intn(4)]
			comparePair(q, q2, kind, limit)
		}
		// blanks that are not ASCII (no-break space, ideographic space, the fixed-width spaces an editor or an input method
		// leaves behind) next to an ordinary blank or at the ends: still only leading, trailing or repeated whitespace. Drawn from a
		// stream of their own; every other pair is a misspelt request, which is answered from the query text as a whole.
		r2 := vlib.NewRand(ctx.Seed, ctx.G(d), "caseinv-cli-wide-blanks")
		for qi := 0; qi < 3; qi++ {
			qkind := []int{2, 0, 2}[qi]
			q := vlib.GenQuery(r2, words, 2+r2.Intn(2), qkind)
			f := strings.Fields(q)
			if len(f) < 2 {
				continue
			}
			q = strings.Join(f, " ")
			wide := []string{"\u00a0", "\u3000", "\u2003", "\u2009", "\u202f", "\u1680", "\u205f", "\u2002"}[r2.Intn(8)]
			var q2 string
			switch r2.Intn(4) {
			case 0:
				q2 = strings.Join(f, " "+wide)
			case 1:
				q2 = strings.Join(f, wide+" ")
			case 2:
				q2 = wide + strings.Join(f, " "+wide+" ") + wide
			default:
				q2 = wide + " " + q + " " + wide
			}
			ctx.R.Path("cli-pairs-with-non-ascii-blanks", 1)
			comparePair(q, q2, "wide-blanks", []int{3, 5, 20}[r2.Intn(3)])
		}
		// requests only the last-resort search answers (a fragment of a word beside a word nobody knows), opened by one of the little
		// words people open a request with - how, the, please, show ... - whose case is what differs. A stream of its own.
		r3 := vlib.NewRand(ctx.Seed, ctx.G(d), "caseinv-cli-opening-words")
		for qi := 0; qi < 3 && len(words) > 0; qi++ {
			w := words[r3.Intn(len(words))]
			if len(w) < 5 || strings.IndexFunc(w, func(c rune) bool { return c < 'a' || c > 'z' }) >= 0 {
				continue
			}
			frag := [](string){w[1:], w[:len(w)-1], w[1 : len(w)-1]}[r3.Intn(3)]
			open := []string{"how", "how to", "the", "a", "an", "please", "show", "show me", "what", "what is", "find", "list", "i want to", "to", "for", "with", "can i", "where is"}[r3.Intn(18)]
			q := open + " " + frag + " " + []string{"zzqxj", "qqzzx", "xqzv"}[r3.Intn(3)]
			if qi == 2 {
				q = open + " " + frag
			}
			var q2 string
			switch r3.Intn(4) {
			case 0:
				q2 = strings.ToUpper(q[:1]) + q[1:]
			case 1:
				q2 = strings.ToUpper(open) + q[len(open):]
			case 2:
				q2 = strings.ToUpper(q)
			default:
				q2 = strings.Title(open) + q[len(open):]
			}
			ctx.R.Path("cli-pairs-opened-by-a-little-word", 1)
			comparePair(q, q2, "opening-word", []int{3, 5, 20}[r3.Intn(3)])
		}
		_ = comparePair
		// the other command that takes a query: `wtf pipeline <query>` (what it prints below the line that repeats the query)
		for qi := 0; qi < ctx.Pick(6, 8); qi++ {
			q := vlib.GenQuery(r, words, 2+r.Intn(3), 0)
			typo := qi%2 == 1
			if typo {
				// a misspelt or partial word (what the keyword scorer does not know, so that whatever else answers is reached)
				q = vlib.GenQuery(r, words, 1+r.Intn(2), 2)
				ctx.R.Path("cli-pipeline-misspelt-queries", 1)
			}
			if len(strings.Fields(q)) < 2 && !typo || strings.TrimSpace(q) == "" {
				continue
			}
			var q2 string
			kind := "case"
			switch r.Intn(4) {
			case 0:
				q2 = c20Respell(r, q, r.Intn(5))
			case 1: // repeated blanks between the words only
				kind = "blanks"
				q2 = strings.Join(strings.Fields(q), strings.Repeat(" ", 2+r.Intn(2)))
			case 2:
				kind = "blanks"
				q2 = " " + strings.Join(strings.Fields(q), "  ") + " "
			default:
				kind = "case+blanks"
				q2 = strings.Repeat(" ", r.Intn(3)) + strings.ReplaceAll(c20Respell(r, q, r.Intn(5)), " ", strings.Repeat(" ", 1+r.Intn(3))) + strings.Repeat(" ", r.Intn(3))
			}
			if q2 == q {
				continue
			}
			limit := []int{3, 5, 20}[r.Intn(3)]
			cs := map[string]interface{}{"db_entries": len(cmds), "command": "pipeline", "query": q, "variant": q2, "kind": kind, "limit": limit}
			ctx.R.Begin(cs)
			ctx.R.Eval(1)
			show := func(query string) (string, bool) {
				res := h.Wtf(ctx.Wtf, locEnv, "pipeline", "--database", dbp, "--limit", fmt.Sprint(limit), "-v", "--", query)
				if bad, why := res.Crashed(); bad {
					ctx.R.Violate(vlib.Violation{Property: "C20", Clause: "crash", Path: "cli-pipeline", Detail: why, Witness: cs})
					return "", false
				}
				var keep []string
				for _, l := range strings.Split(res.Stdout, "\n") {
					if strings.Contains(l, "Searching for pipelines:") {
						continue
					}
					keep = append(keep, l)
				}
				return strings.Join(keep, "\n"), true
			}
			a1, ok1 := show(q)
			a2, ok2 := show(q)
			if !ok1 || !ok2 {
				continue
			}
			if a1 != a2 {
				ctx.R.Inconcl("cli pipeline reference unstable")
				continue
			}
			b, ok := show(q2)
			if !ok {
				continue
			}
			ctx.R.Path("cli-pipeline-pairs", 1)
			if strings.Contains(a1, "Found ") {
				ctx.R.Path("cli-pipeline-pairs-nonempty", 1)
				ctx.R.Nontriv("cli-pipeline", d, q, q2, limit)
			}
			if b != a1 {
				ctx.R.Violate(vlib.Violation{Property: "C20", Clause: "cli-variant-changes-output", Path: "cli-pipeline/" + kind,
					Detail:  fmt.Sprintf("`wtf pipeline` prints different results for %s and %s", vlib.Q(q), vlib.Q(q2)),
					Witness: map[string]interface{}{"case": cs, "output_a": vlib.Trunc(a1, 1500), "output_b": vlib.Trunc(b, 1500)}})
			}
		}
		os.RemoveAll(base)
	}
}

package main

// C12 - the result cache is a correct bounded LRU with a staleness limit.
//
// Engine "lrumodel": an executable reference LRU model with VIRTUAL time is
// stepped alongside the real cache.LRUCache (and, for a smaller share of the
// histories, cache.SearchCache) along random histories; every return value is
// compared step by step.
//
// Time: entries are aged only through (*LRUCache).VerifAdvance(d); the model
// clock advances by the same d. All advances are multiples of 10 s and every
// ttl is = 5 s (mod 10 s), so the virtual age of an entry is never closer than
// 5 s to the ttl: the real micro-seconds that elapse while a history runs can
// not change any expiry decision. A history whose real duration exceeds
// min(ttl/4, 5 s) is marked inconclusive (its observations are dropped).
//
// Expiry latitude (exactly as wide as the statement): age since the LAST store
// of the key > ttl => the lookup must miss; age since the FIRST store of the
// present entry <= ttl => it must hit; in between either outcome is accepted
// and the model follows the observation.

import (
	"fmt"
	"math"
	"math/rand"
	"sort"
	"strings"
	"time"

	"github.com/Vedant9500/WTF/internal/cache"
	"github.com/Vedant9500/WTF/internal/constants"
	"github.com/Vedant9500/WTF/internal/zzverif/vlib"
)

func init() { engines["lrumodel"] = engineLRUModel }

const (
	c12Gran      = 10 * time.Second // every advance is a multiple of this
	c12Margin    = 5 * time.Second  // |virtual age - ttl| >= c12Margin always
	c12TTLLong   = time.Hour + c12Margin
	c12TTLShort  = time.Minute + c12Margin
	c12MaxStates = 1000000
)

// ---------------------------------------------------------------------------
// The reference model.

type c12Entry struct {
	k     int    // index into the key pool
	val   string // last stored value
	first time.Duration
	last  time.Duration
}

type c12Model struct {
	reqCap int
	cap    int
	ttl    time.Duration
	now    time.Duration
	ents   []*c12Entry // ents[0] = most recently read or written
	hits   int64
	misses int64
	capEv  int64 // capacity evictions since last clear
	expRem int64 // removals of expired entries (lookup or sweep) since last clear
}

func c12NewModel(reqCap int, ttl time.Duration) *c12Model {
	c := reqCap
	if c <= 0 {
		c = 100
	}
	return &c12Model{reqCap: reqCap, cap: c, ttl: ttl}
}

func (m *c12Model) find(k int) int {
	for i, e := range m.ents {
		if e.k == k {
			return i
		}
	}
	return -1
}

func (m *c12Model) touch(i int) {
	e := m.ents[i]
	copy(m.ents[1:i+1], m.ents[0:i])
	m.ents[0] = e
}

func (m *c12Model) remove(i int) {
	m.ents = append(m.ents[:i], m.ents[i+1:]...)
}

func (m *c12Model) pushFront(e *c12Entry) {
	m.ents = append(m.ents, nil)
	copy(m.ents[1:], m.ents[0:len(m.ents)-1])
	m.ents[0] = e
}

// class: 0 = definitely fresh (age since first store <= ttl, or no ttl),
// 1 = latitude window (first store older than ttl, last store not),
// 2 = definitely expired (last store older than ttl).
func (m *c12Model) class(e *c12Entry) int {
	if m.ttl <= 0 {
		return 0
	}
	if m.now-e.last > m.ttl {
		return 2
	}
	if m.now-e.first > m.ttl {
		return 1
	}
	return 0
}

// ---------------------------------------------------------------------------
// The system under test behind one interface (keys are pool indices).

type c12Sut interface {
	Name() string
	Put(k int, val string, ctr int)
	Stored(val string, ctr int) string // what Get shows for a value put as (val, ctr)
	Get(k int) (string, bool)
	Delete(k int) bool
	DeleteName() string
	Clear()
	ClearName() string
	Size() int
	Stats() cache.Stats
	Keys() []int // -1 = a key that is not in the pool
	Sweep() int
	Advance(d time.Duration)
	Capacity() int
	KeyName(k int) string
}

// --- LRUCache directly.

type c12LRU struct {
	c    *cache.LRUCache
	pool []string
	idx  map[string]int
}

func c12NewLRU(capacity int, ttl time.Duration, pool []string) *c12LRU {
	s := &c12LRU{c: cache.NewLRUCache(capacity, ttl), pool: pool, idx: map[string]int{}}
	for i, k := range pool {
		s.idx[k] = i
	}
	return s
}

func (s *c12LRU) Name() string { return "LRUCache" }

// c12Value: what is actually stored for put number ctr. Most values are distinct strings; some are the values a cache must
// not mistake for "nothing": the nil interface, a typed nil, the empty string, zero, false, an empty slice.
func c12Value(val string, ctr int) interface{} {
	switch ctr % 23 {
	case 3:
		return nil
	case 5:
		return ""
	case 7:
		return 0
	case 11:
		return []string(nil)
	case 13:
		return (*int)(nil)
	case 17:
		return false
	case 19:
		return []cache.SearchResult{}
	}
	return val
}

func c12ShowValue(v interface{}) string {
	if str, isStr := v.(string); isStr {
		return str
	}
	return fmt.Sprintf("(%T)%v", v, v)
}

func (s *c12LRU) Put(k int, val string, ctr int)    { s.c.Put(s.pool[k], c12Value(val, ctr)) }
func (s *c12LRU) Stored(val string, ctr int) string { return c12ShowValue(c12Value(val, ctr)) }
func (s *c12LRU) Get(k int) (string, bool) {
	v, ok := s.c.Get(s.pool[k])
	if !ok {
		return "", false
	}
	return c12ShowValue(v), true
}
func (s *c12LRU) Delete(k int) bool       { return s.c.Delete(s.pool[k]) }
func (s *c12LRU) DeleteName() string      { return "Delete" }
func (s *c12LRU) Clear()                  { s.c.Clear() }
func (s *c12LRU) ClearName() string       { return "Clear" }
func (s *c12LRU) Size() int               { return s.c.Size() }
func (s *c12LRU) Stats() cache.Stats      { return s.c.Stats() }
func (s *c12LRU) Sweep() int              { return s.c.CleanupExpired() }
func (s *c12LRU) Advance(d time.Duration) { s.c.VerifAdvance(d) }
func (s *c12LRU) Capacity() int           { return s.c.Capacity() }
func (s *c12LRU) KeyName(k int) string    { return vlib.Q(vlib.Trunc(s.pool[k], 24)) }
func (s *c12LRU) Keys() []int {
	ks := s.c.Keys()
	out := make([]int, len(ks))
	for i, k := range ks {
		if j, ok := s.idx[k]; ok {
			out[i] = j
		} else {
			out[i] = -1
		}
	}
	return out
}

// --- SearchCache: keys are (query, options); case variants of a query are the
// same key (C20 relies on it); nothing else about the key function is assumed. The raw cache key of a
// logical key is learned from the key that appears at its first insertion.

type c12SCKey struct {
	q    string
	opts cache.SearchOptions
}

type c12SC struct {
	buf      []cache.SearchResult
	sc       *cache.SearchCache
	lru      *cache.LRUCache
	pool     []c12SCKey
	rawToIdx map[string]int
	idxToRaw map[int]string
	r        *rand.Rand
}

func c12NewSC(sc *cache.SearchCache, pool []c12SCKey, r *rand.Rand) *c12SC {
	return &c12SC{sc: sc, lru: sc.VerifLRU(), pool: pool, rawToIdx: map[string]int{}, idxToRaw: map[int]string{}, r: r}
}

// variant returns a spelling of the query that is the same key: ASCII case changes.
func (s *c12SC) variant(q string) string {
	switch s.r.Intn(4) {
	case 0: // every ASCII letter upper-cased (non-ASCII letters are left alone: whether their case variants share an entry is not asserted)
		b := []byte(q)
		for i := range b {
			if b[i] >= 'a' && b[i] <= 'z' {
				b[i] -= 32
			}
		}
		q = string(b)
	case 1:
		b := []byte(q)
		for i := range b {
			if b[i] >= 'a' && b[i] <= 'z' && s.r.Intn(2) == 0 {
				b[i] -= 32
			}
		}
		q = string(b)
	}
	return q // only letter case may vary (C20); blanks are part of the key
}

func c12Results(val string, ctr int) []cache.SearchResult {
	n := 1 + ctr%3
	rs := make([]cache.SearchResult, n)
	for i := range rs {
		rs[i] = cache.SearchResult{Command: val, Score: float64(ctr + i)}
	}
	return rs
}

func (s *c12SC) Name() string { return "SearchCache" }
func (s *c12SC) Put(k int, val string, ctr int) {
	before := map[string]bool{}
	for _, r := range s.lru.Keys() {
		before[r] = true
	}
	// the caller's result slice is its own: half of the time one buffer is reused for every Put (and scribbled over afterwards)
	rs := c12Results(val, ctr)
	if ctr%2 == 0 {
		s.buf = append(s.buf[:0], rs...)
		rs = s.buf
	}
	s.sc.Put(s.variant(s.pool[k].q), s.pool[k].opts, rs)
	if ctr%4 == 0 {
		for i := range rs {
			rs[i] = cache.SearchResult{Command: "overwritten by the caller after Put", Score: -1}
		}
	}
	for _, r := range s.lru.Keys() {
		if before[r] {
			continue
		}
		if _, known := s.rawToIdx[r]; known {
			continue
		}
		if _, has := s.idxToRaw[k]; !has {
			s.rawToIdx[r] = k
			s.idxToRaw[k] = r
		}
	}
}
func (s *c12SC) Stored(val string, ctr int) string { return val }
func (s *c12SC) Get(k int) (string, bool) {
	rs, ok := s.sc.Get(s.variant(s.pool[k].q), s.pool[k].opts)
	if !ok {
		return "", false
	}
	if len(rs) == 0 {
		return "(empty result list)", true
	}
	val, isStr := rs[0].Command.(string)
	if !isStr {
		return fmt.Sprintf("(%T)%v", rs[0].Command, rs[0].Command), true
	}
	base := rs[0].Score
	for i, r := range rs {
		if c, _ := r.Command.(string); c != val || r.Score != base+float64(i) || len(rs) != 1+int(base)%3 {
			return fmt.Sprintf("(corrupt list %v)", rs), true
		}
	}
	return val, true
}
func (s *c12SC) Delete(k int) bool {
	raw, ok := s.idxToRaw[k]
	if !ok {
		return s.sc.InvalidatePattern("search:never-a-key") > 0
	}
	return s.sc.InvalidatePattern(raw) > 0
}
func (s *c12SC) DeleteName() string      { return "InvalidatePattern" }
func (s *c12SC) Clear()                  { s.sc.Invalidate() }
func (s *c12SC) ClearName() string       { return "Invalidate" }
func (s *c12SC) Size() int               { return s.sc.Size() }
func (s *c12SC) Stats() cache.Stats      { return s.sc.Stats() }
func (s *c12SC) Sweep() int              { return s.sc.CleanupExpired() }
func (s *c12SC) Advance(d time.Duration) { s.lru.VerifAdvance(d) }
func (s *c12SC) Capacity() int           { return s.lru.Capacity() }
func (s *c12SC) KeyName(k int) string {
	return fmt.Sprintf("q%d(%s,%+v)", k, vlib.Q(s.pool[k].q), s.pool[k].opts)
}
func (s *c12SC) Keys() []int {
	ks := s.lru.Keys()
	out := make([]int, len(ks))
	for i, k := range ks {
		if j, ok := s.rawToIdx[k]; ok {
			out[i] = j
		} else {
			out[i] = -1
		}
	}
	return out
}

// ---------------------------------------------------------------------------
// One history.

type c12Op struct {
	code byte // P G D C W(sweep) Z(size) S(stats) K(keys) A(advance)
	k    int
	v    int
	d    time.Duration
	ok   bool
	res  string
}

type c12Viol struct{ clause, method, detail string }

type c12Case struct {
	Kind     string `json:"kind"`
	Shard    int    `json:"shard"`
	Index    int    `json:"index"`
	HSeed    int64  `json:"hseed"`
	Capacity int    `json:"capacity"`
	TTL      string `json:"ttl"`
	Regime   string `json:"regime"`
	Pool     int    `json:"pool"`
	NOps     int    `json:"nops"`
}

type c12Hist struct {
	ctx      *Ctx
	r        *rand.Rand
	sut      c12Sut
	m        *c12Model
	prelude  func() *c12Viol // scripted operations before the random ones (large caches: fill, age, mass removal)
	regime   int             // 0 unlimited, 1 long, 2 already elapsed, 3 practically forever (ttl of centuries: nothing may expire)
	nkeys    int
	fill     bool
	ops      []c12Op
	ctr      int
	states   map[uint64]struct{}
	capped   *bool
	paths    map[string]int64 // flushed only for conclusive histories
	evicted  int
	expired  int
	scratchA map[int]bool
}

func (h *c12Hist) path(p string, n int64) { h.paths[p] += n }

func (h *c12Hist) v(clause, method, format string, a ...interface{}) *c12Viol {
	return &c12Viol{clause: clause, method: h.sut.Name() + "." + method, detail: fmt.Sprintf(format, a...)}
}

func (h *c12Hist) names(ks []int) string {
	sort.Ints(ks)
	parts := make([]string, len(ks))
	for i, k := range ks {
		if k < 0 {
			parts[i] = "<key not in pool>"
		} else {
			parts[i] = h.sut.KeyName(k)
		}
	}
	return "[" + strings.Join(parts, " ") + "]"
}

// diff returns (model keys missing from the cache, cache keys the model does not hold).
func (h *c12Hist) diff(keys []int) (missing, extra []int) {
	seen := h.scratchA
	for k := range seen {
		delete(seen, k)
	}
	for _, k := range keys {
		if k < 0 || seen[k] || h.m.find(k) < 0 {
			extra = append(extra, k)
		}
		if k >= 0 {
			seen[k] = true
		}
	}
	for _, e := range h.m.ents {
		if !seen[e.k] {
			missing = append(missing, e.k)
		}
	}
	return
}

// shape: Size(), len(Keys()) and the key set agree with the model, size <= capacity.
func (h *c12Hist) shape(method string) *c12Viol {
	m := h.m
	size := h.sut.Size()
	if size > m.cap {
		return h.v("capacity", method, "Size() = %d exceeds the capacity %d (requested %d)", size, m.cap, m.reqCap)
	}
	keys := h.sut.Keys()
	if len(keys) > m.cap {
		return h.v("capacity", method, "Keys() lists %d keys, capacity %d (requested %d)", len(keys), m.cap, m.reqCap)
	}
	missing, extra := h.diff(keys)
	if len(missing) > 0 || len(extra) > 0 {
		return h.v("keys", method, "key set differs from what was stored and not yet discarded: missing %s, unexpected %s (model holds %d)",
			h.names(missing), h.names(extra), len(m.ents))
	}
	if size != len(m.ents) {
		return h.v("stats", method, "Size() = %d but %d entries are present (Keys() lists %d)", size, len(m.ents), len(keys))
	}
	return nil
}

func (h *c12Hist) checkStats(method, clause string) *c12Viol {
	m := h.m
	st := h.sut.Stats()
	if st.Size > m.cap {
		return h.v("capacity", method, "Stats().Size = %d exceeds the capacity %d", st.Size, m.cap)
	}
	if st.Hits != m.hits || st.Misses != m.misses {
		return h.v(clause, method, "Stats() hits=%d misses=%d, but %d hits and %d misses happened since the last clear", st.Hits, st.Misses, m.hits, m.misses)
	}
	if st.Evictions < m.capEv || st.Evictions > m.capEv+m.expRem {
		return h.v(clause, method, "Stats().Evictions = %d, but %d capacity evictions (and %d removals of expired entries) happened since the last clear",
			st.Evictions, m.capEv, m.expRem)
	}
	if st.Size != len(m.ents) {
		return h.v(clause, method, "Stats().Size = %d but %d entries are present", st.Size, len(m.ents))
	}
	if st.Capacity != m.cap {
		cl := clause
		if m.reqCap <= 0 && clause == "stats" {
			cl = "default-capacity"
		}
		return h.v(cl, method, "Stats().Capacity = %d, expected %d (requested %d)", st.Capacity, m.cap, m.reqCap)
	}
	want := 0.0
	if m.hits+m.misses > 0 {
		want = float64(m.hits) / float64(m.hits+m.misses)
	}
	if math.IsNaN(st.HitRatio) || math.Abs(st.HitRatio-want) > 1e-12 {
		return h.v(clause, method, "Stats().HitRatio = %v, expected %d/(%d+%d) = %v", st.HitRatio, m.hits, m.hits, m.misses, want)
	}
	return nil
}

func (h *c12Hist) doPut(k int) *c12Viol {
	m := h.m
	h.ctr++
	val := h.sut.Stored(fmt.Sprintf("v%d", h.ctr), h.ctr)
	if !strings.HasPrefix(val, "v") {
		h.path("puts-of-nil-and-zero-values", 1)
	}
	idx := m.find(k)
	h.ops = append(h.ops, c12Op{code: 'P', k: k, v: h.ctr})
	h.sut.Put(k, val, h.ctr)
	var victim *c12Entry
	if idx >= 0 {
		e := m.ents[idx]
		e.val = val
		e.last = m.now
		m.touch(idx)
	} else {
		if len(m.ents) >= m.cap {
			victim = m.ents[len(m.ents)-1]
			m.remove(len(m.ents) - 1)
			m.capEv++
			h.evicted++
			h.path("evictions", 1)
			if h.fill {
				h.path("default-capacity-evictions", 1)
			}
		}
		m.pushFront(&c12Entry{k: k, val: val, first: m.now, last: m.now})
	}
	if idx >= 0 {
		return h.shape("Put")
	}
	// a NEW key: the set from Keys() must be the old set, minus exactly the
	// least recently used entry if the cache was full, plus the new key.
	keys := h.sut.Keys()
	if len(keys) > m.cap {
		return h.v("capacity", "Put", "after inserting %s the cache lists %d keys, capacity %d (requested %d)", h.sut.KeyName(k), len(keys), m.cap, m.reqCap)
	}
	missing, extra := h.diff(keys)
	if len(missing) > 0 || len(extra) > 0 {
		clause := "eviction-victim"
		if m.reqCap <= 0 && h.fill && len(keys) != len(m.ents) {
			clause = "default-capacity"
		}
		if victim != nil {
			return h.v(clause, "Put", "inserting new key %s into the full cache (capacity %d) must discard exactly %s (read or written longest ago); instead the cache lost %s and kept %s",
				h.sut.KeyName(k), m.cap, h.sut.KeyName(victim.k), h.names(missing), h.names(extra))
		}
		return h.v(clause, "Put", "inserting new key %s into a cache holding %d of %d (requested capacity %d) must discard nothing; the cache lost %s, unexpected %s",
			h.sut.KeyName(k), len(m.ents)-1, m.cap, m.reqCap, h.names(missing), h.names(extra))
	}
	if size := h.sut.Size(); size != len(m.ents) {
		if size > m.cap {
			return h.v("capacity", "Put", "Size() = %d exceeds the capacity %d", size, m.cap)
		}
		return h.v("stats", "Put", "Size() = %d but %d entries are present", size, len(m.ents))
	}
	return nil
}

func (h *c12Hist) doGet(k int) *c12Viol {
	m := h.m
	idx := m.find(k)
	val, ok := h.sut.Get(k)
	h.ops = append(h.ops, c12Op{code: 'G', k: k, ok: ok, res: val})
	if idx < 0 {
		if ok {
			return h.v("get-value", "Get", "lookup of %s returned %q although the key is not present (never stored, deleted, discarded or cleared)", h.sut.KeyName(k), val)
		}
		m.misses++
		return h.shape("Get")
	}
	e := m.ents[idx]
	cl := m.class(e)
	if cl == 1 {
		h.path("latitude-window-lookups", 1)
	}
	if ok {
		if cl == 2 {
			return h.v("expiry-stale-hit", "Get", "lookup of %s returned %q which was stored %v ago (virtual), lifetime %v", h.sut.KeyName(k), val, m.now-e.last, m.ttl)
		}
		if val != e.val {
			return h.v("get-value", "Get", "lookup of %s returned %q, the value most recently stored is %q", h.sut.KeyName(k), val, e.val)
		}
		m.hits++
		m.touch(idx)
		if cl == 1 {
			h.path("window-hit", 1)
		}
		return h.shape("Get")
	}
	if cl == 0 {
		if m.ttl > 0 {
			return h.v("expiry-early-miss", "Get", "lookup of %s missed although the entry is present and was first stored only %v ago (virtual), lifetime %v",
				h.sut.KeyName(k), m.now-e.first, m.ttl)
		}
		return h.v("get-value", "Get", "lookup of %s missed although the entry is present (value %q) and no lifetime is configured", h.sut.KeyName(k), e.val)
	}
	m.misses++
	m.remove(idx)
	m.expRem++
	h.expired++
	h.path("expiry-miss", 1)
	if cl == 1 {
		h.path("window-miss", 1)
	}
	return h.shape("Get")
}

func (h *c12Hist) doDelete(k int) *c12Viol {
	m := h.m
	idx := m.find(k)
	got := h.sut.Delete(k)
	h.ops = append(h.ops, c12Op{code: 'D', k: k, ok: got})
	name := h.sut.DeleteName()
	if idx < 0 {
		if got {
			return h.v("delete", name, "deleting %s reported that it was present, but it is not (never stored, deleted, discarded or cleared)", h.sut.KeyName(k))
		}
		return h.shape(name)
	}
	if !got && m.class(m.ents[idx]) == 0 {
		return h.v("delete", name, "deleting %s reported that it was absent, but it is present and not expired", h.sut.KeyName(k))
	}
	m.remove(idx)
	h.path("delete-present", 1)
	return h.shape(name)
}

func (h *c12Hist) doClear() *c12Viol {
	m := h.m
	h.sut.Clear()
	h.ops = append(h.ops, c12Op{code: 'C'})
	m.ents = m.ents[:0]
	m.hits, m.misses, m.capEv, m.expRem = 0, 0, 0, 0
	name := h.sut.ClearName()
	h.path("clear", 1)
	if n := h.sut.Size(); n != 0 {
		return h.v("clear", name, "Size() = %d right after the clear", n)
	}
	if ks := h.sut.Keys(); len(ks) != 0 {
		return h.v("clear", name, "Keys() lists %s right after the clear", h.names(ks))
	}
	return h.checkStats(name, "clear")
}

func (h *c12Hist) doSweep() *c12Viol {
	m := h.m
	n := h.sut.Sweep()
	h.ops = append(h.ops, c12Op{code: 'W', v: n})
	h.path("sweeps", 1)
	keys := h.sut.Keys()
	if len(keys) > m.cap {
		return h.v("capacity", "CleanupExpired", "Keys() lists %d keys, capacity %d", len(keys), m.cap)
	}
	gone, extra := h.diff(keys)
	if len(extra) > 0 {
		return h.v("keys", "CleanupExpired", "keys appeared during a sweep: %s", h.names(extra))
	}
	for _, k := range gone {
		e := m.ents[m.find(k)]
		if m.ttl <= 0 {
			return h.v("sweep-removed-live", "CleanupExpired", "the sweep removed %s although no lifetime is configured", h.sut.KeyName(k))
		}
		if m.now-e.first <= m.ttl {
			return h.v("sweep-removed-live", "CleanupExpired", "the sweep removed %s, first stored %v ago and last stored %v ago (virtual), lifetime %v: not expired under any reading",
				h.sut.KeyName(k), m.now-e.first, m.now-e.last, m.ttl)
		}
	}
	if n != len(gone) {
		return h.v("sweep-count", "CleanupExpired", "CleanupExpired() returned %d but %d keys disappeared %s", n, len(gone), h.names(gone))
	}
	for _, k := range gone {
		m.remove(m.find(k))
	}
	m.expRem += int64(len(gone))
	if len(gone) > 0 {
		h.expired += len(gone)
		h.path("sweep-removed", int64(len(gone)))
	}
	left := 0
	for _, e := range m.ents {
		if m.class(e) == 2 {
			left++
		}
	}
	if left > 0 {
		h.path("sweep-left-expired", 1)
	}
	if size := h.sut.Size(); size != len(m.ents) {
		return h.v("stats", "CleanupExpired", "Size() = %d but %d entries are present", size, len(m.ents))
	}
	return nil
}

func (h *c12Hist) doAdvance(d time.Duration) *c12Viol {
	h.sut.Advance(d)
	h.m.now += d
	h.ops = append(h.ops, c12Op{code: 'A', d: d})
	return nil
}

// pickAdvance chooses an advance (a multiple of c12Gran) for the regime.
func (h *c12Hist) pickAdvance() time.Duration {
	r, m := h.r, h.m
	g := func(lo, hi time.Duration) time.Duration { // multiple of gran in [lo, hi]
		n := int64((hi - lo) / c12Gran)
		return lo + time.Duration(r.Int63n(n+1))*c12Gran
	}
	switch h.regime {
	case 0, 3: // unlimited / practically forever: nothing may ever expire, however long
		return g(0, 100*time.Hour)
	case 2: // short ttl: small steps around it
		if r.Intn(3) == 0 {
			return g(m.ttl+c12Margin, 10*time.Minute)
		}
		return g(0, time.Minute+20*time.Second)
	}
	x := r.Intn(100)
	switch {
	case x < 40:
		return g(0, 10*time.Minute)
	case x < 70:
		return g(10*time.Minute, 50*time.Minute)
	case x < 85 && len(m.ents) > 0: // bring one entry to just before / just after the ttl
		e := m.ents[r.Intn(len(m.ents))]
		age := m.now - e.first
		if r.Intn(2) == 0 {
			age = m.now - e.last
		}
		target := m.ttl - c12Margin
		if r.Intn(2) == 0 {
			target = m.ttl + c12Margin
		}
		if target >= age {
			return target - age
		}
		return 0
	default:
		return g(time.Hour, 3*time.Hour)
	}
}

func (h *c12Hist) pickKey(preferPresent int) int {
	if len(h.m.ents) > 0 && h.r.Intn(100) < preferPresent {
		return h.m.ents[h.r.Intn(len(h.m.ents))].k
	}
	return h.r.Intn(h.nkeys)
}

func (h *c12Hist) state() {
	if *h.capped {
		return
	}
	m := h.m
	x := uint64(0xcbf29ce484222325)
	mix := func(v uint64) {
		x = (x ^ v) * 0x9E3779B97F4A7C15
		x ^= x >> 29
	}
	mix(uint64(int64(m.reqCap)))
	mix(uint64(h.regime))
	for _, e := range m.ents {
		mix(uint64(e.k)<<2 | uint64(m.class(e)))
	}
	if _, ok := h.states[x]; !ok {
		if len(h.states) >= c12MaxStates {
			*h.capped = true
			return
		}
		h.states[x] = struct{}{}
	}
}

// run executes nops random operations, then a closing audit. Returns the
// first violation (the history stops there).
func (h *c12Hist) run(nops int) *c12Viol {
	m := h.m
	if c := h.sut.Capacity(); c != m.cap {
		cl := "capacity"
		if m.reqCap <= 0 {
			cl = "default-capacity"
		}
		return h.v(cl, "Capacity", "Capacity() = %d for a requested capacity of %d, expected %d", c, m.reqCap, m.cap)
	}
	if v := h.shape("New"); v != nil {
		return v
	}
	if h.prelude != nil {
		if v := h.prelude(); v != nil {
			return v
		}
	}
	for i := 0; i < nops; i++ {
		var v *c12Viol
		x := h.r.Intn(1000)
		if h.fill {
			// mostly new keys, in order, with reads that shuffle the recency
			switch {
			case x < 650:
				k := h.r.Intn(h.nkeys)
				if h.r.Intn(4) != 0 {
					k = (h.ctr + h.r.Intn(3)) % h.nkeys
				}
				v = h.doPut(k)
			case x < 900:
				v = h.doGet(h.pickKey(85))
			case x < 910:
				v = h.doDelete(h.pickKey(50))
			case x < 950:
				v = h.doSweep()
			case x < 970:
				h.ops = append(h.ops, c12Op{code: 'S'})
				v = h.checkStats("Stats", "stats")
			case x < 972:
				v = h.doClear()
			default:
				if h.regime == 0 || h.regime == 3 {
					v = h.doAdvance(h.pickAdvance())
				} else {
					v = h.doAdvance(time.Duration(h.r.Intn(40)) * c12Gran)
				}
			}
		} else {
			switch {
			case x < 340:
				v = h.doPut(h.pickKey(30))
				if v == nil && h.regime == 2 && h.r.Intn(5) != 0 {
					// "already elapsed": the entry outlives its ttl right after the put
					v = h.doAdvance(m.ttl + c12Margin + time.Duration(h.r.Intn(30))*c12Gran)
				}
			case x < 720:
				v = h.doGet(h.pickKey(70))
			case x < 770:
				v = h.doDelete(h.pickKey(60))
			case x < 785:
				v = h.doClear()
			case x < 835:
				v = h.doSweep()
			case x < 855:
				h.ops = append(h.ops, c12Op{code: 'Z'})
				v = h.shape("Size")
			case x < 895:
				h.ops = append(h.ops, c12Op{code: 'S'})
				v = h.checkStats("Stats", "stats")
			case x < 915:
				h.ops = append(h.ops, c12Op{code: 'K'})
				v = h.shape("Keys")
			default:
				v = h.doAdvance(h.pickAdvance())
			}
		}
		if v != nil {
			return v
		}
		h.state()
	}
	// closing audit: statistics, then every key of the pool is looked up.
	h.ops = append(h.ops, c12Op{code: 'S'})
	if v := h.checkStats("Stats", "stats"); v != nil {
		return v
	}
	if !h.fill {
		for k := 0; k < h.nkeys; k++ {
			if v := h.doGet(k); v != nil {
				return v
			}
		}
		h.ops = append(h.ops, c12Op{code: 'S'})
		if v := h.checkStats("Stats", "stats"); v != nil {
			return v
		}
	}
	return nil
}

func (h *c12Hist) trace() []string {
	out := make([]string, 0, len(h.ops))
	for _, o := range h.ops {
		var s string
		switch o.code {
		case 'P':
			s = fmt.Sprintf("Put(%s, v%d)", h.sut.KeyName(o.k), o.v)
		case 'G':
			if o.ok {
				s = fmt.Sprintf("Get(%s) = %s", h.sut.KeyName(o.k), o.res)
			} else {
				s = fmt.Sprintf("Get(%s) = miss", h.sut.KeyName(o.k))
			}
		case 'D':
			s = fmt.Sprintf("%s(%s) = %v", h.sut.DeleteName(), h.sut.KeyName(o.k), o.ok)
		case 'C':
			s = h.sut.ClearName() + "()"
		case 'W':
			s = fmt.Sprintf("CleanupExpired() = %d", o.v)
		case 'Z':
			s = "Size()"
		case 'S':
			s = "Stats()"
		case 'K':
			s = "Keys()"
		case 'A':
			s = fmt.Sprintf("VerifAdvance(%v)", o.d)
		}
		out = append(out, s)
	}
	return out
}

// ---------------------------------------------------------------------------
// Key pools.

var c12KeyVocab = []string{"k1", "k2", "k3", "k10", "", "a", "A", " a", "a ", "key with space", "search:abc", "\x00", "\xff\xfe",
	"ключ", "日本語", "k1\n", strings.Repeat("long", 80), "search:", "0", "-1"}

func c12LRUPool(r *rand.Rand, n int) []string {
	perm := r.Perm(len(c12KeyVocab))
	out := make([]string, n)
	for i := range out {
		out[i] = c12KeyVocab[perm[i]]
	}
	if pairs := vlib.CollidingWords(); n >= 2 && len(pairs) > 0 && r.Intn(5) == 0 {
		// two keys that a 32-bit hash (FNV-1a, FNV-1, CRC-32, Adler-32, djb2) cannot tell apart - as plain words and in the
		// "search:<word>" shape the application's keys have
		pr := pairs[r.Intn(len(pairs))]
		out[0], out[1] = pr.A, pr.B
		c12CollidingPools++
	}
	return out
}

var c12CollidingPools int

var c12Queries = []string{"find files", "git commit", "list", "compress folder", "", "find  files", "show disk usage", "naïve search", "find files now"}

func c12SCPool(r *rand.Rand, n int) []c12SCKey {
	seen := map[string]bool{}
	var out []c12SCKey
	for len(out) < n {
		q := c12Queries[r.Intn(len(c12Queries))]
		o := cache.SearchOptions{Limit: []int{0, 5, 10, 1, 2}[r.Intn(5)]} // (what is stored under a request may be longer than its limit: the cache stores, it does not judge)
		switch r.Intn(7) {
		case 0:
			o.PipelineOnly = true
		case 1:
			o.UseFuzzy, o.FuzzyThreshold = true, 1+r.Intn(3)
		case 2:
			o.UseNLP = true
		case 3:
			o.PipelineBoost = 1.5
		case 4:
			o.ContextBoosts = map[string]float64{"git": 1.5, "docker": 2}
		case 5:
			o.ContextBoosts = map[string]float64{"git": 2}
		}
		id := fmt.Sprintf("%q|%+v", q, o)
		if seen[id] {
			continue
		}
		seen[id] = true
		out = append(out, c12SCKey{q: q, opts: o})
	}
	return out
}

// ---------------------------------------------------------------------------
// The engine.

func engineLRUModel(ctx *Ctx) {
	r := vlib.NewRand(ctx.Seed, ctx.Shard, "lrumodel")
	n := ctx.N(60000, 3000000)
	states := map[uint64]struct{}{}
	capped := false
	caps := []int{-1, 0, 1, 2, 3, 5}

	c12Manager(ctx)
	c12Big(ctx)
	c12RealPause(ctx)

	for i := 0; i < n; i++ {
		hseed := r.Int63()
		hr := rand.New(rand.NewSource(hseed))
		kind := "lru"
		switch x := hr.Intn(100); {
		case x < 2:
			kind = "lru-fill"
		case x < 9:
			kind = "searchcache"
		}
		capacity := caps[hr.Intn(len(caps))]
		regime := hr.Intn(3)
		if hr.Intn(12) == 0 {
			regime = 3
		}
		nkeys := 2 + hr.Intn(7)
		nops := 50 + hr.Intn(351)
		if kind == "lru-fill" {
			capacity = []int{-1, 0, -100, math.MinInt}[hr.Intn(4)]
			regime = hr.Intn(2)
			nkeys = 101 + hr.Intn(30)
			nops = 400 + hr.Intn(501)
		}
		if ctx.G(i)%1500 == 77 && kind == "lru" {
			// a cache that lives long: tens of thousands of operations, thousands of insertions of absent keys, on one instance
			kind = "lru-long"
			nops = 15000 + hr.Intn(60000)
			regime = []int{0, 0, 3, 1}[hr.Intn(4)]
		}
		if ctx.G(i)%1500 == 301 && kind == "lru" {
			// a large cache (thousands of entries, more than the application's default capacity) that is filled, aged and then
			// loses most of its entries at once (mass deletion, or a sweep after most of them expired)
			kind = "lru-large"
			capacity = 1024 + hr.Intn(1200)
			nkeys = capacity + 200
			nops = 200 + hr.Intn(300)
			regime = 1
		}
		var ttl time.Duration
		switch regime {
		case 1:
			ttl = c12TTLLong
		case 2:
			ttl = c12TTLShort
		case 3:
			ttl = []time.Duration{time.Duration(math.MaxInt64), 290 * 365 * 24 * time.Hour, 240 * 365 * 24 * time.Hour}[hr.Intn(3)]
		}
		cs := c12Case{Kind: kind, Shard: ctx.Shard, Index: i, HSeed: hseed, Capacity: capacity, TTL: ttl.String(),
			Regime: []string{"unlimited", "long", "already-elapsed", "practically-forever"}[regime], Pool: nkeys, NOps: nops}
		ctx.R.Begin(cs)
		ctx.R.Eval(1)

		h := &c12Hist{ctx: ctx, r: hr, regime: regime, nkeys: nkeys, fill: kind == "lru-fill", states: states, capped: &capped,
			paths: map[string]int64{}, scratchA: map[int]bool{}}
		var viol *c12Viol
		t0 := time.Now()
		ok := ctx.R.Guard("C12", kind, cs, func() {
			h.m = c12NewModel(capacity, ttl)
			if kind == "searchcache" {
				h.sut = c12NewSC(cache.NewSearchCache(capacity, ttl), c12SCPool(hr, nkeys), hr)
			} else if kind == "lru-fill" || kind == "lru-large" {
				pool := make([]string, nkeys)
				for j := range pool {
					pool[j] = fmt.Sprintf("f%04d", j)
				}
				h.sut = c12NewLRU(capacity, ttl, pool)
			} else {
				h.sut = c12NewLRU(capacity, ttl, c12LRUPool(hr, nkeys))
			}
			if kind == "lru-large" {
				bySweep := hr.Intn(2) == 0
				h.prelude = func() *c12Viol {
					n := capacity
					early := n * 7 / 8
					step := func(v *c12Viol) *c12Viol {
						if v == nil {
							h.state()
						}
						return v
					}
					for k := 0; k < early; k++ {
						if v := step(h.doPut(k)); v != nil {
							return v
						}
					}
					if v := step(h.doAdvance(30 * time.Minute)); v != nil {
						return v
					}
					for k := early; k < n; k++ {
						if v := step(h.doPut(k)); v != nil {
							return v
						}
					}
					if bySweep {
						// the early seven eighths outlive the lifetime, the late eighth does not; a sweep removes what it removes
						if v := step(h.doAdvance(31 * time.Minute)); v != nil {
							return v
						}
						if v := step(h.doSweep()); v != nil {
							return v
						}
						// half an hour later the late entries have outlived it too
						if v := step(h.doAdvance(30*time.Minute + 10*time.Second)); v != nil {
							return v
						}
					} else {
						for k := 0; k < early; k++ {
							if v := step(h.doDelete(k)); v != nil {
								return v
							}
						}
						if v := step(h.doAdvance(61 * time.Minute)); v != nil {
							return v
						}
					}
					for k := early; k < n; k += 1 + h.r.Intn(3) {
						if v := step(h.doGet(k)); v != nil {
							return v
						}
					}
					return nil
				}
			}
			viol = h.run(nops)
		})
		elapsed := time.Since(t0)
		if !ok {
			continue
		}
		if ttl > 0 {
			lim := ttl / 4
			if lim > c12Margin {
				lim = c12Margin
			}
			if elapsed > lim {
				// real time could have influenced an expiry decision: nothing of this history counts
				ctx.R.Inconcl("real-time-exceeded")
				continue
			}
		}
		for p, c := range h.paths {
			ctx.R.Path(p, c)
		}
		ctx.R.Path("ops", int64(len(h.ops)))
		ctx.R.Path("histories-"+kind, 1)
		if kind == "searchcache" {
			ctx.R.Path("searchcache-ops", int64(len(h.ops)))
		}
		if h.fill && h.evicted > 0 {
			// the default capacity of 100 was reached and observed: 101+ distinct keys, first eviction at the 101st
			ctx.R.Path("default-capacity", 1)
		}
		if h.evicted > 0 || h.expired > 0 {
			ctx.R.Nontriv("lrumodel", ctx.Seed, ctx.Shard, i)
			ctx.R.Sample(map[string]interface{}{"case": cs, "capacity_evictions": h.evicted, "expiry_removals": h.expired, "ops": len(h.ops)})
		}
		if viol != nil {
			ctx.R.Violate(vlib.Violation{Property: "C12", Clause: viol.clause, Path: viol.method, Detail: viol.detail,
				Witness: map[string]interface{}{"case": cs, "failed_at_op": len(h.ops), "history": c12Tail(h.trace(), 400)}})
		}
	}
	ctx.R.Path("pools-with-hash-colliding-keys", int64(c12CollidingPools))
	ctx.R.Extra["states"] = len(states)
	if capped {
		ctx.R.Extra["states_capped_shards"] = 1
	}
}

// c12Manager: the search cache built by cache.NewManager() has capacity
// constants.DefaultCacheCapacity and the lifetime constants.DefaultCacheTTL
// (entry hit just before that virtual age, miss just after).
func c12Manager(ctx *Ctx) {
	cs := map[string]interface{}{"kind": "manager", "shard": ctx.Shard, "capacity": constants.DefaultCacheCapacity, "ttl": constants.DefaultCacheTTL.String()}
	ctx.R.Begin(cs)
	ctx.R.Eval(1)
	viol := func(clause, method, format string, a ...interface{}) {
		ctx.R.Violate(vlib.Violation{Property: "C12", Clause: clause, Path: "Manager.SearchCache." + method, Detail: fmt.Sprintf(format, a...), Witness: cs})
	}
	ctx.R.Guard("C12", "Manager.SearchCache", cs, func() {
		wantCap := constants.DefaultCacheCapacity
		if wantCap <= 0 {
			wantCap = 100
		}
		ttl := constants.DefaultCacheTTL
		opts := cache.SearchOptions{Limit: 5, UseNLP: true}
		res := func(i int) []cache.SearchResult {
			return []cache.SearchResult{{Command: fmt.Sprintf("m%d", i), Score: float64(i)}}
		}
		hit := func(sc *cache.SearchCache, q string, i int) (bool, string) {
			rs, ok := sc.Get(q, opts)
			if !ok {
				return false, ""
			}
			if len(rs) != 1 || rs[0].Command != interface{}(fmt.Sprintf("m%d", i)) {
				return true, fmt.Sprintf("%v", rs)
			}
			return true, ""
		}

		// capacity
		sc := cache.NewManager().GetSearchCache()
		lru := sc.VerifLRU()
		if c := lru.Capacity(); c != wantCap {
			viol("capacity", "Capacity", "the manager's search cache has capacity %d, constants.DefaultCacheCapacity = %d", c, constants.DefaultCacheCapacity)
			return
		}
		over := 5
		for i := 0; i < wantCap+over; i++ {
			sc.Put(fmt.Sprintf("manager query %d", i), opts, res(i))
			if s := sc.Size(); s > wantCap {
				viol("capacity", "Put", "the manager's search cache holds %d entries, capacity %d", s, wantCap)
				return
			}
		}
		st := sc.Stats()
		if st.Size != wantCap || sc.Size() != wantCap || st.Evictions != int64(over) || st.Capacity != wantCap {
			viol("stats", "Stats", "after %d distinct puts: size %d / %d, evictions %d, capacity %d; expected size %d, evictions %d", wantCap+over, sc.Size(), st.Size, st.Evictions, st.Capacity, wantCap, over)
			return
		}
		for i := 0; i <= over; i++ { // the first `over` queries were discarded (oldest first), the next one is still there
			ok, bad := hit(sc, fmt.Sprintf("MANAGER Query %d", i), i)
			if ok != (i == over) {
				viol("eviction-victim", "Get", "after %d distinct puts into capacity %d, query #%d found=%v (expected the %d oldest to be discarded)", wantCap+over, wantCap, i, ok, over)
				return
			}
			if bad != "" {
				viol("get-value", "Get", "query #%d returned %s", i, bad)
				return
			}
		}
		ctx.R.Path("manager-capacity", 1)

		// lifetime
		if ttl <= 0 {
			ctx.R.Path("manager-ttl-unlimited", 1)
			return
		}
		if ttl < time.Minute {
			ctx.R.Inconcl("manager-ttl-below-1min")
			return
		}
		t0 := time.Now()
		sc = cache.NewManager().GetSearchCache()
		lru = sc.VerifLRU()
		sc.Put("default ttl probe", opts, res(1))
		lru.VerifAdvance(ttl - c12Margin)
		ok1, bad := hit(sc, "default ttl probe", 1)
		lru.VerifAdvance(2 * c12Margin)
		ok2, _ := hit(sc, "default ttl probe", 1)
		if time.Since(t0) > c12Margin/2 {
			ctx.R.Inconcl("real-time-exceeded")
			return
		}
		if !ok1 {
			viol("expiry-early-miss", "Get", "entry missed at virtual age %v, constants.DefaultCacheTTL = %v", ttl-c12Margin, ttl)
			return
		}
		if bad != "" {
			viol("get-value", "Get", "probe returned %s", bad)
			return
		}
		if ok2 {
			viol("expiry-stale-hit", "Get", "entry still served at virtual age %v, constants.DefaultCacheTTL = %v", ttl+c12Margin, ttl)
			return
		}
		st = sc.Stats()
		if st.Hits != 1 || st.Misses != 1 {
			viol("stats", "Stats", "one hit and one miss happened, Stats() says hits=%d misses=%d", st.Hits, st.Misses)
			return
		}
		ctx.R.Path("manager-ttl", 1)
	})
}

// c12Tail keeps the last n operations of a long history (the whole history is regenerated from the case's seed on replay).
func c12Tail(tr []string, n int) []string {
	if len(tr) <= n {
		return tr
	}
	return append([]string{fmt.Sprintf("... %d earlier operations omitted (regenerated from hseed on replay) ...", len(tr)-n)}, tr[len(tr)-n:]...)
}

package main

import (
	"fmt"
	"math/rand"
	"os"
	"path/filepath"
	"regexp"
	"sort"
	"strconv"
	"strings"

	"github.com/Vedant9500/WTF/internal/database"
	"github.com/Vedant9500/WTF/internal/recovery"
	"github.com/Vedant9500/WTF/internal/zzverif/vlib"
)

func init() {
	engines["searchinv"] = engineSearchInv
	engines["searchinv-cli"] = engineSearchInvCLI
}

type c01Case struct {
	DB    string       `json:"db"`
	N     int          `json:"n"`
	Query string       `json:"query"`
	Opts  vlib.OptJSON `json:"opts"`
	Entry string       `json:"entry"`
}

// dbSpecs is the shared ladder of synthetic database shapes.
func dbSpecFor(r *rand.Rand, k int) vlib.DBSpec {
	sizes := []int{0, 1, 2, 5, 12, 25, 40, 40, 120, 300}
	sp := vlib.DBSpec{N: sizes[k%len(sizes)], TieHeavy: k%3 == 0, Platforms: (k / 2) % 3, Unicode: k%4 == 1, Pipelines: k%2 == 0, MixedCase: k%5 == 2}
	if k%17 == 16 {
		sp.N = 600 + r.Intn(1400)
	}
	return sp
}

func checkList(ctx *Ctx, prop string, cs c01Case, cmds []vlib.Cmd, limit int, rs []database.SearchResult) {
	for _, is := range vlib.CheckInvariants(cmds, limit, rs) {
		ctx.R.Violate(vlib.Violation{Property: prop, Clause: is.Clause, Path: cs.Entry, Detail: is.Detail, Witness: cs})
	}
}

func engineSearchInv(ctx *Ctx) {
	r := vlib.NewRand(ctx.Seed, ctx.Shard, "searchinv")
	nDB := ctx.N(48, 1600)
	nQ := ctx.Pick(60, 90)
	nOpt := ctx.Pick(4, 6)
	for d := 0; d < nDB; d++ {
		var cmds []vlib.Cmd
		var db *database.Database
		dbName := fmt.Sprintf("gen-%d-%d", ctx.Shard, d)
		useShipped := d == 0 && (ctx.Shard%4 == 0)
		if useShipped {
			db = ctx.Shipped()
			cmds = db.Commands
			dbName = "shipped"
		} else {
			cmds0 := vlib.GenCommands(r, dbSpecFor(r, d+ctx.Shard))
			ok := ctx.R.Guard("C01", "LoadDatabase", dbName, func() { db = vlib.MustLoad(cmds0) })
			if !ok {
				continue
			}
			cmds = db.Commands
		}
		words := vlib.DBWords(cmds)
		if useShipped && len(words) > 3000 {
			words = words[:3000]
		}
		if g := ctx.G(d); !useShipped && (g%4 == 2 || g%8 == 5) && len(cmds) > 0 && len(cmds) < 400 {
			// a database with semantic embeddings attached (word vectors and command embeddings next to the binary): ordinary
			// ones, and files whose numbers are not finite or so large that sums overflow - the answer is still a ranked list of scores
			fl := []string{"unit", "scaled", "non-finite", "huge"}[(g/4)%4]
			if g%8 == 5 {
				fl = "partial" // the word table lacks a third of the database's words: requests made of unknown words only
			}
			if attachEmbeddings(ctx, r, db, fl) {
				dbName += "/embeddings-" + fl
				ctx.R.Path("databases-with-embeddings", 1)
				ctx.R.Path("databases-with-embeddings-"+fl, 1)
			}
		}
		cdb := database.NewCachedDatabase(db)
		mdb := database.NewMonitoredDatabase(db)
		nq := nQ
		if useShipped {
			nq = ctx.Pick(40, 300)
		}
		// Cached answers across a database replacement, with the cache switched off and on around it: every
		// entry of a later answer must be an entry of the database searched *then*.
		if !useShipped && d%2 == 0 && len(cmds) > 0 {
			hdb := vlib.MustLoad(vlib.StripCaches(cmds))
			hc := database.NewMonitoredDatabase(hdb)
			var qs []string
			for i := 0; i < 6; i++ {
				qs = append(qs, vlib.GenQuery(r, words, 1+r.Intn(3), []int{0, 2}[r.Intn(2)]))
			}
			ho := database.SearchOptions{Limit: 5, UseFuzzy: true, UseNLP: r.Intn(2) == 0, AllPlatforms: true}
			trace := []string{}
			script := []int{3, 3, 3, 3, 0, 1, 0, 3, 3, 3, 3} // fill the cache, switch it off, replace the database, switch it on, search again
			for step := 0; step < 24; step++ {
				op := r.Intn(5)
				forceEnable := -1
				if step < len(script) {
					op = script[step]
					if step == 4 {
						forceEnable = 0
					} else if step == 6 {
						forceEnable = 1
					}
				}
				switch op {
				case 0:
					en := r.Intn(2) == 0
					if forceEnable >= 0 {
						en = forceEnable == 1
					}
					hc.EnableCache(en)
					trace = append(trace, fmt.Sprintf("EnableCache(%v)", en))
				case 1:
					repl := vlib.MustLoad(vlib.GenCommands(r, dbSpecFor(r, d+ctx.Shard+step))).Commands
					if len(repl) == 0 {
						continue
					}
					if r.Intn(2) == 0 {
						hc.UpdateDatabase(repl)
					} else {
						hc.LoadDatabaseWithMonitoring(repl)
					}
					trace = append(trace, fmt.Sprintf("UpdateDatabase(%d)", len(repl)))
				case 2:
					hc.InvalidateCache()
					trace = append(trace, "InvalidateCache")
				default:
					q := qs[r.Intn(len(qs))]
					if step < len(script) {
						q = qs[step%4]
					}
					hcs := c01Case{DB: dbName + "/history", N: len(hdb.Commands), Query: q, Opts: vlib.OptsJ(ho), Entry: "SearchWithOptionsAndCache/after:" + strings.Join(tail(trace, 4), ",")}
					ctx.R.Begin(hcs)
					ctx.R.Eval(1)
					ctx.R.Guard("C01", "SearchWithOptionsAndCache", hcs, func() {
						rs := hc.SearchWithOptionsAndCache(q, ho)
						hcs.Entry = "SearchWithOptionsAndCache/history"
						checkList(ctx, "C01", hcs, hdb.Commands, ho.Limit, rs)
						rs = hc.SearchWithOptionsAndMonitoring(q, ho)
						hcs.Entry = "SearchWithOptionsAndMonitoring/history"
						checkList(ctx, "C01", hcs, hdb.Commands, ho.Limit, rs)
						ctx.R.Path("cached-history-searches", 1)
					})
					trace = append(trace, "search")
				}
			}
		}
		for qi := 0; qi < nq; qi++ {
			kind := []int{0, 0, 1, 2, 2}[r.Intn(5)]
			nw := 1 + r.Intn(4)
			if r.Intn(6) == 0 {
				nw = 5 + r.Intn(10)
			}
			q := vlib.GenQuery(r, words, nw, kind)
			switch r.Intn(25) {
			case 4, 5, 6: // nothing the engine can match, but several words are fragments of one entry: only the recovery ladder answers
				if len(cmds) > 0 {
					c := cmds[r.Intn(len(cmds))]
					f := strings.Fields(c.Command + " " + c.Description)
					frag := func() string {
						w := f[r.Intn(len(f))]
						if len(w) > 4 {
							return w[1 : len(w)-1]
						}
						return w
					}
					q = "zzqxj " + frag() + " " + frag()
					if r.Intn(2) == 0 {
						q += " " + frag()
					}
				}
			case 0:
				q = ""
			case 1:
				q = string(rune('a' + r.Intn(26)))
			case 2:
				q = "?!"
			case 3:
				if len(words) > 0 { // fragment
					w := words[r.Intn(len(words))]
					if len(w) > 3 {
						q = w[1:]
					}
				}
			}
			for oi := 0; oi < nOpt; oi++ {
				o := vlib.RandomOptions(r, len(cmds), words)
				if toks := vlib.Tokenize(q); len(toks) > 1 && r.Intn(8) == 0 {
					// a tiny or subnormal factor on words of the query itself (the first ones are met first while scoring)
					o.ContextBoosts = map[string]float64{toks[0]: []float64{5e-324, 1e-320, 1e-310, 1e-300}[r.Intn(4)]}
					if r.Intn(2) == 0 {
						o.ContextBoosts[toks[1]] = 5e-324
					}
					ctx.R.Path("requests-with-a-subnormal-boost-on-a-query-word", 1)
				}
				cs := c01Case{DB: dbName, N: len(cmds), Query: q, Opts: vlib.OptsJ(o)}
				ctx.R.Begin(cs)
				ctx.R.Eval(1)
				cs.Entry = "SearchUniversal"
				var res []database.SearchResult
				if !ctx.R.Guard("C01", cs.Entry, cs, func() { res = db.SearchUniversal(q, o) }) {
					continue
				}
				checkList(ctx, "C01", cs, cmds, o.Limit, res)
				// classify the answering path
				path := "empty"
				if len(res) > 0 {
					off := o
					off.UseFuzzy = false
					var lex []database.SearchResult
					ctx.R.Guard("C01", cs.Entry, cs, func() { lex = db.SearchUniversal(q, off) })
					switch {
					case len(lex) == 0 && o.UseFuzzy:
						path = "fuzzy"
					case o.UseNLP:
						path = "nlp"
					default:
						path = "lexical"
					}
					if o.PipelineOnly {
						ctx.R.Path("universal-pipeline-only", 1)
					}
					ctx.R.Nontriv(dbName, q, fmt.Sprintf("%+v", cs.Opts), path)
					if path == "fuzzy" {
						ctx.R.Sample(map[string]interface{}{"case": cs, "path": path, "len": len(res)})
					}
				}
				ctx.R.Path(path, 1)
				// the last-resort recovery searches the CLI falls back to when the engine finds nothing: same invariants
				// (the CLI cuts the list to the limit; the count is checked at the CLI)
				if len(res) == 0 && oi == 0 {
					cs.Entry = "RecoverFromSearchFailure"
					ctx.R.Guard("C01", cs.Entry, cs, func() {
						rec, err := recovery.NewSearchRecovery().RecoverFromSearchFailure(q, nil, db)
						if err == nil && len(rec) > 0 {
							ctx.R.Path("recovery-answers", 1)
							for _, is := range vlib.CheckInvariants(cmds, len(cmds)+1, rec) {
								ctx.R.Violate(vlib.Violation{Property: "C01", Clause: is.Clause, Path: cs.Entry, Detail: is.Detail, Witness: cs})
							}
						}
					})
				}

				// Search(q, limit)
				cs.Entry = "Search"
				ctx.R.Guard("C01", cs.Entry, cs, func() {
					rs := db.Search(q, o.Limit)
					checkList(ctx, "C01", cs, cmds, o.Limit, rs)
					if len(rs) > 0 {
						ctx.R.Path("Search", 1)
					}
				})
				// legacy pipeline search (what `wtf pipeline` uses)
				cs.Entry = "SearchWithPipelineOptions"
				ctx.R.Guard("C01", cs.Entry, cs, func() {
					rs := db.SearchWithPipelineOptions(q, o)
					checkList(ctx, "C01", cs, cmds, o.Limit, rs)
					if len(rs) > 0 {
						ctx.R.Path("pipeline", 1)
					}
				})
				// cached: miss then hit
				cs.Entry = "SearchWithOptionsAndCache"
				ctx.R.Guard("C01", cs.Entry, cs, func() {
					before := cdb.GetCacheStats()["search"].Hits
					r1 := cdb.SearchWithOptionsAndCache(q, o)
					checkList(ctx, "C01", cs, cmds, o.Limit, r1)
					r2 := cdb.SearchWithOptionsAndCache(q, o)
					cs2 := cs
					cs2.Entry = "SearchWithOptionsAndCache/hit"
					checkList(ctx, "C01", cs2, cmds, o.Limit, r2)
					if cdb.GetCacheStats()["search"].Hits > before {
						ctx.R.Path("cached", 1)
					}
				})
				if oi == 1 {
					// the same query under a sequence of different limits on one caching wrapper (non-positive ones included)
					cs.Entry = "SearchWithOptionsAndCache/limit-sequence"
					ctx.R.Guard("C01", cs.Entry, cs, func() {
						for _, lim := range [][]int{{0, 5}, {-3, 5, 1}, {5, 0}, {10, 3, -1, 5}, {0, 1}}[r.Intn(5)] {
							ol := o
							ol.Limit = lim
							csl := cs
							csl.Opts = vlib.OptsJ(ol)
							checkList(ctx, "C01", csl, cmds, lim, cdb.SearchWithOptionsAndCache(q, ol))
							checkList(ctx, "C01", csl, cmds, lim, cdb.SearchWithCache(q, lim))
							ctx.R.Path("cached-limit-sequence-steps", 1)
						}
					})
				}
				if oi == 2 && qi%4 == 1 {
					// pairs of different requests in which a text field of one spells out the options of the other (the larger
					// limit first): the second answer is bounded by its own limit
					cs.Entry = "SearchWithOptionsAndCache/look-alike-pair"
					ctx.R.Guard("C01", cs.Entry, cs, func() {
						big, small := o, o
						big.Limit, small.Limit = len(cmds)+1, 1+r.Intn(2)
						big.AllPlatforms, small.AllPlatforms = true, true
						for _, pr := range vlib.SmuggledPairs(q, big, small) {
							for _, rq := range pr {
								csl := cs
								csl.Query, csl.Opts = rq.Q, vlib.OptsJ(rq.O)
								checkList(ctx, "C01", csl, cmds, rq.O.Limit, cdb.SearchWithOptionsAndCache(rq.Q, rq.O))
								ctx.R.Path("cached-look-alike-pair-steps", 1)
							}
						}
					})
				}
				if oi == 0 {
					cs.Entry = "SearchWithCache"
					ctx.R.Guard("C01", cs.Entry, cs, func() {
						checkList(ctx, "C01", cs, cmds, o.Limit, cdb.SearchWithCache(q, o.Limit))
					})
					cs.Entry = "SearchWithOptionsAndMonitoring"
					ctx.R.Guard("C01", cs.Entry, cs, func() {
						checkList(ctx, "C01", cs, cmds, o.Limit, mdb.SearchWithOptionsAndMonitoring(q, o))
						checkList(ctx, "C01", cs, cmds, o.Limit, mdb.SearchWithMonitoring(q, o.Limit))
						ctx.R.Path("monitored", 1)
					})
				}
			}
		}
	}
}

// engineSearchInvCLI counts what `wtf [search]` prints against the limit in
// force, on the lexical, fuzzy and recovery paths.
func engineSearchInvCLI(ctx *Ctx) {
	r := vlib.NewRand(ctx.Seed, ctx.Shard, "searchinv-cli")
	nDB := ctx.N(16, 480)
	for d := 0; d < nDB; d++ {
		sp := vlib.DBSpec{N: []int{8, 30, 80, 200}[d%4], TieHeavy: d%2 == 0, Platforms: 0}
		cmds := vlib.GenCommands(r, sp)
		base := filepath.Join(ctx.Scratch, fmt.Sprintf("cli%d", d))
		h := NewHome(base)
		dbp := filepath.Join(base, "db.yml")
		if err := vlib.WriteYAML(dbp, cmds); err != nil {
			panic(err)
		}
		words := vlib.DBWords(cmds)
		for qi := 0; qi < ctx.Pick(10, 14); qi++ {
			var q, want string
			switch qi % 4 {
			case 0:
				q, want = vlib.GenQuery(r, words, 1+r.Intn(3), 0), "lexical"
			case 1:
				q, want = vlib.GenQuery(r, words, 1+r.Intn(2), 2), "fuzzy"
			default: // fragment of a command word + garbage: only the recovery search can answer
				w := ""
				for try := 0; try < 20 && len(w) < 4; try++ {
					c := cmds[r.Intn(len(cmds))]
					f := strings.Fields(c.Command + " " + c.Description)
					w = f[r.Intn(len(f))]
				}
				if len(w) >= 4 {
					w = w[1:]
				}
				if qi%4 == 2 {
					q = w + " zzqxj"
				} else {
					q = "zzqxj " + w
				}
				want = "recovery"
			}
			limit := []int{0, 1, 2, 3, 5, 20}[r.Intn(6)]
			format := []string{"json", "list"}[r.Intn(2)]
			args := []string{"--database", dbp, "--all-platforms", "--format", format, "--no-color"}
			if limit > 0 {
				args = append(args, "--limit", fmt.Sprint(limit))
			}
			if r.Intn(2) == 0 {
				args = append(args, "search")
			}
			args = append(args, "--", q)
			cs := map[string]interface{}{"db_entries": len(cmds), "args": args, "query": q, "limit": limit, "aim": want}
			ctx.R.Begin(cs)
			ctx.R.Eval(1)
			res := h.Wtf(ctx.Wtf, nil, args...)
			if bad, why := res.Crashed(); bad {
				ctx.R.Violate(vlib.Violation{Property: "C01", Clause: "crash", Path: "cli", Detail: why, Witness: map[string]interface{}{"case": cs, "stderr": vlib.Trunc(res.Stderr, 2000)}})
				continue
			}
			L := limit
			if L <= 0 {
				L = 10 // permissive default bound (CLI default is 5)
			}
			n := -1
			if format == "json" {
				_, items, present, wf := JSONBlock(res.Stdout)
				if present && wf {
					n = len(items)
				} else if !present {
					n = 0
				}
			} else {
				n, _, _ = ListBlock(res.Stdout)
			}
			path := "lexical-or-nlp"
			switch {
			case strings.Contains(res.Stdout, "Warning: Search had issues"):
				path = "recovery"
			case n == 0:
				path = "empty"
			case want == "fuzzy" || want == "recovery":
				path = "fuzzy"
			}
			ctx.R.Path("cli-"+path, 1)
			if n > 0 {
				ctx.R.Nontriv("cli", d, q, limit, format)
			}
			if path == "recovery" {
				ctx.R.Sample(map[string]interface{}{"case": cs, "printed": n})
			}
			if n > L {
				ctx.R.Violate(vlib.Violation{Property: "C01", Clause: "limit", Path: "cli/" + path,
					Detail:  fmt.Sprintf("wtf printed %d results, limit in force %d (requested %d)", n, L, limit),
					Witness: map[string]interface{}{"case": cs, "stdout": vlib.Trunc(res.Stdout, 3000)}})
			}
		}
		// `wtf pipeline`: the other command that prints a ranked list - with the platform flags every command accepts
		pcmds := c17UniqueDB(r, []int{12, 40, 120}[d%3], 2)
		pdbp := filepath.Join(base, "pdb.yml")
		if vlib.WriteYAML(pdbp, pcmds) == nil {
			pwords := vlib.DBWords(pcmds)
			// the words most entries share: requests with more matches than any limit, of which a platform request leaves few
			freq := map[string]int{}
			for i := range pcmds {
				for _, t := range vlib.Tokenize(pcmds[i].Command + " " + pcmds[i].Description) {
					freq[t]++
				}
			}
			common := append([]string(nil), pwords...)
			sort.SliceStable(common, func(i, j int) bool { return freq[common[i]] > freq[common[j]] })
			if len(common) > 6 {
				common = common[:6]
			}
			for qi := 0; qi < ctx.Pick(10, 14); qi++ {
				q := vlib.GenQuery(r, pwords, 1+r.Intn(2), 0)
				if qi%2 == 0 && len(common) > 0 {
					q = common[r.Intn(len(common))]
				}
				if strings.TrimSpace(q) == "" {
					continue
				}
				limit := []int{1, 2, 3, 5, 10}[r.Intn(5)]
				args := []string{"pipeline", "--database", pdbp, "--limit", fmt.Sprint(limit), "-v", "--no-color"}
				switch r.Intn(5) {
				case 0:
					args = append(args, "--all-platforms")
				case 1:
					args = append(args, "--platform", []string{"linux", "windows", "macos,linux", "android"}[r.Intn(4)])
				case 2:
					args = append(args, "--platform", []string{"linux", "windows", "haiku"}[r.Intn(3)], "--no-cross-platform")
				case 3:
					args = append(args, "--no-cross-platform")
				}
				args = append(args, "--", q)
				cs := map[string]interface{}{"db_entries": len(pcmds), "args": args, "query": q, "limit": limit}
				ctx.R.Begin(cs)
				ctx.R.Eval(1)
				res := h.Wtf(ctx.Wtf, nil, args...)
				if bad, why := res.Crashed(); bad {
					ctx.R.Violate(vlib.Violation{Property: "C01", Clause: "crash", Path: "cli-pipeline", Detail: why, Witness: map[string]interface{}{"case": cs, "stderr": vlib.Trunc(res.Stderr, 2000)}})
					continue
				}
				var names []string
				var scores []float64
				lines := strings.Split(res.Stdout, "\n")
				for i, l := range lines {
					if m := c01PipeHead.FindStringSubmatch(l); m != nil && len(names)+1 == atoiOr(m[1], -1) {
						desc := ""
						if i+1 < len(lines) {
							desc = strings.TrimSpace(lines[i+1])
						}
						names = append(names, m[2]+" / "+desc)
					}
					if m := c01PipeScore.FindStringSubmatch(l); m != nil {
						if f, err := strconv.ParseFloat(m[1], 64); err == nil {
							scores = append(scores, f)
						}
					}
				}
				ctx.R.Path("cli-pipeline-runs", 1)
				if len(names) > 0 {
					ctx.R.Path("cli-pipeline-runs-with-results", 1)
					ctx.R.Nontriv("cli-pipeline", d, q, fmt.Sprint(args))
				}
				vio := func(clause, detail string) {
					ctx.R.Violate(vlib.Violation{Property: "C01", Clause: clause, Path: "cli-pipeline", Detail: detail, Witness: map[string]interface{}{"case": cs, "stdout": vlib.Trunc(res.Stdout, 3000)}})
				}
				if len(names) > limit {
					vio("limit", fmt.Sprintf("wtf pipeline printed %d results, --limit %d", len(names), limit))
				}
				seen := map[string]bool{}
				for _, n := range names {
					if seen[n] {
						vio("duplicate", fmt.Sprintf("wtf pipeline lists the entry %s twice (every entry of the database has a command string of its own)", vlib.Q(vlib.Trunc(n, 100))))
						break
					}
					seen[n] = true
				}
				for i := 1; i < len(scores) && len(scores) == len(names); i++ {
					if scores[i] > scores[i-1] {
						vio("order", fmt.Sprintf("wtf pipeline prints relevance %v at rank %d above %v at rank %d", scores[i-1], i, scores[i], i+1))
						break
					}
				}
			}
		}
		os.RemoveAll(base)
	}
}

var (
	c01PipeHead  = regexp.MustCompile(`^(\d+)\. (.*)$`)
	c01PipeScore = regexp.MustCompile(`Relevance Score: ([-+0-9.eE]+|NaN|[+-]?Inf)`)
)

func atoiOr(s string, d int) int {
	if n, err := strconv.Atoi(s); err == nil {
		return n
	}
	return d
}

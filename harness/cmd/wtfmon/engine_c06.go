package main

import (
	"encoding/json"
	"fmt"
	"math/rand"
	"os"
	"os/exec"
	"path/filepath"
	"reflect"
	"strings"

	"github.com/Vedant9500/WTF/internal/database"
	"github.com/Vedant9500/WTF/internal/nlp"
	"github.com/Vedant9500/WTF/internal/zzverif/vlib"
)

func init() {
	engines["nlpsubset"] = engineNLPSubset
	engines["nlpanalysis"] = engineNLPAnalysis
}

// c06UserWords: the words of the user's text as the documented clean-up sees
// them (keep ASCII word characters, '-', '.', blanks; everything else
// separates), lower-cased.
func c06UserWords(q string) []string {
	var b strings.Builder
	for _, r := range q {
		switch {
		case r >= 'a' && r <= 'z', r >= 'A' && r <= 'Z', r >= '0' && r <= '9', r == '_', r == '-', r == '.':
			b.WriteRune(r)
		default:
			b.WriteByte(' ')
		}
	}
	return strings.Fields(strings.ToLower(b.String()))
}

func engineNLPSubset(ctx *Ctx) {
	r := vlib.NewRand(ctx.Seed, ctx.Shard, "nlpsubset")
	nDB := ctx.N(160, 8000)
	nQ := ctx.Pick(60, 90)
	for d := 0; d < nDB; d++ {
		var db *database.Database
		everywhere := ""
		dbName := fmt.Sprintf("gen-%d-%d", ctx.Shard, d)
		if d == 0 && ctx.Shard%8 == 2 {
			db = ctx.Shipped()
			dbName = "shipped"
		} else {
			sp := dbSpecFor(r, d+ctx.Shard)
			if sp.N > 150 {
				sp.N = 150
			}
			cmds0 := vlib.GenCommands(r, sp)
			if ctx.G(d)%6 == 5 && len(cmds0) >= 40 {
				// a word every entry carries (a team tag, a product name): as common as a word can be
				everywhere = []string{"runbook", "acme", "internal"}[r.Intn(3)]
				for i := range cmds0 {
					switch i % 3 {
					case 0:
						cmds0[i].Tags = append(cmds0[i].Tags, everywhere)
					case 1:
						cmds0[i].Keywords = append(cmds0[i].Keywords, everywhere)
					default:
						cmds0[i].Description += " " + everywhere
					}
				}
				ctx.R.Path("databases-with-a-word-in-every-entry", 1)
			}
			if !ctx.R.Guard("C06", "LoadDatabase", dbName, func() { db = vlib.MustLoad(cmds0) }) {
				continue
			}
		}
		cmds := db.Commands
		N := len(cmds)
		if N == 0 {
			continue
		}
		words := vlib.DBWords(cmds)
		if len(words) > 3000 {
			words = words[:3000]
		}
		ri := vlib.BuildRef(cmds, c03Params())
		nq := nQ
		if dbName == "shipped" {
			nq = ctx.Pick(25, 200)
		}
		for qi := 0; qi < nq; qi++ {
			// lengths biased towards 7..11 content words (append-while-<8 and keep-10 boundaries)
			nw := []int{1, 2, 3, 4, 5, 6, 7, 7, 8, 8, 9, 9, 10, 10, 11, 11, 12, 14}[r.Intn(18)]
			q := vlib.GenQuery(r, words, nw, []int{0, 1}[r.Intn(2)])
			if r.Intn(5) == 0 {
				q += " " + []string{"without opening", "see the contents", "How do I", "café 日本語", "?!"}[r.Intn(5)]
			}
			if everywhere != "" && r.Intn(2) == 0 {
				// the ubiquitous word among the first four words of a long request
				f := strings.Fields(vlib.GenQuery(r, words, 9+r.Intn(6), 0))
				at := r.Intn(4)
				if at > len(f) {
					at = len(f)
				}
				q = strings.Join(append(append(append([]string{}, f[:at]...), everywhere), f[at:]...), " ")
				ctx.R.Path("long-queries-starting-with-a-ubiquitous-word", 1)
			}
			if r.Intn(7) == 0 {
				// a chatty request: few content words spread over hundreds of bytes of filler (the CLI accepts 1000 bytes), one of them at the very end
				cw := strings.Fields(vlib.GenQuery(r, words, 2+r.Intn(8), 0))
				L := []int{120, 250, 300, 500, 520, 700, 990, 1500, 3000}[r.Intn(9)]
				var parts []string
				for i, w := range cw {
					if i == len(cw)-1 {
						parts = append(parts, vlib.StopFiller(r.Intn, L*2/3))
					} else if r.Intn(2) == 0 {
						parts = append(parts, vlib.StopFiller(r.Intn, L/(3*len(cw))+1))
					}
					parts = append(parts, w)
				}
				q = strings.Join(parts, " ")
				ctx.R.Path("chatty-queries", 1)
				if len(q) > 512 {
					ctx.R.Path("chatty-queries-over-512-bytes", 1)
				}
			}
			if r.Intn(9) == 0 {
				q = ctx.Dict().DictQuery(r) + " " + vlib.GenQuery(r, words, 1+r.Intn(3), 0) // wording taken from the tree's own tables (stop words, synonyms, intents)
				ctx.R.Path("dictionary-queries", 1)
			}
			if r.Intn(8) == 0 {
				// words written the way tool names, file names and sentence ends are: joined by - . _ or closed by a full stop
				// ("docker-compose", "tar.gz", "list_files", "show images."); every part is an ordinary word of the database
				var parts []string
				for i, n := 0, 1+r.Intn(2); i < n; i++ {
					w1, w2 := vlib.Word(r, words), vlib.Word(r, words)
					parts = append(parts, []string{w1 + "-" + w2, w1 + "." + w2, w1 + "_" + w2, w1 + ".", w1 + "-" + w2 + "-" + vlib.Word(r, words), w1 + "."}[r.Intn(6)])
				}
				q = strings.Join(parts, " ")
				ctx.R.Path("queries-of-joined-words", 1)
			}
			o := database.SearchOptions{Limit: N + 1, AllPlatforms: r.Intn(4) > 0, TopTermsCap: []int{0, 0, 0, 1, 4, 10, 50}[r.Intn(7)]}
			if r.Intn(4) == 0 {
				o.ContextBoosts = map[string]float64{vlib.Word(r, words): 2}
			}
			toks := vlib.Tokenize(q)
			cs := map[string]interface{}{"db": dbName, "n": N, "query": q, "opts": vlib.OptsJ(o), "content_words": len(toks)}
			ctx.R.Begin(cs)
			ctx.R.Eval(1)
			var off, on []database.SearchResult
			oOn := o
			oOn.UseNLP = true
			// the application searches with typo tolerance on: the enhanced search runs with it in half of the cases (the lexical
			// matches it must keep are those of the plain search without it)
			oOn.UseFuzzy = r.Intn(2) == 0
			cs["enhanced_search_with_typo_tolerance"] = oOn.UseFuzzy
			if oOn.UseFuzzy {
				ctx.R.Path("enhanced-searches-with-typo-tolerance", 1)
			}
			if !ctx.R.Guard("C06", "SearchUniversal", cs, func() { off = db.SearchUniversal(q, o); on = db.SearchUniversal(q, oOn) }) {
				continue
			}
			onSet := map[int]bool{}
			for _, x := range on {
				onSet[vlib.IndexOf(cmds, x.Command)] = true
			}
			offSet := map[int]bool{}
			for _, x := range off {
				offSet[vlib.IndexOf(cmds, x.Command)] = true
			}
			// (i) up to ten content words: every lexical match is still a candidate with NLP on
			if len(toks) <= 10 && o.TopTermsCap == 0 {
				ctx.R.Path("subset-checked", 1)
				for i := range offSet {
					if !onSet[i] {
						ctx.R.Violate(vlib.Violation{Property: "C06", Clause: "lexical-match-lost", Path: "SearchUniversal",
							Detail:  fmt.Sprintf("entry %d (%s) is returned with NLP off but not with NLP on (%d content words)", i, vlib.Q(vlib.Trunc(cmds[i].Command, 60)), len(toks)),
							Witness: cs})
						break
					}
				}
			}
			// (ii) the first four content words are retained, NLP on or off
			first4 := toks
			if len(first4) > 4 {
				first4 = first4[:4]
			}
			if o.AllPlatforms {
				ctx.R.Path("first4-checked", 1)
				for doc := 0; doc < N; doc++ {
					has := ""
					for _, t := range first4 {
						if ri.Contains(doc, t) {
							has = t
							break
						}
					}
					if has == "" {
						continue
					}
					for which, set := range map[string]map[int]bool{"off": offSet, "on": onSet} {
						if !set[doc] {
							ctx.R.Violate(vlib.Violation{Property: "C06", Clause: "first-four-lost", Path: "SearchUniversal/nlp-" + which,
								Detail:  fmt.Sprintf("entry %d contains %q (one of the first four content words) but is not a candidate with NLP %s (%d content words, cap %d)", doc, has, which, len(toks), o.TopTermsCap),
								Witness: cs})
						}
					}
				}
			}
			if len(on) > len(off) {
				ctx.R.Path("nlp-added-candidates", 1)
			}
			if len(off) > 0 {
				ctx.R.Nontriv(dbName, q, o.TopTermsCap, o.AllPlatforms)
				switch {
				case len(toks) <= 6:
					ctx.R.Path("len<=6", 1)
				case len(toks) <= 8:
					ctx.R.Path("len7-8", 1)
				case len(toks) <= 10:
					ctx.R.Path("len9-10", 1)
				default:
					ctx.R.Path("len>10", 1)
				}
				if qi < 2 {
					ctx.R.Sample(map[string]interface{}{"case": cs, "off": len(off), "on": len(on)})
				}
			}
		}
	}
}

// engineNLPAnalysis checks the public analysis result: enhanced keywords start
// with Keywords element for element, no duplicates, user's order, repeatable.
func engineNLPAnalysis(ctx *Ctx) {
	r := vlib.NewRand(ctx.Seed, ctx.Shard, "nlpanalysis")
	n := ctx.N(40000, 2400000)
	shared := nlp.NewQueryProcessor()
	// analyses remembered over the whole run: a text analysed again much later - after hundreds of other texts,
	// among them texts that differ from it only in punctuation or spacing - must still get the same analysis
	remembered := map[string]string{}
	var ring []string
	render := c06Render
	// texts in the order this process analysed them first (for the comparison with a fresh process at the end)
	var order []string
	defer func() { c06CrossProcess(ctx, order, remembered) }()
	analyse := c06Analyser(ctx, shared, remembered, &order, &ring, r)
	for i := 0; i < n; i++ {
		if len(ring) > 50 && r.Intn(4) == 0 {
			old := ring[r.Intn(len(ring))]
			variant := old
			switch r.Intn(3) {
			case 0: // a text that cleans to the same string: punctuation / extra blanks inside
				f := strings.Fields(old)
				if len(f) > 1 {
					k := 1 + r.Intn(len(f)-1)
					variant = strings.Join(f[:k], " ") + []string{"; ", ", ", "  ", " ! ", "? "}[r.Intn(5)] + strings.Join(f[k:], " ")
				}
			}
			for _, t := range []string{variant, old} {
				cs := map[string]interface{}{"query": t, "revisited_after": i}
				ctx.R.Begin(cs)
				ctx.R.Eval(1)
				ctx.R.Guard("C06", "ProcessQuery", cs, func() {
					got := render(shared.ProcessQuery(t))
					if prev, ok := remembered[t]; ok && prev != got {
						ctx.R.Violate(vlib.Violation{Property: "C06", Clause: "analysis-not-repeatable", Path: "ProcessQuery/revisited",
							Detail:  fmt.Sprintf("the analysis of %s changed between two points of the run", vlib.Q(t)),
							Witness: map[string]interface{}{"case": cs, "first": prev, "now": got}})
					} else if !ok {
						remembered[t] = got
						if len(order) < 6000 {
							order = append(order, t)
						}
					}
					ctx.R.Path("analysis-revisited", 1)
				})
			}
			continue
		}
		nw := 1 + r.Intn(14)
		long := r.Intn(20) == 0
		if long { // a pasted paragraph: dozens of distinct words, some of them again at the end
			nw = 25 + r.Intn(30)
		}
		parts := make([]string, 0, nw)
		for k := 0; k < nw; k++ {
			w := vlib.Word(r, nil)
			switch r.Intn(14) {
			case 0:
				w = strings.ToUpper(w)
			case 1:
				w = w + []string{"!", "?", ",", ".", "-x", "_y", "'s", "..."}[r.Intn(8)]
			case 2:
				w = []string{"café", "日本語", "😀", "İstanbul", "naïve", "x", "-", "--force", "3.14", "a.b", "tar.gz"}[r.Intn(11)]
			}
			parts = append(parts, w)
		}
		if long {
			for k := 0; k < 1+r.Intn(4); k++ {
				parts = append(parts, parts[len(parts)/2+r.Intn(len(parts)/2)])
			}
			parts = append(parts, parts[len(parts)-1-r.Intn(3)])
			ctx.R.Path("analysis-of-long-texts", 1)
		}
		q := strings.Join(parts, []string{" ", " ", "  ", "\t", ", "}[r.Intn(5)])
		if r.Intn(12) == 0 {
			q = []string{"see ", "reading ", "preview ", "looking at "}[r.Intn(4)] + q + []string{" without opening", " without editing it", " without; opening"}[r.Intn(3)]
		}
		analyse(q, i)
	}
	c06Closure(ctx, func(q string) []string { return analyse(q, 1<<30) })
}

// c06Closure: every pair of words the query-analysis package names, as a request of its own, and then the same request with
// each term the enhancement added typed by the user himself (before and after the pair): the rules that add a term meet a
// text that already holds it. Dealt over the shards; every text goes through the oracles of the engine.
func c06Closure(ctx *Ctx, analyse func(q string) []string) {
	d := ctx.Dict()
	ws := d.NLPWords
	k := 0
	for i, a := range ws {
		for j, b := range ws {
			if i == j {
				continue
			}
			k++
			if k%ctx.NShards != ctx.Shard {
				continue
			}
			q := a + " " + b
			user := map[string]bool{a: true, b: true}
			ctx.R.Path("closure-pairs", 1)
			for _, t := range analyse(q) {
				if !user[t] && !strings.ContainsAny(t, " \t") {
					analyse(q + " " + t)
					analyse(t + " " + q)
					ctx.R.Path("closure-texts-with-an-added-term-typed-by-the-user", 2)
				}
			}
		}
	}
}

func c06Analyser(ctx *Ctx, shared *nlp.QueryProcessor, remembered map[string]string, order, ring *[]string, r *rand.Rand) func(q string, i int) []string {
	render := c06Render
	return func(q string, i int) (enhOut []string) {
		cs := map[string]interface{}{"query": q}
		ctx.R.Begin(cs)
		ctx.R.Eval(1)
		ctx.R.Guard("C06", "ProcessQuery", cs, func() {
			pq := shared.ProcessQuery(q)
			enh := pq.GetEnhancedKeywords()
			enhOut = enh
			if _, ok := remembered[q]; !ok && len(remembered) < 200000 && i < 1<<30 {
				remembered[q] = render(pq)
				if len(*order) < 6000 && (i%4 == 0 || strings.Contains(q, "without")) {
					*order = append(*order, q)
				}
				if len(*ring) < 4000 {
					*ring = append(*ring, q)
				} else {
					(*ring)[r.Intn(len(*ring))] = q
				}
			}
			// repeatable: same processor and a fresh one
			pq2 := shared.ProcessQuery(q)
			pq3 := nlp.NewQueryProcessor().ProcessQuery(q)
			if !reflect.DeepEqual(pq, pq2) || !reflect.DeepEqual(pq, pq3) || !reflect.DeepEqual(enh, pq3.GetEnhancedKeywords()) {
				ctx.R.Violate(vlib.Violation{Property: "C06", Clause: "analysis-not-repeatable", Path: "ProcessQuery",
					Detail: "two analyses of the same text differ", Witness: map[string]interface{}{"case": cs, "a": pq, "b": pq3}})
			}
			// enhanced begins with Keywords, element for element
			if len(enh) < len(pq.Keywords) || !reflect.DeepEqual(enh[:len(pq.Keywords)], pq.Keywords) {
				ctx.R.Violate(vlib.Violation{Property: "C06", Clause: "keywords-not-first", Path: "GetEnhancedKeywords",
					Detail:  fmt.Sprintf("expanded term list %v does not begin with the extracted keywords %v", enh, pq.Keywords),
					Witness: cs})
			}
			seen := map[string]bool{}
			for _, e := range enh {
				if seen[e] {
					ctx.R.Violate(vlib.Violation{Property: "C06", Clause: "duplicate-term", Path: "GetEnhancedKeywords",
						Detail: fmt.Sprintf("term %q twice in %v", e, enh), Witness: cs})
					break
				}
				seen[e] = true
			}
			// user's order: keywords taken from the user's text appear in the user's order; an element may be
			// out of place only when it is the injected first synonym of the element before it
			uw := c06UserWords(q)
			pos := map[string]int{}
			for i, w := range uw {
				if _, ok := pos[w]; !ok {
					pos[w] = i
				}
			}
			// first synonyms of the user's words: these are injected next to the word they expand and, after
			// de-duplication, may end up anywhere after it
			injected := map[string]bool{}
			for _, w := range uw {
				if syn := shared.GetSynonyms(w); len(syn) > 0 {
					injected[syn[0]] = true
				}
			}
			last := -1
			for _, k := range pq.Keywords {
				if injected[k] {
					continue
				}
				p, ok := pos[k]
				if !ok {
					ctx.R.Violate(vlib.Violation{Property: "C06", Clause: "keyword-not-from-text", Path: "ProcessQuery",
						Detail: fmt.Sprintf("keyword %q is neither a word of the user's text %v nor the first synonym of one of them", k, uw), Witness: cs})
					break
				}
				if p < last {
					ctx.R.Violate(vlib.Violation{Property: "C06", Clause: "keywords-out-of-order", Path: "ProcessQuery",
						Detail: fmt.Sprintf("keywords %v are not in the user's order %v (at %q)", pq.Keywords, uw, k), Witness: cs})
					break
				}
				last = p
			}
			if len(enh) > len(pq.Keywords) && len(pq.Keywords) > 0 {
				ctx.R.Nontriv(q)
				ctx.R.Path("analysis-with-expansion", 1)
			}
			if len(pq.Actions) > 0 {
				ctx.R.Path("analysis-with-actions", 1)
			}
			if len(pq.Targets) > 0 {
				ctx.R.Path("analysis-with-targets", 1)
			}
			if i < 2 {
				ctx.R.Sample(map[string]interface{}{"query": q, "keywords": pq.Keywords, "enhanced": enh, "intent": pq.Intent})
			}
		})
		return enhOut
	}
}

func c06Render(pq *nlp.ProcessedQuery) string {
	return fmt.Sprintf("%q|%v|%v|%v|%v|%v|%v", pq.Cleaned, pq.Actions, pq.Targets, pq.Keywords, pq.Intent, pq.Modifiers, pq.GetEnhancedKeywords())
}

func init() { helpers["nlpanalyze"] = c06HelperAnalyze }

// nlpanalyze <in.json> <out.json>: a fresh process analyses the texts LAST TO FIRST and writes the analyses in input order.
func c06HelperAnalyze(args []string) int {
	b, err := os.ReadFile(args[0])
	if err != nil {
		return 2
	}
	var texts []string
	if json.Unmarshal(b, &texts) != nil {
		return 2
	}
	out := make([]string, len(texts))
	p := nlp.NewQueryProcessor()
	for i := len(texts) - 1; i >= 0; i-- {
		func() {
			defer func() {
				if e := recover(); e != nil {
					out[i] = fmt.Sprintf("panic: %v", e)
				}
			}()
			out[i] = c06Render(p.ProcessQuery(texts[i]))
		}()
	}
	ob, _ := json.Marshal(out)
	if os.WriteFile(args[1], ob, 0o644) != nil {
		return 2
	}
	return 0
}

// c06CrossProcess: "analysing the same text twice gives the same analysis" - also when the second analysis happens in another
// process that met the texts in another order (an analysis may not depend on what was analysed before it).
func c06CrossProcess(ctx *Ctx, order []string, remembered map[string]string) {
	if len(order) == 0 {
		return
	}
	in := filepath.Join(ctx.Scratch, "c06cross-in.json")
	outp := filepath.Join(ctx.Scratch, "c06cross-out.json")
	b, _ := json.Marshal(order)
	if os.WriteFile(in, b, 0o644) != nil {
		return
	}
	defer os.Remove(in)
	defer os.Remove(outp)
	self, _ := os.Executable()
	if err := exec.Command(self, "nlpanalyze", in, outp).Run(); err != nil {
		ctx.R.Inconcl("cross-process analysis helper failed: " + err.Error())
		return
	}
	ob, err := os.ReadFile(outp)
	var got []string
	if err != nil || json.Unmarshal(ob, &got) != nil || len(got) != len(order) {
		ctx.R.Inconcl("cross-process analysis helper output unreadable")
		return
	}
	for i, t := range order {
		ctx.R.Eval(1)
		ctx.R.Path("analysis-compared-with-a-fresh-process", 1)
		if got[i] != remembered[t] {
			cs := map[string]interface{}{"query": t, "position_in_this_process": i, "texts": len(order)}
			ctx.R.Violate(vlib.Violation{Property: "C06", Clause: "analysis-not-repeatable", Path: "ProcessQuery/other-process",
				Detail:  fmt.Sprintf("the analysis of %s in this process (which had analysed %d other texts before it) differs from its analysis in a fresh process that met the texts in the opposite order", vlib.Q(t), i),
				Witness: map[string]interface{}{"case": cs, "here": remembered[t], "fresh_process": got[i]}})
			return
		}
	}
}

package main

import (
	"fmt"
	"math"
	"math/rand"
	"os"
	"path/filepath"
	"runtime"
	"strings"

	"github.com/Vedant9500/WTF/internal/constants"
	"github.com/Vedant9500/WTF/internal/database"
	"github.com/Vedant9500/WTF/internal/zzverif/vlib"
)

func init() { engines["embed-history"] = engineC19History }

// engineC19History: the same history of searches and command-list growth on two databases holding the same entries,
// one with an embedding index attached, one without. At every search (limit > N): same candidates, and every score
// with embeddings lies in [score_without, (1+alpha) * score_without]. Databases are obtained from the loader and as
// struct literals (no re-ranker): attaching embeddings must not switch anything else on.
// c19BigTable: a database the size of the shipped one with an embedding row for every entry, searched under the processor
// counts of small and large machines: no crash, the list ordered, the same answer whatever the count.
func c19BigTable(ctx *Ctx, r *rand.Rand) {
	n := []int{4096, 4097, 5000, 6600, 6619, 7001}[r.Intn(6)]
	cmds := vlib.GenCommands(r, vlib.DBSpec{N: n, TieHeavy: false})
	db, err := vlib.LoadCommands(cmds)
	if err != nil || !attachEmbeddings(ctx, r, db, "scaled") {
		ctx.R.Inconcl("embeddings not attached (big table)")
		return
	}
	words := vlib.DBWords(db.Commands)
	defer runtime.GOMAXPROCS(runtime.GOMAXPROCS(0))
	type qo struct {
		q string
		o database.SearchOptions
	}
	var reqs []qo
	for i := 0; i < 4; i++ {
		reqs = append(reqs, qo{vlib.GenQuery(r, words, 1+r.Intn(3), 0), database.SearchOptions{Limit: []int{10, 50, n + 1}[r.Intn(3)], AllPlatforms: true, UseNLP: i%2 == 0}})
	}
	var first []vlib.Ranked
	for pi, procs := range []int{1, 2, 3, 16, 63, 65, 100, 128, 200, 256} {
		runtime.GOMAXPROCS(procs)
		for qi, rq := range reqs {
			cs := map[string]interface{}{"class": "big embedding table", "entries": n, "processors": procs, "query": rq.q, "opts": vlib.OptsJ(rq.o)}
			ctx.R.Begin(cs)
			ctx.R.Eval(1)
			ctx.R.Guard("C19", "SearchUniversal", cs, func() {
				a := vlib.Canon(db.Commands, db.SearchUniversal(rq.q, rq.o))
				for k := 1; k < len(a); k++ {
					if a[k-1].Score < a[k].Score {
						ctx.R.Violate(vlib.Violation{Property: "C19", Clause: "order", Path: "big-table", Detail: "list with embeddings is not ordered", Witness: cs})
						return
					}
				}
				if pi == 0 {
					first = append(first, a)
				} else if ok, why := vlib.Approx(first[qi], a, vlib.LimitInForce(rq.o.Limit)); !ok {
					ctx.R.Violate(vlib.Violation{Property: "C19", Clause: "score-unbounded", Path: "big-table",
						Detail: fmt.Sprintf("the answer with %d processors differs from the answer with 1: %s", procs, why), Witness: cs})
				}
				ctx.R.Path("big-table-searches", 1)
			})
		}
	}
}

func engineC19History(ctx *Ctx) {
	r := vlib.NewRand(ctx.Seed, ctx.Shard, "embed-history")
	if ctx.Shard%4 == 1 || ctx.Thorough {
		c19BigTable(ctx, r)
	}
	n := ctx.N(320, 9600)
	alpha := constants.SemanticAlpha
	origWD, _ := os.Getwd()
	defer os.Chdir(origWD)
	for i := 0; i < n; i++ {
		cmds := vlib.GenCommands(r, vlib.DBSpec{N: 5 + r.Intn(25), TieHeavy: false})
		nDup := 0
		if i%4 == 2 {
			// copies of one entry (equal lexical scores) whose embedding rows will differ in the last bit of one component
			nDup = 2 + r.Intn(3)
			base := cmds[r.Intn(len(cmds))]
			for k := 0; k < nDup; k++ {
				cmds = append(cmds, base)
			}
		}
		loaded, err := vlib.LoadCommands(cmds)
		if err != nil || len(loaded.Commands) == 0 {
			continue
		}
		words := vlib.DBWords(loaded.Commands)
		if len(words) < 3 {
			continue
		}
		// word vectors: one random unit vector per word; command embedding = normalised sum of its words' vectors
		wv := map[string][]float32{}
		var wl []string
		var vl [][]float32
		for _, w := range words {
			v := c19Unit(c19Gauss(r, 100), 1)
			wv[w] = v
			wl = append(wl, w)
			vl = append(vl, v)
		}
		var cv [][]float32
		for k := range loaded.Commands {
			sum := make([]float32, 100)
			ft := vlib.FieldTexts(&loaded.Commands[k])
			for _, t := range vlib.Tokenize(strings.Join(ft[:], " ")) {
				if v, ok := wv[t]; ok {
					for j := range sum {
						sum[j] += v[j]
					}
				}
			}
			cv = append(cv, c19Unit(sum, 1))
		}
		if nDup > 0 {
			for k := len(cv) - nDup; k < len(cv); k++ {
				row := append([]float32(nil), cv[k]...)
				for t := 0; t < 1+r.Intn(2); t++ {
					j := r.Intn(len(row))
					row[j] = math.Nextafter32(row[j], float32([]float64{-2, 2}[r.Intn(2)]))
				}
				cv[k] = row
			}
			ctx.R.Path("history-databases-with-copies-whose-rows-differ-in-the-last-bit", 1)
		}
		dir := filepath.Join(ctx.Scratch, fmt.Sprintf("eh%d", i))
		os.MkdirAll(dir, 0o755)
		os.WriteFile(filepath.Join(dir, "glove.bin"), c19Glove(uint32(len(wl)), wl, vl), 0o644)
		os.WriteFile(filepath.Join(dir, "cmd_embeddings.bin"), c19CmdFile(uint32(len(cv)), 100, cv), 0o644)
		kind := []string{"loaded", "literal"}[i%2]
		mk := func() *database.Database {
			l, _ := vlib.LoadCommands(cmds)
			if kind == "literal" {
				return &database.Database{Commands: l.Commands}
			}
			return l
		}
		without, with := mk(), mk()
		nofiles := mk() // a third copy, on which the feature is tried later where no embedding files exist
		emptyDir := filepath.Join(ctx.Scratch, fmt.Sprintf("eh%d-empty", i))
		os.MkdirAll(emptyDir, 0o755)
		os.Chdir(dir)
		ok := ctx.R.Guard("C19", "LoadEmbeddings", kind, func() { with.LoadEmbeddings() })
		os.Chdir(origWD)
		if !ok || !with.HasEmbeddings() {
			ctx.R.Inconcl("embeddings not attached")
			os.RemoveAll(dir)
			os.RemoveAll(emptyDir)
			continue
		}
		trace := []string{"database:" + kind}
		for step := 0; step < 5; step++ {
			if step == 1 && i%2 == 1 {
				// the embedding files are reloaded on the same database: cmd_embeddings.bin was replaced meanwhile by rows three times
				// as long - complete, or cut short by a few bytes (an interrupted download) - while glove.bin is untouched
				scaled := make([][]float32, len(cv))
				for k := range cv {
					scaled[k] = c19Unit(cv[k], 3)
				}
				nb := c19CmdFile(uint32(len(scaled)), 100, scaled)
				cut := []int{0, 1, 2, 4, 8, 16, 400}[r.Intn(7)]
				if cut < len(nb) {
					nb = nb[:len(nb)-cut]
				}
				os.WriteFile(filepath.Join(dir, "cmd_embeddings.bin"), nb, 0o644)
				os.Chdir(dir)
				ctx.R.Guard("C19", "LoadEmbeddings(again)", kind, func() { with.LoadEmbeddings() })
				os.Chdir(origWD)
				trace = append(trace, fmt.Sprintf("cmd_embeddings.bin replaced (rows x3, %d bytes cut off), LoadEmbeddings again", cut))
				ctx.R.Path("history-reloads-of-embedding-files", 1)
			}
			if step == 2 || step == 4 { // the command list grows (entries without an embedding)
				extra := vlib.MustLoad(vlib.GenCommands(r, vlib.DBSpec{N: 1 + r.Intn(3)})).Commands
				without.Commands = append(without.Commands, extra...)
				with.Commands = append(with.Commands, extra...)
				nofiles.Commands = append(nofiles.Commands, extra...)
				if i%3 == 1 { // the caller rebuilds the index itself after growing the list
					for _, x := range []*database.Database{without, with, nofiles} {
						x.BuildUniversalIndex()
					}
					trace = append(trace, "BuildUniversalIndex()")
					ctx.R.Path("history-explicit-index-builds", 1)
				}
				trace = append(trace, fmt.Sprintf("append(%d)", len(extra)))
				continue
			}
			if step == 3 && i%3 == 2 {
				// the caller swaps in a freshly loaded copy of the same entries (same length, another backing array) and rebuilds the index
				for _, x := range []*database.Database{without, with, nofiles} {
					x.SearchUniversal(words[0], database.SearchOptions{Limit: 3, AllPlatforms: true}) // (whatever is built lazily after the growth is built now)
					fresh := make([]database.Command, len(x.Commands))
					copy(fresh, x.Commands)
					x.Commands = fresh
					if (i/6)%2 == 0 {
						x.BuildUniversalIndex()
					}
				}
				if (i/6)%2 == 0 {
					trace = append(trace, "Commands = a copy of the same entries; BuildUniversalIndex()")
				} else {
					trace = append(trace, "Commands = a copy of the same entries (nothing rebuilt: same texts, same positions)")
				}
				ctx.R.Path("history-same-length-replacements", 1)
			}
			q := vlib.GenQuery(r, words, 1+r.Intn(3), 0)
			if r.Intn(5) == 0 {
				q = vlib.WithOddCase(r, q)
				ctx.R.Path("history-queries-with-odd-case-mappings", 1)
			}
			if (step == 1 || step == 3) && i%2 == 0 {
				// an entry is edited in place (same number of entries, nothing rebuilt by the caller) on all copies alike, then the
				// feature is tried on the third copy where no embedding files exist: that copy goes on answering exactly like the
				// copy on which the feature was never touched
				j := r.Intn(len(without.Commands))
				w := vlib.Word(r, words)
				for _, x := range []*database.Database{without, with, nofiles} {
					x.Commands[j].Description += " " + w
					x.Commands[j].Keywords = append(append([]string(nil), x.Commands[j].Keywords...), w)
				}
				os.Chdir(emptyDir)
				ctx.R.Guard("C19", "LoadEmbeddings(no files)", kind, func() {
					if step == 1 {
						nofiles.LoadEmbeddings()
						return
					}
					// ... through the caching wrapper around the copy (whatever LoadEmbeddings means there), whose result cache the
					// user has switched off: it stays off
					w := database.NewCachedDatabase(nofiles)
					w.EnableCache(false)
					w.LoadEmbeddings()
					ctx.R.Path("history-feature-tried-through-a-wrapper-with-the-cache-off", 1)
					if w.IsCacheEnabled() {
						ctx.R.Violate(vlib.Violation{Property: "C19", Clause: "inert-without-files", Path: "history/" + kind,
							Detail: "LoadEmbeddings where no embedding files exist, called through a caching wrapper whose cache was switched off, switched the cache on", Witness: trace})
					}
				})
				os.Chdir(origWD)
				trace = append(trace, fmt.Sprintf("entry %d edited in place (+%q), LoadEmbeddings where no files exist on the third copy", j, w))
				if nofiles.HasEmbeddings() {
					ctx.R.Violate(vlib.Violation{Property: "C19", Clause: "inert-without-files", Path: "history/" + kind, Detail: "an embedding index is attached although no embedding files exist", Witness: trace})
				}
				for _, qq := range []string{q, w, vlib.GenQuery(r, words, 2, 0)} {
					oo := database.SearchOptions{Limit: len(without.Commands) + 1, AllPlatforms: true, UseNLP: r.Intn(2) == 0}
					csn := map[string]interface{}{"history": append([]string(nil), trace...), "query": qq, "opts": vlib.OptsJ(oo), "n": len(without.Commands)}
					ctx.R.Begin(csn)
					ctx.R.Eval(1)
					ctx.R.Guard("C19", "SearchUniversal", csn, func() {
						a := vlib.Canon(without.Commands, without.SearchUniversal(qq, oo))
						c := vlib.Canon(nofiles.Commands, nofiles.SearchUniversal(qq, oo))
						ctx.R.Path("history-pairs-feature-tried-without-files", 1)
						if !vlib.Exact(a, c) {
							ctx.R.Violate(vlib.Violation{Property: "C19", Clause: "inert-without-files", Path: "history/" + kind,
								Detail:  fmt.Sprintf("after the same history, the copy on which LoadEmbeddings was called where no embedding files exist answers %q differently from the copy on which it was never called", qq),
								Witness: map[string]interface{}{"case": csn, "never_called": a, "called_without_files": c}})
						}
					})
				}
			}
			o := database.SearchOptions{Limit: len(with.Commands) + 1, AllPlatforms: true, UseNLP: r.Intn(3) > 0}
			cs := map[string]interface{}{"history": append([]string(nil), trace...), "query": q, "opts": vlib.OptsJ(o), "n": len(with.Commands)}
			ctx.R.Begin(cs)
			ctx.R.Eval(1)
			trace = append(trace, fmt.Sprintf("search(%q,nlp=%v)", q, o.UseNLP))
			ctx.R.Guard("C19", "SearchUniversal", cs, func() {
				a := vlib.Canon(without.Commands, without.SearchUniversal(q, o))
				b := vlib.Canon(with.Commands, with.SearchUniversal(q, o))
				sa, sb := map[int]float64{}, map[int]float64{}
				for _, x := range a {
					sa[x.Idx] = x.Score
				}
				for _, x := range b {
					sb[x.Idx] = x.Score
				}
				raised := false
				for idx, s0 := range sa {
					s1, okb := sb[idx]
					if !okb {
						ctx.R.Violate(vlib.Violation{Property: "C19", Clause: "candidates-changed", Path: "history/" + kind,
							Detail: fmt.Sprintf("entry %d is a candidate without embeddings but not with them", idx), Witness: cs})
						return
					}
					if s1 < s0*(1-1e-9) {
						ctx.R.Violate(vlib.Violation{Property: "C19", Clause: "score-lowered", Path: "history/" + kind,
							Detail: fmt.Sprintf("entry %d: %.9g without embeddings, %.9g with", idx, s0, s1), Witness: cs})
						return
					}
					if s1 > s0*(1+alpha)*(1+1e-9) {
						ctx.R.Violate(vlib.Violation{Property: "C19", Clause: "score-unbounded", Path: "history/" + kind,
							Detail: fmt.Sprintf("entry %d: %.9g without embeddings, %.9g with them: factor %.4f exceeds 1+%.2f", idx, s0, s1, s1/s0, alpha), Witness: cs})
						return
					}
					if s1 > s0*(1+1e-9) {
						raised = true
					}
				}
				if len(sb) != len(sa) {
					ctx.R.Violate(vlib.Violation{Property: "C19", Clause: "candidates-changed", Path: "history/" + kind,
						Detail: fmt.Sprintf("%d candidates without embeddings, %d with", len(sa), len(sb)), Witness: cs})
					return
				}
				for k := 1; k < len(b); k++ {
					if b[k-1].Score < b[k].Score {
						ctx.R.Violate(vlib.Violation{Property: "C19", Clause: "order", Path: "history/" + kind, Detail: "list with embeddings is not ordered", Witness: cs})
						return
					}
				}
				ctx.R.Path("history-pairs-"+kind, 1)
				if step > 2 {
					ctx.R.Path("history-pairs-after-growth", 1)
				}
				if raised {
					ctx.R.Path("history-pairs-raised", 1)
					ctx.R.Nontriv("embed-history", i, step, q)
				}
			})
		}
		if i < 2 {
			ctx.R.Sample(map[string]interface{}{"history": trace})
		}
		os.RemoveAll(dir)
		os.RemoveAll(emptyDir)
	}
}

package main

import (
	"fmt"
	"math/rand"
	"os"
	"os/exec"
	"path/filepath"
	"strings"
	"sync"
	"syscall"
	"time"
	"unicode/utf16"

	"github.com/Vedant9500/WTF/internal/database"
	"github.com/Vedant9500/WTF/internal/recovery"
	"github.com/Vedant9500/WTF/internal/zzverif/vlib"
)

func init() { engines["loadfaults"] = engineLoadFaults }

var c15Faults = []string{"valid", "valid-utf16", "valid-empty-list", "zero-bytes", "missing", "permission-denied", "is-a-directory", "dangling-symlink", "malformed-yaml", "wrong-shape", "binary-garbage",
	"symlink-loop", "unsearchable-parent"}

func c15Make(path, fault string, cmds []vlib.Cmd) {
	os.Chmod(path+".locked", 0o755)
	os.RemoveAll(path + ".locked")
	os.RemoveAll(path)
	switch fault {
	case "valid":
		vlib.WriteYAML(path, cmds)
	case "valid-utf16": // the same document as a Windows editor saves it when told "Unicode": UTF-16 with a byte-order mark
		tmp := path + ".utf8"
		vlib.WriteYAML(tmp, cmds)
		b, _ := os.ReadFile(tmp)
		os.Remove(tmp)
		out := []byte{0xff, 0xfe}
		for _, u := range utf16.Encode([]rune(string(b))) {
			out = append(out, byte(u), byte(u>>8))
		}
		os.WriteFile(path, out, 0o644)
	case "valid-empty-list":
		os.WriteFile(path, []byte("[]\n"), 0o644)
	case "zero-bytes":
		os.WriteFile(path, nil, 0o644)
	case "missing":
	case "permission-denied":
		vlib.WriteYAML(path, cmds)
		os.Chmod(path, 0)
	case "is-a-directory":
		os.MkdirAll(path, 0o755)
	case "dangling-symlink":
		os.Symlink(path+".nowhere", path)
	case "symlink-loop": // something is there, and it is broken (ELOOP)
		os.Symlink(filepath.Base(path), path)
	case "unsearchable-parent": // the file lives in a directory that may not be searched (EACCES)
		d := path + ".locked"
		os.MkdirAll(d, 0o755)
		vlib.WriteYAML(filepath.Join(d, "f.yml"), cmds)
		os.Chmod(d, 0)
		os.Symlink(filepath.Join(d, "f.yml"), path)
	case "malformed-yaml":
		os.WriteFile(path, []byte("- command: \"unterminated\n  description: x\n -bad indent: [\n"), 0o644)
	case "wrong-shape":
		os.WriteFile(path, []byte("command: x\ndescription: a mapping, not a list\n"), 0o644)
	case "binary-garbage":
		os.WriteFile(path, []byte{0x00, 0xff, 0xfe, 0x01, 0x80, 0x7f, 0x1b, 0x00, 0xc3, 0x28}, 0o644)
	}
}

func c15Loads(f string) bool {
	return f == "valid" || f == "valid-utf16" || f == "valid-empty-list" || f == "zero-bytes"
}

func c15Entries(f string, cmds []vlib.Cmd) []vlib.Cmd {
	if f == "valid" || f == "valid-utf16" {
		return cmds
	}
	return nil
}

func engineLoadFaults(ctx *Ctx) {
	// Permission faults need a non-root process (root ignores file modes): re-exec under setpriv.
	if os.Geteuid() == 0 && os.Getenv("WTFMON_C15_INNER") == "" {
		if sp, err := exec.LookPath("setpriv"); err == nil {
			os.Chmod(ctx.Scratch, 0o777)
			// make the report and log writable for the unprivileged child
			var outP, logP string
			for i, a := range os.Args {
				if a == "-out" && i+1 < len(os.Args) {
					outP = os.Args[i+1]
				}
				if a == "-log" && i+1 < len(os.Args) {
					logP = os.Args[i+1]
				}
			}
			for _, p := range []string{outP, logP, outP + ".tmp"} {
				if p != "" {
					f, _ := os.OpenFile(p, os.O_CREATE|os.O_WRONLY, 0o666)
					if f != nil {
						f.Close()
					}
					os.Chmod(p, 0o666)
				}
			}
			os.Chmod(filepath.Dir(outP), 0o777)
			self, _ := os.Executable()
			args := append([]string{sp, "--reuid", "65534", "--regid", "65534", "--clear-groups", self}, os.Args[1:]...)
			env := append(os.Environ(), "WTFMON_C15_INNER=1", "HOME="+ctx.Scratch)
			if err := syscall.Exec(sp, args, env); err != nil {
				ctx.R.Extra["setpriv_exec_failed"] = 1
			}
		} else {
			ctx.R.Extra["setpriv_missing"] = 1
		}
	}
	unprivileged := os.Geteuid() != 0
	r := vlib.NewRand(ctx.Seed, ctx.Shard, "loadfaults")
	mainCmds := vlib.StripCaches(vlib.GenCommands(r, vlib.DBSpec{N: 6}))
	persCmds := vlib.StripCaches(vlib.GenCommands(r, vlib.DBSpec{N: 3, PseudoCmd: true}))
	dir := filepath.Join(ctx.Scratch, "lf")
	os.MkdirAll(dir, 0o755)
	mainP, persP := filepath.Join(dir, "commands.yml"), filepath.Join(dir, "personal.yml")
	backupP := mainP + ".backup"

	type obsT struct {
		mu       sync.Mutex
		attempts []string
		delays   []time.Duration
		onAtt    func(n int)
	}
	var obs obsT
	recovery.VerifSetObserver(&recovery.VerifObserver{
		OnAttempt: func(n int, err error) {
			obs.mu.Lock()
			e := "ok"
			if err != nil {
				e = vlib.Trunc(err.Error(), 60)
			}
			obs.attempts = append(obs.attempts, e)
			f := obs.onAtt
			obs.mu.Unlock()
			if f != nil {
				f(n)
			}
		},
		OnDelay: func(d time.Duration) { obs.mu.Lock(); obs.delays = append(obs.delays, d); obs.mu.Unlock() },
	})

	cfgs := []recovery.RetryConfig{}
	for _, ma := range []int{0, 1, 2, 3, 5} {
		for _, bd := range []time.Duration{0, time.Microsecond, 200 * time.Microsecond} {
			for _, bf := range []float64{1, 1.5, 2, 10} {
				for _, md := range []time.Duration{0, 300 * time.Microsecond, 5 * time.Millisecond} {
					cfgs = append(cfgs, recovery.RetryConfig{MaxAttempts: ma, BaseDelay: bd, MaxDelay: md, BackoffFactor: bf})
				}
			}
		}
	}
	// steep / long back-off configurations: the product base*factor^(n-1) leaves the int64 range, yet every wait
	// must stay within [previous wait, MaxDelay]. MaxDelay is tiny so the run does not actually sleep.
	steep := []recovery.RetryConfig{
		{MaxAttempts: 9, BaseDelay: time.Millisecond, MaxDelay: 200 * time.Microsecond, BackoffFactor: 1000},
		{MaxAttempts: 12, BaseDelay: time.Second, MaxDelay: 100 * time.Microsecond, BackoffFactor: 1e6},
		{MaxAttempts: 45, BaseDelay: 100 * time.Millisecond, MaxDelay: 50 * time.Microsecond, BackoffFactor: 2},
		{MaxAttempts: 6, BaseDelay: time.Hour, MaxDelay: 0, BackoffFactor: 1e9},
		{MaxAttempts: 8, BaseDelay: 1, MaxDelay: 300 * time.Microsecond, BackoffFactor: 1e4},
		{MaxAttempts: 10, BaseDelay: time.Duration(1 << 62), MaxDelay: 10 * time.Microsecond, BackoffFactor: 3},
		// factors below one, zero and negative ones: "all retry configurations (attempts, base delay, factor, cap)" - the waits
		// must still never decrease
		{MaxAttempts: 5, BaseDelay: 200 * time.Microsecond, MaxDelay: 5 * time.Millisecond, BackoffFactor: 0.5},
		{MaxAttempts: 6, BaseDelay: 100 * time.Microsecond, MaxDelay: time.Millisecond, BackoffFactor: 0.9},
		{MaxAttempts: 4, BaseDelay: 300 * time.Microsecond, MaxDelay: 2 * time.Millisecond, BackoffFactor: 0},
		{MaxAttempts: 6, BaseDelay: 50 * time.Microsecond, MaxDelay: time.Millisecond, BackoffFactor: -2},
		{MaxAttempts: 5, BaseDelay: 100 * time.Microsecond, MaxDelay: 150 * time.Microsecond, BackoffFactor: 0.25},
	}
	caseNo := 0
	moveAt := 0 // > 0: at that attempt the fault moves from the main file to the notebook
	run := func(mf, pf, bf string, cfg recovery.RetryConfig, transientAt int) {
		caseNo++
		if caseNo%ctx.NShards != ctx.Shard {
			return
		}
		cs := map[string]interface{}{"main": mf, "personal": pf, "backup": bf, "config": fmt.Sprintf("%+v", cfg), "transient_repair_at_attempt": transientAt}
		ctx.R.Begin(cs)
		ctx.R.Eval(1)
		if (mf == "permission-denied" || pf == "permission-denied" || mf == "unsearchable-parent" || pf == "unsearchable-parent") && !unprivileged {
			ctx.R.Inconcl("permission faults need an unprivileged process")
			return
		}
		c15Make(mainP, mf, mainCmds)
		c15Make(persP, pf, persCmds)
		c15Make(backupP, bf, mainCmds[:2])
		obs.mu.Lock()
		obs.attempts, obs.delays = nil, nil
		obs.onAtt = nil
		if transientAt > 0 {
			obs.onAtt = func(n int) {
				if n == transientAt { // the fault goes away after attempt j
					c15Make(mainP, "valid", mainCmds)
					if pf != "missing" {
						c15Make(persP, "valid", persCmds)
					}
				}
			}
		}
		if moveAt > 0 {
			ctx.R.Path("loads-whose-fault-moves-to-the-other-file", 1)
			cs["fault_moves_to_the_notebook_at_attempt"] = moveAt
			obs.onAtt = func(n int) {
				if n == moveAt { // a sync tool rewrites both files while the load is retrying: the main file is whole again, the notebook is not
					c15Make(mainP, "valid", mainCmds)
					c15Make(persP, "malformed-yaml", persCmds)
				}
			}
		}
		obs.mu.Unlock()
		var db *database.Database
		var err error
		if !ctx.R.Guard("C15", "LoadDatabaseWithFallback", cs, func() {
			db, err = recovery.NewDatabaseRecovery(cfg).LoadDatabaseWithFallback(mainP, persP)
		}) {
			return
		}
		os.Chmod(mainP, 0o644)
		os.Chmod(persP, 0o644)
		obs.mu.Lock()
		attempts := append([]string(nil), obs.attempts...)
		delays := append([]time.Duration(nil), obs.delays...)
		obs.mu.Unlock()
		cs["attempts_observed"] = attempts
		cs["delays_observed"] = fmt.Sprint(delays)
		viol := func(clause, detail string) {
			ctx.R.Violate(vlib.Violation{Property: "C15", Clause: clause, Path: "LoadDatabaseWithFallback", Detail: detail, Witness: cs})
		}
		if err != nil {
			viol("returns-error", "loading for a search ended with an error: "+vlib.Trunc(err.Error(), 200))
			return
		}
		if db == nil {
			viol("nil-database", "nil database returned with nil error")
			return
		}
		// searchable
		okS := ctx.R.Guard("C15", "SearchUniversal(on returned database)", cs, func() {
			for _, q := range []string{"list directory contents", "zzqx", "copy files"} {
				rs := db.SearchUniversal(q, database.SearchOptions{Limit: 5, UseNLP: true, UseFuzzy: true, AllPlatforms: true})
				for _, is := range vlib.CheckInvariants(db.Commands, 5, rs) {
					viol("unsearchable:"+is.Clause, is.Detail)
				}
			}
		})
		if !okS {
			return
		}
		// which database?
		expectReal := false
		ambiguous := false
		if moveAt > 0 {
			ambiguous = true // (which database comes back is not what these cases are about: attempts and waits are)
		} else if transientAt > 0 {
			maxA := cfg.MaxAttempts
			expectReal = transientAt < maxA // repaired before the last permitted attempt
			if !expectReal {
				ambiguous = true
			}
		} else {
			pOK := c15Loads(pf) || pf == "missing"
			if pf == "dangling-symlink" {
				ambiguous = c15Loads(mf) // absent or broken: either reading is accepted
			}
			expectReal = c15Loads(mf) && pOK
			if cfg.MaxAttempts <= 0 {
				ambiguous = true // zero configured attempts: real database or fallback both accepted, but never nil/error
			}
		}
		want := append(append([]vlib.Cmd{}, c15Entries(mf, mainCmds)...), c15Entries(pf, persCmds)...)
		if transientAt > 0 {
			want = append(append([]vlib.Cmd{}, mainCmds...), c15Entries(map[bool]string{true: "missing", false: "valid"}[pf == "missing"], persCmds)...)
		}
		isReal := len(db.Commands) == len(want)
		for i := 0; isReal && i < len(want); i++ {
			isReal = db.Commands[i].Command == want[i].Command && db.Commands[i].Description == want[i].Description
		}
		if !ambiguous {
			if expectReal && !isReal {
				viol("real-database-not-returned", fmt.Sprintf("main (%s) and notebook (%s) are loadable/absent, yet the returned database has %d entries instead of main(%d)+notebook(%d) in order", mf, pf, len(db.Commands), len(c15Entries(mf, mainCmds)), len(c15Entries(pf, persCmds))))
			}
			if !expectReal && db.Size() == 0 {
				viol("empty-fallback", "the fallback database is empty")
			}
			// "built-in": the fallback may not be whatever happens to lie in <main>.backup
			if !expectReal && bf == "valid" && db.Size() == 2 && db.Commands[0].Command == mainCmds[0].Command && db.Commands[1].Command == mainCmds[1].Command {
				viol("fallback-not-built-in", "the returned database is the content of the .backup file, not a built-in fallback")
			}
		}
		if isReal && expectReal {
			ctx.R.Path("returned-real", 1)
		} else {
			ctx.R.Path("returned-fallback", 1)
		}
		// attempts
		n := len(attempts)
		maxA := cfg.MaxAttempts
		if maxA < 1 {
			maxA = 1
		}
		if n > maxA {
			viol("too-many-attempts", fmt.Sprintf("%d load attempts, configured maximum %d", n, cfg.MaxAttempts))
		}
		futile := transientAt == 0 && (mf == "missing" || mf == "permission-denied" || mf == "unsearchable-parent" ||
			(c15Loads(mf) && (pf == "permission-denied" || pf == "unsearchable-parent")))
		if futile && n > 1 {
			viol("futile-retry", fmt.Sprintf("a missing / permission-denied file (main: %s, personal: %s) was tried %d times", mf, pf, n))
		}
		if expectReal && !ambiguous && transientAt == 0 && cfg.MaxAttempts >= 1 && n != 1 {
			viol("retry-after-success", fmt.Sprintf("loadable files needed %d attempts", n))
		}
		if len(delays) > 0 && len(delays) > n-1 && n > 0 {
			viol("wait-after-last-attempt", fmt.Sprintf("%d waits for %d attempts", len(delays), n))
		}
		for i, d := range delays {
			if d > cfg.MaxDelay {
				viol("wait-exceeds-maximum", fmt.Sprintf("wait %d = %v exceeds the configured maximum %v", i+1, d, cfg.MaxDelay))
			}
			if i > 0 && d < delays[i-1] {
				viol("waits-decrease", fmt.Sprintf("wait %d = %v is shorter than wait %d = %v", i+1, d, i, delays[i-1]))
			}
			if d < 0 {
				viol("negative-wait", fmt.Sprintf("wait %d = %v", i+1, d))
			}
		}
		if n > 1 {
			ctx.R.Path("retried", 1)
		}
		if len(delays) > 1 {
			ctx.R.Path("multi-wait-sequences", 1)
		}
		ctx.R.Path("main:"+mf, 1)
		if mf == "permission-denied" || pf == "permission-denied" || mf == "unsearchable-parent" || pf == "unsearchable-parent" {
			ctx.R.Path("permission-faults-exercised", 1)
		}
		if transientAt > 0 {
			ctx.R.Path("transient", 1)
		}
		ctx.R.Nontriv(mf, pf, bf, fmt.Sprintf("%+v", cfg), transientAt)
		if caseNo%97 == 0 {
			ctx.R.Sample(cs)
		}
	}
	backups := []string{"missing", "valid", "malformed-yaml", "valid-empty-list", "zero-bytes"}
	k := 0
	for _, mf := range c15Faults {
		for _, pf := range c15Faults {
			for _, bf := range backups {
				nCfg := ctx.Pick(2, 6)
				for i := 0; i < nCfg; i++ {
					k++
					run(mf, pf, bf, cfgs[(k*7+i*31)%len(cfgs)], 0)
				}
			}
		}
	}
	// transient faults: fail on attempts 1..j, then succeed
	for _, mf := range []string{"malformed-yaml", "wrong-shape", "binary-garbage", "is-a-directory"} {
		for _, pf := range []string{"valid", "missing", "malformed-yaml"} {
			for j := 1; j <= 4; j++ {
				for _, ma := range []int{2, 3, 5} {
					run(mf, pf, "missing", recovery.RetryConfig{MaxAttempts: ma, BaseDelay: 50 * time.Microsecond, MaxDelay: time.Millisecond, BackoffFactor: 2}, j)
				}
			}
		}
	}
	// the fault moves: the main file fails for the first attempts, then it is whole and the notebook fails instead
	for _, mf := range []string{"malformed-yaml", "binary-garbage", "wrong-shape"} {
		for j := 1; j <= 4; j++ {
			for _, cfg := range []recovery.RetryConfig{{MaxAttempts: 6, BaseDelay: 50 * time.Microsecond, MaxDelay: 5 * time.Millisecond, BackoffFactor: 2},
				{MaxAttempts: 8, BaseDelay: 20 * time.Microsecond, MaxDelay: 2 * time.Millisecond, BackoffFactor: 1.5}, {MaxAttempts: 5, BaseDelay: 100 * time.Microsecond, MaxDelay: time.Second, BackoffFactor: 3}} {
				moveAt = j
				run(mf, "valid", "missing", cfg, 0)
				moveAt = 0
			}
		}
	}
	// the notebook path names the main file itself (wtf --database <notebook>; a dotfiles set-up that links one to the other): the same
	// path, another spelling of it, a hard link, a symbolic link. Both load, so the answer is the main entries followed by the
	// notebook entries - the same entries twice.
	for k, rel := range []string{"same-path", "dot-slash-spelling", "hard-link", "symbolic-link", "copy"} {
		caseNo++
		if caseNo%ctx.NShards != ctx.Shard {
			continue
		}
		c15Make(mainP, "valid", mainCmds)
		os.Remove(persP)
		pp := persP
		switch rel {
		case "same-path":
			pp = mainP
		case "dot-slash-spelling":
			pp = filepath.Join(filepath.Dir(mainP), ".", "sub", "..", filepath.Base(mainP))
			pp = filepath.Dir(mainP) + "/./" + filepath.Base(mainP)
		case "hard-link":
			os.Link(mainP, persP)
		case "symbolic-link":
			os.Symlink(mainP, persP)
		default:
			b, _ := os.ReadFile(mainP)
			os.WriteFile(persP, b, 0o644)
		}
		cs := map[string]interface{}{"main": "valid", "personal": "names the main file: " + rel, "k": k}
		ctx.R.Begin(cs)
		ctx.R.Eval(1)
		var db *database.Database
		var err error
		if ctx.R.Guard("C15", "LoadDatabaseWithFallback", cs, func() {
			db, err = recovery.NewDatabaseRecovery(recovery.RetryConfig{MaxAttempts: 2, BaseDelay: time.Microsecond, MaxDelay: time.Millisecond, BackoffFactor: 2}).LoadDatabaseWithFallback(mainP, pp)
		}) {
			n := -1
			if db != nil {
				n = len(db.Commands)
			}
			ok := err == nil && n == 2*len(mainCmds)
			for i := 0; ok && i < len(mainCmds); i++ {
				ok = db.Commands[i].Command == mainCmds[i].Command && db.Commands[len(mainCmds)+i].Command == mainCmds[i].Command
			}
			if !ok {
				ctx.R.Violate(vlib.Violation{Property: "C15", Clause: "real-database-not-returned", Path: "LoadDatabaseWithFallback",
					Detail: fmt.Sprintf("the main file (%d entries) loads and the notebook path (%s) names a file that loads with the same %d entries; the returned database has %d entries (error: %v), not main entries followed by notebook entries", len(mainCmds), rel, len(mainCmds), n, err), Witness: cs})
			}
			ctx.R.Path("notebook-paths-that-name-the-main-file", 1)
			ctx.R.Nontriv("same-file", rel)
		}
		os.Remove(persP)
	}
	for _, cfg := range steep {
		for _, mf := range []string{"malformed-yaml", "is-a-directory", "binary-garbage", "wrong-shape"} {
			run(mf, "valid", "missing", cfg, 0)
			ctx.R.Path("steep-backoff-configs", 1)
		}
		run("valid", "malformed-yaml", "missing", cfg, 0)
	}
	// configurations whose waits are really slept through and add up to a quarter of a minute (a minute and more in the thorough
	// tier): whatever a loader does about the time already spent shows only here. One per shard, on shards of their own.
	slow := []recovery.RetryConfig{
		{MaxAttempts: 4, BaseDelay: 4 * time.Second, MaxDelay: 5 * time.Second, BackoffFactor: 1.5},
		{MaxAttempts: 13, BaseDelay: time.Second, MaxDelay: time.Second, BackoffFactor: 1},
		{MaxAttempts: 4, BaseDelay: 2 * time.Second, MaxDelay: 8 * time.Second, BackoffFactor: 2},
		{MaxAttempts: 3, BaseDelay: 6 * time.Second, MaxDelay: 7 * time.Second, BackoffFactor: 1.1},
	}
	if ctx.Thorough {
		slow = append(slow, recovery.RetryConfig{MaxAttempts: 3, BaseDelay: 35 * time.Second, MaxDelay: 40 * time.Second, BackoffFactor: 1.1},
			recovery.RetryConfig{MaxAttempts: 8, BaseDelay: 10 * time.Second, MaxDelay: 10 * time.Second, BackoffFactor: 1},
			recovery.RetryConfig{MaxAttempts: 6, BaseDelay: time.Second, MaxDelay: 5 * time.Minute, BackoffFactor: 2.5})
	}
	for i, cfg := range slow {
		target := (3 + 2*i) % ctx.NShards
		for (caseNo+1)%ctx.NShards != target {
			caseNo++
		}
		if target == ctx.Shard {
			t0 := time.Now()
			run([]string{"malformed-yaml", "is-a-directory", "binary-garbage", "wrong-shape"}[i%4], "valid", "missing", cfg, 0)
			ctx.R.Path("slept-through-configs", 1)
			ctx.R.Path("seconds-slept-through", int64(time.Since(t0)/time.Second))
		} else {
			caseNo++
		}
	}
	// the default configuration (100 ms base delay) on a few combinations
	for i, c := range [][2]string{{"missing", "missing"}, {"valid", "missing"}, {"valid", "valid"}, {"malformed-yaml", "valid"}, {"permission-denied", "valid"}, {"valid", "permission-denied"},
		{"is-a-directory", "missing"}, {"valid", "malformed-yaml"}, {"dangling-symlink", "valid"}, {"binary-garbage", "missing"}} {
		_ = i
		run(c[0], c[1], "missing", recovery.DefaultRetryConfig(), 0)
	}
	if unprivileged {
		ctx.R.Extra["ran_unprivileged_shards"] = 1
	}
	c15SizesAndSpellings(ctx, r, dir, &caseNo)
	c15FallbackIsolation(ctx, r, dir, &caseNo)
}

// c15FallbackIsolation: the database a load returns belongs to the caller. Whatever the caller does with it - replace its
// commands through the caching wrapper, edit or append entries, empty it - a later load that falls back gets the pristine
// non-empty built-in database again.
func c15FallbackIsolation(ctx *Ctx, r *rand.Rand, dir string, caseNo *int) {
	cfg := recovery.RetryConfig{MaxAttempts: 1, BaseDelay: time.Microsecond, MaxDelay: time.Microsecond, BackoffFactor: 1}
	missing := filepath.Join(dir, "nowhere", "commands.yml")
	load := func() *database.Database {
		db, err := recovery.NewDatabaseRecovery(cfg).LoadDatabaseWithFallback(missing, missing+".personal")
		if err != nil {
			return nil
		}
		return db
	}
	type ent struct{ c, d string }
	snap := func(db *database.Database) []ent {
		var out []ent
		for _, c := range db.Commands {
			out = append(out, ent{c.Command, c.Description})
		}
		return out
	}
	muts := []string{"UpdateDatabase(nil)", "UpdateDatabase(other list)", "edit an entry in place", "append an entry", "Commands = nil", "truncate to one entry", "search only"}
	for mi, mut := range muts {
		*caseNo++
		if *caseNo%ctx.NShards != ctx.Shard {
			continue
		}
		cs := map[string]interface{}{"class": "fallback-after-the-caller-changed-an-earlier-result", "change": mut}
		ctx.R.Begin(cs)
		ctx.R.Eval(1)
		ctx.R.Guard("C15", "LoadDatabaseWithFallback", cs, func() {
			first := load()
			if first == nil || len(first.Commands) == 0 {
				ctx.R.Violate(vlib.Violation{Property: "C15", Clause: "empty-fallback", Path: "LoadDatabaseWithFallback", Detail: "the fallback database is empty or missing", Witness: cs})
				return
			}
			pristine := snap(first)
			switch mi {
			case 0:
				database.NewCachedDatabase(first).UpdateDatabase(nil)
			case 1:
				database.NewCachedDatabase(first).UpdateDatabase(vlib.MustLoad(vlib.GenCommands(r, vlib.DBSpec{N: 3})).Commands)
			case 2:
				first.Commands[0].Command, first.Commands[0].Description = "edited by the caller", "x"
			case 3:
				first.Commands = append(first.Commands, database.Command{Command: "appended by the caller", Description: "x"})
			case 4:
				first.Commands = nil
			case 5:
				first.Commands = first.Commands[:1]
			default:
				first.SearchUniversal("list files", database.SearchOptions{Limit: 3, UseNLP: true, UseFuzzy: true})
			}
			second := load()
			ctx.R.Path("fallback-isolation-cases", 1)
			ctx.R.Nontriv("fallback-isolation", mut)
			if second == nil || len(second.Commands) == 0 {
				ctx.R.Violate(vlib.Violation{Property: "C15", Clause: "empty-fallback", Path: "LoadDatabaseWithFallback/second-load",
					Detail: fmt.Sprintf("after the caller of an earlier load did %q to the database it got, the next load that falls back returns an empty database", mut), Witness: cs})
				return
			}
			got := snap(second)
			same := len(got) == len(pristine)
			for i := 0; same && i < len(got); i++ {
				same = got[i] == pristine[i]
			}
			if !same {
				ctx.R.Violate(vlib.Violation{Property: "C15", Clause: "fallback-not-built-in", Path: "LoadDatabaseWithFallback/second-load",
					Detail:  fmt.Sprintf("after the caller of an earlier load did %q to the database it got, the next fallback has %d entries (first %s) instead of the %d built-in ones", mut, len(got), vlib.Q(got[0].c), len(pristine)),
					Witness: cs})
				return
			}
			// and it is searchable
			for _, is := range vlib.CheckInvariants(second.Commands, 5, second.SearchUniversal("list files", database.SearchOptions{Limit: 5, AllPlatforms: true})) {
				ctx.R.Violate(vlib.Violation{Property: "C15", Clause: "unsearchable:" + is.Clause, Path: "LoadDatabaseWithFallback/second-load", Detail: is.Detail, Witness: cs})
			}
		})
	}
}

// c15SizesAndSpellings: loadable files must give the real database whatever their size (around 1, 4, 8, 16 MiB and more) and
// however the path to them is spelt (./, //, a/../, through a symbolic link to a directory and back up with .. - where
// the operating system resolves .. after following the link, so the file meant is not the one a lexical clean-up names).
func c15SizesAndSpellings(ctx *Ctx, r *rand.Rand, dir string, caseNo *int) {
	cfg := recovery.RetryConfig{MaxAttempts: 2, BaseDelay: 10 * time.Microsecond, MaxDelay: 100 * time.Microsecond, BackoffFactor: 2}
	mine := func() bool { *caseNo++; return *caseNo%ctx.NShards == ctx.Shard }
	check := func(cs map[string]interface{}, mainPath, persPath string, want []vlib.Cmd, class string) {
		ctx.R.Begin(cs)
		ctx.R.Eval(1)
		var db *database.Database
		var err error
		if !ctx.R.Guard("C15", "LoadDatabaseWithFallback", cs, func() { db, err = recovery.NewDatabaseRecovery(cfg).LoadDatabaseWithFallback(mainPath, persPath) }) {
			return
		}
		ctx.R.Path(class, 1)
		ctx.R.Nontriv(class, fmt.Sprint(cs))
		if err != nil || db == nil {
			ctx.R.Violate(vlib.Violation{Property: "C15", Clause: "returns-error", Path: "LoadDatabaseWithFallback", Detail: fmt.Sprintf("loading for a search ended with %v", err), Witness: cs})
			return
		}
		ok := len(db.Commands) == len(want)
		for i := 0; ok && i < len(want); i++ {
			ok = db.Commands[i].Command == want[i].Command && db.Commands[i].Description == want[i].Description
		}
		if !ok {
			first := ""
			if len(db.Commands) > 0 {
				first = db.Commands[0].Command
			}
			ctx.R.Violate(vlib.Violation{Property: "C15", Clause: "real-database-not-returned", Path: "LoadDatabaseWithFallback/" + class,
				Detail:  fmt.Sprintf("main and notebook are loadable, yet the returned database has %d entries (first %s) instead of the %d entries of main followed by notebook", len(db.Commands), vlib.Q(vlib.Trunc(first, 40)), len(want)),
				Witness: cs})
		}
	}
	// ---- sizes
	sizes := []int{1 << 20, 4 << 20, 8 << 20, 16 << 20}
	if ctx.Thorough {
		sizes = append(sizes, 32<<20, 64<<20)
	}
	small := vlib.StripCaches(vlib.GenCommands(r, vlib.DBSpec{N: 4, PseudoCmd: true}))
	for _, sz := range sizes {
		for _, where := range []string{"main", "notebook"} {
			for _, delta := range []int{-4096, 4096} {
				if !mine() {
					continue
				}
				// entries with long descriptions: the file is large, the number of entries moderate
				n := 400
				per := (sz + delta) / n
				big := make([]vlib.Cmd, n)
				for i := range big {
					big[i] = vlib.Cmd{Command: fmt.Sprintf("bigtool%d --run", i), Description: strings.Repeat(fmt.Sprintf("w%d lorem ipsum dolor ", i%7), per/20), Keywords: []string{"big"}}
				}
				mp, pp := filepath.Join(dir, "size-main.yml"), filepath.Join(dir, "size-pers.yml")
				var want []vlib.Cmd
				if where == "main" {
					vlib.WriteYAML(mp, big)
					vlib.WriteYAML(pp, small)
					want = append(append([]vlib.Cmd{}, big...), small...)
				} else {
					vlib.WriteYAML(mp, small)
					vlib.WriteYAML(pp, big)
					want = append(append([]vlib.Cmd{}, small...), big...)
				}
				fi, _ := os.Stat(map[string]string{"main": mp, "notebook": pp}[where])
				var flen int64
				if fi != nil {
					flen = fi.Size()
				}
				check(map[string]interface{}{"class": "large-file", "which": where, "file_bytes": flen, "entries": n}, mp, pp, want, "large-files")
				if flen > 8<<20 {
					ctx.R.Path("large-files-over-8MiB", 1)
				}
				os.Remove(mp)
				os.Remove(pp)
			}
		}
	}
	// ---- spellings
	realDir := filepath.Join(dir, "store", "deep")
	os.MkdirAll(realDir, 0o755)
	os.MkdirAll(filepath.Join(dir, "store", "sub"), 0o755)
	os.MkdirAll(filepath.Join(dir, "entry"), 0o755)
	os.Remove(filepath.Join(dir, "entry", "link"))
	os.Symlink(realDir, filepath.Join(dir, "entry", "link")) // entry/link -> store/deep ; entry/link/.. is store/
	realMain := vlib.StripCaches(vlib.GenCommands(r, vlib.DBSpec{N: 5, PseudoCmd: true}))
	realPers := vlib.StripCaches(vlib.GenCommands(r, vlib.DBSpec{N: 2, PseudoCmd: true}))
	decoy := vlib.StripCaches(vlib.GenCommands(r, vlib.DBSpec{N: 3}))
	vlib.WriteYAML(filepath.Join(dir, "store", "commands.yml"), realMain)
	vlib.WriteYAML(filepath.Join(dir, "store", "personal.yml"), realPers)
	both := append(append([]vlib.Cmd{}, realMain...), realPers...)
	for _, withDecoy := range []bool{false, true} {
		if withDecoy { // a different database where a lexical clean-up of entry/link/../commands.yml points
			vlib.WriteYAML(filepath.Join(dir, "entry", "commands.yml"), decoy)
		}
		spell := map[string]string{
			"plain":               filepath.Join(dir, "store") + "/commands.yml",
			"dot":                 filepath.Join(dir, "store") + "/./commands.yml",
			"double-slash":        filepath.Join(dir, "store") + "//commands.yml",
			"down-and-up":         filepath.Join(dir, "store") + "/sub/../commands.yml",
			"symlink-then-dotdot": filepath.Join(dir, "entry") + "/link/../commands.yml",
			"symlink-deep-dotdot": filepath.Join(dir, "entry") + "/link/./../commands.yml",
		}
		names := []string{"plain", "dot", "double-slash", "down-and-up", "symlink-then-dotdot", "symlink-deep-dotdot"}
		for _, nm := range names {
			for _, persSame := range []bool{false, true} {
				if !mine() {
					continue
				}
				mp := spell[nm]
				pp := filepath.Join(dir, "store", "personal.yml")
				if persSame {
					pp = strings.Replace(mp, "commands.yml", "personal.yml", 1)
				}
				check(map[string]interface{}{"class": "path-spelling", "spelling": nm, "main_path": mp, "personal_path": pp, "decoy_at_lexical_location": withDecoy}, mp, pp, both, "path-spellings")
				if strings.HasPrefix(nm, "symlink") {
					ctx.R.Path("path-spellings-through-symlink", 1)
				}
			}
		}
	}
	os.RemoveAll(filepath.Join(dir, "store"))
	os.RemoveAll(filepath.Join(dir, "entry"))

	// ---- permission bits of loadable files: whatever the mode says about other users, a file this user can read loads
	for _, mode := range []os.FileMode{0o666, 0o777, 0o606, 0o660, 0o664, 0o644, 0o444, 0o400, 0o604, 0o755, 0o600} {
		for _, which := range []string{"main", "notebook", "both"} {
			if !mine() {
				continue
			}
			mp, pp := filepath.Join(dir, "mode-main.yml"), filepath.Join(dir, "mode-pers.yml")
			os.Remove(mp)
			os.Remove(pp)
			vlib.WriteYAML(mp, realMain)
			vlib.WriteYAML(pp, realPers)
			if which != "notebook" {
				os.Chmod(mp, mode)
			}
			if which != "main" {
				os.Chmod(pp, mode)
			}
			check(map[string]interface{}{"class": "file-mode", "mode": fmt.Sprintf("%04o", mode), "applied_to": which}, mp, pp, both, "file-modes")
			os.Chmod(mp, 0o644)
			os.Chmod(pp, 0o644)
			os.Remove(mp)
			os.Remove(pp)
		}
	}

	// ---- the file is replaced between two loads of one process by content of the same length, its modification time kept
	// (cp -p, rsync -t, a restore): the second load gives the new content - or, when that does not decode, the fallback
	for k := 0; k < 6; k++ {
		if !mine() {
			continue
		}
		mp, pp := filepath.Join(dir, "repl-main.yml"), filepath.Join(dir, "repl-pers.yml")
		a := vlib.StripCaches(vlib.GenCommands(r, vlib.DBSpec{N: 5, PseudoCmd: true}))
		b := append([]vlib.Cmd(nil), a...)
		for i := range b { // same length, other words
			b[i].Description = strings.Map(func(c rune) rune {
				if c >= 'a' && c < 'z' {
					return c + 1
				}
				return c
			}, b[i].Description)
			b[i].Command = "z" + b[i].Command[1:]
		}
		target, other := mp, pp
		if k%2 == 1 {
			target, other = pp, mp
		}
		vlib.WriteYAML(target, a)
		vlib.WriteYAML(other, realPers)
		st, _ := os.Stat(target)
		cfg1 := recovery.RetryConfig{MaxAttempts: 1}
		if _, err := recovery.NewDatabaseRecovery(cfg1).LoadDatabaseWithFallback(mp, pp); err != nil {
			continue
		}
		broken := k >= 4
		if broken {
			raw, _ := os.ReadFile(target)
			copy(raw, []byte("{{{{ not yaml any more"))
			os.WriteFile(target, raw, 0o644)
		} else {
			vlib.WriteYAML(target, b)
		}
		if st2, _ := os.Stat(target); st != nil && st2 != nil && st2.Size() == st.Size() {
			os.Chtimes(target, st.ModTime(), st.ModTime())
			ctx.R.Path("same-size-same-mtime-replacements", 1)
		}
		var want []vlib.Cmd
		switch {
		case k%2 == 0:
			want = append(append([]vlib.Cmd{}, b...), realPers...)
		default:
			want = append(append([]vlib.Cmd{}, realPers...), b...)
		}
		cs := map[string]interface{}{"class": "replaced-between-two-loads", "replaced": map[bool]string{true: "notebook", false: "main"}[k%2 == 1], "new_content_decodes": !broken}
		if broken {
			ctx.R.Begin(cs)
			ctx.R.Eval(1)
			ctx.R.Guard("C15", "LoadDatabaseWithFallback", cs, func() {
				db, err := recovery.NewDatabaseRecovery(cfg1).LoadDatabaseWithFallback(mp, pp)
				stale := db != nil && len(db.Commands) == len(a)+len(realPers)
				if err != nil || db == nil || stale {
					ctx.R.Violate(vlib.Violation{Property: "C15", Clause: "fallback-not-built-in", Path: "LoadDatabaseWithFallback/replaced-between-two-loads",
						Detail: fmt.Sprintf("a file that no longer decodes (same size and modification time as before) gave error %v / the entries it held at the previous load (%v)", err, stale), Witness: cs})
				}
			})
		} else {
			check(cs, mp, pp, want, "replaced-between-two-loads")
		}
		os.Remove(mp)
		os.Remove(pp)
	}
}

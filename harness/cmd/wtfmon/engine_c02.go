package main

import (
	"encoding/json"
	"fmt"
	"os"
	"os/exec"
	"path/filepath"
	"reflect"
	"runtime"
	"strings"
	"sync"
	"sync/atomic"
	"time"

	"github.com/Vedant9500/WTF/internal/database"
	"github.com/Vedant9500/WTF/internal/recovery"
	"github.com/Vedant9500/WTF/internal/zzverif/vlib"
)

func init() {
	engines["determinism"] = engineDeterminism
	helpers["detsearch"] = helperDetSearch
}

type c02Job struct {
	DBPath string `json:"db"`
	Kind   string `json:"kind"` // file | literal | fallback
	Cases  []c02Q `json:"cases"`
}

// c02Open obtains the database the way the job says: through the loader, as a struct literal holding the loaded
// entries (no re-ranker, index built lazily), or as the built-in fallback of a failed load.
func c02Open(path, kind string) (*database.Database, error) {
	switch kind {
	case "fallback":
		return recovery.NewDatabaseRecovery(recovery.RetryConfig{MaxAttempts: 1}).LoadDatabaseWithFallback(path+".does-not-exist", path+".no-notebook")
	case "refreshed": // loaded, then refreshed through the caching wrapper with a freshly loaded, textually identical list
		db, err := database.LoadDatabase(path)
		if err != nil {
			return nil, err
		}
		again, err := database.LoadDatabase(path)
		if err != nil {
			return nil, err
		}
		db.SearchUniversal("warm up", database.SearchOptions{UseNLP: true})
		if len(again.Commands) > 0 {
			database.NewCachedDatabase(db).UpdateDatabase(again.Commands)
		}
		return db, nil
	case "plain-literal": // assembled in code from plain entries (what a YAML file holds, nothing the loader prepared)
		l, err := database.LoadDatabase(path)
		if err != nil {
			return nil, err
		}
		return &database.Database{Commands: vlib.StripCaches(l.Commands)}, nil
	case "replaced": // a long-lived object that held other content of the same size, answered suggestions and searches, and was then
		// given this content through the caching wrapper
		db, err := database.LoadDatabase(path + ".other.yml")
		if err != nil {
			return nil, err
		}
		now, err := database.LoadDatabase(path)
		if err != nil {
			return nil, err
		}
		for _, w := range []string{"lst", "comit", "zz"} {
			db.GetSuggestions(w, 5)
		}
		db.SearchUniversal("warm up", database.SearchOptions{UseNLP: true})
		database.NewCachedDatabase(db).UpdateDatabase(now.Commands)
		return db, nil
	case "notebook": // main file plus the personal notebook beside it (which repeats some of the main entries)
		return database.LoadDatabaseWithPersonal(path, path+".personal.yml")
	case "literal":
		l, err := database.LoadDatabase(path)
		if err != nil {
			return nil, err
		}
		return &database.Database{Commands: l.Commands}, nil
	default:
		return database.LoadDatabase(path)
	}
}

type c02Q struct {
	Query string       `json:"query"`
	Opts  vlib.OptJSON `json:"opts"`
	SQ    string       `json:"sq"` // query used for GetSuggestions (a misspelt word)
}

type c02Ans struct {
	Ranked vlib.Ranked `json:"r"`
	Sugg   []string    `json:"s"`
}

// helperDetSearch: wtfmon detsearch <job.json> -> prints one JSON line with
// the answers of a fresh process.
func helperDetSearch(args []string) int {
	b, err := os.ReadFile(args[0])
	if err != nil {
		fmt.Fprintln(os.Stderr, err)
		return 2
	}
	var job c02Job
	if err := json.Unmarshal(b, &job); err != nil {
		fmt.Fprintln(os.Stderr, err)
		return 2
	}
	db, err := c02Open(job.DBPath, job.Kind)
	if err != nil {
		fmt.Fprintln(os.Stderr, err)
		return 2
	}
	out := make([]c02Ans, len(job.Cases))
	for i, c := range job.Cases {
		out[i].Ranked = vlib.Canon(db.Commands, db.SearchUniversal(c.Query, c.Opts.Opts()))
		out[i].Sugg = db.GetSuggestions(c.SQ, 5)
	}
	enc, _ := json.Marshal(out)
	os.Stdout.Write(append(enc, '\n'))
	return 0
}

func engineDeterminism(ctx *Ctx) {
	r := vlib.NewRand(ctx.Seed, ctx.Shard, "determinism")
	nDB := ctx.N(96, 960)
	nQ := ctx.Pick(20, 24)
	reps := ctx.Pick(10, 30)
	loads := ctx.Pick(3, 5)
	procs := ctx.Pick(3, 5)
	self, _ := os.Executable()
	for d := 0; d < nDB; d++ {
		sp := dbSpecFor(r, d+ctx.Shard)
		sp.TieHeavy = d%4 != 3
		if sp.N < 2 {
			sp.N = 6
		}
		switch ctx.G(d) % 24 { // sizes of real deployments (the shipped database has 6.6k entries): scoring may be organised differently above some size
		case 5:
			sp.N, sp.TieHeavy = 2049+r.Intn(700), true
			ctx.R.Path("db-over-2048", 1)
		case 13:
			sp.N, sp.TieHeavy = 4097+r.Intn(900), true
			ctx.R.Path("db-over-4096", 1)
		case 21:
			sp.N, sp.TieHeavy = 513+r.Intn(600), true
			ctx.R.Path("db-over-512", 1)
		}
		var dbp string
		var cmds []vlib.Cmd
		dbName := fmt.Sprintf("gen-%d-%d", ctx.Shard, d)
		if d == 0 && ctx.Shard%4 == 1 {
			dbp = ctx.ShippedPath()
			dbName = "shipped"
		} else {
			cmds = vlib.GenCommands(r, sp)
			if ctx.G(d)%96 == 23 {
				// a vocabulary of more than a hundred thousand distinct words (a large team database): whatever the suggestion
				// code does differently for a large word set is reached only here
				cmds = cmds[:0]
				for i := 0; i < 21000+r.Intn(2000); i++ {
					var ws []string
					for k := 0; k < 5; k++ {
						ws = append(ws, fmt.Sprintf("%s%d%c", vlib.RandWord(r), i, 'a'+rune(k)))
					}
					cmds = append(cmds, vlib.Cmd{Command: ws[0] + " --run", Description: strings.Join(ws[1:], " "), Keywords: []string{"bulk"}})
				}
				ctx.R.Path("db-huge-vocabulary", 1)
			}
			dbp = filepath.Join(ctx.Scratch, fmt.Sprintf("det%d.yml", d))
			if err := vlib.WriteYAML(dbp, cmds); err != nil {
				panic(err)
			}
		}
		kind := "file"
		if dbName != "shipped" {
			kind = []string{"file", "notebook", "refreshed", "literal", "fallback", "file"}[d%6]
			switch ctx.G(d) % 5 {
			case 2:
				kind = "notebook"
			case 3:
				kind = "plain-literal"
			case 4:
				kind = "replaced"
			}
			if len(cmds) > 2500 {
				kind = "file"
			}
		}
		if kind == "replaced" {
			other := vlib.GenCommands(r, sp)
			for len(other) < len(cmds) {
				other = append(other, other[r.Intn(len(other))])
			}
			if err := vlib.WriteYAML(dbp+".other.yml", vlib.StripCaches(other[:len(cmds)])); err != nil {
				panic(err)
			}
			defer os.Remove(dbp + ".other.yml")
		}
		if kind == "notebook" {
			// a notebook that repeats entries of the main file word for word (saved from a search result) and adds its own
			var pers []vlib.Cmd
			for i := 0; i < 1+r.Intn(4) && len(cmds) > 0; i++ {
				pers = append(pers, cmds[r.Intn(len(cmds))])
			}
			pers = append(pers, vlib.GenCommands(r, vlib.DBSpec{N: 1 + r.Intn(4), TieHeavy: true})...)
			if r.Intn(2) == 0 && len(pers) > 1 {
				pers = append(pers, pers[0]) // and one of its own twice
			}
			if err := vlib.WriteYAML(dbp+".personal.yml", vlib.StripCaches(pers)); err != nil {
				panic(err)
			}
			defer os.Remove(dbp + ".personal.yml")
		}
		dbName += "/" + kind
		var db *database.Database
		if !ctx.R.Guard("C02", "open database ("+kind+")", dbName, func() {
			var err error
			db, err = c02Open(dbp, kind)
			if err != nil {
				panic(err)
			}
		}) {
			continue
		}
		ctx.R.Path("db-kind-"+kind, 1)
		N := len(db.Commands)
		words := vlib.DBWords(db.Commands)
		if len(words) > 2000 {
			words = words[:2000]
		}
		otherKind := kind
		if kind == "replaced" {
			otherKind = "file" // ... must answer like a plain load of the content it holds now
		}
		if kind == "refreshed" {
			otherKind = "file" // a refreshed database holds the same content as a plainly loaded one: the answers must agree
		}
		job := c02Job{DBPath: dbp, Kind: otherKind}
		nQd := nQ
		reps, loads, procs := reps, loads, procs
		if N > 15000 {
			nQd, reps, loads, procs = 4, 4, 1, 1
		} else if N > 2000 {
			nQd, reps, loads, procs = 12, 6, 2, 2
		}
		for qi := 0; qi < nQd; qi++ {
			q := vlib.GenQuery(r, words, 1+r.Intn(4), []int{0, 0, 1, 2}[r.Intn(4)])
			if strings.HasPrefix(dbName, "shipped") && qi == 0 {
				q = "disk usage"
			}
			if qi%4 == 3 && N > 0 { // long query sharing many terms with one (short) entry: the re-ranker's dot products have many addends
				c := db.Commands[r.Intn(N)]
				toks := vlib.Tokenize(c.Command + " " + c.Description + " " + strings.Join(c.Keywords, " "))
				q = strings.Join(toks, " ") + " " + vlib.GenQuery(r, words, 3+r.Intn(8), 0)
				ctx.R.Path("long-queries", 1)
			}
			o := vlib.RandomOptions(r, N, words)
			o.AllPlatforms = r.Intn(3) > 0
			if r.Intn(3) > 0 {
				o.Limit = []int{1, 2, 3, 5}[r.Intn(4)]
			}
			if qi%4 == 3 {
				o.UseNLP = true
			}
			if qi%5 == 1 { // boost keys that differ only in case / surrounding blanks, with different factors
				if toks := vlib.Tokenize(q); len(toks) > 0 {
					w := toks[r.Intn(len(toks))]
					o.ContextBoosts = map[string]float64{w: 1.5, strings.ToUpper(w): 4, strings.ToUpper(w[:1]) + w[1:]: 9, w + " ": 2.5, " " + w: 6}
					ctx.R.Path("colliding-boost-keys", 1)
				}
			}
			sq := q
			if len(words) > 0 {
				sq = vlib.Misspell(r, words[r.Intn(len(words))])
				if r.Intn(3) == 0 && len(sq) > 3 {
					sq = sq[:3]
				}
			}
			job.Cases = append(job.Cases, c02Q{q, vlib.OptsJ(o), sq})
		}
		// fresh loads of the same file
		fresh := []*database.Database{}
		for i := 0; i < loads; i++ {
			f, err := c02Open(dbp, otherKind)
			if err == nil {
				fresh = append(fresh, f)
			}
		}
		// child processes
		jobp := filepath.Join(ctx.Scratch, fmt.Sprintf("detjob%d.json", d))
		jb, _ := json.Marshal(job)
		os.WriteFile(jobp, jb, 0o644)
		procAns := [][]c02Ans{}
		for i := 0; i < procs; i++ {
			out, err := exec.Command(self, "detsearch", jobp).Output()
			if err != nil {
				ctx.R.Inconcl("child process failed: " + err.Error())
				continue
			}
			var a []c02Ans
			if json.Unmarshal(out, &a) == nil && len(a) == len(job.Cases) {
				procAns = append(procAns, a)
			}
		}
		starved := 0
		for ci, c := range job.Cases {
			o := c.Opts.Opts()
			cs := map[string]interface{}{"db": dbName, "n": N, "query": c.Query, "opts": c.Opts, "suggestion_query": c.SQ}
			ctx.R.Begin(cs)
			ctx.R.Eval(1)
			var first vlib.Ranked
			distinct := map[string]bool{}
			ok := ctx.R.Guard("C02", "SearchUniversal", cs, func() {
				full := o
				full.Limit = N + 1
				fa := vlib.Canon(db.Commands, db.SearchUniversal(c.Query, full))
				L := vlib.LimitInForce(o.Limit)
				anyTie, straddle := vlib.HasTieGroup(fa, L)
				if anyTie || straddle {
					ctx.R.Nontriv(dbName, c.Query, fmt.Sprintf("%+v", c.Opts))
					ctx.R.Path("nontrivial-tie", 1)
					if straddle {
						ctx.R.Path("tie-straddles-limit", 1)
					}
				}
				for i := 0; i < reps; i++ {
					a := vlib.Canon(db.Commands, db.SearchUniversal(c.Query, o))
					distinct[fmt.Sprint(a)] = true
					if i == 0 {
						first = a
					} else if !vlib.Exact(first, a) {
						ctx.R.Violate(vlib.Violation{Property: "C02", Clause: "repeat-call", Path: "SearchUniversal",
							Detail:  fmt.Sprintf("call 1 and call %d on one loaded instance differ", i+1),
							Witness: map[string]interface{}{"case": cs, "a": first, "b": a}})
						break
					}
				}
				if N > 2000 && starved < 3 && (ci%4 == 3 || N > 15000) {
					// the same call while the process is starved of processor time (one processor, two dozen busy goroutines: the search is
					// preempted and waits a quarter of a second each time): how long a search takes is not part of the request
					starved++
					t0 := time.Now()
					a := first
					slow := 0
					c02Starved(func() {
						// repeated until the starved process has spent a second and a half on it: the preemptions (one per 10 ms of
						// its own processor time, each followed by a quarter of a second of waiting) fall anywhere inside a search
						for k := 0; k < 400 && time.Since(t0) < 1500*time.Millisecond; k++ {
							t1 := time.Now()
							x := vlib.Canon(db.Commands, db.SearchUniversal(c.Query, o))
							ctx.R.Path("calls-under-a-starved-scheduler", 1)
							if time.Since(t1) > 200*time.Millisecond {
								slow++
							}
							if !vlib.Exact(first, x) {
								a = x
								break
							}
						}
					})
					ctx.R.Path("calls-under-a-starved-scheduler-that-took-over-200ms", int64(slow))
					if !vlib.Exact(first, a) {
						ctx.R.Violate(vlib.Violation{Property: "C02", Clause: "repeat-call", Path: "SearchUniversal/starved-scheduler",
							Detail:  fmt.Sprintf("the call repeated while the process was starved of processor time (it took %v) differs from the call on the idle process", time.Since(t0).Round(time.Millisecond)),
							Witness: map[string]interface{}{"case": cs, "a": first, "b": a}})
					}
				}
			})
			if !ok {
				continue
			}
			if len(first) > 0 {
				ctx.R.Path("nonempty", 1)
			}
			for fi, f := range fresh {
				ctx.R.Guard("C02", "SearchUniversal", cs, func() {
					a := vlib.Canon(f.Commands, f.SearchUniversal(c.Query, o))
					distinct[fmt.Sprint(a)] = true
					if !vlib.Exact(first, a) {
						ctx.R.Violate(vlib.Violation{Property: "C02", Clause: "reload", Path: "SearchUniversal",
							Detail:  fmt.Sprintf("answer on independently loaded copy %d differs", fi+1),
							Witness: map[string]interface{}{"case": cs, "a": first, "b": a}})
					}
				})
			}
			for pi, pa := range procAns {
				a := pa[ci].Ranked
				distinct[fmt.Sprint(a)] = true
				if !vlib.Exact(first, a) {
					ctx.R.Violate(vlib.Violation{Property: "C02", Clause: "process", Path: "SearchUniversal",
						Detail:  fmt.Sprintf("answer of separate process %d differs", pi+1),
						Witness: map[string]interface{}{"case": cs, "a": first, "b": a}})
				}
			}
			if len(distinct) > 1 {
				ctx.R.Path("cases-with-multiple-answers", 1)
			}
			// the other public search entry points (the similarity search and the pipeline search behind `wtf pipeline`)
			for _, ep := range []struct {
				name string
				f    func(*database.Database) []database.SearchResult
			}{
				{"SearchWithNLP", func(x *database.Database) []database.SearchResult { return x.SearchWithNLP(c.Query, o) }},
				{"SearchWithPipelineOptions", func(x *database.Database) []database.SearchResult { return x.SearchWithPipelineOptions(c.Query, o) }},
			} {
				ctx.R.Guard("C02", ep.name, cs, func() {
					a0 := vlib.Canon(db.Commands, ep.f(db))
					if (kind == "plain-literal" || kind == "literal") && N <= 400 && ci%2 == 0 {
						// the same call as the very first call on an instance that has never searched (nothing built, nothing cached yet)
						if v, err := c02Open(dbp, kind); err == nil {
							if av := vlib.Canon(v.Commands, ep.f(v)); !vlib.Exact(a0, av) {
								ctx.R.Violate(vlib.Violation{Property: "C02", Clause: "repeat-call", Path: ep.name + "/first-call-on-a-new-instance",
									Detail:  "the answer of an instance that has searched before differs from the answer of the same call as the first call on a new instance with the same content",
									Witness: map[string]interface{}{"case": cs, "after_other_searches": a0, "first_call": av}})
								return
							}
							ctx.R.Path("first-call-on-a-new-instance-compared", 1)
						}
					}
					for i := 1; i < reps; i++ {
						if a := vlib.Canon(db.Commands, ep.f(db)); !vlib.Exact(a0, a) {
							ctx.R.Violate(vlib.Violation{Property: "C02", Clause: "repeat-call", Path: ep.name,
								Detail:  fmt.Sprintf("call 1 and call %d on one loaded instance differ", i+1),
								Witness: map[string]interface{}{"case": cs, "a": a0, "b": a}})
							return
						}
					}
					for fi, f := range fresh {
						if a := vlib.Canon(f.Commands, ep.f(f)); !vlib.Exact(a0, a) {
							ctx.R.Violate(vlib.Violation{Property: "C02", Clause: "reload", Path: ep.name,
								Detail:  fmt.Sprintf("answer on independently loaded copy %d differs", fi+1),
								Witness: map[string]interface{}{"case": cs, "a": a0, "b": a}})
							return
						}
					}
					if len(a0) > 0 {
						ctx.R.Path("nonempty-"+ep.name, 1)
					}
				})
			}
			ctx.R.Path("search-evaluations", int64(reps+len(fresh)+len(procAns)))
			// suggestions
			if ci%2 == 0 || N > 15000 {
				ctx.R.Guard("C02", "GetSuggestions", cs, func() {
					s0 := db.GetSuggestions(c.SQ, 5)
					bad := false
					sreps := reps
					if N > 15000 {
						sreps = 24 // (a vocabulary of this size: whatever is sampled, cut or ordered by chance shows within two dozen calls)
						ctx.R.Path("suggestion-calls-on-a-huge-vocabulary", int64(sreps))
					}
					for i := 0; i < sreps && !bad; i++ {
						if s := db.GetSuggestions(c.SQ, 5); !reflect.DeepEqual(s0, s) {
							ctx.R.Violate(vlib.Violation{Property: "C02", Clause: "suggestions-repeat-call", Path: "GetSuggestions",
								Detail: "suggestions differ between calls", Witness: map[string]interface{}{"case": cs, "a": s0, "b": s}})
							bad = true
						}
					}
					for _, f := range fresh {
						if s := f.GetSuggestions(c.SQ, 5); !reflect.DeepEqual(s0, s) && !bad {
							ctx.R.Violate(vlib.Violation{Property: "C02", Clause: "suggestions-reload", Path: "GetSuggestions",
								Detail: "suggestions differ on a fresh load", Witness: map[string]interface{}{"case": cs, "a": s0, "b": s}})
							bad = true
						}
					}
					for _, pa := range procAns {
						if s := pa[ci].Sugg; !reflect.DeepEqual(s0, s) && !(len(s0) == 0 && len(s) == 0) && !bad {
							ctx.R.Violate(vlib.Violation{Property: "C02", Clause: "suggestions-process", Path: "GetSuggestions",
								Detail: "suggestions differ in a separate process", Witness: map[string]interface{}{"case": cs, "a": s0, "b": s}})
							bad = true
						}
					}
					if len(s0) > 1 {
						ctx.R.Path("suggestions-nonempty", 1)
					}
				})
			}
			if ci < 2 {
				ctx.R.Sample(map[string]interface{}{"case": cs, "distinct_answers_observed": len(distinct), "evaluations": reps + len(fresh) + len(procAns)})
			}
		}
		// CLI: repeated `wtf --format json -v` runs print the same result block
		if ctx.Wtf != "" && d%4 == 0 {
			h := NewHome(filepath.Join(ctx.Scratch, fmt.Sprintf("dethome%d", d)))
			for k := 0; k < 3 && k < len(job.Cases); k++ {
				q := job.Cases[k].Query
				if strings.TrimSpace(q) == "" || strings.ContainsAny(q, "<>|&;$") {
					continue
				}
				args := []string{"--database", dbp, "--format", "json", "-v", "--no-color", "--limit", "5", "--all-platforms", "--", q}
				var blocks []string
				for i := 0; i < 3; i++ {
					res := h.Wtf(ctx.Wtf, nil, args...)
					b, _, _, _ := JSONBlock(res.Stdout)
					blocks = append(blocks, b)
				}
				ctx.R.Eval(1)
				ctx.R.Path("cli-triples", 1)
				if blocks[0] != blocks[1] || blocks[0] != blocks[2] {
					ctx.R.Violate(vlib.Violation{Property: "C02", Clause: "cli", Path: "wtf --format json -v",
						Detail:  "result blocks of repeated runs differ",
						Witness: map[string]interface{}{"args": args, "db_entries": N, "run1": vlib.Trunc(blocks[0], 1500), "run2": vlib.Trunc(blocks[1], 1500), "run3": vlib.Trunc(blocks[2], 1500)}})
				}
			}
			os.RemoveAll(h.Dir)
		}
		// CLI, from inside a project: the working directory is part of the configuration. Directories that are several kinds of
		// project at once (their boost tables may disagree on a word), the shipped database, requests that name the words such
		// tables hold - glued to punctuation, so that they stay plain search terms; eight runs each
		if ctx.Wtf != "" && d%8 == 0 && ctx.ShippedPath() != "" {
			h := NewHome(filepath.Join(ctx.Scratch, fmt.Sprintf("detproj%d", d)))
			sets := [][]string{{"Dockerfile", "go.mod"}, {"CMakeLists.txt", "Makefile"}, {"package.json", "Dockerfile", "Makefile"}, {"Cargo.toml", "Makefile", ".git"},
				{"requirements.txt", "Dockerfile", "main.tf"}, {"pom.xml", "Dockerfile", "kustomization.yaml", "Makefile"}, {"go.mod", "package.json", "Cargo.toml", "requirements.txt", "Dockerfile", "Makefile"}}
			set := sets[(d/8+ctx.Shard)%len(sets)]
			for _, m := range set {
				if m == ".git" {
					os.MkdirAll(filepath.Join(h.Cwd, m), 0o755)
				} else {
					os.WriteFile(filepath.Join(h.Cwd, m), []byte("{}\n"), 0o644)
				}
			}
			rp := vlib.NewRand(ctx.Seed, ctx.Shard, fmt.Sprintf("detproj%d", d)) // a stream of its own: the other cases keep theirs
			devWords := []string{"build", "make", "test", "run", "install", "deploy", "image", "container", "compile", "package", "clean", "docker", "module", "dependencies", "target", "init"}
			for k := 0; k < 4; k++ {
				w1, w2 := devWords[rp.Intn(len(devWords))], devWords[rp.Intn(len(devWords))]
				q := []string{"how to do a docker " + w1 + ".", w1 + "-" + w2 + " the project", "project " + w1 + ", " + w2 + ".", w1 + " " + w2}[k]
				args := []string{"--database", ctx.ShippedPath(), "--format", "json", "-v", "--no-color", "--limit", "8", "--all-platforms", "--", q}
				var blocks []string
				for i := 0; i < 8; i++ {
					res := h.Wtf(ctx.Wtf, nil, args...)
					b, _, _, _ := JSONBlock(res.Stdout)
					blocks = append(blocks, b)
				}
				ctx.R.Eval(1)
				ctx.R.Path("cli-runs-repeated-inside-a-project-of-several-kinds", 1)
				for i := 1; i < len(blocks); i++ {
					if blocks[i] != blocks[0] {
						ctx.R.Violate(vlib.Violation{Property: "C02", Clause: "cli", Path: "wtf --format json -v/inside-a-project",
							Detail:  fmt.Sprintf("result blocks of run 1 and run %d differ (working directory holds %v)", i+1, set),
							Witness: map[string]interface{}{"args": args, "markers": set, "run1": vlib.Trunc(blocks[0], 1500), "other": vlib.Trunc(blocks[i], 1500)}})
						break
					}
				}
			}
			os.RemoveAll(filepath.Dir(h.Dir))
		}
		if !strings.HasPrefix(dbName, "shipped") {
			os.Remove(dbp)
		}
		os.Remove(jobp)
	}
}

// c02Starved runs f on one processor shared with two dozen goroutines that never block.
func c02Starved(f func()) {
	old := runtime.GOMAXPROCS(1)
	var stop int32
	var wg sync.WaitGroup
	for i := 0; i < 24; i++ {
		wg.Add(1)
		go func() {
			defer wg.Done()
			for x := 0; atomic.LoadInt32(&stop) == 0; x++ {
			}
		}()
	}
	runtime.Gosched()
	defer func() {
		atomic.StoreInt32(&stop, 1)
		wg.Wait()
		runtime.GOMAXPROCS(old)
	}()
	f()
}

package main

// C16 - search history is a bounded, ordered, faithfully persisted log.
//
//	histmodel : a reference log stepped alongside a real *history.SearchHistory
//	            through random histories of add / save / load / clear / views.
//	histfiles : arbitrary bytes as the history file, then Load + AddEntry + Save
//	            + views must not panic, and the recorded search must be there.

import (
	"encoding/json"
	"fmt"
	"math"
	"math/rand"
	"os"
	"path/filepath"
	"runtime/debug"
	"sort"
	"strings"
	"time"
	"unicode"
	"unicode/utf8"

	"github.com/Vedant9500/WTF/internal/history"
	"github.com/Vedant9500/WTF/internal/zzverif/vlib"
)

func init() {
	engines["histmodel"] = engineHistModel
	engines["histfiles"] = engineHistFiles
}

// ---------------------------------------------------------------------------
// Reference log.

type c16Ent struct {
	Q string
	N int
	C string
	D int64     // milliseconds
	T time.Time // observed on the real entry when it was recorded (zero = unknown)
}

func c16Clone(a []c16Ent) []c16Ent { return append([]c16Ent(nil), a...) }

// c16Coerce is what encoding/json does to a string on the way out: every
// invalid UTF-8 byte becomes one U+FFFD.
func c16Coerce(s string) string {
	if utf8.ValidString(s) {
		return s
	}
	var b strings.Builder
	for i := 0; i < len(s); {
		r, w := utf8.DecodeRuneInString(s[i:])
		if r == utf8.RuneError && w == 1 {
			b.WriteString("\uFFFD")
			i++
			continue
		}
		b.WriteString(s[i : i+w])
		i += w
	}
	return b.String()
}

func c16Show(s string) string {
	if len(s) > 48 {
		return fmt.Sprintf("%s(len %d)", vlib.Q(s[:48]), len(s))
	}
	return vlib.Q(s)
}

// c16Diff: first difference between the real entries and the reference log.
func c16Diff(real []history.SearchEntry, model []c16Ent) string {
	if len(real) != len(model) {
		return fmt.Sprintf("%d entries, reference log has %d", len(real), len(model))
	}
	for i := range real {
		e, m := real[i], model[i]
		switch {
		case e.Query != m.Q:
			return fmt.Sprintf("entry %d/%d query %s, reference %s", i, len(real), c16Show(e.Query), c16Show(m.Q))
		case e.ResultsCount != m.N:
			return fmt.Sprintf("entry %d/%d (%s) results_count %d, reference %d", i, len(real), c16Show(e.Query), e.ResultsCount, m.N)
		case e.Context != m.C:
			return fmt.Sprintf("entry %d/%d (%s) context %s, reference %s", i, len(real), c16Show(e.Query), c16Show(e.Context), c16Show(m.C))
		case e.Duration != m.D:
			return fmt.Sprintf("entry %d/%d (%s) duration %d ms, reference %d ms", i, len(real), c16Show(e.Query), e.Duration, m.D)
		case !m.T.IsZero() && !e.Timestamp.Equal(m.T):
			return fmt.Sprintf("entry %d/%d (%s) timestamp %s, was %s when recorded", i, len(real), c16Show(e.Query),
				e.Timestamp.Format(time.RFC3339Nano), m.T.Format(time.RFC3339Nano))
		}
	}
	return ""
}

// c16DiffRT compares loaded entries with what was saved. other = first
// difference not explained by the JSON coercion of invalid UTF-8; bad8 = first
// difference that is exactly that coercion.
func c16DiffRT(loaded []history.SearchEntry, want []c16Ent) (other, bad8 string) {
	if len(loaded) != len(want) {
		return fmt.Sprintf("loaded %d entries, saved %d", len(loaded), len(want)), ""
	}
	str := func(i int, field, got, exp string) {
		if got == exp {
			return
		}
		if !utf8.ValidString(exp) && c16Coerce(exp) == got {
			if bad8 == "" {
				bad8 = fmt.Sprintf("entry %d %s saved as %s came back as %s", i, field, c16Show(exp), c16Show(got))
			}
			return
		}
		if other == "" {
			other = fmt.Sprintf("entry %d %s saved as %s came back as %s", i, field, c16Show(exp), c16Show(got))
		}
	}
	for i := range loaded {
		e, m := loaded[i], want[i]
		str(i, "query", e.Query, m.Q)
		str(i, "context", e.Context, m.C)
		if other != "" {
			return
		}
		switch {
		case e.ResultsCount != m.N:
			other = fmt.Sprintf("entry %d (%s) results_count saved %d came back %d", i, c16Show(m.Q), m.N, e.ResultsCount)
		case e.Duration != m.D:
			other = fmt.Sprintf("entry %d (%s) duration saved %d came back %d", i, c16Show(m.Q), m.D, e.Duration)
		case !m.T.IsZero() && !e.Timestamp.Equal(m.T):
			other = fmt.Sprintf("entry %d (%s) timestamp saved %s came back %s", i, c16Show(m.Q),
				m.T.Format(time.RFC3339Nano), e.Timestamp.Format(time.RFC3339Nano))
		}
		if other != "" {
			return
		}
	}
	return
}

// ---------------------------------------------------------------------------
// Case-insensitive containment, two independent readings; callers only decide
// when both agree.

func c16Seq(s string, f func(rune) rune, invalidAsFFFD bool) []int32 {
	out := make([]int32, 0, len(s))
	for i := 0; i < len(s); {
		r, w := utf8.DecodeRuneInString(s[i:])
		if r == utf8.RuneError && w == 1 {
			if invalidAsFFFD {
				out = append(out, 0xFFFD) // every invalid byte is "the replacement character"
			} else {
				out = append(out, 0x200000+int32(s[i])) // an invalid byte only equals the same byte
			}
			i++
			continue
		}
		out = append(out, int32(f(r)))
		i += w
	}
	return out
}

func c16FoldMin(r rune) rune {
	m := r
	for x := unicode.SimpleFold(r); x != r; x = unicode.SimpleFold(x) {
		if x < m {
			m = x
		}
	}
	return m
}

func c16SeqContains(a, b []int32) bool {
	if len(b) == 0 {
		return true
	}
	for i := 0; i+len(b) <= len(a); i++ {
		if a[i] != b[0] {
			continue
		}
		j := 1
		for j < len(b) && a[i+j] == b[j] {
			j++
		}
		if j == len(b) {
			return true
		}
	}
	return false
}

func c16ContainsFold(s, p string) (match, sure bool) {
	a := c16SeqContains(c16Seq(s, unicode.ToLower, false), c16Seq(p, unicode.ToLower, false))
	b := c16SeqContains(c16Seq(s, c16FoldMin, false), c16Seq(p, c16FoldMin, false))
	if a != b {
		return a, false
	}
	if !utf8.ValidString(s) || !utf8.ValidString(p) {
		c := c16SeqContains(c16Seq(s, unicode.ToLower, true), c16Seq(p, unicode.ToLower, true))
		if a != c {
			return a, false
		}
	}
	return a, true
}

func c16FlipCase(s string) string {
	var b strings.Builder
	for i := 0; i < len(s); {
		r, w := utf8.DecodeRuneInString(s[i:])
		if r == utf8.RuneError && w == 1 {
			b.WriteByte(s[i])
			i++
			continue
		}
		f := r
		if unicode.IsLower(r) {
			f = unicode.ToUpper(r)
		} else if unicode.IsUpper(r) {
			f = unicode.ToLower(r)
		}
		if unicode.ToLower(f) != unicode.ToLower(r) || utf8.RuneLen(f) < 0 {
			f = r
		}
		b.WriteRune(f)
		i += w
	}
	return b.String()
}

// c16Sub: a random piece of s cut at rune starts (at most 40 bytes).
func c16Sub(r *rand.Rand, s string) string {
	if len(s) == 0 {
		return s
	}
	a := r.Intn(len(s))
	for a > 0 && !utf8.RuneStart(s[a]) {
		a--
	}
	b := a + 1 + r.Intn(40)
	if b > len(s) {
		b = len(s)
	}
	for b < len(s) && !utf8.RuneStart(s[b]) {
		b++
	}
	return s[a:b]
}

// ---------------------------------------------------------------------------
// Views against the entries the object holds.

type c16Issue struct{ Clause, Path, Detail string }

func c16EntKey(e history.SearchEntry) string {
	return fmt.Sprintf("%q|%d|%q|%d|%d", e.Query, e.ResultsCount, e.Context, e.Duration, e.Timestamp.UnixNano())
}

func c16CheckViews(sh *history.SearchHistory, r *rand.Rand, withInvalid bool) (out []c16Issue, inconcl int) {
	ents := append([]history.SearchEntry(nil), sh.Entries...)
	n := len(ents)
	bad := func(clause, path, f string, a ...interface{}) {
		out = append(out, c16Issue{clause, path, fmt.Sprintf(f, a...)})
	}
	freq := map[string]int{}
	lastT := map[string]time.Time{}
	for _, e := range ents {
		freq[e.Query]++
		lastT[e.Query] = e.Timestamp // entries are chronological: the later position is the later use
	}

	// recent: the k newest distinct queries, newest first (k <= 0 means 10)
	ks := []int{0, []int{-3, 1, 2, 3, 5, 10}[r.Intn(6)], []int{1, 2, 4, 7, 1000}[r.Intn(5)]}
	for _, k := range ks {
		lim := k
		if lim <= 0 {
			lim = 10
		}
		var exp []string
		seen := map[string]bool{}
		for i := n - 1; i >= 0 && len(exp) < lim; i-- {
			if !seen[ents[i].Query] {
				seen[ents[i].Query] = true
				exp = append(exp, ents[i].Query)
			}
		}
		got := sh.GetRecentQueries(k)
		same := len(got) == len(exp)
		for i := 0; same && i < len(got); i++ {
			same = got[i] == exp[i]
		}
		if !same {
			bad("recent", "GetRecentQueries", "GetRecentQueries(%d) = %s, the newest distinct queries of the %d entries are %s", k, c16ShowList(got), n, c16ShowList(exp))
			break
		}
	}

	// top
	topBase := len(out)
	rows := sh.GetTopQueries(1 << 30)
	sum := 0
	seenQ := map[string]bool{}
	for i, row := range rows {
		sum += row.Count
		switch {
		case seenQ[row.Query]:
			bad("top", "GetTopQueries", "query %s has two rows", c16Show(row.Query))
		case row.Count != freq[row.Query]:
			bad("top", "GetTopQueries", "row %d query %s count %d, it occurs %d times in the entries", i, c16Show(row.Query), row.Count, freq[row.Query])
		case i > 0 && rows[i-1].Count < row.Count:
			bad("top", "GetTopQueries", "not sorted by frequency: row %d count %d before row %d count %d", i-1, rows[i-1].Count, i, row.Count)
		case !row.LastUsed.Equal(lastT[row.Query]):
			bad("top", "GetTopQueries", "row %d query %s last used %s, its newest entry is %s", i, c16Show(row.Query),
				row.LastUsed.Format(time.RFC3339Nano), lastT[row.Query].Format(time.RFC3339Nano))
		}
		seenQ[row.Query] = true
		if len(out) > topBase {
			break
		}
	}
	if len(out) == topBase && sum != n {
		bad("top", "GetTopQueries", "frequencies sum to %d, there are %d entries", sum, n)
	}
	if len(out) == topBase && len(rows) != len(freq) {
		bad("top", "GetTopQueries", "%d rows, %d distinct queries", len(rows), len(freq))
	}
	if len(out) == topBase {
		k := 1 + r.Intn(5)
		part := sh.GetTopQueries(k)
		expLen := k
		if len(freq) < k {
			expLen = len(freq)
		}
		if len(part) != expLen {
			bad("top", "GetTopQueries", "GetTopQueries(%d) has %d rows, %d distinct queries exist", k, len(part), len(freq))
		} else {
			counts := make([]int, 0, len(freq))
			for _, c := range freq {
				counts = append(counts, c)
			}
			sort.Sort(sort.Reverse(sort.IntSlice(counts)))
			for i, row := range part {
				if row.Count != freq[row.Query] || row.Count != counts[i] {
					bad("top", "GetTopQueries", "GetTopQueries(%d) row %d = %s x%d; that query occurs %d times and the %d-th largest frequency is %d",
						k, i, c16Show(row.Query), row.Count, freq[row.Query], i+1, counts[i])
					break
				}
			}
		}
	}

	// stats
	st := sh.GetStats()
	if n == 0 {
		if st.TotalSearches != 0 || st.UniqueQueries != 0 || st.AvgResultsPerSearch != 0 {
			bad("stats", "GetStats", "empty history but stats %+v", st)
		}
	} else {
		tot, dur := 0.0, 0.0
		for _, e := range ents {
			tot += float64(e.ResultsCount)
			dur += float64(e.Duration)
		}
		avg, avgD := tot/float64(n), dur/float64(n)
		near := func(x, y float64) bool { return math.Abs(x-y) <= 1e-9*math.Max(1, math.Max(math.Abs(x), math.Abs(y))) }
		switch {
		case st.TotalSearches != n:
			bad("stats", "GetStats", "TotalSearches %d, %d entries", st.TotalSearches, n)
		case st.UniqueQueries != len(freq):
			bad("stats", "GetStats", "UniqueQueries %d, %d distinct queries among %d entries", st.UniqueQueries, len(freq), n)
		case !near(st.AvgResultsPerSearch, avg):
			bad("stats", "GetStats", "AvgResultsPerSearch %v, entries give %v", st.AvgResultsPerSearch, avg)
		case !near(st.AvgSearchDuration, avgD):
			bad("stats", "GetStats", "AvgSearchDuration %v, entries give %v", st.AvgSearchDuration, avgD)
		case !st.OldestEntry.Equal(ents[0].Timestamp):
			bad("stats", "GetStats", "OldestEntry %s, first entry %s", st.OldestEntry.Format(time.RFC3339Nano), ents[0].Timestamp.Format(time.RFC3339Nano))
		case !st.NewestEntry.Equal(ents[n-1].Timestamp):
			bad("stats", "GetStats", "NewestEntry %s, last entry %s", st.NewestEntry.Format(time.RFC3339Nano), ents[n-1].Timestamp.Format(time.RFC3339Nano))
		}
	}

	// pattern
	pats := []string{""}
	if n > 0 {
		q := ents[r.Intn(n)].Query
		pats = append(pats, c16FlipCase(c16Sub(r, q)))
		if len(q) < 200 {
			pats = append(pats, c16FlipCase(q))
		}
	}
	pats = append(pats, []string{"zzz-absent", "FILE", "I", " ", "\n", "É"}[r.Intn(6)])
	if withInvalid && r.Intn(8) == 0 {
		pats = append(pats, "\xfe")
	}
	for _, p := range pats {
		path := "GetEntriesByPattern"
		exp := map[string]int{}
		nexp, unsure := 0, false
		for _, e := range ents {
			m, sure := c16ContainsFold(e.Query, p)
			if !sure {
				unsure = true
				break
			}
			if m {
				exp[c16EntKey(e)]++
				nexp++
			}
		}
		if unsure {
			inconcl++
			continue
		}
		got := sh.GetEntriesByPattern(p)
		if len(got) != nexp {
			bad("pattern", path, "GetEntriesByPattern(%s) returned %d entries, %d of the %d entries contain it ignoring case", c16Show(p), len(got), nexp, n)
			continue
		}
		for i, e := range got {
			k := c16EntKey(e)
			if exp[k] == 0 {
				bad("pattern", path, "GetEntriesByPattern(%s) result %d (%s) is not a matching entry of the history", c16Show(p), i, c16Show(e.Query))
				break
			}
			exp[k]--
			if i > 0 && got[i-1].Timestamp.Before(e.Timestamp) {
				bad("pattern", path, "GetEntriesByPattern(%s) not most recent first at result %d", c16Show(p), i)
				break
			}
		}
	}
	return
}

func c16ShowList(xs []string) string {
	parts := make([]string, 0, len(xs))
	for i, x := range xs {
		if i >= 12 {
			parts = append(parts, fmt.Sprintf("...(%d)", len(xs)))
			break
		}
		parts = append(parts, c16Show(x))
	}
	return "[" + strings.Join(parts, " ") + "]"
}

// ---------------------------------------------------------------------------
// histmodel

var c16BasePool = []string{
	"find files", "Find Files", "git commit", "docker run", "tar", "ls", "compress folder", "list processes",
	"", " ", "q", "find",
	"line one\nline two\r\n\tthree",
	"ctl\x00\x01\x07\x1b[31mred\x7f",
	`say "hi" \ 'there' <tag> & more`,
	"héllo wörld ÉCOLE", "日本語 検索", "emoji 🔍🚀 ok", "\u2028sep\u2029", "zero\u200bwidth", "\uFFFD literal replacement",
}

var c16Invalid = []string{"bad\xffutf8", "\xc3(", "\xed\xa0\x80surrogate", "trunc\xe2\x82", "\x80\x81\xfe mixed ok"}

var c16Contexts = []string{"", "", "git repository", "Go project with Docker, Make and a rather long description of the context",
	"multi\nline\tcontext", "ünï ✓ \"quoted\""}

var c16Maxes = []int{1, 2, 3, 100, 0, -1, -100}

type c16Op struct {
	Kind string // add save load fresh new clear views
	Q, C int
	N    int
	D    time.Duration
	M    int
	S    int64
}

func (o c16Op) String() string {
	switch o.Kind {
	case "add":
		return fmt.Sprintf("add(q%d,n=%d,c%d,d=%s)", o.Q, o.N, o.C, o.D)
	case "fresh", "new":
		return fmt.Sprintf("%s(%d)", o.Kind, o.M)
	case "foreign":
		return fmt.Sprintf("foreign-file(%d)", o.N%6)
	}
	return o.Kind
}

type c16Run struct {
	ctx   *Ctx
	idx   int
	dir   string
	path  string
	max0  int
	pool  []string
	ctxs  []string
	inval bool
	ops   []c16Op
	step  int

	cur        *history.SearchHistory
	mlog       []c16Ent
	mmax       int
	fileExists bool
	fileLog    []c16Ent

	trims, collapses, cycles, clears int
	savedSinceLoad                   bool
	dead                             bool
	inconcl                          int
}

func c16NewRun(ctx *Ctx, r *rand.Rand, idx int, base string) *c16Run {
	h := &c16Run{ctx: ctx, idx: idx}
	h.dir = filepath.Join(base, fmt.Sprintf("h%d", idx))
	h.path = filepath.Join(h.dir, "cfg", "wtf", "search_history.json")
	switch x := r.Intn(100); {
	case x < 15:
		h.max0 = 1
	case x < 35:
		h.max0 = 2
	case x < 60:
		h.max0 = 3
	case x < 85:
		h.max0 = 100
	default:
		h.max0 = []int{0, -1, -100}[r.Intn(3)]
	}
	np := 2 + r.Intn(5)
	for i := 0; i < np; i++ {
		h.pool = append(h.pool, c16BasePool[r.Intn(len(c16BasePool))])
	}
	if r.Intn(10) == 0 {
		long := strings.Repeat("long query ", 470)
		if r.Intn(2) == 0 {
			var b strings.Builder
			for b.Len() < 5000 {
				b.WriteString(vlib.RandWord(r))
				b.WriteByte(' ')
			}
			long = b.String()
		}
		h.pool[r.Intn(len(h.pool))] = long
	}
	h.ctxs = append([]string(nil), c16Contexts...)
	giant := 0
	if x := r.Intn(100); x < 8 && (!ctx.Thorough || (idx%10 == 0 && x != 0)) { // (thorough tier: a tenth of them, and none of the 1 MiB ones - they are the quick tier's)
		// one text far longer than any line or token buffer a reader is likely to use (64 KiB, 1 MiB): as one unbroken word, or as words
		giant = []int{65530, 65536, 65537, 70001, 140000}[r.Intn(5)]
		if x == 0 {
			giant = 1<<20 + 1 + r.Intn(5000)
		}
		var b strings.Builder
		unbroken := r.Intn(2) == 0
		for b.Len() < giant {
			b.WriteString(vlib.RandWord(r))
			if !unbroken {
				b.WriteByte(' ')
			}
		}
		t := b.String()[:giant]
		if r.Intn(3) == 0 {
			h.ctxs = append(h.ctxs, t)
			h.ctxs = append(h.ctxs, t) // drawn more often
		} else {
			h.pool[r.Intn(len(h.pool))] = t
		}
		ctx.R.Path("runs-with-a-text-above-64KiB", 1)
	}
	if r.Intn(100) < 15 {
		h.inval = true
		h.pool[r.Intn(len(h.pool))] = c16Invalid[r.Intn(len(c16Invalid))]
		if r.Intn(2) == 0 {
			h.pool = append(h.pool, c16Invalid[r.Intn(len(c16Invalid))])
		}
		if r.Intn(3) == 0 {
			h.ctxs = append(h.ctxs, "ctx\xff\xfebad")
		}
	}
	nops := 0
	switch x := r.Intn(100); {
	case x < 30:
		nops = 1 + r.Intn(30)
	case x < 75:
		nops = 30 + r.Intn(170)
	default:
		nops = 200 + r.Intn(401)
	}
	if giant > 1<<20 && nops > 40 {
		nops = 40
	} else if giant > 0 && nops > 120 {
		nops = 120
	}
	last := -1
	for i := 0; i < nops; i++ {
		var o c16Op
		switch x := r.Intn(100); {
		case x < 62:
			o.Kind = "add"
			if last >= 0 && r.Intn(100) < 35 {
				o.Q = last
			} else {
				o.Q = r.Intn(len(h.pool))
			}
			last = o.Q
			o.C = r.Intn(len(h.ctxs))
			o.N = []int{0, 1, 3, 5, 10, 250, r.Intn(1000000), math.MaxInt32}[r.Intn(8)]
			o.D = []time.Duration{0, 300 * time.Microsecond, time.Millisecond, 1500 * time.Microsecond, 12 * time.Millisecond,
				2 * time.Second, time.Duration(r.Int63n(int64(5 * time.Second))), time.Hour}[r.Intn(8)]
		case x < 71:
			o.Kind = "save"
			o.M = c16Maxes[r.Intn(len(c16Maxes))]
		case x < 76:
			o.Kind = "load"
		case x < 83:
			o.Kind = "fresh"
			o.M = c16Maxes[r.Intn(len(c16Maxes))]
		case x < 85:
			o.Kind = "new"
			o.M = c16Maxes[r.Intn(len(c16Maxes))]
		case x < 87:
			o.Kind = "clear"
		case x < 89:
			// another writer puts a valid history without a list of entries in place ({} / null / "entries": null - what Save on a
			// zero-value object writes); the next operation is a Load on the object in use
			o.Kind = "foreign"
			o.N = r.Intn(6)
			h.ops = append(h.ops, o)
			o = c16Op{Kind: "load"}
		default:
			o.Kind = "views"
			o.S = r.Int63()
		}
		h.ops = append(h.ops, o)
	}
	return h
}

func (h *c16Run) opsString(upto int) string {
	parts := make([]string, 0, upto)
	for i := 0; i < upto && i < len(h.ops); i++ {
		parts = append(parts, h.ops[i].String())
	}
	return strings.Join(parts, ";")
}

func (h *c16Run) descriptor() map[string]interface{} {
	pool := make([]string, len(h.pool))
	for i, q := range h.pool {
		pool[i] = fmt.Sprintf("q%d=%s", i, c16Show(q))
	}
	cx := make([]string, len(h.ctxs))
	for i, c := range h.ctxs {
		cx[i] = fmt.Sprintf("c%d=%s", i, c16Show(c))
	}
	return map[string]interface{}{"engine": "histmodel", "shard": h.ctx.Shard, "history": h.idx, "max": h.max0, "nops": len(h.ops),
		"pool": pool, "contexts": cx}
}

func (h *c16Run) name(q string) string {
	for i, p := range h.pool {
		if p == q {
			return fmt.Sprintf("q%d", i)
		}
	}
	return c16Show(q)
}

func (h *c16Run) witness() map[string]interface{} {
	w := h.descriptor()
	w["failed_at_step"] = h.step
	w["ops_until_failure"] = h.opsString(h.step + 1)
	tail := func(n int, f func(i int) string) []string {
		out := []string{}
		lo := 0
		if n > 16 {
			lo = n - 16
			out = append(out, fmt.Sprintf("...(%d earlier)", lo))
		}
		for i := lo; i < n; i++ {
			out = append(out, f(i))
		}
		return out
	}
	if h.cur != nil {
		es := h.cur.Entries
		w["real_max_size"] = h.cur.MaxSize
		w["real_entries"] = tail(len(es), func(i int) string {
			return fmt.Sprintf("%s n=%d ctx=%s d=%d t=%s", h.name(es[i].Query), es[i].ResultsCount, c16Show(es[i].Context), es[i].Duration, es[i].Timestamp.Format("15:04:05.000000000"))
		})
	}
	w["reference_max"] = h.mmax
	w["reference_log"] = tail(len(h.mlog), func(i int) string {
		m := h.mlog[i]
		return fmt.Sprintf("%s n=%d ctx=%s d=%d", h.name(m.Q), m.N, c16Show(m.C), m.D)
	})
	return w
}

func (h *c16Run) violate(clause, path, detail string) {
	h.ctx.R.Violate(vlib.Violation{Property: "C16", Clause: clause, Path: path, Detail: detail, Witness: h.witness()})
}

func (h *c16Run) fail(clause, path, detail string) {
	h.violate(clause, path, detail)
	h.dead = true
}

// adopt: the reference continues from the object's maximum (its own field).
func (h *c16Run) adoptMax(path string, asked int) {
	h.mmax = h.cur.MaxSize
	if h.cur.MaxSize <= 0 {
		h.fail("bound", path, fmt.Sprintf("MaxSize is %d after %s (asked for %d)", h.cur.MaxSize, path, asked))
	}
}

// common: bound, content against the reference, chronological order.
func (h *c16Run) common(path, contentClause string) {
	es := h.cur.Entries
	if len(es) > h.cur.MaxSize {
		h.fail("bound", path, fmt.Sprintf("%d entries, MaxSize %d", len(es), h.cur.MaxSize))
	}
	if d := c16Diff(es, h.mlog); d != "" {
		h.fail(contentClause, path, d)
	}
	for i := 1; i < len(es); i++ {
		if es[i].Timestamp.Before(es[i-1].Timestamp) {
			h.fail("order", path, fmt.Sprintf("entry %d (%s) at %s is older than entry %d (%s) at %s", i, h.name(es[i].Query),
				es[i].Timestamp.Format(time.RFC3339Nano), i-1, h.name(es[i-1].Query), es[i-1].Timestamp.Format(time.RFC3339Nano)))
			break
		}
	}
}

func (h *c16Run) newObj(m int, path string) *history.SearchHistory {
	sh := history.NewSearchHistory(h.path, m)
	if sh == nil {
		h.fail("content", path, "NewSearchHistory returned nil")
		return nil
	}
	if (m > 0 && sh.MaxSize != m) || sh.MaxSize <= 0 {
		h.cur = sh
		h.fail("bound", "NewSearchHistory", fmt.Sprintf("NewSearchHistory(_, %d) has MaxSize %d", m, sh.MaxSize))
		return nil
	}
	if len(sh.Entries) != 0 {
		h.cur = sh
		h.fail("content", "NewSearchHistory", fmt.Sprintf("a new history holds %d entries", len(sh.Entries)))
		return nil
	}
	return sh
}

func (h *c16Run) doAdd(o c16Op) {
	q, c := h.pool[o.Q], h.ctxs[o.C]
	prevLen := len(h.mlog)
	collapsed := prevLen > 0 && h.mlog[prevLen-1].Q == q
	elsewhere := false
	if !collapsed {
		for _, m := range h.mlog {
			if m.Q == q {
				elsewhere = true
				break
			}
		}
	}
	e := c16Ent{Q: q, N: o.N, C: c, D: int64(o.D / time.Millisecond)}
	trimmed := false
	if collapsed {
		h.mlog[prevLen-1] = e
		h.collapses++
	} else {
		h.mlog = append(h.mlog, e)
		if len(h.mlog) > h.mmax {
			h.mlog = c16Clone(h.mlog[len(h.mlog)-h.mmax:])
			trimmed = true
			h.trims++
		}
	}
	t0 := time.Now()
	h.cur.AddEntry(q, o.N, c, o.D)
	t1 := time.Now()
	es := h.cur.Entries
	clause := "content"
	switch {
	case collapsed:
		clause = "dup-collapse"
	case elsewhere && !trimmed && len(h.mlog) < h.mmax && len(es) == prevLen:
		clause = "dup-collapse" // a repeat of an earlier (not the last) entry did not add an entry
	}
	what := "appended"
	if collapsed {
		what = "immediate repeat of the last entry"
	} else if elsewhere {
		what = "repeat of an earlier, not the last, entry"
	}
	if trimmed {
		what += ", reference log trimmed to the newest " + fmt.Sprint(h.mmax)
	}
	if len(es) > h.cur.MaxSize {
		h.fail("bound", "AddEntry", fmt.Sprintf("%d entries, MaxSize %d (%s)", len(es), h.cur.MaxSize, what))
	}
	if d := c16Diff(es, h.mlog); d != "" {
		h.fail(clause, "AddEntry", fmt.Sprintf("%s [AddEntry(%s): %s; %d entries before]", d, h.name(q), what, prevLen))
	} else if len(es) > 0 {
		// same entries as the reference; the one just recorded must carry the time of this call
		ts := es[len(es)-1].Timestamp
		if ts.Before(t0) || ts.After(t1) {
			h.fail(clause, "AddEntry", fmt.Sprintf("last entry's timestamp %s is not the time of this AddEntry call [%s, %s] (%s)",
				ts.Format(time.RFC3339Nano), t0.Format(time.RFC3339Nano), t1.Format(time.RFC3339Nano), what))
		} else {
			h.mlog[len(h.mlog)-1].T = ts
		}
	}
	for i := 1; i < len(es); i++ {
		if es[i].Timestamp.Before(es[i-1].Timestamp) {
			h.fail("order", "AddEntry", fmt.Sprintf("entry %d (%s) at %s is older than entry %d (%s) at %s [AddEntry(%s): %s]", i, h.name(es[i].Query),
				es[i].Timestamp.Format(time.RFC3339Nano), i-1, h.name(es[i-1].Query), es[i-1].Timestamp.Format(time.RFC3339Nano), h.name(q), what))
			break
		}
	}
}

func (h *c16Run) doSave(o c16Op) {
	if err := h.cur.Save(); err != nil {
		h.fail("roundtrip", "Save", "Save failed: "+err.Error())
		return
	}
	h.fileExists = true
	h.fileLog = c16Clone(h.mlog)
	h.savedSinceLoad = true
	h.common("Save", "content")
	if h.dead {
		return
	}
	// a fresh object sharing the file must read back the same entries
	fresh := history.NewSearchHistory(h.path, o.M)
	if err := fresh.Load(); err != nil {
		h.fail("roundtrip", "Save+Load", "Load of the file just saved failed: "+err.Error())
		return
	}
	other, bad8 := c16DiffRT(fresh.Entries, h.fileLog)
	if other != "" {
		h.fail("roundtrip", "Save+Load", other)
		return
	}
	if bad8 != "" {
		h.violate("roundtrip-invalid-utf8", "Save+Load", bad8)
		h.ctx.R.Path("roundtrip-invalid-utf8-seen", 1)
		for i := range h.fileLog { // reported; later loads are compared with what the file now holds
			h.fileLog[i].Q, h.fileLog[i].C = fresh.Entries[i].Query, fresh.Entries[i].Context
		}
	}
	if len(fresh.Entries) > fresh.MaxSize {
		h.fail("bound", "Save+Load", fmt.Sprintf("fresh object holds %d entries after Load, MaxSize %d", len(fresh.Entries), fresh.MaxSize))
	}
	h.ctx.R.Path("save-verified", 1)
}

// staleFields: json.Unmarshal decodes into the slice elements the object
// already has, so a field the file omits (context / duration, omitempty)
// keeps the value of whatever entry sat at that position before Load. When
// every difference between the object and the file is of that kind it is
// reported once (clause roundtrip, path Load, detail "stale field") and the
// reference adopts the object's values so that the history can go on.
func (h *c16Run) staleFields(prev []history.SearchEntry) {
	es := h.cur.Entries
	if len(es) != len(h.mlog) {
		return
	}
	first, count := "", 0
	for i := range es {
		e, m := es[i], h.mlog[i]
		if e.Query != m.Q || e.ResultsCount != m.N || (!m.T.IsZero() && !e.Timestamp.Equal(m.T)) {
			return
		}
		if e.Context != m.C {
			if m.C != "" || i >= len(prev) || prev[i].Context != e.Context {
				return
			}
			count++
			if first == "" {
				first = fmt.Sprintf("entry %d/%d (%s) has context %s, the file has none; %s is the context of the entry (%s) held at that position before Load",
					i, len(es), h.name(e.Query), c16Show(e.Context), c16Show(e.Context), h.name(prev[i].Query))
			}
		}
		if e.Duration != m.D {
			if m.D != 0 || i >= len(prev) || prev[i].Duration != e.Duration {
				return
			}
			count++
			if first == "" {
				first = fmt.Sprintf("entry %d/%d (%s) has duration %d ms, the file has none; %d ms is the duration of the entry (%s) held at that position before Load",
					i, len(es), h.name(e.Query), e.Duration, e.Duration, h.name(prev[i].Query))
			}
		}
	}
	if count == 0 {
		return
	}
	h.violate("roundtrip", "Load", fmt.Sprintf("stale field: Load into an object that already held entries did not give back the saved entries: %s (%d such fields)", first, count))
	h.ctx.R.Path("load-stale-field-seen", 1)
	for i := range es {
		h.mlog[i].C, h.mlog[i].D = es[i].Context, es[i].Duration
	}
}

func (h *c16Run) afterLoad(path string, err error, asked int, prev []history.SearchEntry) {
	if err != nil {
		h.fail("roundtrip", path, "Load failed: "+err.Error())
		return
	}
	if h.fileExists {
		h.mlog = c16Clone(h.fileLog)
		if h.savedSinceLoad {
			h.cycles++
			h.savedSinceLoad = false
		}
		h.adoptMax(path, asked)
		if h.dead {
			return
		}
		if len(prev) > 0 {
			h.staleFields(prev)
		}
		h.common(path, "roundtrip")
	} else {
		h.common(path, "content")
	}
}

func (h *c16Run) exec(o c16Op) {
	switch o.Kind {
	case "add":
		h.doAdd(o)
	case "save":
		h.doSave(o)
	case "load":
		prev := append([]history.SearchEntry(nil), h.cur.Entries[:cap(h.cur.Entries)]...)
		err := h.cur.Load()
		h.afterLoad("Load", err, h.mmax, prev)
	case "fresh":
		sh := h.newObj(o.M, "Save+Load")
		if sh == nil {
			return
		}
		err := sh.Load()
		h.cur = sh
		if !h.fileExists {
			h.mlog = nil
			h.adoptMax("NewSearchHistory", o.M)
			if h.dead {
				return
			}
		}
		h.afterLoad("Save+Load", err, o.M, nil)
	case "new":
		sh := h.newObj(o.M, "NewSearchHistory")
		if sh == nil {
			return
		}
		h.cur = sh
		h.mlog = nil
		h.adoptMax("NewSearchHistory", o.M)
		if !h.dead {
			h.common("NewSearchHistory", "content")
		}
	case "foreign":
		content := []string{"{}", "{\"max_size\":10}", "{\"entries\":null,\"max_size\":100}", "null", "{\"max_size\":100}", "{\"entries\":null}"}[o.N%6]
		os.MkdirAll(filepath.Dir(h.path), 0o755)
		if err := os.WriteFile(h.path, []byte(content), 0o644); err != nil {
			h.fail("roundtrip", "foreign", "cannot write: "+err.Error())
			return
		}
		h.fileExists, h.fileLog, h.savedSinceLoad = true, nil, false
		h.ctx.R.Path("files-without-an-entries-list-put-in-place", 1)
	case "clear":
		if err := h.cur.Clear(); err != nil {
			h.fail("roundtrip", "Clear", "Clear failed: "+err.Error())
			return
		}
		h.mlog = nil
		h.fileLog = nil
		h.fileExists = true
		h.savedSinceLoad = true
		h.clears++
		h.common("Clear", "content")
	case "views":
		h.views(o.S)
	}
}

func (h *c16Run) views(seed int64) {
	iss, inc := c16CheckViews(h.cur, rand.New(rand.NewSource(seed)), h.inval)
	h.inconcl += inc
	for _, is := range iss {
		h.fail(is.Clause, is.Path, is.Detail)
	}
	if !h.dead {
		h.common("views", "content") // a view must not disturb the log
	}
}

var c16Method = map[string]string{"foreign": "another writer", "add": "AddEntry", "save": "Save", "load": "Load", "fresh": "Save+Load", "new": "NewSearchHistory",
	"clear": "Clear", "views": "views"}

// guard is vlib.Report.Guard with the witness built only when a panic happens
// (building it for each of up to 600 steps would dominate the run).
func (h *c16Run) guard(method string, f func()) (ok bool) {
	defer func() {
		if e := recover(); e != nil {
			ok = false
			st := string(debug.Stack())
			if len(st) > 3000 {
				st = st[:3000]
			}
			h.ctx.R.Violate(vlib.Violation{Property: "C16", Clause: "panic", Path: method, Detail: fmt.Sprintf("panic: %v", e),
				Witness: map[string]interface{}{"case": h.witness(), "stack": st}})
		}
	}()
	f()
	return true
}

func (h *c16Run) run() {
	sh := h.newObj(h.max0, "NewSearchHistory")
	if sh == nil {
		return
	}
	h.cur = sh
	h.adoptMax("NewSearchHistory", h.max0)
	for h.step = 0; h.step < len(h.ops) && !h.dead; h.step++ {
		o := h.ops[h.step]
		if !h.guard(c16Method[o.Kind], func() { h.exec(o) }) {
			h.dead = true
		}
	}
	if !h.dead {
		h.step = len(h.ops) - 1
		h.guard("views", func() { h.views(int64(h.idx)*7919 + 17) })
	}
}

// c16LargeViews: histories with a maximum above the default and hundreds of different queries, early ones used again later
// (not immediately): the views are recomputed from the entries as for every other history.
func c16LargeViews(ctx *Ctx, r *rand.Rand) {
	for k := 0; k < ctx.Pick(6, 60); k++ {
		M := []int{150, 250, 1000, 101, 128}[r.Intn(5)]
		n := 105 + r.Intn(400)
		distinct := 101 + r.Intn(200)
		path := filepath.Join(ctx.Scratch, "hlarge", fmt.Sprintf("h%d.json", k))
		cs := map[string]interface{}{"engine": "histmodel", "class": "large history", "max": M, "searches": n, "different_queries": distinct}
		ctx.R.Begin(cs)
		ctx.R.Eval(1)
		ctx.R.Guard("C16", "views", cs, func() {
			sh := history.NewSearchHistory(path, M)
			last := -1
			for i := 0; i < n; i++ {
				q := i
				if i >= distinct || r.Intn(4) == 0 {
					q = r.Intn(distinct) // an earlier query again
				}
				if q == last {
					q = (q + 1) % distinct
				}
				last = q
				sh.AddEntry(fmt.Sprintf("query number %d", q), q%9, "", time.Millisecond)
			}
			iss, inc := c16CheckViews(sh, r, false)
			for i := 0; i < inc; i++ {
				ctx.R.Inconcl("pattern view: containment depends on the reading of ignoring-case (special folds, invalid UTF-8 bytes)")
			}
			for _, is := range iss {
				ctx.R.Violate(vlib.Violation{Property: "C16", Clause: is.Clause, Path: is.Path + "/large-history", Detail: is.Detail, Witness: cs})
			}
			ctx.R.Path("large-histories-viewed", 1)
			ctx.R.Nontriv("large-history", k, M, n, distinct)
		})
	}
	os.RemoveAll(filepath.Join(ctx.Scratch, "hlarge"))
}

// c16Zone: the shard's local time zone (fixed offsets up to +14:00 / -12:00, and zones whose clocks went back ten minutes
// before the run started or will 55 minutes after it: the repeated wall-clock hour is now). Shards 0 and 10 keep the zone of
// the machine.
func c16Zone(ctx *Ctx) {
	if z, ok := vlib.ZoneFor(ctx.Shard, time.Now()); ok {
		time.Local = z.Location()
		ctx.R.Path("runs-in-a-generated-time-zone", 1)
		if k := ctx.Shard % 10; k >= 6 {
			ctx.R.Path("runs-around-a-clock-change", 1)
		}
		ctx.R.Extra["time_zone"] = z.Name
	}
}

func engineHistModel(ctx *Ctx) {
	c16Zone(ctx)
	n := ctx.N(5000, 100000)
	base := filepath.Join(ctx.Scratch, "hm")
	c16LargeViews(ctx, vlib.NewRand(ctx.Seed, ctx.Shard, "histmodel/large"))
	var ops, completed int64
	for i := 0; i < n; i++ {
		r := vlib.NewRand(ctx.Seed, ctx.Shard, fmt.Sprintf("histmodel/%d", i))
		h := c16NewRun(ctx, r, i, base)
		ctx.R.Begin(h.descriptor())
		ctx.R.Eval(1)
		h.run()
		ops += int64(h.step)
		if !h.dead {
			completed++
		}
		if h.trims > 0 {
			ctx.R.Path("trim", 1)
		}
		if h.collapses > 0 {
			ctx.R.Path("collapse", 1)
		}
		if h.cycles > 0 {
			ctx.R.Path("save-load-cycles", 1)
		}
		if h.clears > 0 {
			ctx.R.Path("clear", 1)
		}
		if h.inval {
			ctx.R.Path("pool-with-invalid-utf8", 1)
		}
		for k := 0; k < h.inconcl; k++ {
			ctx.R.Inconcl("pattern view: containment depends on the reading of ignoring-case (special folds, invalid UTF-8 bytes)")
		}
		if !h.dead && h.trims > 0 && h.collapses > 0 && h.cycles > 0 {
			ctx.R.Nontriv("histmodel", h.max0, strings.Join(h.pool, "\x1e"), h.opsString(len(h.ops)))
			ctx.R.Sample(map[string]interface{}{"max": h.max0, "nops": len(h.ops), "trims": h.trims, "collapses": h.collapses,
				"save_load_cycles": h.cycles, "clears": h.clears})
		}
		os.RemoveAll(h.dir)
	}
	ctx.R.Extra["histmodel_operations"] = ops
	ctx.R.Extra["histmodel_histories_completed"] = completed
}

// ---------------------------------------------------------------------------
// histfiles

type c16File struct {
	Class   string // valid | variant | truncated | flipped | random | soup
	Desc    string
	Content []byte
}

var c16FileMaxes = []string{"-2147483648", "-5", "-1", "0", "1", "2", "100", "2147483647", "4611686018427387904"}

func c16JS(s string) string { b, _ := json.Marshal(s); return string(b) }

// c16ValidFile writes a history exactly the way Save lays it out
// (MarshalIndent, two spaces), with an arbitrary token as max_size.
func c16ValidFile(n int, maxSize string, lastQ bool, salt int) []byte {
	return c16ValidFileTS(n, maxSize, lastQ, salt, nil)
}

// c16ValidFileTS: tsOf (when non-nil) gives, for entry i, the index whose timestamp it carries: files whose entries are not
// in timestamp order (a clock that was set back, two files merged by hand, an entry dated in the future).
func c16ValidFileTS(n int, maxSize string, lastQ bool, salt int, tsOf func(i int) int) []byte {
	var b strings.Builder
	b.WriteString("{\n  \"entries\": [")
	t0 := time.Date(2025, 1, 2, 3, 4, 5, 123456789, time.UTC)
	qs := []string{"find files", "git commit", "docker run", "compress folder", "list processes", "héllo \"wörld\"", "tar"}
	for i := 0; i < n; i++ {
		if i > 0 {
			b.WriteString(",")
		}
		q := qs[(i+salt)%len(qs)]
		if lastQ && i == n-1 {
			q = "q"
		}
		ti := i
		if tsOf != nil {
			ti = tsOf(i)
		}
		fmt.Fprintf(&b, "\n    {\n      \"query\": %s,\n      \"timestamp\": %s,\n      \"results_count\": %d", c16JS(q),
			c16JS(t0.Add(time.Duration(ti*61+salt)*time.Second).Format(time.RFC3339Nano)), (i*3+salt)%11)
		if (i+salt)%2 == 0 {
			fmt.Fprintf(&b, ",\n      \"context\": %s", c16JS("git repository"))
		}
		if (i+salt)%3 != 0 {
			fmt.Fprintf(&b, ",\n      \"duration\": %d", 1+(i*7+salt)%40)
		}
		b.WriteString("\n    }")
	}
	if n > 0 {
		b.WriteString("\n  ")
	}
	fmt.Fprintf(&b, "],\n  \"max_size\": %s\n}", maxSize)
	return []byte(b.String())
}

func c16Catalogue() []c16File {
	var out []c16File
	add := func(class, desc, content string) { out = append(out, c16File{class, desc, []byte(content)}) }
	for _, m := range c16FileMaxes {
		for _, n := range []int{0, 1, 5} {
			for _, lq := range []bool{false, true} {
				if n == 0 && lq {
					continue
				}
				add("valid", fmt.Sprintf("as Save writes it: %d entries, max_size %s, last query is q: %v", n, m, lq), string(c16ValidFile(n, m, lq, 0)))
			}
		}
	}
	add("valid", "150 entries, max_size 100", string(c16ValidFile(150, "100", false, 1)))
	add("valid", "5000 entries, max_size 100", string(c16ValidFile(5000, "100", false, 2)))
	add("valid", "150 entries, max_size 0", string(c16ValidFile(150, "0", false, 3)))
	add("valid", "150 entries, max_size -1", string(c16ValidFile(150, "-1", true, 4)))
	for _, m := range []string{"9223372036854775807", "-9223372036854775808", "9223372036854775808", "-9223372036854775809", "1e2", "1.5", "-0", "-0.0", "1e400",
		"-1e400", "\"100\"", "\"-1\"", "null", "true", "false", "[]", "{}", "[-1]", "00", "0x10", "+5", "NaN", "Infinity", "-", "",
		"99999999999999999999999999999999999999999999999999999999999999999999999999999999", "-99999999999999999999999999999999999999999999"} {
		add("variant", "max_size token "+m, string(c16ValidFile(2, m, false, 0)))
		add("variant", "max_size token "+m+" first", fmt.Sprintf(`{"max_size": %s, "entries": [{"query":"a","timestamp":"2025-01-02T03:04:05Z","results_count":1}]}`, m))
	}
	entriesVals := []string{"null", `"x"`, "5", "{}", "[1,2]", "[null]", `["s"]`, `[{"query":5}]`, "[[]]", "true",
		`[{"query":"a","timestamp":"yesterday"}]`, `[{"query":"a","timestamp":0}]`, `[{"query":"a","timestamp":null}]`,
		`[{"query":null,"results_count":"3"}]`, `[{"results_count":1e40}]`, `[{"results_count":1e400}]`, `[{"duration":-1}]`, `[{"duration":9223372036854775808}]`, `[{}]`,
		`[{"query":"a","timestamp":"2025-01-02"}]`, `[{"query":"a","timestamp":"2025-01-02 03:04:05"}]`, `[{"query":"a","timestamp":"0000-00-00T00:00:00Z"}]`,
		`[{"query":"a","timestamp":"9999-12-31T23:59:59.999999999+23:59"}]`, `[{"query":"a","timestamp":"-0001-01-01T00:00:00Z"}]`,
		`[{"query":"a","timestamp":"0000-01-01T00:00:00-23:59"}]`,
		`[{"query":"a","timestamp":"2025-01-02T03:04:05"}]`, `[{"query":"a","timestamp":1735787045}]`, `[{"query":"a","timestamp":""}]`,
		`[{"query":"a","timestamp":"2016-12-31T23:59:60Z"}]`, `[{"query":"a","timestamp":"2025-01-02T03:04:05.1234567891234Z"}]`,
		`[{"query":"a","timestamp":"2025-01-02t03:04:05z"}]`, `[{"query":"a","timestamp":"2025-01-02T03:04:05+99:99"}]`,
		`[{"query":"q","timestamp":"2025-01-02T03:04:05Z"},{"query":"b","timestamp":"2020-01-01T00:00:00Z"}]`,
		`[{"query":"q","timestamp":"2999-01-02T03:04:05Z","results_count":7}]`,
		"[{\"query\":\"\xff\xfe\",\"context\":\"\xc3(\"}]", `[{"query":"\ud800 lone surrogate \u0000"}]`,
		`[{"QUERY":"upper keys","Timestamp":"2025-01-02T03:04:05Z","Results_Count":2}]`,
		`[{"query":"a","query":"q","timestamp":"2025-01-02T03:04:05Z"}]`}
	for _, v := range entriesVals {
		for _, m := range []string{"100", "-1", "0", "2"} {
			add("variant", "entries = "+v+", max_size "+m, fmt.Sprintf(`{"entries": %s, "max_size": %s}`, v, m))
			add("variant", "max_size "+m+" then entries = "+v, fmt.Sprintf(`{"max_size": %s, "entries": %s}`, m, v))
		}
	}
	e1 := `[{"query":"a","timestamp":"2025-01-02T03:04:05Z","results_count":1}]`
	for _, s := range []string{
		`{"max_size":5,"max_size":-1,"entries":` + e1 + `}`, `{"max_size":-1,"max_size":5,"entries":` + e1 + `}`,
		`{"entries":` + e1 + `,"entries":null,"max_size":0}`, `{"entries":null,"entries":` + e1 + `,"max_size":1}`,
		`{"MAX_SIZE":-1,"Entries":` + e1 + `}`, `{"Max_Size":0}`, `{"maxsize":-1,"max-size":-1,"MaxSize":-1}`,
		`{"entries":[],"max_size":100,"version":2,"file_path":"/etc/passwd","FilePath":"/tmp/x","-":"dash"}`,
		`{"entries":[]}`, `{"max_size":-1}`, `{"max_size":0}`, `{"max_size":1}`, `{}`, `{"entries":` + e1 + `}`,
		"null", "[]", "{}", "true", "false", "0", "-1", `""`, `"entries"`, " ", "\n", "\t\r\n ", "\xef\xbb\xbf{}", "\xef\xbb\xbf", "\x00", "{", "}", "[{}]", "[", "]",
		"{}{}", "{} x", "{}\n", "\n{\"max_size\":-1}\n\n", `{"max_size":-1} trailing`, "// comment\n{}", `{'max_size':-1}`, `{"max_size":-1,}`,
		"\xff\xfe{\x00}\x00", strings.Repeat("\x00", 64),
	} {
		add("variant", "hand-written "+vlib.Trunc(s, 60), s)
	}
	add("variant", "100000 x [", strings.Repeat("[", 100000))
	add("variant", "9999 [ then 9999 ]", strings.Repeat("[", 9999)+strings.Repeat("]", 9999))
	add("variant", "10001 [ then 10001 ]", strings.Repeat("[", 10001)+strings.Repeat("]", 10001))
	add("variant", "entries nested 5000 deep, max_size -1", `{"entries":`+strings.Repeat("[", 5000)+strings.Repeat("]", 5000)+`,"max_size":-1}`)
	add("variant", "max_size -1 then entries nested 5000 deep", `{"max_size":-1,"entries":`+strings.Repeat("[", 5000)+strings.Repeat("]", 5000)+`}`)
	add("variant", "objects nested 9000 deep", strings.Repeat(`{"a":`, 9000)+"1"+strings.Repeat("}", 9000))
	add("variant", "unknown key with nested garbage then max_size 0", `{"x":`+strings.Repeat(`[{"y":`, 800)+"null"+strings.Repeat("}]", 800)+`,"max_size":0,"entries":`+e1+`}`)
	add("variant", "1 MB query", `{"entries":[{"query":"`+strings.Repeat("a", 1<<20)+`","timestamp":"2025-01-02T03:04:05Z"}],"max_size":100}`)
	add("variant", "0 bytes", "")
	return out
}

func c16Mutate(r *rand.Rand, b []byte) ([]byte, string) {
	b = append([]byte(nil), b...)
	k := 1 + r.Intn(4)
	var what []string
	for i := 0; i < k && len(b) > 0; i++ {
		p := r.Intn(len(b))
		switch r.Intn(5) {
		case 0:
			b[p] ^= 1 << uint(r.Intn(8))
			what = append(what, fmt.Sprintf("bit@%d", p))
		case 1:
			b[p] = byte(r.Intn(256))
			what = append(what, fmt.Sprintf("byte@%d", p))
		case 2:
			b = append(b[:p], b[p+1:]...)
			what = append(what, fmt.Sprintf("del@%d", p))
		case 3:
			c := []byte(`{}[]",:-0123456789enull`)[r.Intn(23)]
			b = append(b[:p], append([]byte{c}, b[p:]...)...)
			what = append(what, fmt.Sprintf("ins %q@%d", c, p))
		case 4:
			q := r.Intn(len(b))
			b[p], b[q] = b[q], b[p]
			what = append(what, fmt.Sprintf("swap %d,%d", p, q))
		}
	}
	return b, strings.Join(what, ",")
}

func c16Soup(r *rand.Rand) []byte {
	toks := []string{"{", "}", "[", "]", ",", ":", `"entries"`, `"max_size"`, `"query"`, `"timestamp"`, `"results_count"`, `"context"`, `"duration"`,
		"null", "true", "-1", "0", "100", "1e9", "-5", `"q"`, `"2025-01-02T03:04:05Z"`, " ", "\n", `"`, `\`, "\x00", "-", "9223372036854775807"}
	n := 1 + r.Intn(40)
	var b strings.Builder
	for i := 0; i < n; i++ {
		b.WriteString(toks[r.Intn(len(toks))])
	}
	return []byte(b.String())
}

// c16RandomObject: a syntactically valid object with random value for each of the two keys.
func c16RandomObject(r *rand.Rand) []byte {
	num := func() string {
		switch r.Intn(8) {
		case 0:
			return fmt.Sprint(-r.Int63())
		case 1:
			return fmt.Sprint(r.Int63())
		case 2:
			return fmt.Sprint(r.Intn(7) - 3)
		case 3:
			return fmt.Sprint(-(1 + r.Intn(1000)))
		case 4:
			return fmt.Sprintf("%g", r.NormFloat64()*1e3)
		case 5:
			return c16FileMaxes[r.Intn(len(c16FileMaxes))]
		case 6:
			return "-" + strings.Repeat("9", 1+r.Intn(30))
		}
		return []string{"null", "true", `"7"`, "[]", "{}"}[r.Intn(5)]
	}
	ent := func() string {
		n := r.Intn(4)
		var es []string
		for i := 0; i < n; i++ {
			q := []string{`"q"`, `"a"`, `""`, "null", "5", `"find files"`}[r.Intn(6)]
			es = append(es, fmt.Sprintf(`{"query":%s,"timestamp":"2025-01-02T03:04:0%dZ","results_count":%s}`, q, i, num()))
		}
		return "[" + strings.Join(es, ",") + "]"
	}
	parts := []string{`"entries":` + ent(), `"max_size":` + num()}
	if r.Intn(2) == 0 {
		parts[0], parts[1] = parts[1], parts[0]
	}
	if r.Intn(4) == 0 {
		parts = append(parts, `"max_size":`+num())
	}
	return []byte("{" + strings.Join(parts, ",") + "}")
}

// c16WantEntries: when >= 0, the number of entries the file put in place is known to hold (files written by the generator
// exactly as Save lays them out); Load must give them back.
var c16WantEntries = -1

func c16RunFile(ctx *Ctx, path string, f c16File) {
	if err := os.WriteFile(path, f.Content, 0o644); err != nil {
		panic(err)
	}
	shown := string(f.Content)
	if len(shown) > 1500 {
		shown = shown[:700] + "...(" + fmt.Sprint(len(f.Content)) + " bytes)..." + shown[len(shown)-300:]
	}
	cs := map[string]interface{}{"engine": "histfiles", "class": f.Class, "desc": f.Desc, "bytes": len(f.Content), "content_quoted": vlib.Q(shown)}
	ctx.R.Begin(cs)
	ctx.R.Eval(1)

	trimmed := strings.TrimLeft(string(f.Content), " \t\r\n")
	isObject := strings.HasPrefix(trimmed, "{") && json.Valid(f.Content)
	if isObject || f.Class == "truncated" {
		ctx.R.Nontriv("histfiles", string(f.Content))
	}

	var sh *history.SearchHistory
	var lerr error
	if !ctx.R.Guard("C16", "Load", cs, func() {
		sh = history.NewSearchHistory(path, 100)
		lerr = sh.Load()
	}) {
		return
	}
	switch {
	case f.Class == "truncated":
		ctx.R.Path("files-truncated", 1)
	case isObject && lerr == nil:
		ctx.R.Path("files-valid", 1)
	default:
		ctx.R.Path("files-garbage", 1)
	}
	if lerr != nil {
		ctx.R.Path("files-load-error", 1)
	}
	cs["load_error"] = fmt.Sprint(lerr)
	cs["max_size_after_load"] = sh.MaxSize
	cs["entries_after_load"] = len(sh.Entries)
	// counted from the file itself (not from the object after Load, which a repaired loader sanitises)
	var probe struct {
		MaxSize *float64 `json:"max_size"`
	}
	if json.Unmarshal(f.Content, &probe) == nil && probe.MaxSize != nil && *probe.MaxSize <= 0 {
		ctx.R.Path("files-maxsize-nonpositive", 1)
	}
	if sh.MaxSize <= 0 {
		ctx.R.Path("object-maxsize-nonpositive-after-load", 1)
	}
	if c16WantEntries >= 0 && (lerr != nil || len(sh.Entries) != c16WantEntries) {
		ctx.R.Violate(vlib.Violation{Property: "C16", Clause: "roundtrip", Path: "Load",
			Detail: fmt.Sprintf("a history file laid out as Save writes it, holding %d entries (%d bytes), loads as %d entries (error: %v)", c16WantEntries, len(f.Content), len(sh.Entries), lerr), Witness: cs})
		return
	}
	addPath := "Load+AddEntry"
	if lerr != nil {
		addPath = "Load(err)+AddEntry"
	}
	nBefore := len(sh.Entries)
	lastWasQ := lerr == nil && nBefore > 0 && sh.Entries[nBefore-1].Query == "q"
	if !ctx.R.Guard("C16", addPath, cs, func() { sh.AddEntry("q", 1, "", time.Millisecond) }) {
		return
	}
	if lastWasQ {
		// the loaded log ends with the query that is searched again at once: the last entry is updated, none is added
		ctx.R.Path("files-ending-with-the-repeated-query", 1)
		if len(sh.Entries) > nBefore {
			ctx.R.Violate(vlib.Violation{Property: "C16", Clause: "repeat-added-an-entry", Path: addPath,
				Detail: fmt.Sprintf("the loaded history ends with query \"q\"; recording \"q\" again left %d entries instead of %d (last entry stamped %s)", len(sh.Entries), nBefore, sh.Entries[nBefore-1].Timestamp.Format(time.RFC3339)), Witness: cs})
		}
	}
	if n := len(sh.Entries); n == 0 || sh.Entries[n-1].Query != "q" || sh.Entries[n-1].ResultsCount != 1 {
		last := "none"
		if n > 0 {
			last = c16Show(sh.Entries[n-1].Query)
		}
		ctx.R.Violate(vlib.Violation{Property: "C16", Clause: "add-lost", Path: addPath,
			Detail: fmt.Sprintf("after Load (error: %v) the object has MaxSize %d; AddEntry(\"q\", 1) left %d entries, last query %s: the search was not recorded",
				lerr, sh.MaxSize, n, last), Witness: cs})
	}
	if lerr == nil {
		// bound and views on whatever the file held (entries without timestamps, more entries than the maximum, ...)
		if sh.MaxSize > 0 && len(sh.Entries) > sh.MaxSize {
			ctx.R.Violate(vlib.Violation{Property: "C16", Clause: "bound", Path: addPath,
				Detail: fmt.Sprintf("after Load and one recorded search the history holds %d entries, its maximum is %d", len(sh.Entries), sh.MaxSize), Witness: cs})
		}
		ctx.R.Guard("C16", "views-after-load", cs, func() {
			n := len(sh.Entries)
			before := append([]history.SearchEntry(nil), sh.Entries...)
			defer func() { // the views only read: afterwards the log holds the same entries in the same order
				same := len(sh.Entries) == len(before)
				for i := 0; same && i < len(before); i++ {
					same = sh.Entries[i].Query == before[i].Query && sh.Entries[i].Timestamp.Equal(before[i].Timestamp) && sh.Entries[i].ResultsCount == before[i].ResultsCount
				}
				if !same {
					ctx.R.Violate(vlib.Violation{Property: "C16", Clause: "content", Path: "Load+views",
						Detail: "asking for the recent / top / statistics views changed the entries or their order", Witness: cs})
				}
			}()
			distinct := map[string]int{}
			for _, e := range sh.Entries {
				distinct[e.Query]++
			}
			top := sh.GetTopQueries(n + 10)
			sum, rows := 0, map[string]bool{}
			for _, t := range top {
				sum += t.Count
				if rows[t.Query] || distinct[t.Query] != t.Count {
					ctx.R.Violate(vlib.Violation{Property: "C16", Clause: "top", Path: "Load+GetTopQueries",
						Detail: fmt.Sprintf("top view reports %s x%d, the entries hold it %d time(s) (row repeated: %v)", c16Show(t.Query), t.Count, distinct[t.Query], rows[t.Query]), Witness: cs})
					return
				}
				rows[t.Query] = true
			}
			if sum != n {
				ctx.R.Violate(vlib.Violation{Property: "C16", Clause: "top", Path: "Load+GetTopQueries",
					Detail: fmt.Sprintf("frequencies of the top view sum to %d, the history has %d entries (%d distinct queries, %d rows)", sum, n, len(distinct), len(top)), Witness: cs})
			}
			st := sh.GetStats()
			if st.TotalSearches != n || st.UniqueQueries != len(distinct) {
				ctx.R.Violate(vlib.Violation{Property: "C16", Clause: "stats", Path: "Load+GetStats",
					Detail: fmt.Sprintf("statistics report %d searches / %d unique, the entries are %d / %d", st.TotalSearches, st.UniqueQueries, n, len(distinct)), Witness: cs})
			}
			rec := sh.GetRecentQueries(n + 10)
			seenR := map[string]bool{}
			for _, q := range rec {
				if seenR[q] {
					ctx.R.Violate(vlib.Violation{Property: "C16", Clause: "recent", Path: "Load+GetRecentQueries", Detail: "recent view repeats " + c16Show(q), Witness: cs})
					return
				}
				seenR[q] = true
			}
			if len(rec) != len(distinct) || (n > 0 && (len(rec) == 0 || rec[0] != sh.Entries[n-1].Query)) {
				ctx.R.Violate(vlib.Violation{Property: "C16", Clause: "recent", Path: "Load+GetRecentQueries",
					Detail: fmt.Sprintf("recent view has %d queries for %d distinct ones, or does not start with the newest entry", len(rec), len(distinct)), Witness: cs})
			}
			ctx.R.Path("files-views-checked", 1)
		})
	}
	var serr error
	afterAdd := append([]history.SearchEntry(nil), sh.Entries...)
	if !ctx.R.Guard("C16", "Save", cs, func() { serr = sh.Save() }) {
		return
	}
	if serr != nil {
		ctx.R.Path("files-save-error", 1)
	}
	if lerr == nil {
		// a history that loaded, with the search just recorded, is saved and read back: the same entries
		if serr != nil {
			ctx.R.Violate(vlib.Violation{Property: "C16", Clause: "roundtrip", Path: "Load+AddEntry+Save",
				Detail: fmt.Sprintf("the file loaded (%d entries); after recording one search Save fails: %v", nBefore, serr), Witness: cs})
			return
		}
		var back *history.SearchHistory
		var berr error
		if !ctx.R.Guard("C16", "Load+AddEntry+Save+Load", cs, func() {
			back = history.NewSearchHistory(path, sh.MaxSize)
			berr = back.Load()
		}) {
			return
		}
		want := afterAdd
		if sh.MaxSize > 0 && len(want) > sh.MaxSize {
			want = want[len(want)-sh.MaxSize:]
		}
		diff := ""
		switch {
		case berr != nil:
			diff = "Load of the file just saved fails: " + berr.Error()
		case len(back.Entries) != len(want):
			diff = fmt.Sprintf("%d entries were saved, %d come back", len(want), len(back.Entries))
		default:
			for i := range want {
				if c16Coerce(want[i].Query) != back.Entries[i].Query || !want[i].Timestamp.Equal(back.Entries[i].Timestamp) || want[i].ResultsCount != back.Entries[i].ResultsCount {
					diff = fmt.Sprintf("entry %d was saved as (%s, %s, %d) and comes back as (%s, %s, %d)", i, c16Show(want[i].Query), want[i].Timestamp.Format(time.RFC3339Nano), want[i].ResultsCount,
						c16Show(back.Entries[i].Query), back.Entries[i].Timestamp.Format(time.RFC3339Nano), back.Entries[i].ResultsCount)
					break
				}
			}
		}
		if diff != "" {
			ctx.R.Violate(vlib.Violation{Property: "C16", Clause: "roundtrip", Path: "Load+AddEntry+Save+Load", Detail: diff, Witness: cs})
			return
		}
		ctx.R.Path("files-saved-and-read-back", 1)
	}
	ctx.R.Guard("C16", "GetRecentQueries", cs, func() { sh.GetRecentQueries(5) })
	ctx.R.Guard("C16", "GetTopQueries", cs, func() { sh.GetTopQueries(5) })
	ctx.R.Guard("C16", "GetStats", cs, func() { sh.GetStats() })
	ctx.R.Guard("C16", "GetEntriesByPattern", cs, func() { sh.GetEntriesByPattern("q") })
}

func engineHistFiles(ctx *Ctx) {
	r := vlib.NewRand(ctx.Seed, ctx.Shard, "histfiles")
	dir := filepath.Join(ctx.Scratch, "hf", "wtf")
	if err := os.MkdirAll(dir, 0o755); err != nil {
		panic(err)
	}
	path := filepath.Join(dir, "search_history.json")
	c16Zone(ctx)

	// 1. the hand-written catalogue, dealt over the shards
	for i, f := range c16Catalogue() {
		if i%ctx.NShards == ctx.Shard {
			c16RunFile(ctx, path, f)
		}
	}
	// 1b. entries dated at the ends of the representable years, with and without zone offsets: every shard (each in its own zone)
	for _, ts := range []string{"9999-12-31T23:59:59Z", "9999-12-31T23:59:59.999999999Z", "9999-12-31T21:15:00-05:00", "9999-12-31T23:59:59-00:01",
		"9999-12-31T12:00:00-12:00", "9999-12-31T23:59:59+14:00", "9999-12-31T10:00:00+00:00", "0000-01-01T00:00:00Z", "0000-01-01T00:30:00+01:00",
		"0000-01-01T00:00:00+00:01", "0000-01-01T13:59:59+14:00", "0000-01-01T00:00:00-12:00", "0001-01-01T00:00:00Z", "1970-01-01T00:00:00Z",
		"1969-12-31T23:59:59.999999999-00:01", "2038-01-19T03:14:08Z", "2262-04-11T23:47:16.854775808Z", "1677-09-21T00:12:43.145224191Z"} {
		for _, second := range []string{"", `,{"query":"later","timestamp":"2025-06-01T12:00:00+02:00","results_count":2}`} {
			c16WantEntries = 1 + len(second)/40
			c16RunFile(ctx, path, c16File{"valid", "entry dated " + ts + " (" + fmt.Sprint(c16WantEntries) + " entries)",
				[]byte(`{"entries":[{"query":"old","timestamp":"` + ts + `","results_count":1}` + second + `],"max_size":100}`)})
			c16WantEntries = -1
			ctx.R.Path("files-dated-at-the-ends-of-the-calendar", 1)
		}
	}
	// 2. every truncation of valid 5-entry files (all shards together cover every offset)
	nBase := ctx.Pick(1, 20)
	for k := 0; k < nBase; k++ {
		base := c16ValidFile(5, c16FileMaxes[(6+k)%len(c16FileMaxes)], k%3 == 1, k)
		for off := 0; off < len(base); off++ {
			if (off+k)%ctx.NShards == ctx.Shard {
				c16RunFile(ctx, path, c16File{"truncated", fmt.Sprintf("valid 5-entry file #%d (%d bytes) cut at byte %d", k, len(base), off), base[:off]})
			}
		}
	}
	// 2b. the same with a byte-order mark in front (what some editors put there), every offset
	for k := 0; k < ctx.Pick(1, 4); k++ {
		base := append([]byte("\xef\xbb\xbf"), c16ValidFile(2, "100", false, k)...)
		for off := 0; off < len(base); off++ {
			if (off+k)%ctx.NShards == ctx.Shard {
				c16RunFile(ctx, path, c16File{"truncated", fmt.Sprintf("BOM + valid 2-entry file #%d (%d bytes) cut at byte %d", k, len(base), off), base[:off]})
			}
		}
	}
	// 2c. every file of one and of two bytes; every file of three (thorough: four) bytes over the bytes that mean something to a
	// JSON / UTF-8 reader
	sig := []byte{0x00, 0x09, 0x0a, 0x0d, 0x20, '"', '-', '0', '1', '[', ']', '{', '}', 'n', 't', 'f', ',', ':', '\\', '/', 0x7f, 0x80, 0xbb, 0xbf, 0xc0, 0xc3, 0xef, 0xfe, 0xff, 'a'}
	idx := 0
	short := func(b []byte) {
		idx++
		if idx%ctx.NShards == ctx.Shard {
			c16RunFile(ctx, path, c16File{"short", fmt.Sprintf("the %d bytes % x", len(b), b), b})
			ctx.R.Path("files-short-exhaustive", 1)
		}
	}
	for a := 0; a < 256; a++ {
		short([]byte{byte(a)})
		for b := 0; b < 256; b++ {
			short([]byte{byte(a), byte(b)})
		}
	}
	for _, a := range sig {
		for _, b := range sig {
			for _, c := range sig {
				short([]byte{a, b, c})
				if ctx.Thorough {
					for _, d := range sig {
						short([]byte{a, b, c, d})
					}
				}
			}
		}
	}
	// 2d. valid files whose entries are not in timestamp order
	for k := 0; k < ctx.Pick(48, 960); k++ {
		if k%ctx.NShards != ctx.Shard {
			continue
		}
		nn := []int{2, 3, 5, 8, 99, 100, 101}[r.Intn(7)]
		perm := r.Perm(nn)
		mode := k % 5
		tsOf := func(i int) int {
			switch mode {
			case 4:
				if i == nn-1 {
					return 20000000 // the last entry is dated decades ahead (a clock that was wrong, a file from another machine)
				}
				return i
			case 0:
				return nn - 1 - i // newest first
			case 1:
				return perm[i]
			case 2:
				return 0 // all equal
			default:
				if i == nn/2 {
					return 1000000 // one entry dated far in the future
				}
				return i
			}
		}
		f := c16File{"valid", fmt.Sprintf("as Save writes it: %d entries, timestamps %s", nn, []string{"descending", "shuffled", "all equal", "one in the future", "last one in the future"}[mode]),
			c16ValidFileTS(nn, []string{"100", "100", "5", "1000"}[r.Intn(4)], mode == 4 || r.Intn(3) == 0, r.Intn(50), tsOf)}
		c16RunFile(ctx, path, f)
		ctx.R.Path("files-timestamps-out-of-order", 1)
	}
	// 2e. large histories (long queries are legal: the CLI accepts 1000 bytes, the library any string): 1-17 MiB on disk
	for k, spec := range [][2]int{{100, 11 << 10}, {100, 50 << 10}, {1, 6 << 20}, {90, 100 << 10}, {100, 170 << 10}, {3, 3 << 20}} {
		if k%ctx.NShards != ctx.Shard {
			continue
		}
		nE, qLen := spec[0], spec[1]
		var b strings.Builder
		b.WriteString("{\n  \"entries\": [")
		for i := 0; i < nE; i++ {
			if i > 0 {
				b.WriteString(",")
			}
			fmt.Fprintf(&b, "\n    {\n      \"query\": \"%s %d\",\n      \"timestamp\": \"2025-03-04T05:06:%02d.5Z\",\n      \"results_count\": %d\n    }", strings.Repeat("longquery ", qLen/10), i, i%60, i%9)
		}
		b.WriteString("\n  ],\n  \"max_size\": 100\n}")
		c16WantEntries = nE
		c16RunFile(ctx, path, c16File{"valid", fmt.Sprintf("as Save writes it: %d entries with queries of %d bytes", nE, qLen), []byte(b.String())})
		c16WantEntries = -1
		ctx.R.Path("files-large", 1)
		if b.Len() > 4<<20 {
			ctx.R.Path("files-over-4MiB", 1)
		}
	}
	// 3. generated
	n := ctx.N(2300, 46000)
	for i := 0; i < n; i++ {
		var f c16File
		switch x := r.Intn(100); {
		case x < 30:
			base := c16ValidFile(r.Intn(7), c16FileMaxes[r.Intn(len(c16FileMaxes))], r.Intn(3) == 0, r.Intn(50))
			b, what := c16Mutate(r, base)
			f = c16File{"flipped", "valid file with " + what, b}
		case x < 55:
			f = c16File{"random-object", "random values for entries / max_size", c16RandomObject(r)}
		case x < 70:
			b := make([]byte, r.Intn(300))
			r.Read(b)
			f = c16File{"random", "random bytes", b}
		case x < 85:
			f = c16File{"soup", "random JSON tokens", c16Soup(r)}
		default:
			nn := []int{0, 1, 2, 5, 99, 100, 101, 120}[r.Intn(8)]
			m := c16FileMaxes[r.Intn(len(c16FileMaxes))]
			lq := r.Intn(3) == 0
			f = c16File{"valid", fmt.Sprintf("as Save writes it: %d entries, max_size %s, last query is q: %v", nn, m, lq), c16ValidFile(nn, m, lq, r.Intn(50))}
		}
		c16RunFile(ctx, path, f)
	}
}

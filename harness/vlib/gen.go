// Package vlib holds the generators, reference models and monitors shared by
// every wtfmon engine. It is compiled inside the WTF module through a build
// overlay (see /verif/lib/build.py), so it may import the internal packages.
package vlib

import (
	"encoding/json"
	"fmt"
	"math/rand"
	"os"
	"path/filepath"
	"sort"
	"strings"
	"sync/atomic"

	"github.com/Vedant9500/WTF/internal/database"
	"gopkg.in/yaml.v3"
)

// Cmd is the entry type of the database under test.
type Cmd = database.Command

// NewRand gives one deterministic PRNG per (seed, shard, salt).
func NewRand(seed int64, shard int, salt string) *rand.Rand {
	h := uint64(seed)*0x9E3779B97F4A7C15 + uint64(shard)*0xBF58476D1CE4E5B9
	for _, c := range []byte(salt) {
		h = (h ^ uint64(c)) * 0x100000001B3
	}
	return rand.New(rand.NewSource(int64(h & 0x7fffffffffffffff)))
}

// ---------------------------------------------------------------------------
// Vocabulary: deliberately small so that collisions, ties and multi-field hits
// are the norm. The lists repeat words the NLP tables know about (they are
// plain English; nothing here is read from the code under test).

var ActionWords = []string{"find", "search", "locate", "list", "show", "display", "view", "see", "read",
	"create", "make", "build", "generate", "new", "edit", "modify", "change", "update", "manage",
	"delete", "remove", "destroy", "clean", "run", "execute", "start", "launch", "install", "setup", "add",
	"compress", "extract", "archive", "pack", "unpack", "decompress", "copy", "move", "rename", "kill", "stop", "terminate", "look", "check"}

var TargetWords = []string{"file", "files", "folder", "directory", "directories", "path", "contents", "content",
	"archive", "archives", "zip", "tar", "process", "processes", "service", "services", "daemon", "task", "tasks",
	"server", "port", "connection", "url", "website", "ip", "network", "interface", "project", "repository", "repo",
	"branch", "commit", "code", "permission", "permissions", "user", "group"}

var SynonymWords = []string{"folders", "print", "cat", "download", "upload", "running", "compile", "deploy", "test"}

var StopWordList = []string{"a", "an", "and", "are", "as", "at", "be", "by", "for", "from", "in", "is", "it", "of", "on",
	"the", "to", "with", "this", "how", "if", "up", "out", "into", "go", "no", "my", "get", "time", "first", "part", "now", "down"}

var ToolWords = []string{"git", "docker", "tar", "grep", "find", "sed", "awk", "curl", "wget", "ssh", "rsync", "ls", "cat",
	"cp", "mv", "rm", "mkdir", "rmdir", "chmod", "chown", "ps", "top", "npm", "pip", "kubectl", "gzip", "zip", "unzip",
	"makepkg", "vim", "nano", "df", "du", "netstat", "ipconfig", "apt", "brew", "cargo", "conda"}

// Non-whitelisted pseudo tools (never in any cross-platform whitelist).
var PseudoTools = []string{"qzx", "blorp", "fnarg", "wibble", "zuntool", "krmpf", "vexil", "ombat"}

var IntentWords = []string{"text", "inside", "installation", "config", "configuration", "execution", "chmod",
	"disk", "space", "usage", "storage", "log", "logs", "replace", "editor", "package", "packages", "remote",
	"windows", "without", "opening", "editing", "extract", "tools", "analysis"}

var FillerWords = []string{"alpha", "bravo", "delta", "gamma", "kilo", "lima", "omega", "sigma", "zeta", "theta",
	"quick", "slow", "large", "small", "recursive", "verbose", "output", "input", "backup", "restore", "mount", "sync",
	"x1", "v2", "k8s", "utf8", "0x1f", "123", "42", "re2"}

var PlatformVocab = []string{"linux", "macos", "windows", "cross-platform", "darwin", "unix", "bash", "zsh", "cmd",
	"powershell", "windows-cmd", "Linux", "MACOS", "Windows", "android", "freebsd", "plan9", ""}

// Platforms outside every alias family: an entry tagged only with these can
// never be eligible on any host unless AllPlatforms / tool rule.
var AlienPlatforms = []string{"android", "freebsd", "plan9", "haiku", "amigaos"}

func pick(r *rand.Rand, xs []string) string { return xs[r.Intn(len(xs))] }

// RandWord returns a pseudo word of 2..8 lower-case letters.
func RandWord(r *rand.Rand) string {
	n := 2 + r.Intn(7)
	b := make([]byte, n)
	for i := range b {
		b[i] = byte('a' + r.Intn(26))
	}
	return string(b)
}

// Word draws one word from the mixed vocabulary.
func Word(r *rand.Rand, local []string) string {
	switch k := r.Intn(100); {
	case k < 30 && len(local) > 0:
		return pick(r, local)
	case k < 45:
		return pick(r, ActionWords)
	case k < 60:
		return pick(r, TargetWords)
	case k < 68:
		return pick(r, ToolWords)
	case k < 74:
		return pick(r, IntentWords)
	case k < 78:
		return pick(r, SynonymWords)
	case k < 84:
		return pick(r, StopWordList)
	default:
		return pick(r, FillerWords)
	}
}

// Non-ASCII fragments. U+0130 and U+212A (the code points whose lower-case is an ASCII letter) are kept out: for them
// "lower-case then normalise" and "normalise then lower-case" legitimately differ (the C20 statement carves them out too);
// they appear only in the hostile class used by C10.
var unicodeBits = []string{"café", "naïve", "Ünïcode", "日本語", "файл", "αρχείο", "😀", "ﬁle", "straße", "ǅ", "ÀÉÎ", "Ω"}
var hostileUnicode = []string{"İstanbul", "\u212a", "ı", "ſ"}
var punctBits = []string{"-", "--", "_", ".", "/", "\\", "'", "\"", "*", "{}", "[]", "()", "!", "?", "#", "%", "@", "~", "+", "=", ":", ","}

func caseMangle(r *rand.Rand, w string) string {
	switch r.Intn(6) {
	case 0:
		return strings.ToUpper(w)
	case 1:
		if rs := []rune(w); len(rs) > 0 { // rune-aware: never cut a multi-byte character
			return strings.ToUpper(string(rs[:1])) + string(rs[1:])
		}
	}
	return w
}

// DBSpec steers GenCommands.
type DBSpec struct {
	N         int
	TieHeavy  bool // many identical / near-identical entries
	Platforms int  // 0 none, 1 mixed vocabulary, 2 half alien-only (unambiguous negatives)
	Unicode   bool // sprinkle non-ASCII and punctuation
	Pipelines bool // pipeline flags and pipeline-looking commands
	Hostile   bool // NUL, controls, invalid UTF-8 (only where the property allows)
	PseudoCmd bool // commands start with non-whitelisted pseudo tools only
	MixedCase bool
}

// GenCommands draws a database. A local vocabulary of a few random words is
// shared by all entries so unknown words collide as well.
func GenCommands(r *rand.Rand, sp DBSpec) []Cmd {
	local := make([]string, 3+r.Intn(6))
	for i := range local {
		local[i] = RandWord(r)
	}
	mk := func() Cmd {
		var c Cmd
		tool := pick(r, ToolWords)
		if sp.PseudoCmd || r.Intn(5) == 0 {
			tool = pick(r, PseudoTools)
		}
		parts := []string{tool}
		for i, n := 0, r.Intn(4); i < n; i++ {
			switch r.Intn(4) {
			case 0:
				parts = append(parts, "-"+string(rune('a'+r.Intn(26))))
			case 1:
				parts = append(parts, "--"+Word(r, local))
			default:
				parts = append(parts, Word(r, local))
			}
		}
		c.Command = strings.Join(parts, " ")
		if sp.Pipelines && r.Intn(3) == 0 {
			c.Command += pick(r, []string{" | ", " && ", " >> ", " pipe "}) + pick(r, ToolWords) + " " + Word(r, local)
		}
		nd := 1 + r.Intn(8)
		if r.Intn(12) == 0 {
			nd = 0
		}
		d := make([]string, nd)
		for i := range d {
			d[i] = Word(r, local)
		}
		c.Description = strings.Join(d, " ")
		for i, n := 0, r.Intn(5); i < n; i++ {
			kw := Word(r, local)
			if r.Intn(6) == 0 {
				kw += pick(r, []string{"-", "_", ".", " "}) + Word(r, local)
			}
			c.Keywords = append(c.Keywords, kw)
		}
		for i, n := 0, r.Intn(3); i < n; i++ {
			c.Tags = append(c.Tags, Word(r, local))
		}
		if r.Intn(3) == 0 {
			c.Niche = pick(r, []string{"git", "docker", "system", "network", Word(r, local)})
		}
		if sp.Pipelines {
			c.Pipeline = r.Intn(4) == 0
		}
		switch sp.Platforms {
		case 1:
			for i, n := 0, r.Intn(4); i < n; i++ {
				c.Platform = append(c.Platform, pick(r, PlatformVocab))
			}
		case 2:
			switch r.Intn(4) {
			case 0: // alien only
				c.Platform = []string{pick(r, AlienPlatforms)}
				if r.Intn(2) == 0 {
					c.Platform = append(c.Platform, pick(r, AlienPlatforms))
				}
			case 1:
				c.Platform = []string{pick(r, PlatformVocab)}
			case 2:
				c.Platform = []string{pick(r, []string{"linux", "windows", "macos"}), pick(r, PlatformVocab)}
			}
		}
		if sp.Unicode && r.Intn(3) == 0 {
			c.Description += " " + pick(r, unicodeBits) + pick(r, punctBits) + Word(r, local)
			if r.Intn(2) == 0 {
				c.Command += " " + pick(r, punctBits) + pick(r, unicodeBits)
			}
			if r.Intn(3) == 0 {
				c.Keywords = append(c.Keywords, pick(r, unicodeBits))
			}
		}
		if sp.MixedCase && r.Intn(2) == 0 {
			c.Command = mangleWords(r, c.Command)
			c.Description = mangleWords(r, c.Description)
			for i := range c.Keywords {
				c.Keywords[i] = caseMangle(r, c.Keywords[i])
			}
			for i := range c.Tags {
				c.Tags[i] = caseMangle(r, c.Tags[i])
			}
		}
		if sp.Hostile && r.Intn(3) == 0 {
			h := pick(r, []string{hostileUnicode[0], hostileUnicode[1], hostileUnicode[2], hostileUnicode[3], "\x00", "\x01", "\x7f", "\xff", "\xc3\x28", "\xed\xa0\x80", "\u0085", "\u2028", "\ufeff", "\t", "\n", "\r\n"})
			switch r.Intn(4) {
			case 0:
				c.Command += h
			case 1:
				c.Description = h + c.Description
			case 2:
				c.Keywords = append(c.Keywords, h+Word(r, local))
			default:
				c.Command = c.Command[:len(c.Command)/2] + h + c.Command[len(c.Command)/2:]
			}
		}
		return c
	}
	out := make([]Cmd, 0, sp.N)
	for len(out) < sp.N {
		c := mk()
		out = append(out, c)
		if sp.TieHeavy {
			for k := r.Intn(4); k > 0 && len(out) < sp.N; k-- {
				d := cloneCmd(c)
				switch r.Intn(8) {
				case 7: // same text, declared for other platforms (a notebook copy of a shipped entry, re-tagged): one of the two is
					// eligible under a platform restriction, the other is not, in either order
					if sp.Platforms > 0 {
						switch r.Intn(3) {
						case 0:
							d.Platform = []string{pick(r, AlienPlatforms)}
						case 1:
							d.Platform = nil
						default:
							d.Platform = []string{pick(r, []string{"linux", "windows", "macos"})}
						}
					} else {
						d.Pipeline = !d.Pipeline
					}
				case 4: // differs only in its tags
					d.Tags = []string{Word(r, local)}
					if r.Intn(2) == 0 {
						d.Tags = append(d.Tags, Word(r, local))
					}
				case 5: // differs only in its keywords
					d.Keywords = append([]string{Word(r, local)}, d.Keywords...)
				case 6: // differs only in platform / pipeline attributes (not indexed)
					d.Pipeline = !d.Pipeline
				case 0: // exact duplicate
				case 1: // differs only in an unindexed field
					d.Niche = Word(r, local)
				case 2: // same words, other order in description
					w := strings.Fields(d.Description)
					r.Shuffle(len(w), func(i, j int) { w[i], w[j] = w[j], w[i] })
					d.Description = strings.Join(w, " ")
				case 3: // differs in command flag letter only (1-byte token, not indexed)
					d.Command += " -" + string(rune('a'+r.Intn(26)))
				}
				out = append(out, d)
			}
		}
	}
	return out
}

func mangleWords(r *rand.Rand, s string) string {
	w := strings.Split(s, " ")
	for i := range w {
		w[i] = caseMangle(r, w[i])
	}
	return strings.Join(w, " ")
}

func cloneCmd(c Cmd) Cmd {
	d := c
	d.Keywords = append([]string(nil), c.Keywords...)
	d.Tags = append([]string(nil), c.Tags...)
	d.Platform = append([]string(nil), c.Platform...)
	return d
}

// StripCaches returns the entries without the loader-populated lower-case
// caches (what a YAML file holds).
func StripCaches(cmds []Cmd) []Cmd {
	out := make([]Cmd, len(cmds))
	for i, c := range cmds {
		d := cloneCmd(c)
		d.CommandLower, d.DescriptionLower, d.KeywordsLower, d.TagsLower = "", "", nil, nil
		out[i] = d
	}
	return out
}

// ---------------------------------------------------------------------------
// Scratch files. Every engine gets -scratch <dir>; files are created below it.

var ScratchDir = os.TempDir()
var scratchSeq int64

func ScratchPath(name string) string {
	n := atomic.AddInt64(&scratchSeq, 1)
	return filepath.Join(ScratchDir, fmt.Sprintf("%d_%d_%s", os.Getpid(), n, name))
}

// WriteYAML serialises entries the way `wtf save` does.
func WriteYAML(path string, cmds []Cmd) error {
	data, err := yaml.Marshal(StripCaches(cmds))
	if err != nil {
		return err
	}
	return os.WriteFile(path, data, 0o644)
}

// LoadCommands sends the entries through the real loader (YAML file ->
// LoadDatabase), so lower-case caches, index and TF-IDF re-ranker are real.
func LoadCommands(cmds []Cmd) (*database.Database, error) {
	p := ScratchPath("db.yml")
	defer os.Remove(p)
	if err := WriteYAML(p, cmds); err != nil {
		return nil, err
	}
	return database.LoadDatabase(p)
}

// MustLoad panics on loader errors (generator bug or loader defect; engines
// recover and report).
func MustLoad(cmds []Cmd) *database.Database {
	db, err := LoadCommands(cmds)
	if err != nil {
		panic(fmt.Sprintf("LoadCommands: %v", err))
	}
	return db
}

// ---------------------------------------------------------------------------
// Queries

// DBWords lists the distinct reference tokens of a database (sorted).
func DBWords(cmds []Cmd) []string {
	set := map[string]bool{}
	for i := range cmds {
		for _, f := range FieldTexts(&cmds[i]) {
			for _, t := range Tokenize(f) {
				set[t] = true
			}
		}
	}
	out := make([]string, 0, len(set))
	for w := range set {
		out = append(out, w)
	}
	sort.Strings(out)
	return out
}

// Misspell applies one edit to w.
func Misspell(r *rand.Rand, w string) string {
	if len(w) < 3 {
		return w + w
	}
	b := []byte(w)
	i := 1 + r.Intn(len(b)-1)
	switch r.Intn(4) {
	case 0: // drop
		return string(append(b[:i:i], b[i+1:]...))
	case 1: // swap
		if i+1 < len(b) {
			b[i], b[i+1] = b[i+1], b[i]
		}
		return string(b)
	case 2: // double
		return string(b[:i]) + string(b[i]) + string(b[i:])
	default: // replace
		b[i] = byte('a' + r.Intn(26))
		return string(b)
	}
}

// GenQuery draws a query of nWords words over the database words and the
// shared vocabulary. kind: 0 plain, 1 with stop words / punctuation, 2 typo.
func GenQuery(r *rand.Rand, dbWords []string, nWords int, kind int) string {
	ws := make([]string, 0, nWords+4)
	for len(ws) < nWords {
		var w string
		if len(dbWords) > 0 && r.Intn(3) > 0 {
			w = pick(r, dbWords)
		} else {
			w = Word(r, nil)
		}
		if kind == 2 {
			w = Misspell(r, w)
		}
		ws = append(ws, w)
		if kind == 1 && r.Intn(3) == 0 {
			ws = append(ws, pick(r, StopWordList))
		}
	}
	q := strings.Join(ws, " ")
	if kind == 1 && r.Intn(3) == 0 {
		q = strings.Replace(q, " ", pick(r, []string{", ", " - ", "  ", ". ", "/", "_"}), 1)
	}
	return q
}

// RandomOptions samples SearchOptions; n is the database size.
func RandomOptions(r *rand.Rand, n int, boostWords []string) database.SearchOptions {
	lim := []int{-3, 0, 1, 2, 3, 5, 10, n, n + 7}
	o := database.SearchOptions{
		Limit:          lim[r.Intn(len(lim))],
		UseNLP:         r.Intn(2) == 0,
		UseFuzzy:       r.Intn(2) == 0,
		FuzzyThreshold: []int{0, 0, -30, -5, 1, 40}[r.Intn(6)],
		PipelineOnly:   r.Intn(6) == 0,
		PipelineBoost:  []float64{0, 0, 0.5, 2}[r.Intn(4)],
		TopTermsCap:    []int{0, 0, 0, 1, 4, 10, 50}[r.Intn(7)],
		AllPlatforms:   r.Intn(2) == 0,
	}
	if r.Intn(3) == 0 {
		for i, k := 0, 1+r.Intn(2); i < k; i++ {
			o.Platforms = append(o.Platforms, pick(r, []string{"linux", "windows", "macos", "Darwin", "cross-platform"}))
		}
	}
	o.NoCrossPlatform = r.Intn(5) == 0
	if r.Intn(3) == 0 && len(boostWords) > 0 {
		o.ContextBoosts = map[string]float64{}
		for i, k := 0, 1+r.Intn(4); i < k; i++ {
			// (mostly ordinary factors; now and then a tiny or subnormal one - a positive number whose products underflow to zero)
			o.ContextBoosts[pick(r, boostWords)] = []float64{1, 1.3, 1.5, 2, 3, 10, 1e3, 1e6, 1, 1.5, 2, 3, 0.25, 1e-300, 1e-310, 5e-324}[r.Intn(16)]
		}
	}
	return o
}

// OddCaseWords: text whose case mappings change the encoded length (a buffer sized from the input is too small or too
// large after folding): U+023A / U+023E grow from 2 to 3 bytes when lower-cased, U+212A and U+1E9E shrink, U+0130
// lower-cases to one byte rune-wise and to three bytes string-wise, U+01C5 is a title-case digraph.
var OddCaseWords = []string{"\u023a", "\u023e", "\u023a\u023e", "\u023e\u023e\u023e", "x\u023a", "\u023a\u023ey\u023a\u023e\u023a", "\u212a\u212a", "\u1e9e", "\u0130\u0130", "\u01c5", "\ufb03"}

// WithOddCase glues or appends one of OddCaseWords to a query that keeps its ordinary words.
func WithOddCase(r *rand.Rand, q string) string {
	w := OddCaseWords[r.Intn(len(OddCaseWords))]
	switch r.Intn(3) {
	case 0:
		return q + " " + w
	case 1:
		return q + w
	default:
		return w + " " + q + " " + w + w
	}
}

// Request is a query with its options.
type Request struct {
	Q string
	O database.SearchOptions
}

// SmuggledPairs builds pairs of different requests (A, B) in which a free-text field of one spells out the scalar options of
// the other behind a separator: if a request is ever identified by its fields written one after the other without quoting or
// length prefixes (query, then the scalar options in declaration order, then the platform names), A and B read the same.
// A carries oA and B carries oB (their Platforms are replaced); q should have matches so that the answers differ by limit.
func SmuggledPairs(q string, oA, oB database.SearchOptions) [][2]Request {
	scalars := func(o database.SearchOptions) []string {
		return []string{fmt.Sprint(o.Limit), fmt.Sprint(o.PipelineOnly), fmt.Sprint(o.PipelineBoost), fmt.Sprint(o.UseFuzzy), fmt.Sprint(o.FuzzyThreshold),
			fmt.Sprint(o.UseNLP), fmt.Sprint(o.TopTermsCap), fmt.Sprint(o.AllPlatforms), fmt.Sprint(o.NoCrossPlatform)}
	}
	var out [][2]Request
	for _, sep := range []string{"|", ":", ",", ";", " ", "\t", "/", "\x1f", "\n", "#", "="} {
		block := func(o database.SearchOptions) string { return sep + strings.Join(scalars(o), sep) + sep }
		a, b := oA, oB
		a.ContextBoosts, b.ContextBoosts = nil, nil
		a.Platforms = []string{"z"}
		b.Platforms = []string{block(oA) + "z"}
		out = append(out, [2]Request{{q + block(oB), a}, {q, b}})
		// the same with the platform list written first
		a2, b2 := oA, oB
		a2.ContextBoosts, b2.ContextBoosts = nil, nil
		a2.Platforms = []string{"z" + block(oB)}
		b2.Platforms = []string{"z"}
		out = append(out, [2]Request{{q, a2}, {block(oA) + q, b2}})
	}
	return out
}

// WriteYAMLAnchored writes the entries as a well-formed YAML list in which repeated platform names, keywords and tags are
// written once with an anchor and referred to by alias afterwards (what a hand-maintained file looks like): `platform:
// [&p1 "linux", &p2 "macos"]` ... `platform: [*p1]`. Strings are JSON-quoted (valid UTF-8 only).
func WriteYAMLAnchored(path string, cmds []Cmd) error {
	var b strings.Builder
	anchors := map[string]string{}
	item := func(s string) string {
		if a, ok := anchors[s]; ok {
			return "*" + a
		}
		a := fmt.Sprintf("a%d", len(anchors)+1)
		anchors[s] = a
		q, _ := json.Marshal(s)
		return "&" + a + " " + string(q)
	}
	list := func(xs []string) string {
		out := make([]string, len(xs))
		for i, x := range xs {
			out[i] = item(x)
		}
		return "[" + strings.Join(out, ", ") + "]"
	}
	js := func(s string) string { q, _ := json.Marshal(s); return string(q) }
	if len(cmds) == 0 {
		b.WriteString("[]\n")
	}
	for _, c := range cmds {
		fmt.Fprintf(&b, "- command: %s\n  description: %s\n  keywords: %s\n  tags: %s\n", js(c.Command), js(c.Description), list(c.Keywords), list(c.Tags))
		if c.Niche != "" {
			fmt.Fprintf(&b, "  niche: %s\n", js(c.Niche))
		}
		if len(c.Platform) > 0 {
			fmt.Fprintf(&b, "  platform: %s\n", list(c.Platform))
		}
		fmt.Fprintf(&b, "  pipeline: %v\n", c.Pipeline)
	}
	return os.WriteFile(path, []byte(b.String()), 0o644)
}

// FirstAlnumWord: the first run of three or more ASCII letters in s, lower-cased ("" when there is none).
func FirstAlnumWord(s string) string {
	start := -1
	for i := 0; i <= len(s); i++ {
		isL := i < len(s) && ((s[i] >= 'a' && s[i] <= 'z') || (s[i] >= 'A' && s[i] <= 'Z'))
		if isL {
			if start < 0 {
				start = i
			}
			continue
		}
		if start >= 0 && i-start >= 3 {
			return strings.ToLower(s[start:i])
		}
		start = -1
	}
	return ""
}

package vlib

import (
	"fmt"
	"math/rand"
	"os"

	"github.com/Vedant9500/WTF/internal/database"
)

// TailWord occurs in the tail entries of a HugeDB only.
const TailWord = "quixotry"

// HugeDB builds a database of n entries (tens of thousands: more than fit 13- or 16-bit side tables, not a multiple of any
// small worker count) by repeating a generated stock of a few hundred entries with a running number in the command, and ends
// it with `tail` entries of the kind a personal notebook adds at the end: declared for one unusual platform only, not
// pipelines, started by a pseudo tool, and all holding the word TailWord (which no other entry holds) besides stock words.
// The database is loaded from a file like any other.
func HugeDB(r *rand.Rand, n, tail int) (*database.Database, []Cmd) {
	stock := GenCommands(r, DBSpec{N: 300, Platforms: 1, Pipelines: true})
	cmds := make([]Cmd, 0, n)
	for i := 0; len(cmds) < n-tail; i++ {
		c := stock[i%len(stock)]
		c.Command = fmt.Sprintf("%s --id=%d", c.Command, i)
		cmds = append(cmds, c)
	}
	words := DBWords(stock)
	for i := 0; i < tail; i++ {
		w1, w2 := words[r.Intn(len(words))], words[r.Intn(len(words))]
		cmds = append(cmds, Cmd{
			Command:     fmt.Sprintf("%s --%s %s-%d", PseudoTools[r.Intn(len(PseudoTools))], w1, TailWord, i),
			Description: fmt.Sprintf("my own %s note about %s and %s number %d", TailWord, w1, w2, i),
			Keywords:    []string{TailWord, w2},
			Platform:    []string{AlienPlatforms[r.Intn(len(AlienPlatforms))]},
			Pipeline:    false,
		})
	}
	cmds = StripCaches(cmds)
	p := ScratchPath("huge.yml")
	defer os.Remove(p)
	if err := WriteYAML(p, cmds); err != nil {
		panic(err)
	}
	db, err := database.LoadDatabase(p)
	if err != nil {
		panic(fmt.Sprintf("HugeDB: %v", err))
	}
	if len(db.Commands) != n {
		panic(fmt.Sprintf("HugeDB: %d entries written, %d loaded", n, len(db.Commands)))
	}
	return db, cmds
}

// IsASCII reports whether s holds bytes below 0x80 only.
func IsASCII(s string) bool {
	for i := 0; i < len(s); i++ {
		if s[i] >= 0x80 {
			return false
		}
	}
	return true
}

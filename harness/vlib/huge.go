package vlib

import (
	"encoding/json"
	"strings"

	"fmt"
	"gopkg.in/yaml.v3"
	"math/rand"
	"os"

	"github.com/Vedant9500/WTF/internal/database"
)

// TailWord occurs in the tail entries of a HugeDB only.
const TailWord = "quixotry"

// HugeDB builds a database of n entries (tens of thousands: more than fit 13- or 16-bit side tables, not a multiple of any
// small worker count) by repeating a generated stock of a few hundred entries with a running number in the command, and ends
// it with `tail` entries of the kind a personal notebook adds at the end: declared for one unusual platform only, not
// pipelines, started by a pseudo tool, and all holding the word TailWord (which no other entry holds) besides stock words.
// The database is loaded from a file like any other.
func HugeDB(r *rand.Rand, n, tail int) (*database.Database, []Cmd) {
	stock := GenCommands(r, DBSpec{N: 300, Platforms: 1, Pipelines: true})
	cmds := make([]Cmd, 0, n)
	for i := 0; len(cmds) < n-tail; i++ {
		c := stock[i%len(stock)]
		c.Command = fmt.Sprintf("%s --id=%d", c.Command, i)
		cmds = append(cmds, c)
	}
	words := DBWords(stock)
	for i := 0; i < tail; i++ {
		w1, w2 := words[r.Intn(len(words))], words[r.Intn(len(words))]
		cmds = append(cmds, Cmd{
			Command:     fmt.Sprintf("%s --%s %s-%d", PseudoTools[r.Intn(len(PseudoTools))], w1, TailWord, i),
			Description: fmt.Sprintf("my own %s note about %s and %s number %d", TailWord, w1, w2, i),
			Keywords:    []string{TailWord, w2},
			Platform:    []string{AlienPlatforms[r.Intn(len(AlienPlatforms))]},
			Pipeline:    false,
		})
	}
	cmds = StripCaches(cmds)
	p := ScratchPath("huge.yml")
	defer os.Remove(p)
	if err := WriteYAML(p, cmds); err != nil {
		panic(err)
	}
	db, err := database.LoadDatabase(p)
	if err != nil {
		panic(fmt.Sprintf("HugeDB: %v", err))
	}
	if len(db.Commands) != n {
		panic(fmt.Sprintf("HugeDB: %d entries written, %d loaded", n, len(db.Commands)))
	}
	return db, cmds
}

// IsASCII reports whether s holds bytes below 0x80 only.
func IsASCII(s string) bool {
	for i := 0; i < len(s); i++ {
		if s[i] >= 0x80 {
			return false
		}
	}
	return true
}

// NotebookLayouts are ways a hand-maintained YAML list may be laid out that still hold the same entries.
var NotebookLayouts = []string{"flow", "indented", "end-marker", "start-marker-and-comments", "no-final-newline", "crlf", "flow-one-line"}

// WriteYAMLLayout writes the entries as a YAML list in one of NotebookLayouts (any other name: the plain block list).
func WriteYAMLLayout(path string, cmds []Cmd, layout string) error {
	data, err := yaml.Marshal(StripCaches(cmds))
	if err != nil {
		return err
	}
	block := string(data)
	switch layout {
	case "flow", "flow-one-line":
		var v interface{}
		if err := yaml.Unmarshal(data, &v); err != nil {
			return err
		}
		var j []byte
		if layout == "flow" {
			j, err = json.MarshalIndent(v, "", "  ")
		} else {
			j, err = json.Marshal(v)
		}
		if err != nil {
			return err
		}
		block = string(j) + "\n"
	case "indented":
		lines := strings.Split(strings.TrimRight(block, "\n"), "\n")
		for i := range lines {
			lines[i] = "  " + lines[i]
		}
		block = strings.Join(lines, "\n") + "\n"
	case "end-marker":
		block += "...\n"
	case "start-marker-and-comments":
		block = "# my own commands\n---\n# edited by hand\n" + block + "# end of the notebook\n"
	case "no-final-newline":
		block = strings.TrimRight(block, "\n")
	case "crlf":
		block = strings.ReplaceAll(block, "\n", "\r\n")
	}
	return os.WriteFile(path, []byte(block), 0o644)
}

package vlib

import (
	"encoding/json"
	"fmt"
	"hash/fnv"
	"math"
	"os"
	"runtime/debug"
	"sort"
	"strconv"
	"strings"
	"sync"
	"unsafe"

	"github.com/Vedant9500/WTF/internal/database"
)

// ---------------------------------------------------------------------------
// Canonical form of an answer.

type Item struct {
	Idx   int     `json:"i"` // index in db.Commands, -1 if foreign
	Score float64 `json:"s"`
}

type Ranked []Item

// MarshalJSON keeps witnesses serialisable when a score is NaN / Inf.
func (it Item) MarshalJSON() ([]byte, error) {
	if math.IsNaN(it.Score) || math.IsInf(it.Score, 0) {
		return []byte(fmt.Sprintf(`{"i":%d,"s":"%v"}`, it.Idx, it.Score)), nil
	}
	return []byte(fmt.Sprintf(`{"i":%d,"s":%s}`, it.Idx, strconv.FormatFloat(it.Score, 'g', -1, 64))), nil
}

// UnmarshalJSON accepts both forms.
func (it *Item) UnmarshalJSON(b []byte) error {
	var raw struct {
		I int         `json:"i"`
		S interface{} `json:"s"`
	}
	if err := json.Unmarshal(b, &raw); err != nil {
		return err
	}
	it.Idx = raw.I
	switch v := raw.S.(type) {
	case float64:
		it.Score = v
	case string:
		f, _ := strconv.ParseFloat(v, 64)
		it.Score = f
	}
	return nil
}

// IndexOf maps a result pointer back to its index in cmds by address.
func IndexOf(cmds []Cmd, p *Cmd) int {
	if p == nil || len(cmds) == 0 {
		return -1
	}
	base := uintptr(unsafe.Pointer(&cmds[0]))
	addr := uintptr(unsafe.Pointer(p))
	sz := unsafe.Sizeof(cmds[0])
	if addr < base {
		return -1
	}
	off := addr - base
	if off%sz != 0 {
		return -1
	}
	i := int(off / sz)
	if i >= len(cmds) {
		return -1
	}
	return i
}

func Canon(cmds []Cmd, rs []database.SearchResult) Ranked {
	out := make(Ranked, len(rs))
	for i, r := range rs {
		out[i] = Item{Idx: IndexOf(cmds, r.Command), Score: r.Score}
	}
	return out
}

func Exact(a, b Ranked) bool {
	if len(a) != len(b) {
		return false
	}
	for i := range a {
		if a[i].Idx != b[i].Idx || math.Float64bits(a[i].Score) != math.Float64bits(b[i].Score) {
			return false
		}
	}
	return true
}

func relEq(x, y float64) bool {
	if x == y {
		return true
	}
	if math.IsNaN(x) || math.IsNaN(y) {
		return math.IsNaN(x) && math.IsNaN(y)
	}
	d := math.Abs(x - y)
	m := math.Max(math.Abs(x), math.Abs(y))
	return d <= 1e-9*m || d <= 1e-12
}

// Approx is the tie-tolerant comparison: same length, scores equal rank by
// rank within 1e-9 relative, and within every maximal run of eps-equal scores
// the sets of entries agree - except for a run touching the cut (the final run
// when the list is full, len == limit), where only the count is compared.
func Approx(a, b Ranked, limit int) (bool, string) {
	if len(a) != len(b) {
		return false, fmt.Sprintf("length %d vs %d", len(a), len(b))
	}
	for i := range a {
		if !relEq(a[i].Score, b[i].Score) {
			return false, fmt.Sprintf("score at rank %d: %v vs %v", i, a[i].Score, b[i].Score)
		}
	}
	i := 0
	for i < len(a) {
		j := i + 1
		for j < len(a) && relEq(a[j].Score, a[i].Score) {
			j++
		}
		atCut := j == len(a) && limit > 0 && len(a) >= limit
		if !atCut {
			sa, sb := map[int]int{}, map[int]int{}
			for k := i; k < j; k++ {
				sa[a[k].Idx]++
				sb[b[k].Idx]++
			}
			for k, v := range sa {
				if sb[k] != v {
					return false, fmt.Sprintf("entries of tie run [%d,%d) differ (entry %d)", i, j, k)
				}
			}
		}
		i = j
	}
	return true, ""
}

// StableRef evaluates f R times; stable when all are Exact-equal.
func StableRef(R int, f func() Ranked) (refs []Ranked, stable bool) {
	stable = true
	for i := 0; i < R; i++ {
		x := f()
		if i > 0 && !Exact(refs[0], x) {
			stable = false
		}
		refs = append(refs, x)
	}
	return
}

// CompareToRef applies the stable-reference rule. verdict: "held",
// "violated", "inconclusive".
func CompareToRef(refs []Ranked, stable bool, cand Ranked, limit int) (string, string) {
	why := ""
	for _, r := range refs {
		ok, w := Approx(r, cand, limit)
		if ok {
			return "held", ""
		}
		why = w
	}
	if stable {
		return "violated", why
	}
	return "inconclusive", "reference unstable: " + why
}

// HasTieGroup reports whether the (full) answer contains a group of >= 2
// eps-equal scores, and whether such a group straddles rank L.
func HasTieGroup(full Ranked, L int) (any bool, straddle bool) {
	for i := 0; i+1 < len(full); i++ {
		if relEq(full[i].Score, full[i+1].Score) {
			any = true
			if L > 0 && i < L && i+1 >= L {
				straddle = true
			}
		}
	}
	// straddle also when run crosses L though adjacent pair at L-1,L equal
	if L > 0 && L < len(full) && relEq(full[L-1].Score, full[L].Score) {
		straddle = true
	}
	return
}

// ---------------------------------------------------------------------------
// Violations and the per-shard report.

type Violation struct {
	Property string      `json:"property"`
	Clause   string      `json:"clause"`
	Path     string      `json:"path"`
	Detail   string      `json:"detail"`
	Witness  interface{} `json:"witness,omitempty"`
}

type Report struct {
	mu            sync.Mutex
	Engine        string                 `json:"engine"`
	Shard         int                    `json:"shard"`
	Seed          int64                  `json:"seed"`
	Evaluations   int64                  `json:"evaluations"`
	Nontrivial    []string               `json:"nontrivial"` // 64-bit hashes, unioned by the driver
	Paths         map[string]int64       `json:"paths"`
	Samples       []interface{}          `json:"samples"`
	Violations    []Violation            `json:"violations"`
	ViolationsCut int64                  `json:"violations_cut"` // violations beyond the per-shard cap (counted, not stored)
	Inconclusive  map[string]int64       `json:"inconclusive"`
	Extra         map[string]interface{} `json:"extra"`
	ntSet         map[uint64]bool
	vioKeys       map[string]int
	outPath       string
	logF          *os.File
}

func NewReport(engine string, shard int, seed int64, outPath, logPath string) *Report {
	r := &Report{Engine: engine, Shard: shard, Seed: seed, Paths: map[string]int64{}, Inconclusive: map[string]int64{},
		Extra: map[string]interface{}{}, ntSet: map[uint64]bool{}, vioKeys: map[string]int{}, outPath: outPath}
	if logPath != "" {
		f, err := os.OpenFile(logPath, os.O_CREATE|os.O_WRONLY|os.O_APPEND, 0o644)
		if err == nil {
			r.logF = f
		}
	}
	return r
}

// Begin flushes the case to the event log *before* it runs, so a
// process-fatal failure leaves the offending input on disk.
func (r *Report) Begin(c interface{}) {
	if r.logF == nil {
		return
	}
	b, _ := json.Marshal(c)
	r.mu.Lock()
	r.logF.Write(append(b, '\n'))
	r.mu.Unlock()
}

func (r *Report) Eval(n int64) { r.mu.Lock(); r.Evaluations += n; r.mu.Unlock() }

func (r *Report) Path(p string, n int64) { r.mu.Lock(); r.Paths[p] += n; r.mu.Unlock() }

func HashKey(parts ...interface{}) uint64 {
	h := fnv.New64a()
	for _, p := range parts {
		fmt.Fprintf(h, "%v\x1f", p)
	}
	return h.Sum64()
}

// Nontriv records one distinct non-trivial case (by hash).
func (r *Report) Nontriv(parts ...interface{}) {
	k := HashKey(parts...)
	r.mu.Lock()
	if !r.ntSet[k] && len(r.ntSet) < 400000 {
		r.ntSet[k] = true
	}
	r.mu.Unlock()
}

func (r *Report) Sample(s interface{}) {
	r.mu.Lock()
	if len(r.Samples) < 4 {
		r.Samples = append(r.Samples, s)
	}
	r.mu.Unlock()
}

func (r *Report) Inconcl(reason string) { r.mu.Lock(); r.Inconclusive[reason]++; r.mu.Unlock() }

// Violate stores a violation; at most 3 per (property, clause, path) and 60
// in total per shard are kept with witnesses, the rest are counted.
func (r *Report) Violate(v Violation) {
	r.mu.Lock()
	defer r.mu.Unlock()
	k := v.Property + "|" + v.Clause + "|" + v.Path
	r.vioKeys[k]++
	r.Paths["violations:"+k]++
	if r.vioKeys[k] > 3 || len(r.Violations) >= 60 {
		r.ViolationsCut++
		return
	}
	r.Violations = append(r.Violations, v)
}

func (r *Report) Write() error {
	r.mu.Lock()
	defer r.mu.Unlock()
	r.Nontrivial = r.Nontrivial[:0]
	keys := make([]uint64, 0, len(r.ntSet))
	for k := range r.ntSet {
		keys = append(keys, k)
	}
	sort.Slice(keys, func(i, j int) bool { return keys[i] < keys[j] })
	for _, k := range keys {
		r.Nontrivial = append(r.Nontrivial, fmt.Sprintf("%016x", k))
	}
	b, err := json.Marshal(r)
	if err != nil {
		return err
	}
	tmp := r.outPath + ".tmp"
	if err := os.WriteFile(tmp, b, 0o644); err != nil {
		return err
	}
	return os.Rename(tmp, r.outPath)
}

// Guard runs f, converting a panic into a violation of prop.
func (r *Report) Guard(prop, path string, witness interface{}, f func()) (ok bool) {
	defer func() {
		if e := recover(); e != nil {
			ok = false
			st := string(debug.Stack())
			if len(st) > 3000 {
				st = st[:3000]
			}
			r.Violate(Violation{Property: prop, Clause: "panic", Path: path,
				Detail: fmt.Sprintf("panic: %v", e), Witness: map[string]interface{}{"case": witness, "stack": st}})
		}
	}()
	f()
	return true
}

// ---------------------------------------------------------------------------
// The result-invariant monitor (C01 clauses; C04 clauses when isTool != nil).

type OptJSON struct {
	Limit           int                `json:"limit"`
	ContextBoosts   map[string]float64 `json:"boosts,omitempty"`
	PipelineOnly    bool               `json:"pipeline_only,omitempty"`
	PipelineBoost   float64            `json:"pipeline_boost,omitempty"`
	UseFuzzy        bool               `json:"fuzzy,omitempty"`
	FuzzyThreshold  int                `json:"threshold,omitempty"`
	UseNLP          bool               `json:"nlp,omitempty"`
	TopTermsCap     int                `json:"cap,omitempty"`
	AllPlatforms    bool               `json:"all_platforms,omitempty"`
	Platforms       []string           `json:"platforms,omitempty"`
	NoCrossPlatform bool               `json:"no_cross,omitempty"`
	NonFiniteBoosts map[string]string  `json:"boosts_nonfinite,omitempty"` // JSON cannot carry NaN / Inf
}

func OptsJ(o database.SearchOptions) OptJSON {
	j := OptJSON{Limit: o.Limit, PipelineOnly: o.PipelineOnly, PipelineBoost: o.PipelineBoost, UseFuzzy: o.UseFuzzy, FuzzyThreshold: o.FuzzyThreshold,
		UseNLP: o.UseNLP, TopTermsCap: o.TopTermsCap, AllPlatforms: o.AllPlatforms, Platforms: o.Platforms, NoCrossPlatform: o.NoCrossPlatform}
	if math.IsNaN(j.PipelineBoost) || math.IsInf(j.PipelineBoost, 0) {
		j.NonFiniteBoosts = map[string]string{"<pipeline_boost>": fmt.Sprint(o.PipelineBoost)}
		j.PipelineBoost = 0
	}
	for k, v := range o.ContextBoosts {
		if math.IsNaN(v) || math.IsInf(v, 0) {
			if j.NonFiniteBoosts == nil {
				j.NonFiniteBoosts = map[string]string{}
			}
			j.NonFiniteBoosts[k] = fmt.Sprint(v)
			continue
		}
		if j.ContextBoosts == nil {
			j.ContextBoosts = map[string]float64{}
		}
		j.ContextBoosts[k] = v
	}
	return j
}

func (j OptJSON) Opts() database.SearchOptions {
	return database.SearchOptions{Limit: j.Limit, ContextBoosts: j.ContextBoosts, PipelineOnly: j.PipelineOnly,
		PipelineBoost: j.PipelineBoost, UseFuzzy: j.UseFuzzy, FuzzyThreshold: j.FuzzyThreshold, UseNLP: j.UseNLP,
		TopTermsCap: j.TopTermsCap, AllPlatforms: j.AllPlatforms, Platforms: j.Platforms, NoCrossPlatform: j.NoCrossPlatform}
}

// LimitInForce: requested limit when positive, else the path's default taken
// permissively (so a re-tuned default is not flagged, an unbounded list is).
func LimitInForce(limit int) int {
	if limit > 0 {
		return limit
	}
	return 10
}

type InvIssue struct{ Clause, Detail string }

// CheckInvariants asserts the C01 clauses on one list.
func CheckInvariants(cmds []Cmd, limit int, rs []database.SearchResult) []InvIssue {
	var out []InvIssue
	L := LimitInForce(limit)
	if len(rs) > L {
		out = append(out, InvIssue{"limit", fmt.Sprintf("%d results, limit in force %d (requested %d)", len(rs), L, limit)})
	}
	seen := map[int]bool{}
	for i, r := range rs {
		idx := IndexOf(cmds, r.Command)
		if idx < 0 {
			out = append(out, InvIssue{"foreign", fmt.Sprintf("rank %d is not an entry of the searched database", i)})
		} else if seen[idx] {
			out = append(out, InvIssue{"duplicate", fmt.Sprintf("entry %d appears twice (rank %d)", idx, i)})
		}
		seen[idx] = true
		if math.IsNaN(r.Score) || math.IsInf(r.Score, 0) || r.Score < 0 {
			out = append(out, InvIssue{"score", fmt.Sprintf("rank %d score %v", i, r.Score)})
		}
		if i > 0 && rs[i-1].Score < r.Score {
			out = append(out, InvIssue{"order", fmt.Sprintf("rank %d score %v < rank %d score %v", i-1, rs[i-1].Score, i, r.Score)})
		}
	}
	return out
}

// CheckFilters asserts the C04 clauses on one list.
func CheckFilters(o database.SearchOptions, rs []database.SearchResult, isTool func(string) bool) []InvIssue {
	var out []InvIssue
	for i, r := range rs {
		if r.Command == nil {
			continue
		}
		if leak, why := PlatformLeak(r.Command, o, isTool); leak {
			cl := "platform"
			if o.NoCrossPlatform {
				cl = "no-cross-platform"
			}
			out = append(out, InvIssue{cl, fmt.Sprintf("rank %d %q platforms %v: %s (in force %v)", i, r.Command.Command, r.Command.Platform, why, o.Platforms)})
		}
		if o.PipelineOnly && DefinitelyNotPipeline(r.Command) {
			out = append(out, InvIssue{"pipeline-only", fmt.Sprintf("rank %d %q is not a pipeline command", i, r.Command.Command)})
		}
	}
	return out
}

// Trunc shortens strings for witnesses.
func Trunc(s string, n int) string {
	if len(s) <= n {
		return s
	}
	return s[:n] + "..."
}

// Q renders a string safely for witnesses (hex for non-printables).
func Q(s string) string { return strings.ToValidUTF8(fmt.Sprintf("%q", s), "?") }

package vlib

import (
	"go/ast"
	"go/parser"
	"go/token"
	"math/rand"
	"os"
	"path/filepath"
	"sort"
	"strconv"
	"strings"
	"unicode/utf8"
)

// Dict is a dictionary of the string constants of the tree under test (the
// fuzzing practice of seeding generators with the program's own literals):
// words and phrases the code compares queries against - stop words, synonym
// tables, intent phrases, tool names, built-in fallback entries - whatever
// they happen to be in the tree that is being checked.
type Dict struct {
	Words   []string // single tokens
	Phrases []string // literals (or parts of literals) holding at least two words
	Hot     []string // phrases and words from the packages that analyse queries (nlp, database, cli, validation)
	// literals of the query-analysis package alone (stop words, synonyms, action / target / intent tables, context clues)
	NLPWords   []string
	NLPPhrases []string
	// names the program asks the environment for (first argument of os.Getenv / os.LookupEnv, literal)
	EnvNames []string
	// single-word literals of the package that analyses the working directory (marker names, project types, boost words)
	ContextWords []string
}

var dictCache = map[string]*Dict{}

// SourceDict parses every non-test Go file under <repo>/internal and
// <repo>/cmd and collects the string literals. Deterministic (sorted).
func SourceDict(repo string) *Dict {
	if d, ok := dictCache[repo]; ok {
		return d
	}
	words, phrases, hot := map[string]bool{}, map[string]bool{}, map[string]bool{}
	nlpW, nlpP := map[string]bool{}, map[string]bool{}
	envs := map[string]bool{}
	ctxW := map[string]bool{}
	consts, envIdents := map[string]string{}, map[string]bool{} // string constants by name; identifiers passed to Getenv / LookupEnv
	fset := token.NewFileSet()
	for _, root := range []string{"internal", "cmd"} {
		filepath.Walk(filepath.Join(repo, root), func(p string, info os.FileInfo, err error) error {
			if err != nil || info.IsDir() || !strings.HasSuffix(p, ".go") || strings.HasSuffix(p, "_test.go") || strings.Contains(p, "zzverif") {
				return nil
			}
			f, err := parser.ParseFile(fset, p, nil, 0)
			if err != nil {
				return nil
			}
			isNLP := strings.Contains(p, "/nlp/")
			isCtx := strings.Contains(p, "/context/")
			isHot := false
			for _, h := range []string{"/nlp/", "/database/", "/cli/", "/validation/", "/context/"} {
				if strings.Contains(p, h) {
					isHot = true
				}
			}
			ast.Inspect(f, func(n ast.Node) bool {
				if _, ok := n.(*ast.ImportSpec); ok {
					return false
				}
				if call, ok := n.(*ast.CallExpr); ok && len(call.Args) >= 1 {
					if sel, ok := call.Fun.(*ast.SelectorExpr); ok && (sel.Sel.Name == "Getenv" || sel.Sel.Name == "LookupEnv") {
						switch a := call.Args[0].(type) {
						case *ast.BasicLit:
							if name, err := strconv.Unquote(a.Value); a.Kind == token.STRING && err == nil && name != "" {
								envs[name] = true
							}
						case *ast.Ident:
							envIdents[a.Name] = true
						case *ast.SelectorExpr:
							envIdents[a.Sel.Name] = true
						}
					}
				}
				if vs, ok := n.(*ast.ValueSpec); ok {
					for i, nm := range vs.Names {
						if i < len(vs.Values) {
							if lit, ok := vs.Values[i].(*ast.BasicLit); ok && lit.Kind == token.STRING {
								if v, err := strconv.Unquote(lit.Value); err == nil {
									consts[nm.Name] = v
								}
							}
						}
					}
				}
				bl, ok := n.(*ast.BasicLit)
				if !ok || bl.Kind != token.STRING {
					return true
				}
				s, err := strconv.Unquote(bl.Value)
				if err != nil || len(s) == 0 || len(s) > 80 || !utf8.ValidString(s) || strings.ContainsAny(s, "\n\r\x00") {
					return true
				}
				fs := strings.Fields(s)
				if len(fs) == 0 {
					return true
				}
				if len(fs) == 1 {
					if isCtx && len(fs[0]) <= 24 && !strings.ContainsAny(fs[0], "/\\*?%") {
						ctxW[fs[0]] = true
					}
					words[fs[0]] = true
					if isHot {
						hot[fs[0]] = true
					}
					if isNLP && len(fs[0]) <= 24 {
						nlpW[fs[0]] = true
					}
					return true
				}
				if len(fs) <= 8 {
					phrases[strings.Join(fs, " ")] = true
					if isHot {
						hot[strings.Join(fs, " ")] = true
					}
					if isNLP && len(fs) <= 4 {
						nlpP[strings.Join(fs, " ")] = true
					}
				}
				for _, w := range fs {
					if len(w) <= 24 {
						words[w] = true
					}
				}
				return true
			})
			return nil
		})
	}
	for id := range envIdents {
		if v := consts[id]; v != "" {
			envs[v] = true
		}
	}
	d := &Dict{Words: keys(words), Phrases: keys(phrases), Hot: keys(hot), NLPWords: keys(nlpW), NLPPhrases: keys(nlpP), EnvNames: keys(envs), ContextWords: keys(ctxW)}
	dictCache[repo] = d
	return d
}

func keys(m map[string]bool) []string {
	out := make([]string, 0, len(m))
	for k := range m {
		out = append(out, k)
	}
	sort.Strings(out)
	return out
}

// Variants returns the systematic query variants built around one literal:
// the literal itself, every one of its words put before and after it, the
// literal doubled, its words reversed and in upper case, and a few variants
// with other dictionary words around it.
func (d *Dict) Variants(r *rand.Rand, lit string, extra int) []string {
	fs := strings.Fields(lit)
	out := []string{lit, lit + " " + lit, strings.ToUpper(lit)}
	for _, w := range fs {
		out = append(out, w+" "+lit, lit+" "+w)
	}
	if len(fs) > 1 {
		rev := make([]string, len(fs))
		for i, w := range fs {
			rev[len(fs)-1-i] = w
		}
		out = append(out, strings.Join(rev, " "))
		out = append(out, strings.Join(fs[:len(fs)-1], " "), strings.Join(fs[1:], " "))
	}
	pick := func() string {
		if len(d.Words) == 0 {
			return "x"
		}
		return d.Words[r.Intn(len(d.Words))]
	}
	for i := 0; i < extra; i++ {
		switch r.Intn(4) {
		case 0:
			out = append(out, pick()+" "+lit)
		case 1:
			out = append(out, lit+" "+pick())
		case 2:
			out = append(out, pick()+" "+fs[r.Intn(len(fs))]+" "+pick()+" "+lit)
		default:
			out = append(out, pick()+" "+lit+" "+pick()+" "+fs[r.Intn(len(fs))])
		}
	}
	return out
}

// DictQuery draws a query made of dictionary material (for engines that mix
// such queries into their ordinary workload).
func (d *Dict) DictQuery(r *rand.Rand) string {
	pool := d.Hot
	if len(pool) == 0 || r.Intn(4) == 0 {
		pool = d.Phrases
	}
	if len(pool) == 0 {
		return "list files"
	}
	lit := pool[r.Intn(len(pool))]
	v := d.Variants(r, lit, 2)
	return v[r.Intn(len(v))]
}

// NLPCombos walks, for shard `shard` of `nshards`, the queries "<word><ending> <filler> <phrase>" over every word and phrase
// the query-analysis package names, with the endings that turn a word into one that merely contains it ("show" -> "showing").
func (d *Dict) NLPCombos(shard, nshards int, filler string, f func(q string)) int {
	n := 0
	k := 0
	for _, p := range d.NLPPhrases {
		for _, w := range d.NLPWords {
			for _, e := range []string{"", "ing", "s", "ed"} {
				k++
				if k%nshards != shard {
					continue
				}
				f(w + e + " " + filler + " " + p)
				n++
			}
		}
	}
	return n
}

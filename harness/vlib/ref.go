package vlib

import (
	"math"
	"runtime"
	"strings"
	"unicode"

	"github.com/Vedant9500/WTF/internal/database"
	"github.com/Vedant9500/WTF/internal/nlp"
)

// ---------------------------------------------------------------------------
// Reference tokenizer, written from the documented rule: everything outside
// ASCII letters/digits separates (the normaliser keeps only [A-Za-z0-9_ \t\n.-]
// and the splitter then cuts at every non-letter/non-digit), tokens are
// lower-cased, tokens shorter than two bytes and stop words are dropped.

var refStop = nlp.StopWords()

// IsStop reports whether w is a stop word of the tree under test.
func IsStop(w string) bool { return refStop[strings.ToLower(w)] }

// StopFiller returns about n bytes of words that carry no content (stop words and one-letter tokens).
func StopFiller(pick func(int) int, n int) string {
	var cand []string
	for _, w := range []string{"the", "a", "of", "to", "and", "is", "it", "in", "on", "for", "with", "how", "do", "i", "please", "can", "you", "me", "my", "that", "this", "an", "be", "so", "s", "x"} {
		if len(w) < 2 || refStop[w] {
			cand = append(cand, w)
		}
	}
	var b strings.Builder
	for b.Len() < n {
		b.WriteString(cand[pick(len(cand))])
		b.WriteByte(' ')
	}
	return strings.TrimSpace(b.String())
}

func Tokenize(s string) []string {
	var out []string
	start := -1
	b := []byte(s)
	flush := func(end int) {
		if start >= 0 {
			t := strings.ToLower(string(b[start:end]))
			if len(t) >= 2 && !refStop[t] {
				out = append(out, t)
			}
			start = -1
		}
	}
	for i, c := range b {
		alnum := c >= '0' && c <= '9' || c >= 'a' && c <= 'z' || c >= 'A' && c <= 'Z'
		if alnum {
			if start < 0 {
				start = i
			}
		} else {
			flush(i)
		}
	}
	flush(len(b))
	return out
}

// FieldTexts returns the four indexed fields as texts (keywords and tags are
// separate items joined by a separator).
func FieldTexts(c *Cmd) [4]string {
	return [4]string{c.Command, c.Description, strings.Join(c.Keywords, " "), strings.Join(c.Tags, " ")}
}

// BM25FParams mirrors database.VerifBM25FParams.
type BM25FParams struct {
	K1     float64
	W, B   [4]float64 // cmd, desc, keys, tags
	MinIDF float64
}

// RefIndex is an exhaustive-scan reference: per document, per field token
// counts and lengths; nothing is shared with the code under test.
type RefIndex struct {
	N    int
	TF   []map[string][4]int
	Len  [][4]int
	Avg  [4]float64
	DF   map[string]int
	P    BM25FParams
	Elig []bool // eligibility under the options in force (set by caller)
}

func BuildRef(cmds []Cmd, p BM25FParams) *RefIndex {
	ri := &RefIndex{N: len(cmds), DF: map[string]int{}, P: p}
	ri.TF = make([]map[string][4]int, len(cmds))
	ri.Len = make([][4]int, len(cmds))
	var sum [4]int
	for i := range cmds {
		tf := map[string][4]int{}
		for f, txt := range FieldTexts(&cmds[i]) {
			toks := Tokenize(txt)
			ri.Len[i][f] = len(toks)
			sum[f] += len(toks)
			for _, t := range toks {
				e := tf[t]
				e[f]++
				tf[t] = e
			}
		}
		ri.TF[i] = tf
		for t := range tf {
			ri.DF[t]++
		}
	}
	if ri.N > 0 {
		for f := 0; f < 4; f++ {
			ri.Avg[f] = float64(sum[f]) / float64(ri.N)
		}
	}
	return ri
}

func (ri *RefIndex) IDF(t string) float64 {
	df := ri.DF[t]
	return math.Log((float64(ri.N)-float64(df)+0.5)/(float64(df)+0.5) + 1)
}

// TermScore is idf(t) * sum over fields of the BM25 field score (no boost).
func (ri *RefIndex) TermScore(doc int, t string) float64 {
	tf, ok := ri.TF[doc][t]
	if !ok {
		return 0
	}
	var s float64
	for f := 0; f < 4; f++ {
		if tf[f] == 0 {
			continue
		}
		avg := ri.Avg[f]
		if avg <= 0 {
			avg = 1
		}
		norm := (1 - ri.P.B[f]) + ri.P.B[f]*(float64(ri.Len[doc][f])/avg)
		tfw := ri.P.W[f] * float64(tf[f])
		s += (tfw * (ri.P.K1 + 1)) / (tfw + ri.P.K1*norm)
	}
	return ri.IDF(t) * s
}

// Contains reports whether doc holds token t in any indexed field.
func (ri *RefIndex) Contains(doc int, t string) bool {
	_, ok := ri.TF[doc][t]
	return ok
}

// ---------------------------------------------------------------------------
// C04 reference predicate (one-directional: returns true only when an entry
// is *unambiguously ineligible*).

func HostPlatform() string {
	switch runtime.GOOS {
	case "darwin":
		return "macos"
	default:
		return runtime.GOOS
	}
}

var aliasFamily = map[string]string{
	"windows": "windows", "cmd": "windows", "powershell": "windows", "win": "windows", "win32": "windows", "pwsh": "windows",
	"macos": "macos", "darwin": "macos", "osx": "macos", "mac": "macos",
	"linux": "linux", "unix": "linux", "bash": "linux", "zsh": "linux", "sh": "linux", "gnu": "linux",
}

func family(p string) string {
	l := strings.ToLower(strings.TrimSpace(p))
	if f, ok := aliasFamily[l]; ok {
		return f
	}
	for _, pre := range []string{"windows", "macos", "linux"} {
		if strings.HasPrefix(l, pre) {
			return pre
		}
	}
	return "?" + l
}

// mayMatch is generous: equal ignoring case, or same alias family, or (for the
// unix family) macos entries tagged unix/bash/zsh.
func mayMatch(entryPlat, inForce string) bool {
	if strings.EqualFold(entryPlat, inForce) || strings.EqualFold(strings.TrimSpace(entryPlat), strings.TrimSpace(inForce)) {
		return true
	}
	fe, ff := family(entryPlat), family(inForce)
	if fe == ff && !strings.HasPrefix(fe, "?") {
		return true
	}
	le := strings.ToLower(entryPlat)
	if ff == "macos" && (le == "unix" || le == "bash" || le == "zsh" || le == "sh") {
		return true
	}
	return false
}

func hasCrossTag(pl []string) bool {
	for _, p := range pl {
		if strings.EqualFold(strings.TrimSpace(p), "cross-platform") {
			return true
		}
	}
	return false
}

// PlatformLeak reports a definite violation of the platform clause for entry c
// under options o. isTool is the code's own whitelist predicate (hook).
func PlatformLeak(c *Cmd, o database.SearchOptions, isTool func(string) bool) (bool, string) {
	if o.AllPlatforms || len(c.Platform) == 0 {
		return false, ""
	}
	inForce := o.Platforms
	if len(inForce) == 0 {
		inForce = []string{HostPlatform()}
	} else {
		// a request made only of blank names: an implementation may take it literally or as "nothing asked" (host); both are accepted
		allBlank := true
		for _, f := range inForce {
			if strings.TrimSpace(f) != "" {
				allBlank = false
			}
		}
		if allBlank {
			inForce = append(append([]string{}, inForce...), HostPlatform())
		}
	}
	for _, p := range c.Platform {
		for _, f := range inForce {
			if mayMatch(p, f) {
				return false, ""
			}
		}
	}
	if o.NoCrossPlatform {
		return true, "declares platforms none of which is in force; cross-platform entries excluded"
	}
	if hasCrossTag(c.Platform) {
		return false, ""
	}
	if isTool(c.Command) {
		return false, ""
	}
	return true, "declares platforms none of which is in force, no cross-platform tag, not a whitelisted tool"
}

// DefinitelyNotPipeline is true only for unambiguous negatives.
func DefinitelyNotPipeline(c *Cmd) bool {
	if c.Pipeline {
		return false
	}
	l := strings.ToLower(c.Command)
	for _, s := range []string{"|", "&", ">", "<", ";", "pipe", "tee", "xargs"} {
		if strings.Contains(l, s) {
			return false
		}
	}
	return true
}

// ---------------------------------------------------------------------------
// Subsequence matching under simple case folding (independent of the fuzzy
// library).

func foldEq(a, b rune) bool {
	if a == b {
		return true
	}
	for r := unicode.SimpleFold(a); r != a; r = unicode.SimpleFold(r) {
		if r == b {
			return true
		}
	}
	return false
}

// SubseqFold reports whether the runes of pat occur in order in text.
func SubseqFold(pat, text string) bool {
	p := []rune(pat)
	if len(p) == 0 {
		return true
	}
	i := 0
	for _, c := range text {
		if foldEq(c, p[i]) {
			i++
			if i == len(p) {
				return true
			}
		}
	}
	return false
}

package vlib

import (
	"encoding/binary"
	"fmt"
	"os"
	"time"
)

// TZ is a generated time zone (TZif version 1 data): usable in-process through
// time.LoadLocationFromTZData and by a child process through TZ=<absolute path>.
type TZ struct {
	Name string
	Data []byte
}

type tzType struct {
	off  int32 // seconds east of UTC
	dst  bool
	abbr string
}

func tzif(types []tzType, transAt []int64, transTo []uint8) []byte {
	var abbrs []byte
	abbrIdx := make([]uint8, len(types))
	for i, t := range types {
		abbrIdx[i] = uint8(len(abbrs))
		abbrs = append(abbrs, []byte(t.abbr)...)
		abbrs = append(abbrs, 0)
	}
	b := []byte("TZif")
	b = append(b, 0) // version 1
	b = append(b, make([]byte, 15)...)
	u32 := func(v uint32) { b = binary.BigEndian.AppendUint32(b, v) }
	u32(0)                    // isutcnt
	u32(0)                    // isstdcnt
	u32(0)                    // leapcnt
	u32(uint32(len(transAt))) // timecnt
	u32(uint32(len(types)))   // typecnt
	u32(uint32(len(abbrs)))   // charcnt
	for _, t := range transAt {
		u32(uint32(int32(t)))
	}
	b = append(b, transTo...)
	for i, t := range types {
		u32(uint32(t.off))
		d := byte(0)
		if t.dst {
			d = 1
		}
		b = append(b, d, abbrIdx[i])
	}
	b = append(b, abbrs...)
	return b
}

// FixedTZ: a zone with one offset (hours and minutes east of UTC) all year.
func FixedTZ(offMinutes int) TZ {
	name := fmt.Sprintf("FIX%+03d%02d", offMinutes/60, abs(offMinutes)%60)
	return TZ{Name: name, Data: tzif([]tzType{{off: int32(offMinutes * 60), abbr: "FIX"}}, nil, nil)}
}

// FallBackTZ: a zone on summer time (std+1h) until `at`, on standard time (stdMinutes east of UTC) from then on: the wall
// clock hour before `at` is repeated after it.
func FallBackTZ(stdMinutes int, at time.Time) TZ {
	types := []tzType{{off: int32(stdMinutes*60 + 3600), dst: true, abbr: "SUM"}, {off: int32(stdMinutes * 60), abbr: "STD"}}
	// summer time since long ago (a first transition far in the past makes type 0 the zone in force before `at`)
	return TZ{Name: fmt.Sprintf("FALLBACK%+d@%d", stdMinutes, at.Unix()), Data: tzif(types, []int64{86400, at.Unix()}, []uint8{0, 1})}
}

// Location parses the zone for use in this process.
func (z TZ) Location() *time.Location {
	loc, err := time.LoadLocationFromTZData(z.Name, z.Data)
	if err != nil {
		panic("generated zone does not parse: " + err.Error())
	}
	return loc
}

// WriteFile puts the zone file at path (TZ=<path> then selects it in a child process).
func (z TZ) WriteFile(path string) string {
	if err := os.WriteFile(path, z.Data, 0o644); err != nil {
		panic(err)
	}
	return path
}

func abs(x int) int {
	if x < 0 {
		return -x
	}
	return x
}

// ZoneFor: the zone class number k of a run that started at `start` (0 = leave the process zone alone).
//
//	1 +14:00   2 -12:00   3 +01:00   4 -05:00   5 +05:45
//	6 west of Greenwich, clocks went back ten minutes before the start      7 the same, 55 minutes after the start
//	8 east of Greenwich, clocks went back ten minutes before the start      9 the same, 55 minutes after the start
func ZoneFor(k int, start time.Time) (TZ, bool) {
	switch k % 10 {
	case 1:
		return FixedTZ(14 * 60), true
	case 2:
		return FixedTZ(-12 * 60), true
	case 3:
		return FixedTZ(60), true
	case 4:
		return FixedTZ(-5 * 60), true
	case 5:
		return FixedTZ(5*60 + 45), true
	case 6:
		return FallBackTZ(-5*60, start.Add(-10*time.Minute)), true
	case 7:
		return FallBackTZ(-5*60, start.Add(55*time.Minute)), true
	case 8:
		return FallBackTZ(60, start.Add(-10*time.Minute)), true
	case 9:
		return FallBackTZ(60, start.Add(55*time.Minute)), true
	}
	return TZ{}, false
}

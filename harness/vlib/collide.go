package vlib

import (
	"fmt"
	"hash/adler32"
	"hash/crc32"
	"hash/fnv"
	"sync"
)

// Colliding words: pairs of distinct lower-case tokens that have the same value under a common 32-bit hash (FNV-1a,
// FNV-1, CRC-32 IEEE / Castagnoli, Adler-32, djb2). A dictionary, an index or a cache that identifies a word or a key
// by such a hash treats the two as one. Found by a birthday search over a fixed sequence of pseudo-words (deterministic).
type CollidingPair struct {
	Hash string
	A, B string
}

var (
	collideOnce  sync.Once
	collidePairs []CollidingPair
)

func CollidingWords() []CollidingPair {
	collideOnce.Do(func() {
		hashes := []struct {
			name string
			f    func(string) uint32
		}{
			{"fnv1a-32", func(s string) uint32 { h := fnv.New32a(); h.Write([]byte(s)); return h.Sum32() }},
			{"fnv1-32", func(s string) uint32 { h := fnv.New32(); h.Write([]byte(s)); return h.Sum32() }},
			{"crc32-ieee", func(s string) uint32 { return crc32.ChecksumIEEE([]byte(s)) }},
			{"crc32-castagnoli", func(s string) uint32 { return crc32.Checksum([]byte(s), crc32.MakeTable(crc32.Castagnoli)) }},
			{"adler32", func(s string) uint32 { return adler32.Checksum([]byte(s)) }},
			{"djb2", func(s string) uint32 {
				h := uint32(5381)
				for i := 0; i < len(s); i++ {
					h = h*33 + uint32(s[i])
				}
				return h
			}},
		}
		// a fixed sequence of pseudo-words: consonant-vowel syllables with an index-derived tail (pronounceable, 6-11 letters)
		const n = 420000
		words := make([]string, n)
		cons, vow := "bcdfghjklmnprstvwz", "aeiou"
		x := uint64(0x9e3779b97f4a7c15)
		next := func() uint64 {
			x ^= x << 13
			x ^= x >> 7
			x ^= x << 17
			return x
		}
		seen := map[string]bool{}
		for i := 0; i < n; {
			v := next()
			b := make([]byte, 0, 12)
			for k := 0; k < 3+int(v%3); k++ {
				b = append(b, cons[(v>>uint(8+k*9))%uint64(len(cons))], vow[(v>>uint(12+k*9))%uint64(len(vow))])
			}
			w := string(b) + fmt.Sprint(v%7)
			if seen[w] {
				continue
			}
			seen[w] = true
			words[i] = w
			i++
		}
		for _, h := range hashes {
			first := make(map[uint32]int32, n)
			found := 0
			for i, w := range words {
				v := h.f(w)
				if j, ok := first[v]; ok {
					collidePairs = append(collidePairs, CollidingPair{h.name, words[j], w})
					found++
					if found >= 12 {
						break
					}
				} else {
					first[v] = int32(i)
				}
			}
		}
	})
	return collidePairs
}

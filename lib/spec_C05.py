T = lambda q, t: {"quick": q, "thorough": t}

SPEC = dict(
    level="exploration",
    technique="history-based differential monitor: every search through the caching/monitoring wrappers compared with an uncached search of the same Database object at that moment",
    level_text="Random histories (30-200 steps) of searches through every wrapper entry point, InvalidateCache, EnableCache, CleanupExpiredCache, "
               "virtual-time advances around the 5-minute TTL and database replacements; consecutive searches differ in exactly one option field with "
               "high probability and databases are built so that each field changes the answer, which is the two-step pattern that exposes a field "
               "missing from the cache key. After every search the uncached engine is asked 5 times (stable-reference rule) and the answers compared. "
               "An eighth of the histories use databases of 150-650 entries with limits above 100 (answers of hundreds of results, repeated), a quarter "
               "contain long queries (up to 4 KiB) that agree up to a byte offset near a power of two or the 1000-byte bound and differ afterwards; a third "
               "contain queries that are equal only after a Unicode lower-casing (U+212A, U+0130, U+017F); a quarter start with look-alike requests in sequence "
               "(platform lists and boost maps that read the same once written without quotes); every word of the query-analysis vocabulary (also with an "
               "ending glued on) in front of every phrase it names is asked through one cache in lower and then in upper case.",
    level_note="Reference = SearchUniversal on the same object (index staleness is C03's business). Tie-tolerant comparison; an unstable reference makes the case inconclusive, never red.",
    engines=[dict(name="cachehist", shards=T(16, 16), timeout=T(900, 3600))],
    rule="case = one search step inside a history; non-trivial = a step whose options differ in exactly one field from the previous search of the same "
         "(case-folded) query AND whose fresh answer differs from that previous answer ('answer-changing delta'), distinct by (history, query, field, step). "
         "A quarter of the histories run with a semantic word table loaded; a quarter of the database replacements happen while the cache is switched off (and on again "
         "afterwards); half of the look-alike request sequences carry a boost that is not a finite number. "
         "boost-twin-*: on a database that names the words of the query analysis as commands, every analysis phrase (and 400 random word pairs) is asked with a boost on each of up to four terms the enhancement adds, "
         "then without boosts, through one wrapper. Every other answer with two or more results is edited in place by the harness after it has been recorded (entries swapped, scores overwritten, a pointer cleared), as a caller that re-sorts "
         "its list would; a sixth of the histories ask for misspelt accented words in which the accent is one byte that is not valid UTF-8 (0xE9 / 0xE8 / 0xFF).",
    floors=T({"boost-twin-requests": 400, "boost-twin-sequences-with-different-answers": 100, "answers-edited-in-place-by-the-caller": 4000, "histories-with-queries-differing-in-one-invalid-byte": 100, "histories-with-embeddings": 150, "op-update-database-while-the-cache-is-off": 250, "look-alike-sequences-with-a-non-finite-boost": 40, "look-alike-request-steps": 1000, "analysis-vocabulary-sweep": 5000, "unicode-case-twin-queries": 100, "hit-steps": 1000, "miss-steps": 1500, "hits-with-over-100-results": 20, "hits-with-query-over-1000-bytes": 15, "long-twin-queries": 100, "repeat-hit": 300, "case-variant-hit": 50, "op-update-database": 100, "op-advance": 100,
              "answer-changing-delta:AllPlatforms": 20, "answer-changing-delta:TopTermsCap": 5, "answer-changing-delta:Limit": 20,
              "answer-changing-delta:UseNLP": 20, "answer-changing-delta:PipelineOnly": 20, "answer-changing-delta:Platforms": 10, "answer-changing-delta:NoCrossPlatform": 10, "distinct_nontrivial": 300},
             {"boost-twin-requests": 400, "boost-twin-sequences-with-different-answers": 100, "answers-edited-in-place-by-the-caller": 60000, "histories-with-queries-differing-in-one-invalid-byte": 1500, "histories-with-embeddings": 1500, "op-update-database-while-the-cache-is-off": 3000, "look-alike-sequences-with-a-non-finite-boost": 1500, "look-alike-request-steps": 40000, "analysis-vocabulary-sweep": 5000, "unicode-case-twin-queries": 4000, "hit-steps": 15000, "miss-steps": 15000, "hits-with-over-100-results": 500, "hits-with-query-over-1000-bytes": 300, "long-twin-queries": 2000, "repeat-hit": 3000, "case-variant-hit": 500, "op-update-database": 1000, "op-advance": 1000,
              "answer-changing-delta:AllPlatforms": 200, "answer-changing-delta:TopTermsCap": 50, "answer-changing-delta:Limit": 200,
              "answer-changing-delta:UseNLP": 200, "answer-changing-delta:PipelineOnly": 200, "answer-changing-delta:Platforms": 100, "answer-changing-delta:NoCrossPlatform": 100, "distinct_nontrivial": 3000}),
    assumptions=["whitespace-padded variants are outside the property's quantifier (repeats and case variants) and are not generated",
                 "virtual time via the VerifAdvance hook (entries aged under the cache's own lock); no wall-clock in the oracle"],
)

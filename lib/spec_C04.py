T = lambda q, t: {"quick": q, "thorough": t}

SPEC = dict(
    level="exploration",
    technique="runtime filter monitor (one-directional reference predicate) over every result list on lexical / NLP / fuzzy / cached paths and CLI runs",
    level_text="Every result list produced under generated platform / pipeline options is checked entry by entry against a permissive reference "
               "predicate (generous alias families, the code's own tool whitelist through a hook) that fires only on unambiguous leaks: an entry "
               "declaring only platforms outside every alias family of the platforms in force, not tagged cross-platform and not a whitelisted tool "
               "(or tagged/tool-qualified only, when cross-platform entries are excluded), or a definitely-non-pipeline entry under pipeline-only. "
               "Databases are built so that each query has ineligible matches to leak; coverage floors require such opportunities on each path. "
               "Requested platform lists include what the CLI hands over for `--platform \"linux, macos\"`, `--platform linux,` and `--platform \"\"` "
               "(blank and padded names) and alias spellings; a quarter of the databases grow before they are searched (a main file, untagged in half "
               "of the cases, plus tagged entries added by the notebook merge, a wrapper refresh or an append). The tool names the program recognises are "
               "found by asking it about every word of its own text (about 90); entries for other platforms whose command starts with such a name with letters "
               "glued on (gits, dockerx, create-react-apps) are planted in the databases and swept systematically: they are not that tool. A quarter of the databases "
               "are loaded from hand-style YAML files with anchors and aliases (what an entry declares is what the file says, by position); one growth step hands "
               "the same entries over again with only platforms and pipeline flags changed, after requests were cached. At the CLI every database is also asked, with a word of an entry declared for this host only, for platforms no list of known names holds (freebsd, solaris, haiku, plan9 ...).",
    level_note="No completeness clause is asserted (C03 covers completeness under all-platforms). Host platform = runtime.GOOS of the sandbox (linux).",
    engines=[dict(name="filters", shards=T(16, 16), timeout=T(900, 3600)),
             dict(name="filters-cli", shards=T(16, 16), timeout=T(900, 3600), needs_wtf=True)],
    rule="case = (database with foreign-platform and non-pipeline entries, query, filter options); non-trivial = the unfiltered answer contains at least "
         "one entry that is definitely ineligible under the case's options (a leak opportunity); distinct by (db, query, options); CLI cases: non-empty JSON result blocks. "
         "huge-*: databases of 8 to 70 thousand entries (past 8192 and 65536, sizes that are no multiple of a worker count) under 2-32 processors, whose last 37 entries "
         "(where a notebook merge puts them) match the query and must be filtered out. paraphrase-requests: one database in eight gets a word table that knows a synonym "
         "for every word of four entries; the request made of those synonyms shares no word with the database. "
         "requests-with-a-prefix-*: one platform list kept by the caller and asked for by prefixes (slices with spare capacity), judged against a private copy, the list compared afterwards. "
         "requests-repeated-after-*: on one 13-entry database object (one processor) an unfiltered request that reaches an entry of another platform, then 65,533 .. 65,536 or 131,070 requests "
         "that do not touch it, then the request under the platform / pipeline filters.",
    floors=T({"cli-requests-for-platforms-outside-any-list-of-known-names": 100, "requests-with-a-prefix-of-the-callers-platform-list": 600, "requests-repeated-after-tens-of-thousands-of-searches": 30, "huge-databases": 4, "huge-databases-over-65536-entries": 2, "huge-database-searches-with-something-to-filter": 30, "databases-with-a-word-table-holding-synonyms": 30, "paraphrase-requests": 200, "opportunity-lexical": 300, "opportunity-nlp": 300, "opportunity-fuzzy": 100, "cached-hit": 500, "pipeline-legacy": 50, "cli-nonempty": 40,
              "distinct_nontrivial": 1500, "grown-notebook-merge": 10, "grown-refresh": 10, "grown-append": 10, "tool-name-sweep": 1000, "entries-named-like-a-tool-with-letters-glued-on": 150, "databases-from-files-with-aliases": 40, "requests-repeated-after-a-retag": 50},
             {"cli-requests-for-platforms-outside-any-list-of-known-names": 100, "requests-with-a-prefix-of-the-callers-platform-list": 4000, "requests-repeated-after-tens-of-thousands-of-searches": 200, "huge-databases": 16, "huge-databases-over-65536-entries": 6, "huge-database-searches-with-something-to-filter": 400, "databases-with-a-word-table-holding-synonyms": 1500, "paraphrase-requests": 10000, "opportunity-lexical": 3000, "opportunity-nlp": 3000, "opportunity-fuzzy": 1000, "cached-hit": 5000, "pipeline-legacy": 500, "cli-nonempty": 400,
              "distinct_nontrivial": 15000, "grown-notebook-merge": 500, "grown-refresh": 500, "grown-append": 500, "tool-name-sweep": 1000, "entries-named-like-a-tool-with-letters-glued-on": 7000, "databases-from-files-with-aliases": 2000, "requests-repeated-after-a-retag": 2500}),
    assumptions=[
        "alias families are generous (windows*: cmd, powershell; macos*: darwin, osx; linux*: unix, bash, zsh) so an alias the code learns later is not flagged",
        "the CLI's last-resort recovery search is not among the paths the statement lists and is not deciding here (C01 bounds it)",
        "SearchWithPipelineOptions (used by `wtf pipeline`) is deciding for the pipeline-only clause only",
        "'a recognised cross-platform tool' is what the program's own predicate accepts (verif hook), provided the first word of the command is a string constant "
        "of the program: a tool's name with letters glued on that the program names nowhere is taken to be a different command",
    ],
)

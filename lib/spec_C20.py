T = lambda q, t: {"quick": q, "thorough": t}

SPEC = dict(
    level="exploration",
    technique="paired-run monitor: query vs case re-spelling (and blank padding at the CLI), tie-tolerant comparison with stable reference",
    level_text="For generated (database, query, options) cases the answer to a case re-spelling of the query (upper / lower / title / alternating / "
               "random masks over letters whose lower-casing agrees with simple folding) must equal the answer to the query, on the lexical, NLP "
               "(clue phrases in mixed case), typo-fallback and cached paths; at the CLI, re-cased and blank-padded command lines must print the "
               "same JSON result block. Per database three more pairs whose variant carries blanks that are not ASCII (U+00A0, U+3000, U+2002/3/9, U+202F, U+205F, U+1680) next to an ordinary blank or at the ends, two of them misspelt requests. Per-path pair counts are floors. Per database three more CLI pairs are requests that only the last-resort search answers, opened by a little word (how, the, please, show me ...) whose case is what differs.",
    level_note="Re-spelling touches only runes r with ToLower(ToUpper(r)) == ToLower(r), ToUpper(ToLower(r)) == ToUpper(r) and r one of the two "
               "(the statement's carve-out for U+0130-like code points, final sigma, long s, dotless i, Kelvin sign).",
    engines=[dict(name="caseinv", shards=T(16, 16), timeout=T(900, 3600)),
             dict(name="caseinv-cli", shards=T(16, 16), timeout=T(900, 3600), needs_wtf=True)],
    rule="case = (database, query, re-spelt query, options); non-trivial = the answer to the query is non-empty; distinct by (db, query, variant, options). "
         "CLI: (db, query, variant, limit) with a non-empty result block.",
    floors=T({"cli-pairs-opened-by-a-little-word": 50, "cli-pairs-with-non-ascii-blanks": 90, "pairs-lexical": 1000, "pairs-nlp": 1000, "pairs-fuzzy": 300, "cached-variant-hit": 500, "cli-pairs-nonempty": 60, "cli-pairs-blanks": 25, "cli-pipeline-pairs-nonempty": 60, "cli-pipeline-misspelt-queries": 120, "cli-queries-wrapped-in-quote-characters": 50, "cli-homes-with-a-special-casing-locale": 8, "nlp-vocabulary-sweep": 3000, "databases-with-a-cased-embedding-vocabulary": 15, "cli-homes-inside-a-project-with-capitalised-targets": 8,
              "distinct_nontrivial": 3000},
             {"cli-pairs-opened-by-a-little-word": 50, "cli-pairs-with-non-ascii-blanks": 2500, "pairs-lexical": 10000, "pairs-nlp": 10000, "pairs-fuzzy": 3000, "cached-variant-hit": 5000, "cli-pairs-nonempty": 600, "cli-pairs-blanks": 250, "cli-pipeline-pairs-nonempty": 1500, "cli-pipeline-misspelt-queries": 3000, "cli-queries-wrapped-in-quote-characters": 1500, "cli-homes-with-a-special-casing-locale": 250, "nlp-vocabulary-sweep": 3000, "databases-with-a-cased-embedding-vocabulary": 800, "cli-homes-inside-a-project-with-capitalised-targets": 250,
              "distinct_nontrivial": 30000}),
    assumptions=["CLI comparison is on the parsed result block (entry + score with -v); the 'Searching for:' echo legitimately differs in case",
                 "the binary runs under the locale variables a shell may export (C, en_US, de_DE, el_GR and the special-casing tr_TR, az_AZ, lt_LT), the same for both spellings of a pair",
                 "a fifth of the in-process databases have an embedding index whose vocabulary holds capitalised and upper-case spellings with vectors of their own; a quarter of the CLI homes "
                 "run inside a project whose Makefile targets / package scripts are database words spelt with capitals, and half of their requests name a target exactly as the file spells it",
                 "`wtf pipeline <query>` pairs are compared on everything printed (with -v: commands, scores) below the line that repeats the query"],
)

T = lambda q, t: {"quick": q, "thorough": t}

SPEC = dict(
    level="exploration",
    technique="reference log stepped alongside the real history object over random add/save/load/clear histories; arbitrary bytes as the history file; thorough adds a coverage-guided go test -fuzz workload (FuzzHistoryFile) with the same oracles",
    level_text="A three-rule reference log (append; an immediate repeat replaces the last entry; keep the newest MaxSize) is stepped next to a "
               "real *history.SearchHistory through thousands of random histories of 1-600 operations (AddEntry, Save, Load on the same "
               "object and on fresh objects sharing the file, Clear, views); after every step the entries are compared field by field, "
               "every Save is read back by a fresh object, and the recent / top / stats / pattern views are recomputed from the entries; now and then another "
               "writer puts a valid history without an entries list in place ({} / null / entries: null) before a Load on the object in use; a few histories have "
               "a maximum of 101-1000 and 100-300 different queries. "
               "Separately, thousands of file contents (as Save writes them with every kind of max_size, wrong types, duplicate keys, every "
               "truncation of a valid file with and without a byte-order mark, byte flips, random bytes, every file of one and two bytes, every "
               "file of three (thorough: four) bytes over 30 bytes significant to a JSON / UTF-8 reader, valid files whose entries are not in "
               "timestamp order or whose last entry is dated decades ahead, histories of 1-17 MiB with long queries) are put in place of the history file and Load + AddEntry + Save + views are run on them; the views must "
               "leave the entries as they were. Exploration over generated histories and files, not proof. One history run in twelve holds a query or context of 64 KiB .. 1 MiB+ (one unbroken word, or words).",
    level_note="Trusted: the generators, the reference log (30 lines), the Go runtime and encoding/json. Timestamps are the ones the code "
               "takes itself; the monitor only compares them with each other and with the interval of the AddEntry call (monotonic clock).",
    engines=[
        dict(name="histmodel", shards=T(16, 16), timeout=T(600, 3000)),
        dict(name="histfiles", shards=T(16, 16), timeout=T(600, 3000)),
             dict(name="gofuzz-FuzzHistoryFile", kind="gofuzz", target="FuzzHistoryFile", fuzztime=T(0, "90s")),
             dict(name="history-cli", shards=T(16, 16), timeout=T(900, 3600), needs_wtf=True)],
    rule="histmodel: case = one history (initial maximum in {1,2,3,100,<=0 -> default}, a pool of 2-7 queries incl. empty, 5 KB, multi-line, "
         "control characters, quotes, unicode and - in 15% of the histories - invalid UTF-8, and 1-600 operations add/save/load/"
         "load-into-fresh-object/new-object/clear/views with 35% immediate repeats); non-trivial = a distinct history that ran to its "
         "end and contained at least one trim (log exceeded the maximum), one collapse of an immediate repeat and one save -> load cycle. "
         "histfiles: case = one file content; non-trivial = a distinct content that is a valid JSON object or a truncation of a valid "
         "file. evaluations = histories + files (operations are in coverage.histmodel_operations). Every shard of histmodel and histfiles but two "
         "runs in a generated local time zone (fixed offsets from -12:00 to +14:00, and zones whose clocks went back ten minutes before the run started or "
         "will 55 minutes after it, so that the repeated wall-clock hour is now); the stamp of every recorded entry must lie between the clock readings "
         "taken around the AddEntry call. Every file that loads is, after one recorded search, saved and read back (same entries, same instants), "
         "including files whose entries are dated at the ends of the representable calendar (years 0000 / 9999, with zone offsets on either side).",
    floors=T({"runs-with-a-text-above-64KiB": 150, "runs-in-a-generated-time-zone": 28, "runs-around-a-clock-change": 8, "files-dated-at-the-ends-of-the-calendar": 576, "files-saved-and-read-back": 1000, "cli-history-sessions": 40, "cli-history-with-repeats": 15, "evaluations": 7500, "distinct_nontrivial": 2500, "trim": 1500, "collapse": 2500, "save-load-cycles": 2500, "clear": 1000,
              "save-verified": 20000, "files-valid": 600, "files-truncated": 600, "files-garbage": 800, "files-maxsize-nonpositive": 300, "files-short-exhaustive": 92792, "files-timestamps-out-of-order": 40, "files-over-4MiB": 5, "files-ending-with-the-repeated-query": 80, "large-histories-viewed": 60, "files-without-an-entries-list-put-in-place": 1000},
             {"runs-with-a-text-above-64KiB": 150, "runs-in-a-generated-time-zone": 28, "runs-around-a-clock-change": 8, "files-dated-at-the-ends-of-the-calendar": 576, "files-saved-and-read-back": 5000,
              "evaluations": 150000, "distinct_nontrivial": 50000, "trim": 30000, "collapse": 70000, "save-load-cycles": 50000,
              "clear": 20000, "save-verified": 400000, "files-valid": 12000, "files-truncated": 12000, "files-garbage": 16000,
              "files-maxsize-nonpositive": 6000, "files-short-exhaustive": 902792, "files-timestamps-out-of-order": 900, "files-over-4MiB": 5, "files-ending-with-the-repeated-query": 1500, "large-histories-viewed": 600, "files-without-an-entries-list-put-in-place": 20000}),
    assumptions=[
        "the maximum asserted is the object's own MaxSize field: whatever positive value NewSearchHistory / Load leave there (a requested "
        "maximum <= 0 may be replaced by any positive default); in histmodel a MaxSize <= 0 is itself reported (clause bound)",
        "a history stops at its first violation (the reference and the object have diverged), except for the invalid-UTF-8 round trip, "
        "after which the reference adopts what the file holds and the history continues",
        "result counts and durations are generated >= 0 (what the CLI can pass); average duration is compared as sum/len",
        "case-insensitive containment is decided only where three readings agree (per-rune lower-casing, simple case folding, and - for "
        "strings with invalid UTF-8 - invalid bytes equal only to themselves vs. all equal to U+FFFD); otherwise the pattern is counted "
        "inconclusive (the code's ToLower turns every invalid byte into U+FFFD, so distinct invalid bytes match each other)",
        "for arbitrary file contents only the no-crash clause and 'the recorded search is the last entry' are asserted; bound and order "
        "are not asserted on entries that were never recorded by the code",
    ],
)

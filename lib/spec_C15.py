T = lambda q, t: {"quick": q, "thorough": t}

SPEC = dict(
    level="fault_enumeration",
    technique="enumerated file faults (main x notebook x backup) x retry configurations through the real LoadDatabaseWithFallback, attempts and waits counted exactly by an observer hook inside the retry loop",
    level_text="Every combination of {valid, valid as UTF-16 with a byte-order mark, empty list, 0 bytes, missing, permission-denied, directory, dangling symlink, symlink loop, unsearchable parent "
               "directory, malformed YAML, wrong shape, binary garbage} on the main and the notebook file and {missing, valid, malformed, empty list, 0 bytes} on the backup is created on disk (13x13x5 = 720 "
               "combinations, each under 2 (quick) / 6 (thorough) of 180 retry configurations), plus transient faults repaired when the observer "
               "reports attempt j, plus steep back-off configurations whose product overflows int64 (every wait must still lie in [previous, maximum]), plus the default configuration. The returned (database, error), its searchability, which database it is, the "
               "number of load attempts and every requested wait are checked against the statement. Permission faults are real: the shard re-executes "
               "itself under setpriv as uid 65534. Loadable files are also made large (just below and above 1, 4, 8, 16 MiB; thorough 32, 64 MiB; main or "
               "notebook) and reached through path spellings (./, //, sub/../, and link/../ through a symbolic link to a directory, where the file meant is "
               "not the one a lexical clean-up names, with and without a decoy database at the lexical location): the real database must come back. "
               "The returned database belongs to the caller: after seven kinds of changes to an earlier fallback result (replace through the caching wrapper, edit, "
               "append, empty, truncate) the next load that falls back must again be the pristine built-in database. Loadable files carry every common mode "
               "(0666, 0777, 0606 ... 0400); and a file is replaced between two loads of one process by content of the same length with its modification time kept. Retry configurations include factors below one, zero and negative ones.",
    level_note="Attempts and waits are observed by the verif hook (before time.Sleep), never inferred from wall-clock time. BackoffFactor < 1 is not a back-off and is excluded.",
    engines=[dict(name="loadfaults", shards=T(16, 16), timeout=T(900, 3600))],
    rule="case = (main fault, notebook fault, backup fault, retry configuration, transient-repair point); every case is non-trivial (each creates real files and drives the real loader); "
         "distinct by the tuple. Most configurations wait micro- or milliseconds; four (seven in the thorough tier) have waits "
         "of seconds that are really slept through and add up to 12-14 s (60-100 s), one per shard. "
         "In 36 loads the fault moves during the load (the main file fails for the first 1-4 attempts, then it is whole and the notebook fails); in five the notebook path names the main file itself "
         "(same path, ./ spelling, hard link, symbolic link, copy) and the answer must be its entries twice.",
    floors=T({"loads-whose-fault-moves-to-the-other-file": 30, "notebook-paths-that-name-the-main-file": 5, "slept-through-configs": 4, "seconds-slept-through": 45, "permission-faults-exercised": 80, "retried": 100, "multi-wait-sequences": 30, "transient": 100, "steep-backoff-configs": 20, "returned-real": 50, "returned-fallback": 300,
              "distinct_nontrivial": 600, "large-files-over-8MiB": 6, "path-spellings-through-symlink": 6, "fallback-isolation-cases": 7, "main:valid-utf16": 50, "file-modes": 30, "same-size-same-mtime-replacements": 6},
             {"loads-whose-fault-moves-to-the-other-file": 30, "notebook-paths-that-name-the-main-file": 5, "slept-through-configs": 7, "seconds-slept-through": 200, "permission-faults-exercised": 300, "retried": 400, "multi-wait-sequences": 100, "transient": 100, "steep-backoff-configs": 20, "returned-real": 150, "returned-fallback": 1000,
              "distinct_nontrivial": 1800, "large-files-over-8MiB": 12, "path-spellings-through-symlink": 6, "fallback-isolation-cases": 7, "main:valid-utf16": 150, "file-modes": 30, "same-size-same-mtime-replacements": 6}),
    assumptions=["a non-positive configured number of attempts is read as one attempt (and either the real database or the fallback is accepted, never nil/error)",
                 "a dangling symlink as notebook may be read as absent or as broken",
                 "the backup rung is never reached because the embedded rung always succeeds; backup faults are enumerated for totality only"],
)

T = lambda q, t: {"quick": q, "thorough": t}

SPEC = dict(
    level="exploration",
    technique="repetition as scheduler: bit-exact comparison of repeated calls, fresh loads and separate processes",
    level_text="Go re-randomises map iteration at every range and process start, so repeating a case samples the 'schedules' the property "
               "quantifies over: each (database, query, options) case is evaluated 10x on one instance, on 3 independently loaded copies and in 3 "
               "child processes (thorough 30/5/5) and all answers must be bit-identical (entry index + float bits); same for GetSuggestions and "
               "for the result block of repeated `wtf --format json -v` runs. Tie-heavy databases make chance ordering observable; some have 500-5000 "
               "entries (work split by size or processor count shows only there). SearchWithNLP and SearchWithPipelineOptions (the engine of "
               "`wtf pipeline`) are compared on repeated calls and fresh loads as well. A third of the databases are a main file plus a notebook that "
               "repeats some of its entries word for word; one per run has a vocabulary of more than 100,000 distinct words. Further kinds: a database assembled "
               "in code from plain entries (every legacy entry point also as the very first call on a new instance) and a long-lived object that held other "
               "content of the same size, answered suggestions and searches, and was then given this content (must answer like a plain load). The binary is also run eight times per request from inside working directories that are several kinds of project at once (their boost tables may disagree), against the shipped database, with requests that name the words such tables hold.",
    level_note="Samples map orders, cannot enumerate them; an order dependence that needs a specific large-map layout could be missed.",
    engines=[dict(name="determinism", shards=T(16, 16), timeout=T(900, 3600), needs_wtf=True)],
    rule="case = (database, query, options); non-trivial = the full answer (limit N+1) contains a group of >=2 entries with equal scores "
         "or such a group straddles the limit in force (only those can expose chance ordering); distinct by (db, query, options). "
         "On databases of more than 2000 entries up to three requests are repeated for a second and a half each while the process is starved of processor time (one processor "
         "shared with two dozen busy goroutines: each preemption costs the search a quarter of a second): every answer must be the answer of the idle process.",
    floors=T({"cli-runs-repeated-inside-a-project-of-several-kinds": 30, "calls-under-a-starved-scheduler": 150, "calls-under-a-starved-scheduler-that-took-over-200ms": 20, "nontrivial-tie": 300, "tie-straddles-limit": 50, "nonempty": 500, "nonempty-SearchWithNLP": 200, "suggestions-nonempty": 20, "cli-triples": 10, "distinct_nontrivial": 300, "db-over-2048": 3, "db-over-4096": 3, "db-kind-notebook": 10, "db-kind-plain-literal": 8, "db-kind-replaced": 8, "first-call-on-a-new-instance-compared": 150, "db-huge-vocabulary": 1},
             {"cli-runs-repeated-inside-a-project-of-several-kinds": 30, "calls-under-a-starved-scheduler": 1000, "calls-under-a-starved-scheduler-that-took-over-200ms": 100, "nontrivial-tie": 3000, "tie-straddles-limit": 500, "nonempty": 5000, "nonempty-SearchWithNLP": 2000, "suggestions-nonempty": 200, "cli-triples": 100, "distinct_nontrivial": 3000, "db-over-2048": 30, "db-over-4096": 30, "db-kind-notebook": 100, "db-kind-plain-literal": 80, "db-kind-replaced": 80, "first-call-on-a-new-instance-compared": 1500, "db-huge-vocabulary": 8}),
    assumptions=["same database content = same YAML file; entries are identified by their index in the loaded list"],
)

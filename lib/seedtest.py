#!/usr/bin/env python3
"""Confirms a seeded change delivered by a sub-agent and runs the checks against it.

  lib/seedtest.py <Cxx> [--checks C01,C05] [--tier quick] [--keep] [--src <dir with changeN.diff, demoN/, meta.json>] [--offset k]
                  [--demo-flags "-race"] [--only-change N]

For every /tmp/seedout_<Cxx>/changeN.diff: scratch worktree of /repo HEAD, (1) demo passes on the clean tree,
(2) apply the diff, existing suite passes, (3) demo fails, (4) the property's check (and --checks) run with
VERIF_REPO=<worktree>. Confirmed changes are stored as /verif/seeded/<Cxx>-<N>/ {patch.diff, demo/*, meta.json}.
"""
import glob
import json
import os
import re
import shutil
import subprocess
import sys

VERIF = os.path.dirname(os.path.dirname(os.path.abspath(__file__)))
ENV = dict(os.environ, GOFLAGS="-mod=mod", GOPROXY="off")
ENV.pop("GOTOOLCHAIN", None)


def sh(cmd, cwd=None, timeout=3600, env=None):
    p = subprocess.run(cmd, cwd=cwd, shell=isinstance(cmd, str), capture_output=True, text=True, errors="replace", timeout=timeout, env=env or ENV)
    return p.returncode, p.stdout + p.stderr


def pkg_dir(testfile):
    m = re.search(r"^package\s+(\w+)", open(testfile).read(), re.M)
    name = m.group(1)
    if name.endswith("_test"):
        name = name[:-5]
    if name == "main":
        return "cmd/wtf"
    return "internal/" + name


DEMO_FLAGS = []


def run_demo(wt, demo_dir):
    dirs = set()
    copied = []
    for f in glob.glob(os.path.join(demo_dir, "*_test.go")):
        d = pkg_dir(f)
        dst = os.path.join(wt, d, os.path.basename(f))
        shutil.copy(f, dst)
        copied.append(dst)
        dirs.add("./" + d + "/")
    if not dirs:
        # shell demonstration: demo.sh <worktree>; exit status 0 = passes
        shs = sorted(glob.glob(os.path.join(demo_dir, "*.sh")))
        if shs:
            return sh(["bash", shs[0], wt], cwd=demo_dir, timeout=1200)
        return None, "no *_test.go / *.sh demo files"
    rc, out = sh(["go", "test", "-vet=off", "-count=1", "-run", "Seed|seed|Demo", "-timeout", "600s"] + DEMO_FLAGS + sorted(dirs), cwd=wt)
    for c in copied:
        os.remove(c)
    return rc, out


def main():
    pid = sys.argv[1]
    extra = []
    tier = "quick"
    keep = "--keep" in sys.argv
    if "--checks" in sys.argv:
        extra = sys.argv[sys.argv.index("--checks") + 1].split(",")
    if "--tier" in sys.argv:
        tier = sys.argv[sys.argv.index("--tier") + 1]
    out_dir = "/tmp/seedout_" + pid
    offset = 0
    if "--src" in sys.argv:
        out_dir = sys.argv[sys.argv.index("--src") + 1]
    if "--offset" in sys.argv:
        offset = int(sys.argv[sys.argv.index("--offset") + 1])
    if "--demo-flags" in sys.argv:  # e.g. "-race" or "-tags verif" for demonstrations that say they need them
        DEMO_FLAGS.extend(sys.argv[sys.argv.index("--demo-flags") + 1].split())
    only = None
    if "--only-change" in sys.argv:
        only = int(sys.argv[sys.argv.index("--only-change") + 1])
    meta_in = {}
    try:
        meta_in = json.load(open(os.path.join(out_dir, "meta.json")))
    except Exception:
        pass
    diffs = sorted(glob.glob(os.path.join(out_dir, "change*.diff")))
    summary = []
    for n, diff in enumerate(diffs, 1):
        if only is not None and n != only:
            continue
        wt = "/tmp/sw_%s_%d" % (pid, n)
        sh(["git", "-C", "/repo", "worktree", "remove", "--force", wt])
        shutil.rmtree(wt, ignore_errors=True)
        rc, o = sh(["git", "-C", "/repo", "worktree", "add", "--detach", wt, "HEAD"])
        assert rc == 0, o
        demo_dir = os.path.join(out_dir, "demo%d" % n)
        res = dict(property=pid, change=os.path.basename(diff))
        try:
            rc0, o0 = run_demo(wt, demo_dir)
            res["demo_passes_without_change"] = (rc0 == 0)
            rc, o = sh(["git", "apply", diff], cwd=wt)
            if rc != 0:
                sh(["git", "checkout", "--", "."], cwd=wt)
                rc, o = sh(["git", "apply", "--3way", diff], cwd=wt)
            res["applies"] = (rc == 0)
            if rc != 0:
                res["apply_output"] = o[-500:]
                summary.append(res)
                continue
            rcb, ob = sh(["go", "build", "-tags", "verif", "./..."], cwd=wt)
            res["builds_with_hooks"] = (rcb == 0)
            rcs, os_ = sh(["go", "test", "-vet=off", "-count=1", "./..."], cwd=wt)
            res["suite_passes_with_change"] = (rcs == 0)
            rc1, o1 = run_demo(wt, demo_dir)
            res["demo_fails_with_change"] = (rc1 not in (0, None))
            res["demo_output_tail"] = (o1 or "")[-600:]
            confirmed = res["demo_passes_without_change"] and res["suite_passes_with_change"] and res["demo_fails_with_change"] and res["builds_with_hooks"]
            res["confirmed"] = bool(confirmed)
            checks = [pid] + [c for c in extra if c != pid]
            res["checks"] = {}
            for c in checks:
                env = dict(os.environ, VERIF_REPO=wt, VERIF_EVIDENCE_DIR="/tmp/sw_evidence")
                rcc, oc = sh([os.path.join(VERIF, "check"), c, tier], cwd=VERIF, env=env, timeout=7200)
                lines = [l for l in oc.split("\n") if l.startswith(("VIOLATION", "INCOMPLETE", "SUMMARY", "BUILD-FAILED", "KNOWN"))]
                clauses = sorted(set(re.findall(r"clause=(\S+) path=(.*?) ::", oc)))
                res["checks"][c] = dict(rc=rcc, caught=(rcc == 1), clauses=[" @ ".join(x) for x in clauses][:12], summary=[l[:300] for l in lines if l.startswith("SUMMARY")])
            res["caught_by"] = [c for c, v in res["checks"].items() if v["caught"]]
        finally:
            if not keep:
                sh(["git", "-C", "/repo", "worktree", "remove", "--force", wt])
                shutil.rmtree(wt, ignore_errors=True)
        # store
        if res.get("confirmed"):
            sd = os.path.join(VERIF, "seeded", "%s-%d" % (pid, n + offset))
            shutil.rmtree(sd, ignore_errors=True)
            os.makedirs(os.path.join(sd, "demo"), exist_ok=True)
            shutil.copy(diff, os.path.join(sd, "patch.diff"))
            for f in glob.glob(os.path.join(demo_dir, "*")):
                if os.path.isfile(f):
                    shutil.copy(f, os.path.join(sd, "demo"))
            agent_meta = {}
            for ch in (meta_in.get("changes") or []):
                if ch.get("file") == os.path.basename(diff):
                    agent_meta = ch
            meta = dict(property=pid, breaks=pid, summary=agent_meta.get("summary"), needs_to_manifest=agent_meta.get("needs_to_manifest"),
                        demo_cmd=agent_meta.get("demo_cmd"),
                        what_i_ran=["demo on clean worktree of /repo HEAD: passes", "git apply patch.diff; go build -tags verif ./...; go test -vet=off -count=1 ./... : passes",
                                    "demo with the change: fails", "VERIF_REPO=<worktree> ./check <id> %s for: %s" % (tier, ", ".join(res["checks"].keys()))],
                        results=res)
            json.dump(meta, open(os.path.join(sd, "meta.json"), "w"), indent=1)
        summary.append(res)
    # restore evidence files possibly rewritten by the runs above
    for r in summary:
        print(json.dumps({k: v for k, v in r.items() if k not in ("demo_output_tail",)}, indent=1)[:3000])


if __name__ == "__main__":
    main()

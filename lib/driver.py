#!/usr/bin/env python3
"""Driver for the runtime-monitoring checks (stdlib only).

  ./check <Cxx> quick|thorough        run the property's check
  ./check <Cxx> --replay <file>       re-run the shard that produced a witness
  ./check setup                       pre-build (warms the Go build cache)

Exit codes: 0 held on everything explored (KNOWN-FINDING lines allowed),
1 VIOLATION printed, 2 build failure / coverage floor missed / inconclusive.
"""
import concurrent.futures as cf
import fcntl
import fnmatch
import hashlib
import json
import os
import re
import shutil
import subprocess
import sys
import time

VERIF = os.path.dirname(os.path.dirname(os.path.abspath(__file__)))
REPO = os.environ.get("VERIF_REPO", "/repo")
BUILD_ROOT = os.path.join(VERIF, ".build")
GO125 = "/root/go/pkg/mod/golang.org/toolchain@v0.0.1-go1.25.5.linux-amd64/bin/go"
NCPU = os.cpu_count() or 4


def go_env():
    env = dict(os.environ)
    env["GOFLAGS"] = "-mod=mod"
    env["GOPROXY"] = "off"
    env.pop("GOTOOLCHAIN", None)  # 'local' breaks the offline switch to go1.25.5
    env.pop("GOSUMDB", None)
    env.setdefault("GOCACHE", os.path.join(os.path.expanduser("~"), ".cache", "go-build"))
    return env


def go_bin():
    # /usr/bin/go switches to the cached 1.25.5 toolchain; fall back to it by path.
    try:
        out = subprocess.run(["go", "version"], cwd=REPO, env=go_env(), capture_output=True, text=True, timeout=120)
        if out.returncode == 0 and "go1.25" in out.stdout:
            return "go"
    except Exception:
        pass
    if os.path.exists(GO125):
        return GO125
    return "go"


class Build:
    """Builds wtfmon (the harness, overlaid into /repo/internal/zzverif) and wtf
    from /repo's *current working tree* into a private directory."""

    def __init__(self, tag):
        self.dir = os.path.join(BUILD_ROOT, "%s_%d" % (tag, os.getpid()))
        os.makedirs(self.dir, exist_ok=True)
        self.go = go_bin()
        self.env = go_env()
        self._prep()

    def _prep(self):
        shutil.copy(os.path.join(REPO, "go.mod"), os.path.join(self.dir, "go.mod"))
        with open(os.path.join(self.dir, "go.mod"), "a") as f:
            f.write("\nrequire github.com/anishathalye/porcupine v1.3.0\n")
        sums = open(os.path.join(REPO, "go.sum")).read()
        sums += open(os.path.join(VERIF, "lib", "extra.sum")).read()
        with open(os.path.join(self.dir, "go.sum"), "w") as f:
            f.write(sums)
        repl = {}
        hroot = os.path.join(VERIF, "harness")
        for d, _, files in os.walk(hroot):
            for fn in files:
                if fn.endswith(".go"):
                    real = os.path.join(d, fn)
                    rel = os.path.relpath(real, hroot)
                    repl[os.path.join(REPO, "internal", "zzverif", rel)] = real
        with open(os.path.join(self.dir, "overlay.json"), "w") as f:
            json.dump({"Replace": repl}, f)

    def _run(self, args, what):
        p = subprocess.run(args, cwd=REPO, env=self.env, capture_output=True, text=True)
        if p.returncode != 0:
            sys.stdout.write("BUILD-FAILED %s\n%s\n%s\n" % (what, p.stdout[-4000:], p.stderr[-6000:]))
            raise SystemExit(2)

    def wtfmon(self, race=False):
        out = os.path.join(self.dir, "wtfmon-race" if race else "wtfmon")
        if os.path.exists(out):
            return out
        args = [self.go, "build", "-tags", "verif"]
        if race:
            args.append("-race")
        args += ["-overlay", os.path.join(self.dir, "overlay.json"), "-modfile", os.path.join(self.dir, "go.mod"),
                 "-o", out, "./internal/zzverif/cmd/wtfmon"]
        self._run(args, "wtfmon" + ("-race" if race else ""))
        return out

    def wtf(self):
        out = os.path.join(self.dir, "wtf")
        if os.path.exists(out):
            return out
        self._run([self.go, "build", "-tags", "verif", "-o", out, "./cmd/wtf"], "wtf")
        return out

    def cleanup(self):
        shutil.rmtree(self.dir, ignore_errors=True)


def rm_tree(path):
    # an engine that was killed may have left mounts behind (C09 bind-mount flavour)
    try:
        mps = [l.split()[1] for l in open("/proc/mounts") if l.split()[1].startswith(path + "/")]
        for mp in sorted(mps, key=len, reverse=True):
            subprocess.run(["umount", "-l", mp], capture_output=True)
    except Exception:
        pass
    # children may have created files as uid 65534 or mode 000
    subprocess.run(["chmod", "-R", "u+rwx", path], capture_output=True)
    shutil.rmtree(path, ignore_errors=True)


def load_known():
    p = os.path.join(VERIF, "known_findings.json")
    if not os.path.exists(p):
        return []
    return json.load(open(p)).get("findings", [])


def match_known(v, known):
    for k in known:
        if k.get("status") != "open" or k.get("property") != v.get("property"):
            continue
        if k.get("clause") != v.get("clause"):
            continue
        if not fnmatch.fnmatchcase(v.get("path", ""), k.get("path", "*")):
            continue
        dc = k.get("detail_contains")
        if dc and dc not in (v.get("detail") or ""):
            continue
        dr = k.get("detail_regex")
        if dr and not re.search(dr, v.get("detail") or ""):
            continue
        return k
    return None


RACE_RE = re.compile(r"WARNING: DATA RACE")


def parse_race_logs(scratch):
    """Returns de-duplicated race reports: key = pair of outermost module frames."""
    reports = {}
    total = 0
    for fn in sorted(os.listdir(scratch)):
        if not fn.startswith("race."):
            continue
        txt = open(os.path.join(scratch, fn), errors="replace").read()
        blocks = txt.split("==================")
        for b in blocks:
            if "WARNING: DATA RACE" not in b:
                continue
            total += 1
            stacks = re.split(r"\n\n", b.strip())
            tops = []
            for st in stacks[:2]:
                frames = re.findall(r"^\s+(github\.com/Vedant9500/WTF/\S+?)\((?:0x|\)|[^)]*\)$)", st, re.M)
                frames = [f for f in frames if "/zzverif/" not in f]
                tops.append(frames[0] if frames else "?")
            key = " <-> ".join(sorted(tops))
            if key not in reports:
                reports[key] = b.strip()[:6000]
    return total, reports


class Run:
    def __init__(self, prop, tier, spec):
        self.prop, self.tier, self.spec = prop, tier, spec
        self.seed = int(os.environ.get("VERIF_SEED", "1"))
        self.t0 = time.time()
        self.scratch = "/var/tmp/wtfverif_%s_%d" % (prop, os.getpid())
        rm_tree(self.scratch)
        os.makedirs(self.scratch, mode=0o755)
        os.chmod(self.scratch, 0o755)
        self.build = Build(prop)
        self.shard_results = []
        self.crashes = []
        self.timeouts = []
        self.race_total = 0
        self.race_reports = {}

    def engine_cmd(self, eng, shard, nshards, outp, logp, sdir):
        race = eng.get("race", False)
        binp = self.build.wtfmon(race=race)
        args = [binp, eng["name"], "-seed", str(self.seed), "-tier", self.tier, "-shard", str(shard),
                "-nshards", str(nshards), "-out", outp, "-log", logp, "-scratch", sdir]
        if eng.get("needs_wtf"):
            args += ["-wtf", self.build.wtf()]
        args += ["-repo", REPO]
        args += eng.get("args", [])
        return args

    def run_gofuzz(self, eng):
        """Coverage-guided workload: go test -fuzz on a scratch copy of /repo's working tree (thorough tier only)."""
        ft = eng.get("fuzztime", {}).get(self.tier, 0)
        if not ft:
            return
        target = eng["target"]
        work = os.path.join(self.scratch, "fuzz_" + target)
        os.makedirs(work, exist_ok=True)
        subprocess.run(["rsync", "-a", "--exclude", ".git", REPO + "/", work + "/"], check=True)
        zz = os.path.join(work, "internal", "zzfuzz")
        os.makedirs(zz, exist_ok=True)
        shutil.copy(os.path.join(VERIF, "harness_fuzz", "fuzz_test.go"), os.path.join(zz, "fuzz_test.go"))
        env = go_env()
        args = [self.build.go, "test", "-tags", "verif", "-run", "^$", "-fuzz", "^%s$" % target, "-fuzztime", str(ft),
                "-parallel", str(eng.get("parallel", NCPU)), "-timeout", "60m", "./internal/zzfuzz/"]
        p = subprocess.run(args, cwd=work, env=env, capture_output=True, text=True)
        out = p.stdout + p.stderr
        execs, interesting = 0, 0
        for m in re.finditer(r"execs: (\d+) .*?new interesting: \d+ \(total: (\d+)\)", out):
            execs, interesting = int(m.group(1)), int(m.group(2))
        res = dict(engine="gofuzz-" + target, shard=0, seed=self.seed, evaluations=execs,
                   nontrivial=["%s:%d" % (target, i) for i in range(interesting)],
                   paths={"fuzz-execs:" + target: execs, "fuzz-interesting-inputs:" + target: interesting},
                   samples=[dict(fuzz_target=target, fuzztime=str(ft), executions=execs, inputs_that_increased_coverage=interesting)],
                   violations=[], inconclusive={}, extra={})
        if p.returncode != 0:
            m = re.search(r"Failing input written to (\S+)", out)
            witness = {}
            if m:
                fp = os.path.join(zz, m.group(1))
                try:
                    witness["corpus_file"] = open(fp, errors="replace").read()[:20000]
                except Exception:
                    pass
            fail = "\n".join([l for l in out.split("\n") if l.strip() and not l.startswith("fuzz: elapsed")][-25:])
            if "FAIL" in out and ("Failing input" in out or "panic" in out or "--- FAIL" in out):
                res["violations"].append(dict(property=self.prop, clause="fuzz-failure", path=target, detail=fail[-1500:], witness=witness))
            else:
                res["inconclusive"]["go test -fuzz did not run: " + fail[-300:]] = 1
        self.shard_results.append(dict(engine="gofuzz-" + target, shard=0, nshards=1, rc=0, result=res, last="", stderr="", args=[]))
        shutil.rmtree(work, ignore_errors=True)

    def run_engine(self, eng, only_shard=None):
        if eng.get("kind") == "gofuzz":
            return self.run_gofuzz(eng)
        nshards = eng.get("shards", {}).get(self.tier, eng.get("shards", {}).get("quick", 8))
        timeout = eng.get("timeout", {}).get(self.tier, 900)
        edir = os.path.join(self.scratch, eng["name"])
        os.makedirs(edir, exist_ok=True)
        os.chmod(edir, 0o755)
        # build first (serial) so that shards do not race on it
        self.build.wtfmon(race=eng.get("race", False))
        if eng.get("needs_wtf"):
            self.build.wtf()

        def one(shard):
            outp = os.path.join(edir, "shard_%d.json" % shard)
            logp = os.path.join(edir, "shard_%d.log" % shard)
            errp = os.path.join(edir, "shard_%d.stderr" % shard)
            sdir = os.path.join(edir, "s%d" % shard)
            os.makedirs(sdir, exist_ok=True)
            os.chmod(sdir, 0o755)
            args = self.engine_cmd(eng, shard, nshards, outp, logp, sdir)
            env = dict(os.environ)
            env["GOTRACEBACK"] = "all"
            if eng.get("race"):
                env["GORACE"] = "halt_on_error=0 exitcode=0 log_path=%s" % os.path.join(edir, "race.s%d" % shard)
            memkb = eng.get("mem_kb", 6 * 1024 * 1024)
            if eng.get("race"):
                shell = "exec \"$@\""  # race runtime reserves huge virtual ranges; no ulimit -v
            else:
                shell = "ulimit -v %d; exec \"$@\"" % memkb
            full = ["timeout", "-s", "QUIT", "-k", "10", str(timeout), "sh", "-c", shell, "sh"] + args
            with open(errp, "wb") as ef:
                p = subprocess.run(full, stdout=ef, stderr=subprocess.STDOUT, env=env, cwd=sdir)
            res = None
            if os.path.exists(outp):
                try:
                    res = json.load(open(outp))
                except Exception:
                    res = None
            last = ""
            if os.path.exists(logp):
                with open(logp, "rb") as lf:
                    try:
                        lf.seek(-min(os.path.getsize(logp), 20000), 2)
                    except OSError:
                        pass
                    lines = lf.read().decode("utf-8", "replace").strip().split("\n")
                    last = lines[-1] if lines else ""
            tail = open(errp, errors="replace").read()[-6000:]
            return dict(engine=eng["name"], shard=shard, nshards=nshards, rc=p.returncode, result=res, last=last,
                        stderr=tail, args=args[1:])

        shards = [only_shard] if only_shard is not None else list(range(nshards))
        par = eng.get("parallel", NCPU)
        with cf.ThreadPoolExecutor(max_workers=max(1, min(par, len(shards)))) as ex:
            for r in ex.map(one, shards):
                if r["result"] is not None and r["rc"] == 0:
                    self.shard_results.append(r)
                elif r["rc"] in (124, 137) and r["result"] is None:
                    self.timeouts.append(r)
                else:
                    if r["result"] is not None:
                        self.shard_results.append(r)
                    self.crashes.append(r)
        if eng.get("race"):
            t, reps = parse_race_logs(edir)
            self.race_total += t
            self.race_reports.update(reps)

    def finish(self):
        spec, prop = self.spec, self.prop
        known = load_known()
        evaluations = 0
        nontriv = set()
        paths = {}
        samples = []
        inconcl = {}
        extra = {}
        violations = []
        cut = 0
        for r in self.shard_results:
            res = r["result"]
            evaluations += res.get("evaluations", 0)
            nontriv.update(res.get("nontrivial") or [])
            for k, v in (res.get("paths") or {}).items():
                paths[k] = paths.get(k, 0) + v
            for s in (res.get("samples") or []):
                if len(samples) < 8:
                    samples.append(s)
            for k, v in (res.get("inconclusive") or {}).items():
                inconcl[k] = inconcl.get(k, 0) + v
            for k, v in (res.get("extra") or {}).items():
                if isinstance(v, bool):
                    extra[k] = extra.get(k, True) and v  # AND-merge: one incomplete shard makes the whole false
                elif isinstance(v, (int, float)):
                    extra[k] = extra.get(k, 0) + v
                else:
                    extra.setdefault(k, v)
            cut += res.get("violations_cut", 0)
            for v in (res.get("violations") or []):
                v = dict(v)
                v["_engine"], v["_shard"], v["_args"] = r["engine"], r["shard"], r["args"]
                violations.append(v)
        for c in self.crashes:
            if c["result"] is not None and c["rc"] == 0:
                continue
            violations.append(dict(property=prop, clause="crash", path=c["engine"],
                                   detail="engine child exited rc=%s without finishing; last case logged: %s" % (c["rc"], c["last"][:1500]),
                                   witness=dict(last_case=c["last"][:20000], stderr_tail=c["stderr"]),
                                   _engine=c["engine"], _shard=c["shard"], _args=c["args"]))
        for key, block in self.race_reports.items():
            violations.append(dict(property=prop, clause="data-race", path=key, detail="race detector report: " + key,
                                   witness=dict(report=block), _engine="race", _shard=-1, _args=[]))
        # attribute: violations the engine tagged with another property are reported under that property's
        # own check only; here we keep those of this property.
        mine = [v for v in violations if v.get("property") == prop]
        other = [v for v in violations if v.get("property") != prop]
        matched = {}
        unmatched = []
        for v in mine:
            k = match_known(v, known)
            if k is not None:
                matched.setdefault(k["id"], [k, 0])[1] += 1
            else:
                unmatched.append(v)
        lines = []
        for kid, (k, n) in sorted(matched.items()):
            lines.append("KNOWN-FINDING: property=%s %s [%s; seen %d time(s) this run]" % (prop, k["what"], kid, n))
        rc = 0
        os.makedirs(os.path.join(VERIF, "replays", prop), exist_ok=True)
        seen_keys = {}
        for v in unmatched:
            key = (v.get("clause"), v.get("path"))
            blob = json.dumps(v, sort_keys=True, default=str)
            h = hashlib.sha256(blob.encode()).hexdigest()[:16]
            rp = os.path.join(VERIF, "replays", prop, h + ".json")
            with open(rp, "w") as f:
                json.dump(dict(property=prop, tier=self.tier, seed=self.seed, violation=v), f, indent=1, default=str)
            seen_keys[key] = seen_keys.get(key, 0) + 1
            if seen_keys[key] <= 2:
                lines.append("VIOLATION property=%s replay=%s clause=%s path=%s :: %s" % (
                    prop, rp, v.get("clause"), v.get("path"), (v.get("detail") or "")[:300].replace("\n", " ")))
            rc = 1
        incomplete = []
        for t in self.timeouts:
            incomplete.append("engine %s shard %d hit the watchdog (rc=%s); last case: %s" % (t["engine"], t["shard"], t["rc"], t["last"][:300]))
        floors = spec.get("floors", {}).get(self.tier, spec.get("floors", {}).get("quick", {}))
        for k, need in floors.items():
            have = evaluations if k == "evaluations" else (len(nontriv) if k == "distinct_nontrivial" else paths.get(k, 0))
            if have < need:
                incomplete.append("coverage floor missed: %s = %d < %d" % (k, have, need))
        if rc == 0 and incomplete:
            rc = 2
        wall = time.time() - self.t0
        cov = dict(evaluations=int(evaluations), distinct_nontrivial=len(nontriv), rule=spec["rule"], samples=samples or ["(none)"],
                   paths=paths, inconclusive=inconcl, violations_beyond_cap=cut,
                   engines=[e["name"] for e in spec["engines"] if e.get("kind") != "gofuzz" or e.get("fuzztime", {}).get(self.tier)],
                   known_findings_seen={k: n for k, (_, n) in matched.items()}, incomplete=incomplete,
                   other_property_observations=len(other))
        cov.update(extra)
        if any(e.get("race") for e in spec["engines"]):
            cov["race_detector_reports_total"] = self.race_total
            cov["race_detector_reports_distinct"] = len(self.race_reports)
        if spec.get("exhaustive"):
            cov["exhaustive"] = bool(extra.get("exhaustive_space_complete", False))
        ev = dict(property_id=prop, tier=self.tier, seed=self.seed, level=spec["level"], coverage=cov,
                  assumptions=spec.get("assumptions", []), wall_s=round(wall, 2), violations=len(unmatched))
        # VERIF_EVIDENCE_DIR redirects the evidence (used when a check is pointed at a scratch worktree with VERIF_REPO)
        evdir = os.environ.get("VERIF_EVIDENCE_DIR") or os.path.join(VERIF, "evidence")
        os.makedirs(evdir, exist_ok=True)
        tmp = os.path.join(evdir, ".%s.%d.tmp" % (prop, os.getpid()))
        with open(tmp, "w") as f:
            json.dump(ev, f, indent=1, default=str)
        os.replace(tmp, os.path.join(evdir, prop + ".json"))
        for ln in lines:
            print(ln)
        for ln in incomplete:
            print("INCOMPLETE property=%s %s" % (prop, ln))
        print("SUMMARY property=%s tier=%s seed=%d evaluations=%d distinct_nontrivial=%d violations=%d known=%d inconclusive=%d wall=%.1fs rc=%d" % (
            prop, self.tier, self.seed, evaluations, len(nontriv), len(unmatched), len(matched), sum(inconcl.values()), wall, rc))
        return rc

    def cleanup(self):
        rm_tree(self.scratch)
        self.build.cleanup()


def main(argv):
    from checks import CHECKS  # noqa
    if len(argv) >= 2 and argv[1] == "setup":
        b = Build("setup")
        try:
            b.wtfmon(race=False)
            b.wtfmon(race=True)
            b.wtf()
        finally:
            b.cleanup()
        print("setup ok")
        return 0
    if len(argv) < 3:
        print(__doc__)
        return 2
    prop = argv[1]
    if prop not in CHECKS:
        print("unknown property", prop)
        return 2
    spec = CHECKS[prop]
    if argv[2] == "--replay":
        rp = json.load(open(argv[3]))
        os.environ["VERIF_SEED"] = str(rp["seed"])
        run = Run(prop, rp["tier"], spec)
        try:
            v = rp["violation"]
            engs = [e for e in spec["engines"] if e["name"] == v.get("_engine")] or spec["engines"]
            for e in engs:
                run.run_engine(e, only_shard=v.get("_shard") if v.get("_shard", -1) >= 0 else None)
            spec = dict(spec)
            spec["floors"] = {}
            run.spec = spec
            return run.finish()
        finally:
            run.cleanup()
    tier = os.environ.get("VERIF_TIER") or argv[2]
    if tier not in ("quick", "thorough"):
        print("tier must be quick|thorough")
        return 2
    run = Run(prop, tier, spec)
    try:
        for e in spec["engines"]:
            run.run_engine(e)
        return run.finish()
    finally:
        run.cleanup()


if __name__ == "__main__":
    sys.path.insert(0, os.path.join(VERIF, "lib"))
    sys.exit(main(sys.argv))

T = lambda q, t: {"quick": q, "thorough": t}

SPEC = dict(
    level="exploration",
    technique="runtime invariant monitor over generated searches (all entry points + CLI process runs)",
    level_text="Every list returned by every deciding entry point on tens of thousands of generated (database, query, options) cases, and "
               "every result block printed by the built binary, is checked by one invariant monitor; per-path coverage floors (lexical, NLP, "
               "fuzzy, cached, pipeline, CLI recovery) make a run that missed a path fail as incomplete. A quarter of the generated databases have an "
               "embedding index attached (unit and scaled vectors, vectors with NaN / Inf components, components near the float32 maximum). "
               "Boost maps include tiny and subnormal factors (also on the query's own words); on the cached path pairs of different requests are asked one "
               "after the other in which a text field of one spells out the scalar options of the other behind a separator (|, :, comma, blank, ...). "
               "Exploration, not proof.",
    level_note="Trusted: the harness generators, address-based entry identity, Go runtime. Only generated inputs are decided.",
    engines=[
        dict(name="searchinv", shards=T(16, 16), timeout=T(600, 3000)),
        dict(name="searchinv-cli", shards=T(16, 16), timeout=T(600, 3000), needs_wtf=True),
    ],
    rule="case = (database, query, options) evaluated through SearchUniversal, Search, SearchWithPipelineOptions, the cached "
         "and monitored wrappers, plus `wtf [search]` runs; every returned list passes through the result-invariant monitor "
         "(len<=limit in force, entries are elements of the searched slice by address, no index twice, scores finite >=0, "
         "non-increasing). Non-trivial = distinct (db, query, options) with a non-empty answer, keyed with the answering path. "
         "One database in eight has a word table that lacks a third of its words (requests made of unknown words only reach the semantic stage with nothing to embed). "
         "searchinv-cli also runs `wtf pipeline -v` with the platform flags on databases whose command strings are all different: at most --limit entries, none twice, relevance never increasing.",
    floors=T({"lexical": 200, "nlp": 200, "fuzzy": 100, "cached": 500, "pipeline": 100, "cli-recovery": 5, "cli-fuzzy": 5, "recovery-answers": 100, "cached-limit-sequence-steps": 500,
              "distinct_nontrivial": 1000, "databases-with-embeddings": 6, "databases-with-embeddings-partial": 4, "cli-pipeline-runs-with-results": 30, "databases-with-embeddings-non-finite": 2, "databases-with-embeddings-huge": 2, "cached-look-alike-pair-steps": 10000, "requests-with-a-subnormal-boost-on-a-query-word": 300},
             {"lexical": 2000, "nlp": 2000, "fuzzy": 1000, "cached": 5000, "pipeline": 1000, "cli-recovery": 50, "cli-fuzzy": 50, "recovery-answers": 1000, "cached-limit-sequence-steps": 5000,
              "distinct_nontrivial": 10000, "databases-with-embeddings": 200, "databases-with-embeddings-partial": 100, "cli-pipeline-runs-with-results": 800, "databases-with-embeddings-non-finite": 50, "databases-with-embeddings-huge": 50, "cached-look-alike-pair-steps": 300000, "requests-with-a-subnormal-boost-on-a-query-word": 10000}),
    assumptions=[
        "context / pipeline boosts are kept <= 1e6 so float overflow to +Inf is not manufactured by the generator",
        "for Limit<=0 the bound asserted is max(10, default): a re-tuned default is not flagged, an unbounded answer is",
        "deprecated SearchWithOptions/SearchWithFuzzy/SearchWithNLP are not deciding (unused by CLI and cache layer)",
    ],
)

T = lambda q, t: {"quick": q, "thorough": t}

SPEC = dict(
    level="exploration",
    technique="independent exhaustive-scan BM25F reference (own tokenizer, df, lengths, scores) compared with the index after load/merge/replace/append histories; fresh-load twin for the re-ranker",
    level_text="A reference scanner written from the documented rule recomputes, by brute force over the current command list, which entries "
               "contain a content word of the query and their field-weighted BM25F sums; result sets must agree exactly and scores within 1e-9 "
               "(sandwich bounds for >10 content words or a custom term cap). Histories of load, main+personal merge, UpdateDatabase / "
               "LoadDatabaseWithMonitoring (same size, smaller, larger) and direct growth of Commands precede the searches; with NLP on, the answer "
               "after the history must match a freshly loaded database with the same entries (stale re-ranker / pointer index). A quarter of the histories "
               "run on a database built at run time from plain entries (never through the loader) whose next list is derived from the entries being searched: "
               "copies reworded, entries edited in place and handed over again, reworded duplicates appended. One database in 24 holds an entry that repeats "
               "one word 40,000-70,000 times in one field; one history in five plants pairs of words that collide under a common 32-bit hash (FNV-1a, FNV-1, "
               "CRC-32, Adler-32, djb2), one in an entry, the other in the query; a step reloads the same entries twice, the second time with words re-filed "
               "between their fields (keyword to tag, two keywords joined, word moved from command to description), and after every replacement the commands "
               "held must be the ones handed over. Request words also come with punctuation glued on (!word, word?, (word), +word, ~~word ...): to index and scan a punctuation mark is a separator.",
    level_note="Trusted: the reference tokenizer (ASCII alphanumeric runs, lower-cased, <2 bytes and nlp.StopWords() dropped) and BM25F formula; "
               "k1/w/b/minIDF are read through the verif hook so re-tuning is followed. Only generated inputs/histories are decided.",
    engines=[dict(name="indexscan", shards=T(16, 16), timeout=T(900, 3600))],
    rule="case = (history of load/merge/replace/append operations, query, options) checked against the reference scan of the current command list; "
         "non-trivial = at least one entry returned and compared; distinct by (history, query, options). Twin cases: same, NLP on, compared with a fresh load. "
         "Half of the boosted requests also carry boost words that merely contain a query word (upper case, padded, joined to another word by - _ : / . or a blank). "
         "After every other history step the first request is a long one (12-15 distinct words of the database) and is also compared, exactly, with the same entries indexed from scratch; the "
         "heavily repeated word of an entry is asked for after every step; a third of the growth steps call the exported index build themselves. The built-in databases handed out when the main file is missing or malformed are scanned word by word as well. Every request with two or more candidates is asked again at a limit below the number of candidates (1, 2, 3, half, all but one): every entry returned then must be one of the candidates just verified, with the score just verified.",
    floors=T({"requests-with-punctuation-glued-to-a-word": 600, "small-limit-entries-checked": 15000, "long-first-requests-after-a-step": 600, "steps-followed-by-an-explicit-index-build": 100, "fallback-database-requests": 120, "requests-with-boost-words-that-only-contain-a-query-word": 700, "exact-mode": 1500, "sandwich-mode": 50, "after:UpdateDatabase": 100, "after:append": 100, "after:LoadDatabaseWithMonitoring": 50,
              "after:load-shipped": 20, "distinct_nontrivial": 1500, "histories-on-run-time-built-databases": 80, "steps-deriving-the-next-list-from-the-current-entries": 150, "entries-with-a-word-repeated-around-65536-times": 10, "histories-with-hash-colliding-words": 60, "steps-refiling-words-between-fields": 60, "replacements-checked-for-adoption": 200},
             {"requests-with-punctuation-glued-to-a-word": 600, "small-limit-entries-checked": 150000, "long-first-requests-after-a-step": 30000, "steps-followed-by-an-explicit-index-build": 5000, "fallback-database-requests": 120, "requests-with-boost-words-that-only-contain-a-query-word": 30000, "exact-mode": 15000, "sandwich-mode": 500, "after:UpdateDatabase": 1000, "after:append": 1000, "after:LoadDatabaseWithMonitoring": 500,
              "after:load-shipped": 200, "distinct_nontrivial": 15000, "histories-on-run-time-built-databases": 4000, "steps-deriving-the-next-list-from-the-current-entries": 7000, "entries-with-a-word-repeated-around-65536-times": 500, "histories-with-hash-colliding-words": 3000, "steps-refiling-words-between-fields": 3000, "replacements-checked-for-adoption": 10000}),
    assumptions=[
        "replacement command lists are taken from a loaded database (lower-case caches populated), as the CLI would pass them",
        "eligibility under platform filtering is asserted only for unambiguous entries (no platform / host platform named exactly / definitely foreign)",
        "a repeated query word may count once or twice (both are BM25F readings)",
    ],
)

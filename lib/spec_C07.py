T = lambda q, t: {"quick": q, "thorough": t}

SPEC = dict(
    level="exploration",
    technique="paired-run monitor (fuzzy on vs off) with an independent rune-subsequence matcher and recomputed match qualities",
    level_text="For generated (database, query, threshold, NLP) cases: when the search without typo tolerance answers, the search with it must give "
               "the same list (tie-tolerant, stable-reference rule); when nothing matches lexically every fallback result must contain the query's "
               "runes in order under simple case folding (independent matcher), have a match quality (recomputed with the matcher on that one text) "
               "not below a non-zero threshold, qualities non-increasing down the list, and with no threshold an existing in-order match may not be "
               "left without a result. Half of the requests carry platform restrictions as the CLI hands them over (aliases, padded and blank names); "
               "an entry then counts as eligible when it declares no platforms or when the engine's own lexical path returns it under the same "
               "filters. A tenth of the databases have 513-4103 entries; the first, middle and last three entries of every database carry a unique "
               "word of rare letters whose misspelling only that entry can answer; so do pairs of entries with the same command and description declared "
               "for different platforms (only one of the two is eligible for a request). Thresholds include MaxInt64, MaxInt64-50/-99, MaxInt32, 2^40.",
    level_note="Valid UTF-8 without NUL only (hostile bytes are C10's). Eligibility under a platform restriction is witnessed by the lexical path, not decided by a reference predicate.",
    engines=[dict(name="fuzzy", shards=T(16, 16), timeout=T(900, 3600))],
    rule="case = (database - as loaded, after a same-size replacement through UpdateDatabase, after direct growth -, query, threshold, NLP, limit); non-trivial = the lexical answer is empty and the fallback answered; distinct by "
         "(db, query, threshold, NLP, limit). One database in ten has a semantic word table loaded that knows misspellings (a word of the database with one letter dropped, "
         "close to that word): requests made of them reach the fallback with the semantic stage armed. One database in six holds rare words with a letter that has a third spelling under case folding (micro sign / mu, final sigma, KELVIN SIGN, long s, curled beta ...) and is asked for them in another spelling. "
         "One request in seven asks for pipeline commands only (an entry counts as certainly eligible only when it is flagged as a pipeline); one in twelve holds a no-break space, "
         "an ideographic space or an invisible format character as pasted text does. Four shards (all in the thorough tier) search a database of 65600 to 131101 "
         "entries whose only in-order matches for the misspelt request are its last 37 entries.",
    floors=T({"pipeline-only-requests": 1200, "databases-with-letters-of-a-three-member-case-class": 18, "requests-spelt-with-another-member-of-a-case-class": 50, "queries-with-non-ascii-blanks-or-format-characters": 900, "databases-over-65536-entries": 4, "databases-with-a-word-table-holding-misspellings": 15, "misspellings-the-word-table-knows": 60, "databases-with-same-text-pairs-of-different-eligibility": 15, "marker-queries": 500, "large-databases": 10, "lexical-answer-exists": 2000, "fallback-answered": 1500, "fallback-with-threshold": 300, "fallback-empty": 300, "fallback-answered-after:same-size-replacement": 150, "fallback-answered-after:append": 150, "distinct_nontrivial": 1500},
             {"pipeline-only-requests": 60000, "databases-with-letters-of-a-three-member-case-class": 900, "requests-spelt-with-another-member-of-a-case-class": 2500, "queries-with-non-ascii-blanks-or-format-characters": 45000, "databases-over-65536-entries": 16, "databases-with-a-word-table-holding-misspellings": 800, "misspellings-the-word-table-knows": 3000, "databases-with-same-text-pairs-of-different-eligibility": 700, "marker-queries": 10000, "large-databases": 300, "lexical-answer-exists": 20000, "fallback-answered": 15000, "fallback-with-threshold": 3000, "fallback-empty": 3000, "fallback-answered-after:same-size-replacement": 1500, "fallback-answered-after:append": 1500, "distinct_nontrivial": 15000}),
    assumptions=["match quality = the score github.com/sahilm/fuzzy assigns to command + ' ' + description of that single entry"],
)

T = lambda q, t: {"quick": q, "thorough": t}

SPEC = dict(
    level="exploration",
    technique="totality monitor: generated/hostile database files, queries and option values through load + every search entry point in child processes (recover + pre-flushed event log + watchdog); thorough adds a coverage-guided go test -fuzz workload (FuzzLoadSearch (file bytes x query x limit)) with the same oracles",
    level_text="Thousands of generated files (well-formed lists in block / JSON-flow / anchor styles with hostile strings incl. NUL, damaged and "
               "wrong-shape YAML, deep nesting, alias bombs, byte-level mutations, random bytes) are loaded and searched with hostile queries "
               "(NUL, invalid UTF-8, 1000-byte strings) and extreme option values through SearchUniversal, Search, the pipeline / deprecated / "
               "cached / monitored entry points, GetSuggestions and the recovery searches. Every call runs under recover(); the case is flushed "
               "to disk before the call so a process-fatal error leaves its input; a watchdog firing is inconclusive unless the call, re-run "
               "alone with 5x the budget, still does not return. Error classes and entry fidelity of well-formed lists are asserted. "
               "Well-formed lists of 300-7000 entries (sizes clustered just above powers of two) are loaded and searched under processor counts 1-256 "
               "(runtime.GOMAXPROCS), and every string constant of the tree under test (go/parser over internal/ and cmd/) is used as a query in "
               "systematic variants (each of its words before / after it, doubled, reversed, upper-cased) with the query analysis on and off. "
               "A third of the files also go through the retrying loader with assorted content in <file>.backup beside them (a usable database or an error, never neither). "
               "A second engine runs the built binary on generated files whose entries hold wide, combining and multi-byte texts, in every output format.",
    level_note="Ordinary build (no cgo/unsafe in the module or its dependencies, so sanitizers add nothing). Child memory capped with ulimit -v.",
    engines=[dict(name="totality", shards=T(16, 16), timeout=T(1200, 7200)),
             dict(name="totality-cli", shards=T(16, 16), timeout=T(1200, 7200), needs_wtf=True),
             dict(name="gofuzz-FuzzLoadSearch", kind="gofuzz", target="FuzzLoadSearch", fuzztime=T(0, "90s"))],
    rule="Per loaded file two more requests from a stream of their own: plain words of the file, limit 1-3, typo tolerance on, with boosts of 0 / 1e-9 / 0.001 / 0.3 / 0.5 / -2 on the request's own words, through all ten entry points. One file in 64 is a block list of 2600-4200 entries (300-700 KiB) whose later entries use YAML aliases of lists anchored in the first two entries; it must load with exactly the entries written. "
         "case = one generated file (then 8-10 (query, options) pairs x 10 entry points on the loaded database); non-trivial = a well-formed list whose "
         "expected entries are known to the generator and were compared; distinct by file content. "
         "Two shards (half of them in the thorough tier) also load a well-formed list whose file is 17 to 130 MiB (a dozen entries with MiB-long descriptions), as main database and as "
         "notebook; a seventh of the CLI runs start in a working directory that has been removed. "
         "Every byte value 0x00-0xFF as a run of 1 .. 65537 bytes (lengths around 1000, 1024, 4096), alone and glued to a word, goes through every search entry point; databases that have more "
         "entries than the embedding file beside them has rows are searched for every entry.",
    floors=T({"requests-with-damping-boosts-on-their-own-words": 2000, "large-files-with-anchors-and-aliases": 25, "queries-that-are-a-run-of-one-byte-value": 9000, "searches-on-a-database-longer-than-its-embedding-file": 600, "files-of-tens-of-MiB": 2, "cli-runs-in-a-removed-working-directory": 60, "files-wellformed-block": 150, "files-wellformed-flow": 150, "files-wellformed-utf16": 100, "files-wrong-shape": 150, "files-damaged": 150, "files-mutated": 150,
              "files-random-bytes": 150, "files-deep": 30, "load-ok": 1000, "load-error": 500, "calls-SearchUniversal": 8000,
              "calls-RecoverFromSearchFailure": 8000, "distinct_nontrivial": 500,
              "cli-runs-table": 200, "cli-runs-with-results": 150, "cli-runs-with-a-backup-file-only": 30, "calls-LoadDatabaseWithFallback": 800, "files-wellformed-sized": 150, "sized-over-4096": 20, "sized-procs-64": 5, "sized-procs-1": 5, "dictionary-queries": 20000},
             {"requests-with-damping-boosts-on-their-own-words": 60000, "large-files-with-anchors-and-aliases": 700, "queries-that-are-a-run-of-one-byte-value": 9000, "searches-on-a-database-longer-than-its-embedding-file": 4000, "files-of-tens-of-MiB": 8, "files-over-64MiB": 3, "cli-runs-in-a-removed-working-directory": 1500, "files-wellformed-block": 1500, "files-wellformed-flow": 1500, "files-wellformed-utf16": 1000, "files-wrong-shape": 1500, "files-damaged": 1500, "files-mutated": 1500,
              "files-random-bytes": 1500, "files-deep": 300, "load-ok": 10000, "load-error": 5000, "calls-SearchUniversal": 80000,
              "calls-RecoverFromSearchFailure": 80000, "distinct_nontrivial": 5000,
              "cli-runs-table": 5000, "cli-runs-with-results": 5000, "cli-runs-with-a-backup-file-only": 900, "calls-LoadDatabaseWithFallback": 25000, "files-wellformed-sized": 4000, "sized-over-4096": 500, "sized-procs-64": 150, "sized-procs-1": 150, "dictionary-queries": 60000}),
    assumptions=["'not-found' / 'parse error' are recognised by the message class of errors.NewDatabaseNotFoundError / NewDatabaseParseError",
                 "an empty document / null / [] is accepted either as an empty list or as a parse error (not asserted)"],
)

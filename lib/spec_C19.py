T = lambda q, t: {"quick": q, "thorough": t}

SPEC = dict(
    level="exploration",
    technique="differential runtime monitoring: paired searches in child processes with / without generated embedding files, ; thorough adds a coverage-guided go test -fuzz workload (FuzzEmbeddingFiles) with the same oracles"
              "memory-capped child per hostile file with peak-RSS accounting, algebraic oracle on generated vector pairs",
    level_text="The three parts of the statement are decided on generated inputs only. (1) CosineSimilarity on tens of thousands of finite "
               "float32 pairs (tiny, denormal, huge, zero, equal, scaled, mismatched, empty). (2) Every byte-offset truncation of a small "
               "well-formed glove.bin / cmd_embeddings.bin, headers claiming 10^6..2^32-1 records over 0-800 bytes of body, wrong "
               "dimensions, 65535-byte word lengths, zero counts, random bytes, 1 MB files with inflated counts and named pipes that deliver a few "
               "bytes behind a header claiming millions of records (the size of a stream is what arrives) are each loaded by a "
               "fresh child process (cwd = directory with the files, RLIMIT_AS 3 GiB) that calls LoadEmbeddings and searches; the parent "
               "reads exit status, stderr and ru_maxrss. (3) For generated databases, answers of child processes with no files, with "
               "provably inert files and with active files are compared query by query (one query in seven carries text whose case mappings change its "
               "encoded length). Histories also reload the embedding files on the same database after cmd_embeddings.bin was replaced (complete, or cut short "
               "by a few bytes); a database of 4096-7001 entries with a row for every entry is searched under processor counts 1-256. Exploration with per-class coverage floors, not proof. With an active index every answer of a request repeated on one object (three to eight times) must be explained by an answer given without the files, not just one of them.",
    level_note="Trusted: the harness generators and its own cosine (used only to classify generated files as inert), Linux ru_maxrss / "
               "RLIMIT_AS accounting, the Go runtime's fatal-error text. LoadEmbeddings is reached exactly as the CLI reaches it "
               "(files resolved relative to the cwd); nothing in /repo is hooked.",
    engines=[
        dict(name="embed-cosine", shards=T(16, 16), timeout=T(300, 1500)),
        dict(name="embed-files", shards=T(16, 16), timeout=T(600, 3000)),
        dict(name="embed-search", shards=T(16, 16), timeout=T(600, 3000)),
        dict(name="embed-history", shards=T(16, 16), timeout=T(600, 3000)),
             dict(name="gofuzz-FuzzEmbeddingFiles", kind="gofuzz", target="FuzzEmbeddingFiles", fuzztime=T(0, "90s"))],
    rule="embed-cosine: one evaluation = one generated pair (a,b) with CosineSimilarity(a,b), (b,a), (a,a), (b,b); clauses cosine-symmetry "
         "(bit-identical or within 1e-12), cosine-range ([-1-1e-9, 1+1e-9], NaN counts as outside), cosine-zero (exactly 0 for empty / all-zero "
         "/ length-mismatched), cosine-self (1 within 1e-6 for a non-zero vector with itself; definitional for a cosine). "
         "embed-files: one evaluation = one child load of one (glove.bin, cmd_embeddings.bin) pair followed by two searches on a 3-entry "
         "database; loader-crash = child killed by a signal or exiting non-zero with panic: / fatal error: / out of memory on stderr; "
         "loader-memory = peak RSS > 64 MiB + 64 x (bytes in both files). Well-formed files must additionally load with the declared counts "
         "to be counted under files-valid-loaded (generator sanity, floor only). "
         "embed-search: one evaluation = one (database, query, options, embedding configuration) compared with the answers of the same query "
         "without files (2 processes x 2 runs). Inert configurations (all-zero command vectors; vocabulary disjoint from every query; every "
         "word a positive multiple of e0 and every command vector with cosine <= 0.09 to e0; only one of the two files): the answer must be "
         "bit-identical when the reference is stable, tie-free and the NLP re-ranker (whose float sums follow map order) is off, otherwise "
         "equal under the tie-tolerant comparator with the stable-reference rule - clause inert-differs. Active configurations (random unit "
         "vector per word, command vector = normalised sum of its words, some negated; a variant with NaN/Inf/MaxFloat32 components) at "
         "Limit >= N: candidates-changed, score-lowered (< without x (1-1e-9)), score-unbounded (> without x (1+SemanticAlpha) x (1+1e-9)); "
         "at every limit: order, score-nonfinite. A suspected violation is re-run with 6+6 repetitions and reported only if no pairing of a "
         "with-files run and a no-files run satisfies the clause; if the no-files runs disagree among themselves it is inconclusive. "
         "Non-trivial = distinct (database, query) where at least one entry's score actually rose with active files. "
         "embed-history also: a quarter of its databases hold copies of one entry (equal lexical scores) whose embedding rows differ in the last bit of one or two components (boosted "
         "scores that differ by a few parts in 10^10 must still be listed higher first); in half of the histories an entry is edited in place on every copy and LoadEmbeddings is called on "
         "a third copy where no embedding files exist, after which that copy must answer exactly like the copy on which the feature was never touched (the second time through a caching wrapper whose cache was switched off and must stay off). "
         "A third of the histories rebuild the index explicitly after growing the list; a third swap in a copy of the same entries (another backing array, same length) after the lazily built state is in place, with and without an explicit rebuild.",
    floors=T({"active-repeated-answers-checked": 5000, "history-explicit-index-builds": 150, "history-same-length-replacements": 60, "history-feature-tried-through-a-wrapper-with-the-cache-off": 100, "history-databases-with-copies-whose-rows-differ-in-the-last-bit": 50, "history-pairs-feature-tried-without-files": 600, "big-table-searches": 100, "history-reloads-of-embedding-files": 60, "history-pairs-literal": 200, "history-pairs-after-growth": 150, "history-pairs-raised": 300, "evaluations": 75000, "distinct_nontrivial": 1000,
              "cos-random": 10000, "cos-self": 3000, "cos-zero": 4000, "cos-mismatch": 5000, "cos-empty": 1500, "cos-extreme": 4000,
              "files-truncation": 1600, "files-huge-count": 40, "files-wrong-dim": 90, "files-wordlen": 30, "files-zero": 7, "files-stream": 11,
              "files-random": 115, "files-inflated": 8, "files-valid": 15, "files-valid-loaded": 20,
              "inert-pairs": 12000, "inert-nonempty": 6000, "inert-zero-cmd-vectors": 3000, "inert-disjoint-vocabulary": 3000,
              "inert-below-floor": 3000, "active-pairs": 3500, "active-raised": 2000, "active-reordered": 500, "active-nonfinite-raised": 500},
             {"active-repeated-answers-checked": 5000, "history-explicit-index-builds": 4000, "history-same-length-replacements": 1800, "history-feature-tried-through-a-wrapper-with-the-cache-off": 3000, "history-databases-with-copies-whose-rows-differ-in-the-last-bit": 1500, "history-pairs-feature-tried-without-files": 18000, "big-table-searches": 500, "history-reloads-of-embedding-files": 2000, "evaluations": 750000, "distinct_nontrivial": 10000,
              "cos-random": 100000, "cos-self": 30000, "cos-zero": 40000, "cos-mismatch": 50000, "cos-empty": 15000, "cos-extreme": 40000,
              "files-truncation": 12000, "files-huge-count": 200, "files-wrong-dim": 90, "files-wordlen": 30, "files-zero": 7, "files-stream": 11,
              "files-random": 1400, "files-inflated": 8, "files-valid": 15, "files-valid-loaded": 20,
              "inert-pairs": 120000, "inert-nonempty": 60000, "inert-zero-cmd-vectors": 30000, "inert-disjoint-vocabulary": 30000,
              "inert-below-floor": 30000, "active-pairs": 50000, "active-raised": 20000, "active-reordered": 5000, "active-nonfinite-raised": 5000}),
    assumptions=[
        "cosine clauses are decided for finite float32 components only (|x| <= 1e18, denormals included); NaN/Inf components are excluded "
        "from cosine-symmetry/-range/-zero and are exercised in the search engine, where scores must stay finite and >= 0",
        "memory out of proportion is read as peak resident set > 64 MiB + 64 x file bytes (baseline of the child without files is reported "
        "as baseline_rss_kib); address space that is reserved but never touched is only seen when it exceeds the 3 GiB cap (then loader-crash)",
        "a child that neither crashes nor finishes within 90 s is inconclusive (child-timeout), not a violation",
        "embedding dimension is the fixed 100; the vocabulary lookup rule used to build 'disjoint' and 'below floor' files is the documented "
        "one (lower case, split at non letter/number, >= 2 bytes)",
        "set / score clauses of active files are asserted at an explicit Limit >= N only, where no cut (result limit, re-rank window) can "
        "interact with map-order dependent ties; order and finiteness are asserted at every limit",
    ],
)

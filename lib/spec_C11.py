T = lambda q, t: {"quick": q, "thorough": t}

SPEC = dict(
    level="exploration",
    technique="Go race detector over concurrent search/cache/monitor workloads + as-if-alone comparison + porcupine linearizability of recorded LRU histories + conservation of monitor increments",
    level_text="One -race build runs (1) 4-32 goroutines mixing SearchUniversal, cached and monitored searches, InvalidateCache, CleanupExpiredCache, "
               "GetCacheStats, GetPerformanceReport and GetSuggestions on one database obtained from each loader (LoadDatabase, "
               "LoadDatabaseWithPersonal, LoadDatabaseWithFallback on a good and on a faulty path) - concurrently *before* any sequential use, so "
               "lazily built state is met by the first concurrent searches; every concurrent answer is compared with the sequential answer "
               "(stable-reference rule) and monitor totals with the number of monitored searches; (2) thousands of short LRU / SearchCache "
               "histories (3-6 clients x 6-12 ops, capacity 1-3, 2-4 keys, unique values per Put) recorded at the client boundary with one "
               "monotonic clock and checked by porcupine against a sequential LRU model (Get/Put/Delete/Size/Stats/Keys/sweep/clear); "
               "(3) a 16-goroutine LRU hammer. Any race report whose stack touches the module is a violation.",
    level_note="The race detector sees only races on executed paths with the observed happens-before; linearizability is decided per recorded history "
               "(porcupine timeout 10 s => inconclusive). EnableCache / EnableMonitoring are not in the statement's list of concurrent operations and are not mixed in.",
    engines=[dict(name="conc-search", shards=T(8, 16), timeout=T(1500, 7200), race=True, parallel=8),
             dict(name="conc-lru", shards=T(8, 16), timeout=T(1500, 7200), race=True, parallel=8)],
    rule="search part: case = one round (database from one loader, 4-32 goroutines x K operations); LRU part: case = one recorded history; distinct by "
         "(round parameters) resp. by the observed order of call events (an interleaving shape); all are non-trivial (concurrent by construction).",
    floors=T({"goroutine-rounds": 40, "concurrent-answers-compared": 3000, "loaded-by:LoadDatabaseWithFallback(faulty path)": 8, "monitored-searches": 500,
              "histories-linearizable": 2000, "histories-searchcache": 300, "lru-hammer-rounds": 30, "distinct_nontrivial": 2000},
             {"goroutine-rounds": 250, "concurrent-answers-compared": 20000, "loaded-by:LoadDatabaseWithFallback(faulty path)": 50, "monitored-searches": 3000,
              "histories-linearizable": 40000, "histories-searchcache": 6000, "lru-hammer-rounds": 300, "distinct_nontrivial": 40000}),
    assumptions=["no lifetime is configured in the recorded LRU histories (time-independent model); expiry is C12's business",
                 "all searches of one round use the same option set so that the cache-key projection cannot confuse requests (C05's business)"],
)

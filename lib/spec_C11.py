T = lambda q, t: {"quick": q, "thorough": t}

SPEC = dict(
    level="exploration",
    technique="Go race detector over concurrent search/cache/monitor workloads + as-if-alone comparison + porcupine linearizability of recorded LRU histories + conservation of monitor increments",
    level_text="One -race build runs (1) 4-32 goroutines mixing SearchUniversal, cached and monitored searches, InvalidateCache, CleanupExpiredCache, "
               "GetCacheStats, GetPerformanceReport and GetSuggestions on one database obtained from each loader (LoadDatabase, "
               "LoadDatabaseWithPersonal, LoadDatabaseWithFallback on a good and on a faulty path) - concurrently *before* any sequential use, so "
               "lazily built state is met by the first concurrent searches; every concurrent answer is compared with the sequential answer "
               "(stable-reference rule) and monitor totals with the number of monitored searches; in a third of the rounds an embedding index is "
               "attached (shared word vectors) and the mix holds one-word requests and longer ones sharing the word; in those rounds and a quarter of the "
               "others every request is also run as the only search on a fresh instance obtained the same way and must get the same answer; for "
               "file-loaded rounds a child process loads the same file and answers the requests last to first (the mix holds requests that read alike "
               "once punctuation is ignored); (2) thousands of short LRU / SearchCache "
               "histories (3-6 clients x 6-12 ops, capacity 1-3, 2-4 keys, unique values per Put) recorded at the client boundary with one "
               "monotonic clock and checked by porcupine against a sequential LRU model (Get/Put/Delete/Size/Stats/Keys/sweep/clear); a third of "
               "them with a lifetime of 1000 h and virtual-time steps of 400 h mixed into the history (entries of different ages; a sweep may drop dead "
               "entries only), checked against a nondeterministic model in which dead entries may vanish at any time; "
               "(3) single-writer rounds: one goroutine runs a fixed script of 150-400 Put / Get / Delete / Clear while four others call Stats() "
               "in a tight loop - every answer must be one of the states the script passes through when run alone, never an earlier one after a later one; "
               "(4) a monitor hammer: 16 goroutines x thousands of monitored searches, then every total - also the sum of the observed query lengths - must account for "
               "every search; (5) a 16-goroutine LRU hammer. A round whose goroutines are still parked on locks of the code under test after two minutes, none running, "
               "is reported as a deadlock with their stacks (anything else that slow is inconclusive). Any race report whose stack touches the module is a violation. Every third round all goroutines share one platform list spelt as people spell it (Linux, ' macos ', Darwin, OSX) with spare capacity behind it; it must come back unchanged. Every other round without an index searches a database that also holds entries without a single word (!!, $?, a lone pipe).",
    level_note="The race detector sees only races on executed paths with the observed happens-before; linearizability is decided per recorded history "
               "(porcupine timeout 10 s => inconclusive). EnableCache / EnableMonitoring are not in the statement's list of concurrent operations and are not mixed in.",
    engines=[dict(name="conc-search", shards=T(8, 16), timeout=T(1500, 7200), race=True, parallel=8),
             dict(name="conc-lru", shards=T(8, 16), timeout=T(1500, 7200), race=True, parallel=8)],
    rule="mixed-option rounds: after each concurrent-search round a fresh instance is searched by 8 goroutines that do NOT share one option set - half ask plainly for words of the database, half ask for the same words with a boost on them under pipeline-only / a platform nobody declares / a misspelling / no filter; every answer must equal the answer of the same request as the only search on an instance of its own. "
         "search part: case = one round (database from one loader, 4-32 goroutines x K operations); LRU part: case = one recorded history; distinct by "
         "(round parameters) resp. by the observed order of call events (an interleaving shape); all are non-trivial (concurrent by construction). "
         "After every concurrent-search round, four pairs of look-alike requests (one query; platform lists / boost maps that read the same once written down without quotes) are asked "
         "through the caching wrapper at the same moment by two goroutines, 30 (60) times each with the cache emptied before, and compared with their answers alone. "
         "overlapping-sweep-rounds (conc-lru): a cache whose 200 entries have all outlived their lifetime is swept by three goroutines at once while six look up a key that is never stored; each reads "
         "Size() after its own sweep returned and must see 0, as it does when the same is run alone (checked first; a tree whose sweeps are lazy when run alone makes the rounds inconclusive).",
    floors=T({"rounds-on-a-database-with-entries-that-hold-no-word": 8, "rounds-with-shared-platform-list": 8, "mixed-option-answers-compared": 5000, "overlapping-sweep-rounds": 800, "same-key-hammer-rounds": 250, "look-alike-requests-asked-at-once": 6000, "look-alike-pairs-with-different-answers-asked-at-once": 60, "goroutine-rounds": 40, "concurrent-answers-compared": 3000, "loaded-by:LoadDatabaseWithFallback(faulty path)": 8, "monitored-searches": 500,
              "histories-linearizable": 2000, "histories-searchcache": 300, "lru-hammer-rounds": 30, "distinct_nontrivial": 2000,
              "rounds-with-embeddings": 8, "fresh-instance-answers-compared": 60, "other-process-answers-compared": 50, "snapshot-rounds": 200, "snapshot-reads": 50000, "monitor-hammer-searches": 500000, "histories-with-lifetime": 500, "sweeps-that-removed-entries": 30},
             {"rounds-on-a-database-with-entries-that-hold-no-word": 8, "rounds-with-shared-platform-list": 8, "mixed-option-answers-compared": 30000, "overlapping-sweep-rounds": 8000, "same-key-hammer-rounds": 5000, "look-alike-requests-asked-at-once": 80000, "look-alike-pairs-with-different-answers-asked-at-once": 400, "goroutine-rounds": 250, "concurrent-answers-compared": 20000, "loaded-by:LoadDatabaseWithFallback(faulty path)": 50, "monitored-searches": 3000,
              "histories-linearizable": 40000, "histories-searchcache": 6000, "lru-hammer-rounds": 300, "distinct_nontrivial": 40000,
              "rounds-with-embeddings": 60, "fresh-instance-answers-compared": 500, "other-process-answers-compared": 400, "snapshot-rounds": 2000, "snapshot-reads": 500000, "monitor-hammer-searches": 5000000, "histories-with-lifetime": 10000, "sweeps-that-removed-entries": 600}),
    assumptions=["two thirds of the recorded LRU histories have no lifetime (time-independent model); in the others time is virtual (VerifAdvance) and ages are 400 h steps against a 1000 h lifetime, so real elapsed time never decides",
                 "all searches of one round use the same option set so that the cache-key projection cannot confuse requests (C05's business)"],
)

T = lambda q, t: {"quick": q, "thorough": t}

SPEC = dict(
    level="fault_enumeration",
    technique="fault injection at the write boundary from outside the process: RLIMIT_FSIZE=k (write stops after exactly k bytes, EFBIG) and strace SIGKILL before the n-th system call; file compared with complete-old / complete-new",
    level_text="For each operation (save, save-pipeline, the history update of a search) and each prepared state (notebook missing / 300 B / 5 KB, "
               "history missing / 2 / 100 entries; thorough adds 20 KB) the complete new content is taken from a fault-free run; then the child is "
               "re-run from the same state with the file-size limit set to k for every k in 0..len(new) (stride 61 plus both ends above 512 B in "
               "quick, every k in thorough), and with a SIGKILL injected on entering the n-th invocation of each of openat / write / fsync / rename* / close / unlink* (every (system call, n) pair the fault-free run makes, counted per call and thread as strace does) "
               "(with no limit, with a limit of len/3 and of 0, so 'killed after a short write' is covered). Afterwards the file must be byte-equal "
               "to the previous or the new content (history: parsed entries minus timestamps), and a save that printed success must have produced the new content. "
               "A fourth flavour kills a LONG write at every system call and then performs an ordinary SHORTER write (a short save; `history --clear`): "
               "the result must be exactly the earlier entries plus the new one / a complete empty history, so nothing a killed write left behind can leak into later content. "
               "A 330 KB notebook state is cut densely around its previous length (a write that extends instead of replacing is cut there). A sixth flavour puts the "
               "configuration directory on a 256 KiB tmpfs and runs the operation with exactly f free pages for every f from 0 to enough, with 0, 1 and 2 "
               "temporary files left behind by really killed earlier writes. A seventh runs, in one process, a Save of the history object that fails (volume full) "
               "followed by a Save that succeeds on the same object: the file must hold exactly the recorded entries. Operations include saving an existing "
               "command again with only its platforms changed. Two more states put the files into the file system differently: with a second hard link elsewhere, "
               "and behind a relative symbolic link into a sibling directory (the binary runs in another working directory). A further flavour runs the operations as uid 65534 in a configuration directory of mode 0555 whose files are writable, under write limits of 0 .. 5000 bytes.",
    level_note="The limit applies to every regular file the child writes, so an implementation writing a temporary file first is cut in that file. "
               "Power-loss reordering below the file-system API is not modelled. strace counts invocations per system call and thread; the crash points are therefore enumerated as (call name, n) pairs taken from a tracing run; points not reached are counted.",
    engines=[dict(name="crashwrite", shards=T(16, 16), timeout=T(1500, 7200), needs_wtf=True)],
    rule="case = (operation, prepared state, fault flavour, k, n); non-trivial = the fault actually hit (limit below the new length, or the child was killed); "
         "distinct by (operation, state, flavour, k, n). "
         "Prepared states include files last written three days ago and (when /dev/shm is a separate file system; counted in "
         "states-with-TMPDIR-on-another-volume, no floor because the sandbox decides) runs with TMPDIR on another volume than the configuration directory. "
         "faults-every-rename-refused: every rename / link call of the operation fails with one of seven error codes (strace fault injection without a count): the file stays complete. "
         "after-earlier-writes-*: (also: a pipeline saved under a name, another save, then a pipeline saved under the same name with another command) two ordinary saves (searches) succeed on the prepared state, the third fails after k bytes or is killed at a system call; the "
         "file then holds what the second left or the complete third content.",
    floors=T({"read-only-directory-runs": 90, "faults-every-rename-refused": 250, "after-earlier-writes-new": 120, "after-earlier-writes-old": 60, "after-earlier-writes-on-files-written-days-ago": 24, "states-written-days-ago": 80, "faults-efbig-biting": 600, "faults-killed": 300, "killed-on:write": 50, "killed-on:fsync": 2, "killed-on:renameat": 2, "after-efbig-old": 1, "follow-up-after-kill": 15, "distinct_nontrivial": 900, "full-volume-runs": 25, "full-volume-with-leftover-files": 10, "efbig-dense-around-previous-length": 3, "in-process-sequences-with-a-failed-save": 12, "layout:hard-linked": 48, "layout:symlinked": 48},
             {"read-only-directory-runs": 90, "faults-every-rename-refused": 250, "after-earlier-writes-new": 120, "after-earlier-writes-old": 60, "after-earlier-writes-on-files-written-days-ago": 24, "states-written-days-ago": 80, "faults-efbig-biting": 20000, "faults-killed": 400, "killed-on:write": 50, "killed-on:fsync": 2, "killed-on:renameat": 2, "after-efbig-old": 1, "follow-up-after-kill": 15, "distinct_nontrivial": 20000, "full-volume-runs": 25, "full-volume-with-leftover-files": 10, "efbig-dense-around-previous-length": 3, "in-process-sequences-with-a-failed-save": 12, "layout:hard-linked": 48, "layout:symlinked": 48}),
    assumptions=["a file that did not exist before and is empty afterwards counts as previous content",
                 "the Go runtime ignores SIGXFSZ, so RLIMIT_FSIZE yields a short write followed by EFBIG"],
)

"""Per-property check specifications: one lib/spec_CXX.py per property (see ENGINE_GUIDE.md)."""
import glob
import importlib
import os
import sys

_here = os.path.dirname(os.path.abspath(__file__))
if _here not in sys.path:
    sys.path.insert(0, _here)

CHECKS = {}
# properties not claimed, with the reason (kept current; see DESIGN.md section 4)
NOT_APPLICABLE = {}

for _f in sorted(glob.glob(os.path.join(_here, "spec_C*.py"))):
    _name = os.path.basename(_f)[:-3]
    _m = importlib.import_module(_name)
    CHECKS[_name[len("spec_"):]] = _m.SPEC

T = lambda q, t: {"quick": q, "thorough": t}

SPEC = dict(
    level="exploration",
    technique="process-level monitor: the built binary in an isolated home, output compared with an in-process replica of the engine call the search command documents; history file inspected after every search",
    level_text="Sequences of 1-5 `wtf [search]` runs per isolated home over generated, missing and malformed databases, with generated queries "
               "(accepted, rejected, typos, recovery-only fragments, immediate repeats) and all values of --limit, --format, -v, --no-color / NO_COLOR "
               "(the flag bare, =true, =1 and spelt out =false / =0, which leaves NO_COLOR in charge) and the platform flags, one run in ten from a working "
               "directory that was removed under the shell: no crash; rejected input is not searched; printed count <= limit in force and equal to the engine's count; "
               "JSON result block is a well-formed array whose items are the engine's results in rank order (tie-tolerant, stable reference); no ESC "
               "byte when colour is off; history grew by exactly one entry (or none for an immediate repeat) whose newest entry is (validated query, "
               "printed count). A fifth of the homes start with a full history file (100 entries, in two of three cases with timestamps from a clock "
               "that ran ahead or out of order); a few runs print an answer of 200 KB into a pipe whose reader closes it a few KiB into the result block - "
               "the history must hold the entry all the same. A second engine runs every sub-command (help, history, pipeline, wizard with closed and scripted stdin, alias, setup, "
               "save, save-pipeline) with generated arguments and requires a normal exit (0 or usage error 1), no panic, no signal, no hang. One home in seven searches a database that lists some command lines two or three times under the same description (other category / platforms); there the count and the printed names decide.",
    level_note="The replica of the search command's engine call (options, recovery search truncated to the limit) is an assumption of the rank-order clause; "
               "the limit, JSON, colour, crash and history clauses do not depend on it.",
    engines=[dict(name="cli-search", shards=T(16, 16), timeout=T(1500, 7200), needs_wtf=True),
             dict(name="cli-commands", shards=T(16, 16), timeout=T(1500, 7200), needs_wtf=True)],
    rule="case = one invocation of the built binary; non-trivial = a search that printed at least one result, or any sub-command invocation; distinct by argument vector (and stdin). "
         "Half of the homes run under a generated time zone (TZ=<zone file>: fixed offsets from -12:00 to +14:00, zones whose clocks went back just before / "
         "will just after the run started); a twentieth start with a full history whose oldest / newest entries are dated in the years 0000 / 9999; the entry a search "
         "leaves must be stamped with the time of that search. One search in nine is a query whose first word is the beginning of a sub-command name (names read from `wtf --help`), typed without quotes and without `--`: it is a query. "
         "The generated databases hold commands whose text contains escape sequences as text (\\u0026, \\n, \\x1b, quotes, </script>). `wtf setup <name>` runs with ordinary names and names special to a shell, a format string or a "
         "pattern language, with start-up files absent, empty, commented or already holding alias lines.",
    floors=T({"db-kind-generated-with-twins": 8, "requests-for-a-command-line-listed-more-than-once": 16, "broken-pipe-runs-with-output-over-64KiB": 20, "homes-with-a-full-history": 20, "homes-with-a-full-history-odd-timestamps": 10, "runs-in-a-removed-working-directory": 15, "no-color-false-spelt-out": 25, "accepted": 250, "rejected": 30, "format-json": 90, "format-list": 90, "format-table": 30, "no-color-runs": 120, "history-checked": 240,
              "rank-order-compared": 60, "recovery-answers": 8, "db-kind-missing-path": 5, "db-kind-malformed": 5, "db-kind-shipped": 5, "homes-with-xdg-config-home": 24, "cmd-wizard": 50, "cmd-history": 50, "cmd-alias": 50, "cmd-save": 50, "cmd-save-pipeline": 30,
              "cmd-pipeline": 30, "cmd-setup": 30, "setup-runs": 50, "queries-beginning-like-a-sub-command-typed-without-quotes": 30, "homes-in-a-generated-time-zone": 60, "homes-with-a-history-dated-at-the-ends-of-the-calendar": 7, "distinct_nontrivial": 500},
             {"db-kind-generated-with-twins": 8, "requests-for-a-command-line-listed-more-than-once": 16, "broken-pipe-runs-with-output-over-64KiB": 120, "homes-with-a-full-history": 300, "homes-with-a-full-history-odd-timestamps": 150, "runs-in-a-removed-working-directory": 300, "no-color-false-spelt-out": 500, "accepted": 1000, "rejected": 100, "format-json": 300, "format-list": 300, "format-table": 100, "no-color-runs": 400, "history-checked": 800,
              "rank-order-compared": 200, "recovery-answers": 30, "db-kind-missing-path": 20, "db-kind-malformed": 20, "db-kind-shipped": 20, "homes-with-xdg-config-home": 80, "cmd-wizard": 500, "cmd-history": 500, "cmd-alias": 500, "cmd-save": 500, "cmd-save-pipeline": 300,
              "cmd-pipeline": 300, "cmd-setup": 300, "setup-runs": 1500, "queries-beginning-like-a-sub-command-typed-without-quotes": 500, "homes-in-a-generated-time-zone": 1000, "homes-with-a-history-dated-at-the-ends-of-the-calendar": 100, "distinct_nontrivial": 5000}),
    assumptions=["exit status 1 with a cobra usage error is a normal end of a command given wrong arguments"],
)

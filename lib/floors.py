#!/usr/bin/env python3
"""Lists every coverage floor of every check against the count in the evidence of the last run (same tier).
A ratio below 1.5 is printed with a mark: a floor that close to the observed count will miss on another seed."""
import json
import os
import sys

here = os.path.dirname(os.path.abspath(__file__))
sys.path.insert(0, here)
import checks  # noqa: E402

root = os.path.dirname(here)
evdir = os.environ.get("VERIF_EVIDENCE_DIR") or os.path.join(root, "evidence")
bad = 0
for pid in sorted(checks.CHECKS):
    p = os.path.join(evdir, pid + ".json")
    if not os.path.exists(p):
        continue
    e = json.load(open(p))
    tier = e["tier"]
    cov = e["coverage"]
    paths = dict(cov.get("paths", {}))
    paths["evaluations"] = cov.get("evaluations", 0)
    paths["distinct_nontrivial"] = cov.get("distinct_nontrivial", 0)
    for k, fl in sorted(checks.CHECKS[pid]["floors"][tier].items()):
        got = paths.get(k, cov.get(k, 0))
        ratio = (got / fl) if fl else 99
        mark = "" if ratio >= 1.5 else "   <-- tight"
        if mark:
            bad += 1
        if mark or "-v" in sys.argv:
            print("%s %-8s %-55s floor %-9s observed %-9s x%.2f%s" % (pid, tier, k, fl, got, ratio, mark))
print("tight floors:", bad)

#!/bin/sh
# seed sweep of all quick checks; prints only non-clean results
for s in 2 3 5 7 11 1234 4242 99991; do
  for p in C01 C02 C03 C04 C05 C06 C07 C08 C09 C10 C11 C12 C13 C14 C15 C16 C17 C18 C19 C20; do
    out=$(VERIF_SEED=$s ./check $p quick 2>&1)
    rc=$?
    echo "seed=$s $p rc=$rc $(echo "$out" | grep SUMMARY | cut -c1-160)"
    if [ $rc -ne 0 ]; then echo "$out" | grep -E "VIOLATION|INCOMPLETE|BUILD" | cut -c1-400 | head -8; fi
  done
done
echo SWEEP-DONE

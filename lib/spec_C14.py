T = lambda q, t: {"quick": q, "thorough": t}

SPEC = dict(
    level="exploration",
    exhaustive=True,
    technique="reference acceptance predicate + output scans on ValidateQuery / ValidateLimit; exhaustive over all 0-2 symbol strings of a "
              "158-symbol hostile alphabet (incl. letters whose low byte or low seven bits equal a metacharacter, blank or control byte) and over the "
              "limit integers, random beyond; CLI echo check (incl. queries wrapped in quote characters); thorough adds a coverage-guided go test -fuzz "
              "workload (FuzzValidateQuery) with the same oracles",
    level_text="ValidateQuery is a pure function of a byte string and ValidateLimit of an int, so both are decided in-process against a "
               "predicate written from the statement. Every string of 0, 1 and 2 symbols over the hostile alphabet (every Cc, every "
               "Zs/Zl/Zp, format characters, the six metacharacters, content runes of 1-4 bytes, every invalid-UTF-8 byte class) and "
               "every limit in -200..300 plus the 16/32/64-bit boundaries is enumerated (exhaustive over that space, reported complete "
               "only when every shard walked its full slice); longer inputs - 3-40 symbols, 998..1002 bytes with byte 1000 inside a "
               "rune, hundreds of invalid bytes, words separated by runs of 1-990 whitespace / control characters - are explored randomly. Every 61st validation is preceded by a call of one of the package's other "
               "exported functions (file-name, path, input and log sanitising) on the same text, and at the end eight goroutines validate thousands "
               "of strings at once and must get the verdicts and texts of the sequential run. Exploration, not proof, beyond the enumerated space.",
    level_note="Trusted: Go's unicode.IsControl / unicode.IsSpace / utf8 decoding as the meaning of 'control character', 'whitespace' and "
               "'character' (an invalid byte is one character that is neither); the harness generators. Only generated inputs are decided.",
    engines=[
        dict(name="validate", shards=T(16, 16), timeout=T(300, 3000)),
        dict(name="validate-cli", shards=T(16, 16), timeout=T(300, 1500), needs_wtf=True),
             dict(name="gofuzz-FuzzValidateQuery", kind="gofuzz", target="FuzzValidateQuery", fuzztime=T(0, "90s"))],
    rule="case = one byte string through ValidateQuery (acceptance compared with the reference predicate: <=1000 bytes, none of < > | & ; $, "
         "a non-whitespace character left after removing unicode.IsControl runes; every accepted output scanned for control characters, "
         "leading/trailing/repeated/non-U+0020 whitespace, metacharacters, rune count <= input's; ValidateQuery(out) == (out, nil)), or "
         "one integer through ValidateLimit, or one `wtf --database db [--format list|table|json] [--limit=<in and out of range, non-numeric>] -- <arg>` run "
         "against 260 entries that all match one word, with every variable the program reads from its environment (names taken from os.Getenv / LookupEnv "
         "calls in the tree under test) set to large, negative and non-numeric values in three quarters of the runs: the 'Searching for:' line must carry exactly the "
         "validated query; a refused query or limit prints no such line, no results and records nothing in the history; an accepted run prints at most 100 "
         "results and at most the limit asked for. A third of the queries with blanks are handed over word by word (one argument per word, a sixth of all runs around the 1000-byte bound); a tenth hold "
         "full-width or small-form compatibility characters, among them the look-alikes of the metacharacters. Non-trivial = distinct input (hashed) that combines at least two of {control character, "
         "whitespace other than single inner U+0020, metacharacter, invalid UTF-8, length >= 990 bytes}.",
    floors=T({"evaluations": 300000, "distinct_nontrivial": 100000, "exhaustive-1": 120, "exhaustive-2": 14400, "limits": 500,
              "random": 200000, "boundary": 40000, "invalid-heavy": 6000, "accepted": 60000, "rejected-blank": 10000,
              "rejected-long": 10000, "rejected-meta": 40000, "cli-queries-handed-over-word-by-word": 40, "cli-queries-over-1000-bytes-handed-over-word-by-word": 10, "cli-accepted": 60, "cli-rejected": 80, "cli-rejected-limit": 50, "cli-runs-with-program-variables-set": 120, "cli-answers-with-100-results": 3, "cli-answers-with-5-or-more-results": 40, "calls-to-neighbouring-validation-functions": 4000, "concurrent-validations": 300000, "long-whitespace-runs": 12000},
             {"evaluations": 12000000, "distinct_nontrivial": 2000000, "exhaustive-1": 120, "exhaustive-2": 14400, "exhaustive-3": 64000,
              "limits": 500, "random": 10000000, "boundary": 2000000, "invalid-heavy": 300000, "accepted": 3000000,
              "rejected-blank": 500000, "rejected-long": 750000, "rejected-meta": 2000000, "cli-queries-handed-over-word-by-word": 400, "cli-queries-over-1000-bytes-handed-over-word-by-word": 100, "cli-accepted": 600, "cli-rejected": 800, "cli-rejected-limit": 500, "cli-runs-with-program-variables-set": 1200, "cli-answers-with-100-results": 30, "cli-answers-with-5-or-more-results": 400, "calls-to-neighbouring-validation-functions": 150000, "concurrent-validations": 3000000, "long-whitespace-runs": 300000}),
    assumptions=[
        "'characters' are counted as Go runes, an invalid UTF-8 byte counting one (so U+FFFD substitution does not make a query 'longer'); "
        "'at most 1000 bytes' is measured on the input as given",
        "TAB / LF / CR / NEL and the other runes that are both control characters and whitespace are removable and blank, never content; "
        "format characters (ZWSP, BOM, soft hyphen, U+180E, U+2060) are neither control nor whitespace and count as content",
        "a limit in 1..100 must be returned unchanged; 0 must return constants.DefaultSearchLimit, itself required to lie in [1,100]",
        "CLI arguments cannot contain NUL (execve); the CLI spot check therefore substitutes U+0001 for NUL",
    ],
)

T = lambda q, t: {"quick": q, "thorough": t}

SPEC = dict(
    level="exploration",
    technique="paired-run monitor (NLP on vs off candidate sets at limit > N) plus direct oracles on ProcessQuery / GetEnhancedKeywords",
    level_text="For generated queries of 1-14 content words (biased to the 7-11 boundaries of the append-while-<8 and keep-10 rules) the candidate "
               "set with enhancement on must contain the set with it off (<= 10 content words), and every entry containing one of the first four "
               "content words (reference tokenizer + exhaustive scan) must be a candidate with enhancement on and off, for every term cap. "
               "One query in seven is a chatty request of 120-3000 bytes (few content words spread over stop-word filler, one at the very end); one in nine "
               "is built from the string constants of the tree under test. The analysis result is checked directly (and, for thousands of the texts, "
               "against a fresh process that analyses them in the opposite order): expanded list begins with the keywords element for element, no duplicates, user's order, repeatable.",
    level_note="Trusted: reference tokenizer/scan shared with C03; candidate tests run at Limit = N+1 so the re-rank window cannot truncate.",
    engines=[dict(name="nlpsubset", shards=T(16, 16), timeout=T(900, 3600)),
             dict(name="nlpanalysis", shards=T(16, 16), timeout=T(900, 3600))],
    rule="case = (database, query, term cap, platform switch) evaluated with NLP off and on; non-trivial = the NLP-off answer is non-empty, distinct by "
         "(db, query, cap, platforms). Analysis cases: distinct query texts whose expansion added terms beyond the keywords. "
         "nlpanalysis also sweeps every ordered pair of the words the query-analysis package names (taken from its source) and, for each term the enhancement adds to such a pair, the same "
         "request with that term typed by the user before and after it: the rules that add a term meet a text that already holds it.",
    floors=T({"closure-pairs": 60000, "closure-texts-with-an-added-term-typed-by-the-user": 200000, "queries-of-joined-words": 700, "enhanced-searches-with-typo-tolerance": 3000, "databases-with-a-word-in-every-entry": 4, "long-queries-starting-with-a-ubiquitous-word": 100, "analysis-of-long-texts": 500, "analysis-compared-with-a-fresh-process": 5000, "chatty-queries-over-512-bytes": 150, "dictionary-queries": 300, "subset-checked": 2000, "first4-checked": 3000, "len7-8": 300, "len9-10": 300, "len>10": 300, "nlp-added-candidates": 500,
              "analysis-with-expansion": 5000, "analysis-revisited": 3000, "distinct_nontrivial": 5000},
             {"closure-pairs": 60000, "closure-texts-with-an-added-term-typed-by-the-user": 200000, "queries-of-joined-words": 30000, "enhanced-searches-with-typo-tolerance": 150000, "databases-with-a-word-in-every-entry": 400, "long-queries-starting-with-a-ubiquitous-word": 10000, "analysis-of-long-texts": 30000, "analysis-compared-with-a-fresh-process": 50000, "chatty-queries-over-512-bytes": 5000, "dictionary-queries": 10000, "subset-checked": 30000, "first4-checked": 30000, "len7-8": 3000, "len9-10": 3000, "len>10": 3000, "nlp-added-candidates": 5000,
              "analysis-with-expansion": 50000, "analysis-revisited": 30000, "distinct_nontrivial": 50000}),
    assumptions=["'content words' = tokens of the reference tokenizer, counted with repeats",
                 "elements of Keywords that are the first synonym (GetSynonyms) of a word of the text are injected terms and exempt from the order check"],
)

T = lambda q, t: {"quick": q, "thorough": t}

SPEC = dict(
    level="exploration",
    technique="shadow ledger keyed by (kind, name, sorted tag pairs) compared with collector and monitor at quiescent points; "
              "sequential engine plus a concurrent engine under the race detector",
    level_text="Every lookup and record call the harness issues on a Collector, a PerformanceMonitor and a MonitoredDatabase is mirrored in a "
               "ledger keyed by metric identity; pointer identity is checked at every lookup, totals, percentile order and the series "
               "reported by GetAllMetrics / GetPerformanceReport after every batch (sequential) or after WaitGroup.Wait (2-16 goroutines "
               "on one object, -race build). Tag maps are rebuilt for every call in shuffled insertion order, with several capacity "
               "hints and grown-then-shrunk layouts. A quarter of the observations lie above the largest histogram bucket; the exported _p50 / _p90 / "
               "_p95 / _p99 series are checked for order as well; between batches the collector is Reset in half of the cases (a new epoch of the "
               "ledger) with the series used last before the Reset used first after it. One observation in 150 is NaN, +Inf or -Inf (it counts, and the exact sum "
               "is then NaN or an infinity); a quarter of the shards also fill one collector with 66-69 thousand series of every kind and probe identity "
               "and totals around series number 65536 and at the end. Identity families include a histogram named <name>_duration next to the timer <name> with the "
               "same tags; the package-level monitor functions are driven with one process-wide ledger while the package-level collector helpers record under "
               "the same names and ResetMetrics() is called. Monitors are paused and resumed (Enable(false); Enable(true), EnableMonitoring, EnablePerformanceMonitoring) "
               "with nothing recorded in between, and the totals re-checked; in the concurrent engine every goroutine also registers series of its own "
               "(distinct tags of one name, all four kinds) while the others register theirs, and every handle is looked up again after Wait. Names, tag values and operation names include pairs that are not valid UTF-8 and differ in that one byte (caf\\xe9.yml / caf\\xe8.yml); histograms with bucket bounds of the caller's own "
               "(negative, zero, very wide) are filled and their percentiles probed every half per cent. Between record calls the objects' other methods are called (RecordMemoryUsage, IsEnabled, a report read twice, a Benchmarker on the monitor, StartMemoryMonitoring for a few ticks; on the wrapper BenchmarkSearch, ProfileSearchMemory, SearchPerformanceAnalyzer - whose monitored searches are operations that count - and the reading ones, which must count nothing). Generated identities and schedules only: exploration, not proof.",
    level_note="Trusted: the harness ledger (atomic adds in the same step as the call), the Go race detector for unsynchronised access, "
               "float64 exactness of integer sums below 2^53. Schedules are whatever the Go scheduler produces with Gosched between calls "
               "and a barrier in front of every first creation; no schedule enumeration.",
    engines=[
        dict(name="metrics", shards=T(8, 16), timeout=T(300, 3000)),
        dict(name="metrics-conc", shards=T(4, 8), timeout=T(600, 3000), race=True, parallel=4),
    ],
    rule="case = one lookup (+ one record call) on a metric identity, or one RecordSearchOperation / RecordDatabaseOperation / monitored "
         "search / monitored load; identities have 0-6 tags drawn from small clean pools, half of them derived from another identity by one "
         "change (value, tag more/less, name, kind). Non-trivial = distinct identity with >= 2 tags that was looked up with >= 2 different "
         "tag insertion orders (hash of the canonical identity). A separate small sub-class holds pairs of DIFFERENT identities whose naive "
         "renderings coincide (':' '=' ',' separators and empty strings inside names, keys, values); its findings carry clause key-ambiguity.",
    floors=T({"evaluations": 120000, "distinct_nontrivial": 1800, "identities-0tag": 300, "identities-1tag": 500, "identities-2+tags": 1800,
              "monitor-search-ops": 17000, "monitor-db-ops": 16000, "concurrent-ops": 70000, "percentile-checks": 5500,
              "monitored-database-rounds": 40, "goroutines-16": 6, "quiescent-checks": 1000, "collector-resets": 150, "package-level-monitor-rounds": 25, "default-collector-resets": 40, "many-series-probes": 9, "custom-bucket-histograms": 24, "monitor-paused-and-resumed": 150, "monitor-bystander-calls": 2500, "distinct-series-registered-concurrently": 30000, "non-finite-observations": 80, "exported-percentile-checks": 3000, "exported-percentiles-two-in-the-overflow-bucket": 1000},
             {"evaluations": 3000000, "distinct_nontrivial": 80000, "identities-0tag": 14000, "identities-1tag": 24000, "identities-2+tags": 85000,
              "monitor-search-ops": 500000, "monitor-db-ops": 450000, "concurrent-ops": 700000, "percentile-checks": 260000,
              "monitored-database-rounds": 1500, "goroutines-16": 60, "quiescent-checks": 44000, "collector-resets": 20000, "package-level-monitor-rounds": 4000, "default-collector-resets": 5000, "many-series-probes": 18, "custom-bucket-histograms": 400, "monitor-paused-and-resumed": 10000, "monitor-bystander-calls": 2500, "distinct-series-registered-concurrently": 1000000, "non-finite-observations": 10000, "exported-percentile-checks": 100000, "exported-percentiles-two-in-the-overflow-bucket": 40000}),
    assumptions=[
        "observations are non-negative integers below 2^38 and at most a few thousand per histogram, so the float64 sum is exact in any order",
        "counters are driven with Inc and Add(k), 0 <= k <= 1000; gauges with Inc/Dec/Add of integers (Set is last-writer-wins and is not compared)",
        "timers are not part of GetAllMetrics; their count/sum is read through Timer.Histogram(); a timer driven through Time() has its count compared, not its wall-clock sum",
        "which monitored searches are cache hits is decided by the wrapper; the ledger fixes the total, and requires cache_hits_total / "
        "cache_misses_total to agree with searches_total{cache_hit}",
        "LoadDatabaseWithMonitoring replaces the entry slice without synchronisation and is issued only while no search runs (not a C18 concern)",
        "totals are summed per identity over all series carrying that identity, so counter-total / series-total / monitor-*-total are independent "
        "of the map-order key defect, which is reported as identity-split and duplicate-series",
    ],
)

T = lambda q, t: {"quick": q, "thorough": t}

SPEC = dict(
    level="exploration",
    technique="paired runs (without / with a boost map) on one database instance + runtime monitor of the directory analyzer on generated directories",
    level_text="Every generated (database, query, options, boost map) is answered twice by the same loaded database - once without and once with the "
               "boost map - with the limit above the database size, and the two answers are compared entry by entry (candidate set, score of entries "
               "that hold no boosted word, score of entries that do). SearchUniversal with NLP off and on is deciding; the legacy scorer behind "
               "`wtf pipeline` is checked for the implied weaker clauses. The analyzer is run three times (two analyzers) on each generated "
               "directory and its report is checked against the clauses of the statement and a reference marker table. Per-path floors make a "
               "run that missed a path incomplete. Large databases (the shipped one, generated ones of 1200-2700 entries) are asked with their most "
               "frequent words (requests with more than 400 candidates); one directory in 96 is crowded with 300-20000 entries that announce nothing; half of the twin directories (same listing, other place) "
               "lie inside other projects (a repository and markers of other project types in the parent directories). "
               "Exploration over generated inputs, not a proof. A tenth of the generated directories hold one or two markers (every marker name in turn) beside a Makefile whose recipes run the tools of those project types and others.",
    level_note="Trusted: generators, the reference tokenizer of vlib (decides 'contains a boosted word' on the SearchUniversal path), entry identity "
               "by address, the Go runtime and the local file system (os.ReadDir order). Only generated inputs are decided.",
    engines=[
        dict(name="ctxboost", shards=T(16, 16), timeout=T(600, 3000)),
        dict(name="analyzer", shards=T(16, 16), timeout=T(600, 3000)),
             dict(name="ctxboost-cli", shards=T(16, 16), timeout=T(900, 3600), needs_wtf=True)],
    rule="ctxboost: case = (database, query, options, boost map B of 1-5 words with factors in {1,1.3,1.5,2,3,10,1000}); databases are generated "
         "with small colliding vocabularies (5-300 entries) or the shipped one; B draws from the query words, NLP action/target/hint words, database "
         "words, niches, project vocabulary and random words; Limit = N+1, UseFuzzy=false. The un-boosted answer is evaluated 5 times and must agree "
         "with itself (entry set, scores within 1e-9) or the case is inconclusive; answers are compared as maps entry -> score, never by rank. A "
         "suspected violation must reproduce on 10 fresh (un-boosted, boosted) pairs, otherwise it is counted inconclusive (effects of unordered "
         "iteration, C02). Non-trivial = distinct (database, entry point, query, options, B) where at least one entry's score actually changed. "
         "analyzer: case = generated directory (any subset of ~45 marker names incl. pattern markers, markers created as directories, near-miss "
         "decoys, random non-marker names, package.json of 16 shapes, Makefile text of 17 line shapes, LF/CRLF); non-trivial = distinct listing "
         "(names + package.json/Makefile bytes) with >= 2 marker classes or a package.json or a non-empty Makefile. "
         "A third of the with/without pairs run with typo tolerance on; a quarter of the databases carry one word in every entry and are asked for that word next to a misspelt one. "
         "Half of the twin directories of the analyser engine are named after a word the analyser's own source knows (k8s, docker, node_modules, my-kubernetes-cluster ...). "
         "One boost map object per database is handed to an enhanced request worded with the analysis vocabulary and then to the request in hand, which must score exactly as with a "
         "fresh map holding what the caller put in.",
    floors=T({"directories-whose-makefile-runs-the-tools-of-its-markers": 90, "dirs-twin-named-like-something-the-analyser-knows": 120, "requests-with-a-carried-boost-map": 1000, "databases-with-a-word-in-every-entry": 10, "queries-of-a-ubiquitous-and-a-misspelt-word": 35, "dirs-twin-inside-other-projects": 100, "crowded-directories-over-4096": 4, "requests-with-over-400-candidates": 8, "frequent-word-queries": 10, "cli-context-pairs-in-project": 80, "cli-context-raised-a-score": 6, "evaluations": 11000, "distinct_nontrivial": 3500, "pairs-nlp-off": 3000, "pairs-nlp-on": 3000, "pairs-pipeline": 3000,
              "boost-effective": 2000, "shipped": 150, "entries-unrelated-checked": 20000, "entries-related-checked": 20000,
              "dirs": 1900, "dirs-generic": 200, "dirs-multi": 700, "package-json-valid": 100, "package-json-broken": 100, "makefile": 250},
             {"directories-whose-makefile-runs-the-tools-of-its-markers": 90, "dirs-twin-named-like-something-the-analyser-knows": 3000, "requests-with-a-carried-boost-map": 30000, "databases-with-a-word-in-every-entry": 300, "queries-of-a-ubiquitous-and-a-misspelt-word": 1000, "dirs-twin-inside-other-projects": 3000, "crowded-directories-over-4096": 100, "requests-with-over-400-candidates": 100, "frequent-word-queries": 150, "evaluations": 110000, "distinct_nontrivial": 35000, "pairs-nlp-off": 30000, "pairs-nlp-on": 30000, "pairs-pipeline": 30000,
              "boost-effective": 20000, "shipped": 1500, "entries-unrelated-checked": 200000, "entries-related-checked": 200000,
              "dirs": 19000, "dirs-generic": 2000, "dirs-multi": 7000, "package-json-valid": 1000, "package-json-broken": 1000, "makefile": 2500}),
    assumptions=[
        "boost factors are finite and >= 1 (the statement's quantifier); keys are lower-case tokens, plus a few upper-case keys that can never equal a query term",
        "Limit = N+1 on every pair: with a smaller limit the NLP re-rank window (top 5*limit by preliminary score) and the cut itself would let a boost move "
        "an entry in or out of what is returned, which the statement does not forbid",
        "SearchUniversal: 'contains a boosted word' = the word is an indexed token of command/description/keywords/tags under the reference tokenizer",
        "legacy pipeline path: only implied clauses - same candidates, no score lowered, and 'unchanged' only for an entry that mentions no boosted word as a "
        "substring of its lower-cased command/description/keywords/tags/niche AND that the legacy scorer does not match for that word alone (its built-in "
        "word->tool table, e.g. 'directory' -> mkdir, makes it score entries that do not mention the word; those are counted under "
        "pipeline-word-association-cases and only 'not lowered' is asserted for them)",
        "analyzer: absence of a type is asserted only for listings made of random names matching no marker pattern; presence only for exact marker names "
        "created as regular files (.git / node_modules also as directories); unreadable or missing directories are outside the quantifier",
    ],
)

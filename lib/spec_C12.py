T = lambda q, t: {"quick": q, "thorough": t}

SPEC = dict(
    level="exploration",
    technique="executable reference LRU model with virtual time, stepped alongside the real cache along random operation histories",
    level_text="Every return value of Put/Get/Delete/Clear/Size/Capacity/Stats/Keys/CleanupExpired of cache.LRUCache (and of "
               "cache.SearchCache on a share of the histories) is compared step by step with a reference model over tens of thousands of "
               "random histories covering every listed capacity (non-positive ones included, the default of 100 observed by filling 101+ "
               "keys), unlimited / long / already elapsed lifetimes and pools of 2-8 keys; a few histories run for 15-75 thousand operations on one "
               "instance, a few use capacities of 1024-2200 with a scripted fill, ageing and mass removal (deletion or sweep) before the random part; "
               "one key pool in five holds two keys that collide under a common 32-bit hash; the SearchCache adapter reuses one result buffer for its Puts and "
               "scribbles over it afterwards (the cache keeps its own copy); one stored value in three is the nil interface, a typed nil, an empty string or slice, zero or false. Expiry is decided on virtual time only. "
               "Exploration of histories, not a proof over all of them.",
    level_note="Trusted: the reference model, the verif-tagged hook (*LRUCache).VerifAdvance (ages all entries by d under the cache lock) and "
               "(*SearchCache).VerifLRU, the Go runtime. Single-goroutine histories only (concurrency is another property).",
    engines=[dict(name="lrumodel", shards=T(16, 16), timeout=T(300, 3000))],
    rule="case = one history: (kind, capacity, lifetime regime, key pool, 50-400 random operations [400-900 for the default-capacity fill]) "
         "followed by a closing audit (statistics, then a lookup of every pool key); kinds: LRUCache with 2-8 keys (~91%), LRUCache with a "
         "non-positive capacity and 101-130 keys (~2%), SearchCache with query/options keys in ASCII-case variants (~7%); plus one "
         "scripted check per shard of cache.NewManager()'s search cache against constants.DefaultCacheCapacity / DefaultCacheTTL. "
         "evaluations = histories (paths.ops = operations). Non-trivial = a distinct history (hash of seed, shard, index) in which at least "
         "one capacity eviction or one expiry removal happened. `states` = number of distinct model states visited (hash of requested "
         "capacity, lifetime regime, recency-ordered key list, per-entry fresh / latitude-window / expired flag), counted PER SHARD and "
         "summed over the 16 shards (the same state seen by two shards counts twice; capped at 1e6 per shard). "
         "default-capacity = fill histories in which the cache reached 100 entries and evicted at the next new key. "
         "big-*: per shard one cache of 4096 .. 200000 entries (capacities around powers of two and past 65536) filled past its capacity "
         "(size, eviction count and discarded key checked per insert) and one cache that serves millions of lookups without a clear "
         "(hits / misses / evictions compared with the counted history at every power of two of lookups). "
         "real-pause-histories: per shard one cache with a real lifetime of 0.1-1 s that serves hits, a miss and an eviction, is left alone for 1-2.5 s of real time, and is then asked again "
         "(misses; statistics still those since the last clear; a history whose first part took more than half the lifetime is inconclusive). SearchCache keys carry limits 0, 1, 2, 5, 10 while the stored lists hold 1-3 results. "
         "sweep-left-expired counts sweeps after which a definitely expired entry was still present (recorded, not a violation: the "
         "statement does not demand a complete sweep).",
    floors=T({"evaluations": 15000, "distinct_nontrivial": 8000, "ops": 2000000, "evictions": 100000, "expiry-miss": 50000,
              "latitude-window-lookups": 5000, "sweeps": 50000, "clear": 10000, "default-capacity": 100, "searchcache-ops": 100000,
              "manager-capacity": 16, "manager-ttl": 16, "histories-lru-long": 15, "histories-lru-large": 15, "puts-of-nil-and-zero-values": 100000, "pools-with-hash-colliding-keys": 3000,
              "big-capacity-histories": 16, "big-evictions-checked": 20000, "big-lookup-histories": 16, "big-lookups": 30000000, "real-pause-histories": 8},
             {"evaluations": 400000, "distinct_nontrivial": 200000, "ops": 50000000, "evictions": 2500000, "expiry-miss": 1250000,
              "latitude-window-lookups": 125000, "sweeps": 1250000, "clear": 250000, "default-capacity": 2500, "searchcache-ops": 2500000,
              "manager-capacity": 16, "manager-ttl": 16, "histories-lru-long": 800, "histories-lru-large": 800, "puts-of-nil-and-zero-values": 5000000, "pools-with-hash-colliding-keys": 150000,
              "big-capacity-histories": 16, "big-evictions-checked": 20000, "big-lookup-histories": 16, "big-lookups": 500000000, "real-pause-histories": 8}),
    assumptions=[
        "virtual time: every advance is a multiple of 10 s and every lifetime is 5 s off that grid (1h0m5s, 1m5s; the manager check probes "
        "DefaultCacheTTL -5 s / +5 s), so the real micro-seconds elapsed during a history cannot change an expiry decision; a history "
        "whose real duration exceeds min(ttl/4, 5 s) is inconclusive and contributes nothing",
        "expiry latitude as wide as the statement: age since the LAST store > ttl must miss, age since the FIRST store of the present entry "
        "<= ttl must hit, in between either outcome is accepted and the model follows the observation (a miss removes the entry)",
        "a sweep may remove an entry only if its first store is older than the ttl; it need not be complete; with no ttl it removes nothing",
        "evictions statistic: accepted in [capacity evictions, capacity evictions + removals of expired entries] since the last clear",
        "Delete of a present entry that may already be expired (first store older than ttl) may report either outcome; the entry is gone afterwards",
        "SearchCache: results stored are always non-empty (empty result lists are not cached by design); raw cache keys are learned from the "
        "key that appears at a logical key's first insertion; InvalidatePattern(<raw key>) is used as the delete operation",
    ],
)

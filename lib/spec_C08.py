T = lambda q, t: {"quick": q, "thorough": t}

SPEC = dict(
    level="exploration",
    technique="reference notebook model stepped alongside real `wtf save` / `wtf save-pipeline` processes; file re-loaded with the real loader after every step",
    level_text="Histories of 5-40 saves with hostile argument strings (YAML-significant text, multi-line, control characters, invalid UTF-8, empty, "
               "very long) start from a missing, empty or populated notebook in an isolated home. After every save that reports success the "
               "notebook is re-loaded through LoadDatabase and must equal the reference model (replace by command string, else append) entry by "
               "entry and in order; the merged database must be main ++ notebook; and a search (built binary) for a unique word of the saved "
               "description (or a unique keyword) must return the entry. In an eighth of the histories the main database is the shipped one (6.6k entries), in "
               "another eighth a generated one just above 512 / 1024 / 2048 / 4096 entries; the binary sees processor counts 1-64 (GOMAXPROCS); in a "
               "quarter the notebook path is a symbolic link (absolute, relative beside it, relative into a sibling directory, dangling) while the "
               "binary runs in another working directory. Some saves repeat an earlier one with every field as before except that two keywords become one "
               "that contains the comma (or the reverse); the retrying loader behind the search command is run in-process with the main file unreadable "
               "for its first attempts (repaired from the retry observer) and must still hand over main followed by notebook. A saved pipeline must also be listed by "
               "`wtf pipeline <its unique word>`; an eighth of the homes have names with dots (two in a row), blanks, non-ASCII letters or shell metacharacters. A crash of the save command refutes 'reports success' outright. A second engine saves (as uid 65534 via setpriv) while the existing "
               "notebook cannot be read or its directory cannot be written: earlier entries must survive whatever save reports. Earlier saves are repeated with exactly one thing changed (platform list, pipeline flag, both, category, description, nothing): the notebook holds what was given last.",
    level_note="Keywords/platforms are kept free of commas/quotes so the flag's CSV split is unambiguous; NUL cannot be passed through execve.",
    engines=[dict(name="notebook", shards=T(16, 16), timeout=T(1200, 7200), needs_wtf=True),
             dict(name="notebook-faults", shards=T(8, 16), timeout=T(1200, 7200), needs_wtf=True)],
    rule="case = one save step inside a history; non-trivial = a save that reported success and whose notebook was re-loaded and compared; distinct by "
         "(history, step, arguments). "
         "An eighth of the histories start from a notebook kept by hand in another layout of the same list (JSON / flow style, indented, document markers and comments, no final newline, CR LF). "
         "A quarter of the histories start from a hand-edited notebook that lists one command twice (other entries between and behind the copies); when that command is saved "
         "again the entries with other command strings must be there unchanged and in order, and a copy must hold what was saved.",
    floors=T({"re-saves-with-one-field-changed": 50, "re-saves-with-one-field-changed/platforms": 6, "re-saves-with-one-field-changed/pipeline": 6, "notebooks-in-another-layout": 8, "notebooks-listing-a-command-twice": 12, "re-saves-of-a-command-the-notebook-lists-twice": 45, "pipeline-search-after-save-pipeline": 30, "homes-with-unusual-names": 6, "re-saves-with-the-keyword-list-split-differently": 5, "merge-checked-after-transient-main-failure": 80, "search-after-save-main-shipped": 30, "search-after-save-main-generated-large": 30, "notebook-symlink-relative-same-dir": 3, "notebook-symlink-relative-sibling-dir": 3, "notebook-symlink-absolute": 3, "save-succeeded": 600, "save-replaced-existing": 60, "merge-checked": 200, "search-after-save": 200, "start-missing": 10, "start-populated": 10,
              "fault-unreadable-0200": 10, "fault-save-reported-failure": 20, "fault-save-reported-success": 8, "distinct_nontrivial": 600},
             {"re-saves-with-one-field-changed": 50, "re-saves-with-one-field-changed/platforms": 6, "re-saves-with-one-field-changed/pipeline": 6, "notebooks-in-another-layout": 400, "notebooks-listing-a-command-twice": 700, "re-saves-of-a-command-the-notebook-lists-twice": 2500, "pipeline-search-after-save-pipeline": 1500, "homes-with-unusual-names": 300, "re-saves-with-the-keyword-list-split-differently": 300, "merge-checked-after-transient-main-failure": 4000, "search-after-save-main-shipped": 1000, "search-after-save-main-generated-large": 1000, "notebook-symlink-relative-same-dir": 100, "notebook-symlink-relative-sibling-dir": 100, "notebook-symlink-absolute": 100, "save-succeeded": 15000, "save-replaced-existing": 1000, "merge-checked": 4000, "search-after-save": 4000, "start-missing": 200, "start-populated": 200,
              "fault-unreadable-0200": 150, "fault-save-reported-failure": 200, "fault-save-reported-success": 150, "distinct_nontrivial": 15000}),
    assumptions=["save-pipeline: documented auto-keywords (pipeline, workflow, search, filter, text, processing, sort, order, find) may precede the given keywords; "
                 "without --description the generated description is accepted"],
)

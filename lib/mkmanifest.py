#!/usr/bin/env python3
"""Regenerates /verif/MANIFEST.json from lib/checks.py (keeps the two in sync)."""
import json, os, sys
VERIF = os.path.dirname(os.path.dirname(os.path.abspath(__file__)))
sys.path.insert(0, os.path.join(VERIF, "lib"))
from checks import CHECKS, NOT_APPLICABLE  # noqa

props = [json.loads(l)["id"] for l in open(os.path.join(VERIF, "properties.jsonl"))]
checks = []
for pid in props:
    if pid not in CHECKS:
        continue
    c = CHECKS[pid]
    checks.append(dict(
        property_id=pid,
        quick_cmd="./check %s quick" % pid,
        thorough_cmd="./check %s thorough" % pid,
        evidence_file="/verif/evidence/%s.json" % pid,
        replay_cmd_template="./check %s --replay {path}" % pid,
        engine="+".join(e["name"] for e in c["engines"]),
        level_claimed=dict(category=c["level"], text=c["level_text"], design_ref=c.get("design_ref", "DESIGN.md §3 " + pid)),
        level_note=c["level_note"],
        technique=c["technique"],
    ))
na = [dict(property_id=p, reason=NOT_APPLICABLE.get(p, "check not built yet (under construction); not claimed")) for p in props if p not in CHECKS]
hooks_commits = [l.strip() for l in open(os.path.join(VERIF, "lib", "hook_commits.txt")) if l.strip()]
m = dict(
    version=1,
    setup_cmd="./check setup",
    hooks=dict(guard="verif", enable="go build -tags verif (harness overlaid into /repo/internal/zzverif via -overlay, see lib/driver.py)",
               baseline_off_cmd="cd /repo && GOFLAGS=-mod=mod GOPROXY=off go test -vet=off -count=1 -timeout 25m ./...",
               source_commits=hooks_commits, add_only=True),
    engines=[dict(name="wtfmon", path="/verif/harness/cmd/wtfmon", serves_properties=[c["property_id"] for c in checks],
                  kind_free_text="Go harness with one sub-command per monitoring engine; compiled inside the WTF module through a build overlay; "
                                 "driven by lib/driver.py (child process per shard, event log flushed before each case)")],
    checks=checks,
    notes="Runtime monitoring only: generated/hostile workloads + oracles (reference models, relational comparators, invariant monitor, "
          "race detector, porcupine, fault injection via RLIMIT_FSIZE/strace/setpriv). See DESIGN.md. known_findings.json lists recorded defects.",
    not_applicable=na,
)
json.dump(m, open(os.path.join(VERIF, "MANIFEST.json"), "w"), indent=1)
print("MANIFEST.json: %d checks, %d not claimed" % (len(checks), len(na)))

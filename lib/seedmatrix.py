#!/usr/bin/env python3
"""Re-runs the checks against every confirmed planted change under seeded/ with the framework as it is now.

  lib/seedmatrix.py [--jobs 3] [--only C05-5,C11-2] [--tier quick]

For each seeded/<id>/: scratch worktree of /repo HEAD under /tmp, `git apply patch.diff`, run the property's quick check
(plus the checks listed in meta.json "also_checks") with VERIF_REPO=<worktree>, remove the worktree. The outcome is written
to seeded/<id>/meta.json under "matrix" and summarised in seeded/MATRIX.md.
"""
import glob
import json
import os
import re
import shutil
import subprocess
import sys
from concurrent.futures import ThreadPoolExecutor

VERIF = os.path.dirname(os.path.dirname(os.path.abspath(__file__)))
ENV = dict(os.environ, GOFLAGS="-mod=mod", GOPROXY="off")
ENV.pop("GOTOOLCHAIN", None)


def sh(cmd, cwd=None, env=None, timeout=7200):
    p = subprocess.run(cmd, cwd=cwd, capture_output=True, text=True, errors="replace", timeout=timeout, env=env or ENV)
    return p.returncode, p.stdout + p.stderr


def one(sd, tier):
    name = os.path.basename(sd)
    meta_p = os.path.join(sd, "meta.json")
    meta = json.load(open(meta_p))
    prop = meta["property"]
    wt = "/tmp/sm_" + name
    sh(["git", "-C", "/repo", "worktree", "remove", "--force", wt])
    shutil.rmtree(wt, ignore_errors=True)
    rc, o = sh(["git", "-C", "/repo", "worktree", "add", "--detach", wt, "HEAD"])
    out = dict(repo_head=sh(["git", "-C", "/repo", "rev-parse", "--short", "HEAD"])[1].strip(), tier=tier)
    try:
        rc, o = sh(["git", "apply", os.path.join(sd, "patch.diff")], cwd=wt)
        if rc != 0:  # later commits touched neighbouring lines: fall back to a three-way merge
            sh(["git", "checkout", "--", "."], cwd=wt)
            rc, o = sh(["git", "apply", "--3way", os.path.join(sd, "patch.diff")], cwd=wt)
            out["applied_with_3way"] = rc == 0
        out["applies"] = rc == 0
        if rc != 0:
            out["apply_output"] = o[-300:]
        else:
            out["checks"] = {}
            for c in [prop] + [c for c in meta.get("also_checks", []) if c != prop]:
                env = dict(ENV, VERIF_REPO=wt, VERIF_EVIDENCE_DIR="/tmp/sm_evidence_" + name)
                rcc, oc = sh([os.path.join(VERIF, "check"), c, tier], cwd=VERIF, env=env)
                clauses = sorted(set(re.findall(r"clause=(\S+) path=(.*?) ::", oc)))
                summ = [l for l in oc.split("\n") if l.startswith(("SUMMARY", "INCOMPLETE", "BUILD-FAILED"))]
                out["checks"][c] = dict(rc=rcc, caught=(rcc == 1), clauses=[" @ ".join(x) for x in clauses][:10], summary=[l[:240] for l in summ])
                shutil.rmtree("/tmp/sm_evidence_" + name, ignore_errors=True)
            out["caught_by"] = [c for c, v in out["checks"].items() if v["caught"]]
    finally:
        sh(["git", "-C", "/repo", "worktree", "remove", "--force", wt])
        shutil.rmtree(wt, ignore_errors=True)
    meta["matrix"] = out
    json.dump(meta, open(meta_p, "w"), indent=1)
    print(name, "applies=%s" % out.get("applies"), "caught_by=%s" % out.get("caught_by"), flush=True)
    return name, out


def main():
    jobs, tier, only = 3, "quick", None
    a = sys.argv[1:]
    if "--jobs" in a:
        jobs = int(a[a.index("--jobs") + 1])
    if "--tier" in a:
        tier = a[a.index("--tier") + 1]
    if "--only" in a:
        only = set(a[a.index("--only") + 1].split(","))
    dirs = sorted(d for d in glob.glob(os.path.join(VERIF, "seeded", "C*-*")) if os.path.isfile(os.path.join(d, "patch.diff")))
    if only:
        dirs = [d for d in dirs if os.path.basename(d) in only]
    withdrawn = {os.path.basename(d): json.load(open(os.path.join(d, "meta.json"))).get("withdrawn") for d in dirs}
    dirs = [d for d in dirs if not withdrawn[os.path.basename(d)]]
    if "--report-only" in a:  # rewrite MATRIX.md from the outcomes stored in the meta.json files
        res = []
        for d in dirs:  # changes stored after the last full matrix run carry the outcome of their confirmation run under "results"
            mj = json.load(open(os.path.join(d, "meta.json")))
            res.append((os.path.basename(d), mj.get("matrix") or mj.get("results", {})))
    else:
        with ThreadPoolExecutor(max_workers=jobs) as ex:
            res = list(ex.map(lambda d: one(d, tier), dirs))
        if only:
            return
    lines = ["# Planted changes: outcome with the framework as committed", "",
             "Produced by `lib/seedmatrix.py` (each change applied to a scratch worktree of /repo HEAD, the property's quick check run against it).", "",
             "| change | summary | caught by | clauses |", "|---|---|---|---|"]
    for name, out in sorted(res, key=lambda x: (x[0].split("-")[0], int(x[0].split("-")[1]))):
        meta = json.load(open(os.path.join(VERIF, "seeded", name, "meta.json")))
        summ = (meta.get("summary") or "").replace("|", "/").replace("\n", " ")[:160]
        if not out.get("applies"):
            lines.append("| %s | %s | patch no longer applies to HEAD | |" % (name, summ))
            continue
        cl = "; ".join(sum([v["clauses"][:3] for v in out["checks"].values() if v["caught"]], []))[:200].replace("|", "/")
        lines.append("| %s | %s | %s | %s |" % (name, summ, ", ".join(out["caught_by"]) or "**missed**", cl))
    for name, why in sorted(withdrawn.items()):
        if why:
            lines.append("| %s | withdrawn: %s | - | |" % (name, why[:300].replace("|", "/")))
    open(os.path.join(VERIF, "seeded", "MATRIX.md"), "w").write("\n".join(lines) + "\n")


if __name__ == "__main__":
    main()
